(* Soundness of the safety checker: a decoder accepted by safe_prog never panics and never runs out of
   fuel, for every input, every window and every fuel above the window length. *)
From Coq Require Import ZArith List Bool Lia ZifyBool.
From LLRP Require Import DecIR.IR DecIR.Sem DecIR.Safe DecIR.SafeLemmas.
Import ListNotations.
Open Scope Z_scope.

Ltac sat_split := unfold sat; cbn [known prog facts]; split; [|split; [|split; [|split]]].

Section WithInput.
  Variable rd : Z -> Z.

  (* ---------------------------------------------------------------- learning from conditions *)
  Lemma learn_len_sound : forall len0 A w en a s p va, sat len0 A w en -> eval rd a w en = Some va ->
    va + s + p <= wlen w -> sat len0 (learn_len A a s p) w en.
  Proof.
    intros len0 A w en a s p va S E H. unfold learn_len.
    assert (S1 : sat len0 (match lower A a with Some l => set_known A (Z.max (known A) (l + s + p)) | None => A end) w en).
    { destruct (lower A a) as [l|] eqn:L; [|exact S].
      apply sat_set_known; [exact S|]. pose proof (lower_sound rd _ _ _ _ _ _ _ S E L).
      destruct S as (_ & _ & Hk & _). lia. }
    destruct (lin a) as [[[x k] c0]|] eqn:L; [|exact S1].
    apply sat_add_fact; [exact S1|]. simpl. pose proof (lin_sound rd _ _ _ _ _ _ _ L E). lia.
  Qed.

  Lemma learn_le_sound : forall len0 A w en a b s va vb, sat len0 A w en ->
    eval rd a w en = Some va -> eval rd b w en = Some vb -> va + s <= vb -> sat len0 (learn_le A a b s) w en.
  Proof.
    intros len0 A w en a b s va vb S Ea Eb H. unfold learn_le.
    set (A1 := match b with ELen => learn_len A a s 0 | ELenFrom (EConst p) => learn_len A a s p | _ => A end).
    assert (S1 : sat len0 A1 w en).
    { subst A1. destruct b; try exact S.
      - cbn in Eb. inversion Eb; subst. eapply learn_len_sound; eauto. lia.
      - destruct b; try exact S. cbn in Eb.
        destruct ((0 <=? z) && (z <=? wlen w)) eqn:C; [|discriminate]. inversion Eb; subst.
        eapply learn_len_sound; eauto. lia. }
    set (A2 := match b, lower A a with EVar x, Some l => add_fact A1 (FLo x (l + s)) | _, _ => A1 end).
    assert (S2 : sat len0 A2 w en).
    { subst A2. destruct b; try exact S1. destruct (lower A a) as [l|] eqn:L; [|exact S1].
      apply sat_add_fact; [exact S1|]. simpl. cbn in Eb. inversion Eb; subst.
      pose proof (lower_sound rd _ _ _ _ _ _ _ S Ea L). lia. }
    destruct a; try exact S2. destruct (upper A b) as [u|] eqn:U; [|exact S2].
    apply sat_add_fact; [exact S2|]. simpl. cbn in Ea. inversion Ea; subst.
    pose proof (upper_sound rd _ _ _ _ _ _ _ S Eb U). lia.
  Qed.

  Lemma derive_sound : forall w en all fs k, Forall (holds w en) all -> Forall (holds w en) fs -> k <= wlen w ->
    derive all fs k <= wlen w.
  Proof.
    intros w en all. induction fs as [|f r IH]; intros k Fa F H; cbn [derive]; [exact H|].
    inversion F as [|? ? Hf Fr]; subst.
    destruct f as [y c|y c|y a c|y c n]; try (apply IH; assumption).
    apply IH; try assumption.
    destruct (lo_of all y) as [l|] eqn:L; [|exact H].
    destruct (0 <=? a) eqn:C; [|exact H].
    pose proof (lo_of_sound _ _ _ _ _ Fa L). simpl in Hf. nia.
  Qed.

  Lemma derive_known_sound : forall len0 A w en, sat len0 A w en -> sat len0 (derive_known A) w en.
  Proof.
    intros len0 A w en S. unfold derive_known. apply sat_set_known; [exact S|].
    destruct S as (_ & _ & Hk & _ & F). apply (derive_sound w en); assumption.
  Qed.

  Lemma learn_ne_sound : forall len0 A w en a b va vb, sat len0 A w en ->
    eval rd a w en = Some va -> eval rd b w en = Some vb -> va <> vb -> sat len0 (learn_ne A a b) w en.
  Proof.
    intros len0 A w en a b va vb S Ea Eb N. unfold learn_ne.
    destruct b; try exact S. cbn in Eb. inversion Eb; subst.
    destruct a; try exact S.
    - destruct (lo_of (facts A) x) as [l|] eqn:L; [|exact S].
      destruct (Z.eqb_spec l vb); [|exact S]. subst.
      apply sat_add_fact; [exact S|]. simpl. cbn in Ea. inversion Ea; subst.
      destruct S as (_ & _ & _ & _ & F). pose proof (lo_of_sound _ _ _ _ _ F L). lia.
    - destruct (Z.eqb_spec (known A) vb); [|exact S].
      apply sat_set_known; [exact S|]. cbn in Ea. inversion Ea; subst.
      destruct S as (_ & _ & Hk & _). lia.
  Qed.

  Lemma assume_sound : forall len0 A w en c bo, sat len0 A w en -> evalc rd c w en = Some bo ->
    sat len0 (assume c bo A) w en.
  Proof.
    intros len0 A w en [op a b] bo S E. unfold assume. apply derive_known_sound.
    cbn [evalc] in E.
    destruct (eval rd a w en) as [va|] eqn:Ea; [|discriminate].
    destruct (eval rd b w en) as [vb|] eqn:Eb; [|discriminate].
    destruct op, bo; inversion E as [E']; cbn [cmp_eval] in E'; clear E;
      try (eapply learn_le_sound; eauto; lia);
      try (eapply learn_ne_sound; eauto; lia);
      try exact S.
    - eapply learn_le_sound; [eapply learn_le_sound| | |]; eauto; lia.
    - eapply learn_le_sound; [eapply learn_le_sound| | |]; eauto; lia.
  Qed.

  (* ---------------------------------------------------------------- transfer functions *)
  Lemma holds_set_other : forall w en x v f, fact_var f <> x -> holds w en f -> holds w (set en x v) f.
  Proof.
    intros w en x v f N H. destruct f as [y c|y c|y a c|y c k]; simpl in *; rewrite (get_set_neq en x y v N); exact H.
  Qed.

  Lemma let_state_sound : forall len0 A w en x e v, sat len0 A w en -> eval rd e w en = Some v ->
    sat len0 (let_state A x e) w (set en x v).
  Proof.
    intros len0 A w en x e v S E. unfold let_state.
    assert (S1 : sat len0 (kill x A) w (set en x v)).
    { destruct S as (Hw & Hl & Hk & Hp & F). unfold sat, kill; cbn [known prog facts].
      split; [assumption|]. split; [assumption|]. split; [assumption|]. split; [assumption|].
      rewrite Forall_forall in *. intros f I. apply filter_In in I. destruct I as [I C].
      apply holds_set_other; [lia|apply F; exact I]. }
    assert (S2 : sat len0 (match lower A e with Some c => add_fact (kill x A) (FLo x c) | None => kill x A end) w (set en x v)).
    { destruct (lower A e) as [l|] eqn:L; [|exact S1].
      apply sat_add_fact; [exact S1|]. simpl. rewrite get_set_eq. exact (lower_sound rd _ _ _ _ _ _ _ S E L). }
    destruct (upper A e) as [u|] eqn:U; [|exact S2].
    apply sat_add_fact; [exact S2|]. simpl. rewrite get_set_eq. exact (upper_sound rd _ _ _ _ _ _ _ S E U).
  Qed.

  Lemma holds_nonrel_w : forall w w' en f, is_rel f = false -> holds w en f -> holds w' en f.
  Proof. intros w w' en [y c|y c|y a c|y c k] N H; simpl in *; try discriminate; exact H. Qed.

  Lemma reslice_sound : forall len0 A w en e v, sat len0 A w en -> eval rd e w en = Some v ->
    0 <= v <= wlen w ->
    sat len0 (reslice_state A e) (mkW (woff w + v) (wlen w - v) (wcap w - v)) en.
  Proof.
    intros len0 A w en e v S E R. pose proof S as (Hw & Hl & Hk & Hp & F).
    unfold reslice_state. sat_split; unfold wfw in *; cbn [wlen wcap]; try lia.
    - destruct (upper A e) as [u|] eqn:U; [|lia]. pose proof (upper_sound rd _ _ _ _ _ _ _ S E U). lia.
    - intros P. apply orb_true_iff in P. destruct P as [P|P].
      + specialize (Hp P). lia.
      + pose proof (ge1_sound rd _ _ _ _ _ _ S P E). lia.
    - rewrite Forall_forall in *. intros f I. apply filter_In in I. destruct I as [I C].
      eapply holds_nonrel_w; [|apply F; exact I]. now destruct (is_rel f).
  Qed.

  Lemma fact_eqb_sound : forall f g, fact_eqb f g = true -> f = g.
  Proof.
    intros [x c|x c|x a c|x c k] [y d|y d|y b d|y d n] H; simpl in H; try discriminate;
      f_equal; lia.
  Qed.

  Lemma conds_vacuous : forall w en fs k, Forall (holds w en) fs -> Forall (holds w en) (conds fs k).
  Proof.
    intros w en fs k. induction fs as [|f r IH]; intros F; cbn [conds]; [constructor|].
    inversion F as [|? ? Hf Fr]; subst.
    destruct f as [y c|y c|y a c|y c n]; try (apply IH; assumption).
    constructor; [|apply IH; assumption]. simpl in *. lia.
  Qed.

  Lemma conds_concl : forall w en fs k, k <= wlen w -> Forall (holds w en) (conds fs k).
  Proof.
    intros w en fs k H. induction fs as [|f r IH]; cbn [conds]; [constructor|].
    destruct f as [y c|y c|y a c|y c n]; try exact IH.
    constructor; [|exact IH]. simpl. lia.
  Qed.

  Lemma join_sat_l : forall len0 a o w en, sat len0 a w en -> exists A', join (Some a) o = Some A' /\ sat len0 A' w en.
  Proof.
    intros len0 a [b|] w en S; [|exists a; split; [reflexivity|exact S]].
    eexists; split; [reflexivity|]. destruct S as (Hw & Hl & Hk & Hp & F).
    sat_split; try assumption; try lia.
    { apply Forall_app. split; [|apply Forall_app; split].
      + destruct (known a <? known b); [apply conds_vacuous; assumption|constructor].
      + destruct (known b <? known a); [apply conds_concl; assumption|constructor].
      + rewrite Forall_forall in *. intros f I. apply filter_In in I. apply F. tauto. }
  Qed.

  Lemma join_sat_r : forall len0 o b w en, sat len0 b w en -> exists A', join o (Some b) = Some A' /\ sat len0 A' w en.
  Proof.
    intros len0 [a|] b w en S; [|exists b; split; [reflexivity|exact S]].
    eexists; split; [reflexivity|]. destruct S as (Hw & Hl & Hk & Hp & F).
    sat_split; try assumption; try lia.
    { apply Forall_app. split; [|apply Forall_app; split].
      + destruct (known a <? known b); [apply conds_concl; assumption|constructor].
      + destruct (known b <? known a); [apply conds_vacuous; assumption|constructor].
      + rewrite Forall_forall in *. intros f I. apply filter_In in I. destruct I as [I C].
        apply existsb_exists in C. destruct C as [g [Ig Eg]]. apply fact_eqb_sound in Eg. subst. auto. }
  Qed.

  Lemma case_known_sound : forall w en fs x v k, Forall (holds w en) fs -> get en x = v -> k <= wlen w ->
    case_known fs x v k <= wlen w.
  Proof.
    intros w en. induction fs as [|f r IH]; intros x v k F G H; cbn [case_known]; [exact H|].
    inversion F as [|? ? Hf Fr]; subst.
    destruct f as [y c|y c|y a c|y c n]; try (apply IH; auto).
    destruct ((y =? x) && (c <? get en x)) eqn:C; [|exact H].
    simpl in Hf. assert (y = x) by lia. subst. lia.
  Qed.

  Lemma learn_case_sound : forall len0 A w en e v, sat len0 A w en -> eval rd e w en = Some v ->
    sat len0 (learn_case A e v) w en.
  Proof.
    intros len0 A w en e v S E. unfold learn_case. destruct e; try exact S.
    cbn in E. inversion E; subst. apply sat_set_known; [exact S|].
    destruct S as (_ & _ & Hk & _ & F). eapply case_known_sound; eauto.
  Qed.

  (* ---------------------------------------------------------------- statements *)
  Definition ok_ret (r : flow) : Prop := match r with FRet _ _ => True | _ => False end.

  Lemma sat_top : forall w en len0, wfw w -> wlen w <= len0 -> sat len0 top w en.
  Proof. intros w en len0 [H1 H2] H. unfold top. sat_split; unfold wfw; try lia; try discriminate; constructor. Qed.

  Section Main.
    Variable ps : programs.
    Variable callf : Z -> window -> Z -> Z -> flow.
    Variable K : Z.
    Variable lfuel : nat.
    Hypothesis Hcall : forall f w c a, known_fn ps f = true -> wfw w -> wlen w < K -> ok_ret (callf f w c a).
    Hypothesis Hfuel : K < Z.of_nat lfuel.

    Definition post (len0 : Z) (cur : option Z) (w0 : window) (oA : option astate) (r : flow) : Prop :=
      match r with
      | FNormal st => exists A', oA = Some A' /\ sat len0 A' (sw st) (senv st) /\ wlen (sw st) <= wlen w0
      | FBreak l st => cur = Some l /\ wfw (sw st) /\ wlen (sw st) <= wlen w0
      | FRet _ _ => True
      | FPanic _ | FOutOfFuel _ => False
      end.

    Lemma post_join_l : forall len0 cur w0 o1 o2 r, post len0 cur w0 o1 r -> post len0 cur w0 (join o1 o2) r.
    Proof.
      intros len0 cur w0 o1 o2 [st|l st|ok st|s|s] P; simpl in *; try exact P.
      destruct P as (A' & -> & S & L). destruct (join_sat_l _ _ o2 _ _ S) as (A'' & J & S'').
      exists A''. auto.
    Qed.
    Lemma post_join_r : forall len0 cur w0 o1 o2 r, post len0 cur w0 o2 r -> post len0 cur w0 (join o1 o2) r.
    Proof.
      intros len0 cur w0 o1 o2 [st|l st|ok st|s|s] P; simpl in *; try exact P.
      destruct P as (A' & -> & S & L). destruct (join_sat_r _ o1 _ _ _ S) as (A'' & J & S'').
      exists A''. auto.
    Qed.
    Lemma post_w0 : forall len0 cur w0 w1 oA r, post len0 cur w0 oA r -> wlen w0 <= wlen w1 -> post len0 cur w1 oA r.
    Proof.
      intros len0 cur w0 w1 oA [st|l st|ok st|s|s] P H; simpl in *; try exact P.
      - destruct P as (A' & E & S & L). exists A'. split; [exact E|split; [exact S|lia]].
      - destruct P as (E & W & L). split; [exact E|split; [exact W|lia]].
    Qed.

    (* the loop: every iteration that falls through has consumed at least one byte *)
    Lemma loop_sound : forall guard body site l len0 cur pA (w0 : window) Ab oA1,
      (forall st, wfw (sw st) -> exists b, guard st = Some b) ->
      (forall st, wfw (sw st) -> wlen (sw st) <= K -> guard st = Some true ->
                  sat (wlen (sw st)) Ab (sw st) (senv st)) ->
      (forall st len1, sat len1 Ab (sw st) (senv st) -> wlen (sw st) <= K ->
                  post len1 (Some l) (sw st) oA1 (body st)) ->
      (forall A1, oA1 = Some A1 -> prog A1 = true) ->
      forall n st, Z.of_nat n > wlen (sw st) -> wfw (sw st) -> wlen (sw st) <= K ->
        wlen (sw st) <= wlen w0 -> wlen w0 <= len0 -> (pA = true -> wlen w0 < len0) ->
        post len0 cur w0 (Some (mkA 0 pA [])) (loop_iter guard body site l n st).
    Proof.
      intros guard body site l len0 cur pA w0 Ab oA1 Hg Hsat Hbody Hprog.
      induction n as [|n IH]; intros st Hn Hw HK Hle H0 HpA.
      - unfold wfw in Hw. lia.
      - cbn [loop_iter]. destruct (Hg st Hw) as [b Eb]. rewrite Eb. destruct b.
        + pose proof (Hbody st (wlen (sw st)) (Hsat st Hw HK Eb) HK) as P.
          destruct (body st) as [st'|l' st'|ok st'|s|s]; simpl in P; try contradiction; try exact I.
          * destruct P as (A1 & E1 & S1 & L1). pose proof (Hprog A1 E1) as Pg.
            destruct S1 as (Hw1 & _ & _ & Hp1 & _). specialize (Hp1 Pg).
            apply IH; try assumption; try lia.
          * destruct P as (E & W & L). inversion E; subst. rewrite Z.eqb_refl. simpl.
            exists (mkA 0 pA []). split; [reflexivity|]. split; [|lia].
            sat_split; unfold wfw in *; try lia; try assumption. constructor.
        + simpl. exists (mkA 0 pA []). split; [reflexivity|]. split; [|lia].
          sat_split; unfold wfw in *; try lia; try assumption. constructor.
    Qed.

    Lemma after_fails_nil : forall A n, after_fails [] A n = A.
    Proof. reflexivity. Qed.


    Ltac nil2 H H1 H2 := apply app_eq_nil in H; destruct H as [H1 H2].
    Ltac nil_split H :=
      repeat match type of H with
             | _ ++ _ = [] => let H1 := fresh "F" in let H2 := fresh "F" in
                              apply app_eq_nil in H; destruct H as [H1 H2]; try nil_split H1; try nil_split H2
             end.

    (* unfolding equations (cbn on the mutual fixpoints would expose raw `fix` terms) *)
    Lemma chk_SIf : forall cur site c t e A,
      chk ps cur (SIf site c t e) A =
      (let f0 := cond_fails A site c in
       let A0 := after_fails f0 A (match c with CCmp _ a b => Z.max (need_len A a) (need_len A b) end) in
       let r1 := chkb ps cur t (assume c true A0) in
       let r2 := chkb ps cur e (assume c false A0) in
       (join (fst r1) (fst r2), f0 ++ snd r1 ++ snd r2)).
    Proof. reflexivity. Qed.
    Lemma chk_SSwitch : forall cur site e cs d A,
      chk ps cur (SSwitch site e cs d) A =
      (let f0 := expr_fails A site e in
       let r1 := chkc ps cur e cs A in
       let r2 := chkb ps cur d A in
       (join (fst r1) (fst r2), f0 ++ snd r1 ++ snd r2)).
    Proof. reflexivity. Qed.
    Lemma chk_SLoop : forall cur site l c body A,
      chk ps cur (SLoop site l c body) A =
      (let r := chkb ps (Some l) body (assume c true top) in
       (Some (mkA 0 (prog A) []),
        cond_fails top site c ++ snd r ++ match fst r with None => [] | Some A1 => req (prog A1) (site, 6, 0, 0) end)).
    Proof. reflexivity. Qed.
    Lemma chkb_BCons : forall cur s r A,
      chkb ps cur (BCons s r) A =
      (let r1 := chk ps cur s A in
       match fst r1 with
       | None => (None, snd r1)
       | Some A1 => let r2 := chkb ps cur r A1 in (fst r2, snd r1 ++ snd r2)
       end).
    Proof. reflexivity. Qed.
    Lemma chkc_CCons : forall cur e v b r A,
      chkc ps cur e (CCons v b r) A =
      (let r1 := chkb ps cur b (learn_case A e v) in
       let r2 := chkc ps cur e r A in
       (join (fst r1) (fst r2), snd r1 ++ snd r2)).
    Proof. reflexivity. Qed.
    Lemma ex_SIf : forall site c t e st,
      ex rd callf lfuel (SIf site c t e) st =
      match evalc rd c (sw st) (senv st) with
      | Some true => exb rd callf lfuel t st
      | Some false => exb rd callf lfuel e st
      | None => FPanic site
      end.
    Proof. reflexivity. Qed.
    Lemma ex_SSwitch : forall site e cs d st,
      ex rd callf lfuel (SSwitch site e cs d) st =
      match eval rd e (sw st) (senv st) with
      | Some v => match exc rd callf lfuel cs v st with Some r => r | None => exb rd callf lfuel d st end
      | None => FPanic site
      end.
    Proof. reflexivity. Qed.
    Lemma ex_SLoop : forall site l c body st,
      ex rd callf lfuel (SLoop site l c body) st =
      loop_iter (fun st' => evalc rd c (sw st') (senv st')) (fun st' => exb rd callf lfuel body (tick st')) site l lfuel st.
    Proof. reflexivity. Qed.
    Lemma exb_BCons : forall s r st,
      exb rd callf lfuel (BCons s r) st =
      match ex rd callf lfuel s (tick st) with FNormal st' => exb rd callf lfuel r st' | o => o end.
    Proof. reflexivity. Qed.
    Lemma exc_CCons : forall u b r v st,
      exc rd callf lfuel (CCons u b r) v st =
      if Z.eqb v u then Some (exb rd callf lfuel b st) else exc rd callf lfuel r v st.
    Proof. reflexivity. Qed.

    Lemma sound_mut :
      (forall s cur A st len0 oA, chk ps cur s A = (oA, []) -> sat len0 A (sw st) (senv st) -> wlen (sw st) <= K ->
         post len0 cur (sw st) oA (ex rd callf lfuel s st)) /\
      (forall b cur A st len0 oA, chkb ps cur b A = (oA, []) -> sat len0 A (sw st) (senv st) -> wlen (sw st) <= K ->
         post len0 cur (sw st) oA (exb rd callf lfuel b st)) /\
      (forall cs cur e A st len0 oA v, chkc ps cur e cs A = (oA, []) -> sat len0 A (sw st) (senv st) -> wlen (sw st) <= K ->
         eval rd e (sw st) (senv st) = Some v ->
         match exc rd callf lfuel cs v st with Some r => post len0 cur (sw st) oA r | None => True end).
    Proof.
      apply ir_mutind.
      - (* SLet *)
        intros site x e cur A st len0 oA H S HK. cbn [chk] in H. inversion H as [[HoA HF]]. rewrite HF in *. rewrite after_fails_nil.
        destruct (expr_fails_sound rd _ _ _ _ _ S _ HF) as [v Ev]. cbn [ex]. rewrite Ev. simpl.
        eexists; split; [reflexivity|]. split; [|lia]. apply let_state_sound; assumption.
      - (* SEval *)
        intros site e cur A st len0 oA H S HK. cbn [chk] in H. inversion H as [[HoA HF]]. rewrite HF in *. rewrite after_fails_nil.
        destruct (expr_fails_sound rd _ _ _ _ _ S _ HF) as [v Ev]. cbn [ex]. rewrite Ev. simpl.
        eexists; split; [reflexivity|]. split; [assumption|lia].
      - (* SReslice *)
        intros site e cur A st len0 oA H S HK. cbn [chk] in H. inversion H as [[HoA HF]]. rewrite HF in *. rewrite after_fails_nil.
        nil2 HF F HF. nil2 HF F1 F2.
        destruct (expr_fails_sound rd _ _ _ _ _ S _ F) as [v Ev]. cbn [ex]. rewrite Ev.
        pose proof (nonneg_sound rd _ _ _ _ _ _ S (req_nil _ _ F1) Ev).
        pose proof (prove_le_len_sound rd _ _ _ _ _ _ _ S (req_nil _ _ F2) Ev).
        destruct ((0 <=? v) && (v <=? wlen (sw st))) eqn:C; [|lia]. simpl.
        eexists; split; [reflexivity|]. split; [|lia]. apply reslice_sound; try assumption. lia.
      - (* SRetErr *) intros; exact I.
      - (* SRetOk *) intros; exact I.
      - (* SIf *)
        intros site c t IHt e IHe cur A st len0 oA H S HK. rewrite chk_SIf in H. cbv zeta in H.
        remember (cond_fails A site c) as f0 eqn:F. symmetry in F.
        destruct f0 as [|x0 f0']; [|cbn [app] in H; inversion H].
        cbn [after_fails isnil app] in H.
        destruct (chkb ps cur t (assume c true A)) as [o1 f1] eqn:E1.
        destruct (chkb ps cur e (assume c false A)) as [o2 f2] eqn:E2.
        cbn [fst snd] in H. injection H as HoA HF.
        apply app_eq_nil in HF. destruct HF as [HF1 HF2]. subst f1 f2 oA.
        destruct (cond_fails_sound rd _ _ _ _ _ _ S F) as [bo Ec]. rewrite ex_SIf. rewrite Ec.
        destruct bo.
        + apply post_join_l. eapply IHt; eauto. apply assume_sound; assumption.
        + apply post_join_r. eapply IHe; eauto. apply assume_sound; assumption.
      - (* SSwitch *)
        intros site e cs IHc d IHd cur A st len0 oA H S HK. rewrite chk_SSwitch in H. cbv zeta in H.
        destruct (chkc ps cur e cs A) as [o1 f1] eqn:E1.
        destruct (chkb ps cur d A) as [o2 f2] eqn:E2.
        cbn [fst snd] in H. injection H as HoA HF.
        apply app_eq_nil in HF. destruct HF as [F HF]. apply app_eq_nil in HF. destruct HF as [HF1 HF2]. subst f1 f2.
        destruct (expr_fails_sound rd _ _ _ _ _ S _ F) as [v Ev]. rewrite ex_SSwitch. rewrite Ev. subst oA.
        pose proof (IHc cur e A st len0 o1 v E1 S HK Ev) as P.
        destruct (exc rd callf lfuel cs v st) as [r|].
        + apply post_join_l. exact P.
        + apply post_join_r. eapply IHd; eauto.
      - (* SLoop *)
        intros site l c body IHb cur A st len0 oA H S HK. rewrite chk_SLoop in H. cbv zeta in H.
        destruct (chkb ps (Some l) body (assume c true top)) as [o1 f1] eqn:E1. cbn [fst snd] in H.
        injection H as HoA HF.
        apply app_eq_nil in HF. destruct HF as [F HF]. apply app_eq_nil in HF. destruct HF as [HF1 F2]. subst f1 oA.
        rewrite ex_SLoop. pose proof S as (Hw & Hl & _ & Hp & _).
        eapply loop_sound with (Ab := assume c true top) (oA1 := o1); try eassumption; try lia.
        + intros st' Hw'. eapply cond_fails_sound; [|exact F]. apply (sat_top _ _ (wlen (sw st'))); [assumption|lia].
        + intros st' Hw' HK' G. apply assume_sound; [|exact G]. apply sat_top; [assumption|lia].
        + intros st' len1 S' HK'. exact (IHb (Some l) _ (tick st') len1 o1 E1 S' HK').
        + intros A1 EA. subst o1. apply req_nil in F2. exact F2.
      - (* SBreak *)
        intros l cur A st len0 oA H S HK. cbn [chk] in H. inversion H as [[HoA HF]]. apply req_nil in HF.
        cbn [ex]. simpl. destruct cur as [l'|]; [|discriminate]. destruct S as (Hw & _).
        split; [f_equal; lia|]. split; [assumption|lia].
      - (* SCall *)
        intros site f lo hi cur A st len0 oA H S HK. cbn [chk] in H. injection H as HoA HF.
        rewrite HF in HoA. cbn [isnil] in HoA. subst oA. nil2 HF F HF. nil2 HF F0 HF. nil2 HF F2 F3.
        destruct (expr_fails_sound rd _ _ _ _ _ S _ F) as [a Ea].
        pose proof (ge1_sound rd _ _ _ _ _ _ S (req_nil _ _ F0) Ea) as Ha.
        pose proof (req_nil _ _ F2) as Hkf. pose proof S as (Hw & _). unfold wfw in Hw.
        cbn [ex]. rewrite Ea.
        assert (B : exists b, (match hi with
                     | Some h => match eval rd h (sw st) (senv st) with
                                 | Some b => if (0 <=? a) && (a <=? b) && (b <=? wcap (sw st)) then Some b else None
                                 | None => None
                                 end
                     | None => if (0 <=? a) && (a <=? wlen (sw st)) then Some (wlen (sw st)) else None
                     end) = Some b /\ a <= b <= wlen (sw st)).
        { destruct hi as [h|].
          - nil2 F3 F1 F3. nil2 F3 F4 F5. destruct (expr_fails_sound rd _ _ _ _ _ S _ F1) as [b Eb]. rewrite Eb.
            pose proof (le_expr_sound rd _ _ _ _ _ _ _ _ S (req_nil _ _ F4) Ea Eb).
            pose proof (prove_le_len_sound rd _ _ _ _ _ _ _ S (req_nil _ _ F5) Eb).
            exists b. destruct ((0 <=? a) && (a <=? b) && (b <=? wcap (sw st))) eqn:C; [split; [reflexivity|lia]|lia].
          - pose proof (prove_le_len_sound rd _ _ _ _ _ _ _ S (req_nil _ _ F3) Ea).
            exists (wlen (sw st)). destruct ((0 <=? a) && (a <=? wlen (sw st))) eqn:C; [split; [reflexivity|lia]|lia]. }
        destruct B as (b & -> & Hb).
        pose proof (Hcall f (mkW (woff (sw st) + a) (b - a) (wcap (sw st) - a)) (scost st) (salloc st) Hkf) as R.
        cbn [wlen wcap] in R. unfold wfw in R; cbn [wlen wcap] in R. specialize (R ltac:(lia) ltac:(lia)).
        destruct (callf f _ (scost st) (salloc st)) as [st'|l' st'|ok st'|s|s]; simpl in R; try contradiction.
        destruct ok; cbn [post set_counters sw senv]; [|exact I].
        eexists; split; [reflexivity|]. split; [exact S|lia].
      - (* SAlloc *)
        intros site n esz cur A st len0 oA H S HK. cbn [chk] in H. inversion H as [[HoA HF]]. nil2 HF F F0.
        destruct (expr_fails_sound rd _ _ _ _ _ S _ F) as [v Ev]. cbn [ex]. rewrite Ev.
        pose proof (nonneg_sound rd _ _ _ _ _ _ S (req_nil _ _ F0) Ev).
        destruct (0 <=? v) eqn:C; [|lia]. simpl. eexists; split; [reflexivity|]. split; [assumption|lia].
      - (* SAllocObj *)
        intros cur A st len0 oA H S HK. cbn [chk] in H. inversion H. cbn [ex]. simpl.
        eexists; split; [reflexivity|]. split; [assumption|lia].
      - (* SCopy *)
        intros site n at_ cur A st len0 oA H S HK. cbn [chk] in H. inversion H as [[HoA HF]]. nil2 HF F HF. nil2 HF F1 HF. nil2 HF F0 F3.
        destruct (expr_fails_sound rd _ _ _ _ _ S _ F) as [v Ev].
        destruct (expr_fails_sound rd _ _ _ _ _ S _ F1) as [a Ea]. cbn [ex]. rewrite Ev, Ea.
        pose proof (nonneg_sound rd _ _ _ _ _ _ S (req_nil _ _ F0) Ea).
        pose proof (prove_le_len_sound rd _ _ _ _ _ _ _ S (req_nil _ _ F3) Ea).
        destruct ((0 <=? a) && (a <=? wlen (sw st))) eqn:C; [|lia]. simpl.
        eexists; split; [reflexivity|]. split; [assumption|lia].
      - (* SCopyLoop *)
        intros site n at_ step k cur A st len0 oA H S HK. cbn [chk] in H. inversion H as [[HoA HF]]. nil2 HF F F0.
        destruct (expr_fails_sound rd _ _ _ _ _ S _ F) as [v Ev]. cbn [ex]. rewrite Ev.
        destruct (v <=? 0) eqn:Cv; [simpl; eexists; split; [reflexivity|]; split; [assumption|lia]|].
        apply req_nil in F0. unfold copyloop_ok in F0.
        assert (G : 0 <= at_ /\ 0 <= step /\ at_ + (v - 1) * step + k <= wlen (sw st)).
        { apply andb_true_iff in F0. destruct F0 as [F0 F1]. apply andb_true_iff in F0. destruct F0 as [G1 G2].
          split; [lia|]. split; [lia|]. apply orb_true_iff in F1. destruct F1 as [F1|F1].
          - destruct (upper A n) as [u|] eqn:U; [|discriminate].
            pose proof (upper_sound rd _ _ _ _ _ _ _ S Ev U). destruct S as (_ & _ & Hk & _).
            apply orb_true_iff in F1. destruct F1 as [F1|F1]; [lia|]. nia.
          - destruct n; try discriminate. cbn in Ev. inversion Ev; subst.
            apply existsb_exists in F1. destruct F1 as [f [I F1]].
            destruct S as (_ & _ & _ & _ & FF). rewrite Forall_forall in FF. specialize (FF f I).
            destruct f as [y d|y d|y b d|y d m]; try discriminate. simpl in FF.
            assert (y = x /\ step <= b /\ at_ + k - step <= d) as (-> & ? & ?) by lia. nia. }
        destruct ((0 <=? at_) && (0 <=? step) && (at_ + (v - 1) * step + k <=? wlen (sw st))) eqn:C; [|lia].
        simpl. eexists; split; [reflexivity|]. split; [assumption|lia].
      - (* SStr *)
        intros site lo hi cur A st len0 oA H S HK. cbn [chk] in H. inversion H as [[HoA HF]]. nil2 HF F HF. nil2 HF F1 HF. nil2 HF F0 HF. nil2 HF F3 F4.
        destruct (expr_fails_sound rd _ _ _ _ _ S _ F) as [a Ea].
        destruct (expr_fails_sound rd _ _ _ _ _ S _ F1) as [b Eb]. cbn [ex]. rewrite Ea, Eb.
        pose proof (nonneg_sound rd _ _ _ _ _ _ S (req_nil _ _ F0) Ea).
        pose proof (le_expr_sound rd _ _ _ _ _ _ _ _ S (req_nil _ _ F3) Ea Eb).
        pose proof (prove_le_len_sound rd _ _ _ _ _ _ _ S (req_nil _ _ F4) Eb).
        pose proof S as ((? & ?) & _).
        destruct ((0 <=? a) && (a <=? b) && (b <=? wcap (sw st))) eqn:C; [|lia]. simpl.
        eexists; split; [reflexivity|]. split; [assumption|lia].
      - (* SWrite *) intros site cur A st len0 oA H. cbn [chk] in H. inversion H.
      - (* SUnknown *) intros site cur A st len0 oA H. cbn [chk] in H. inversion H.
      - (* BNil *)
        intros cur A st len0 oA H S HK. cbn [chkb] in H. inversion H. cbn [exb]. simpl.
        eexists; split; [reflexivity|]. split; [assumption|lia].
      - (* BCons *)
        intros s IHs r IHr cur A st len0 oA H S HK. rewrite chkb_BCons in H. cbv zeta in H.
        destruct (chk ps cur s A) as [o1 f1] eqn:E1. cbn [fst snd] in H.
        rewrite exb_BCons.
        destruct o1 as [A1|].
        + destruct (chkb ps cur r A1) as [o2 f2] eqn:E2. cbn [fst snd] in H. injection H as HoA HF.
          apply app_eq_nil in HF. destruct HF as [HF1 HF2]. subst.
          pose proof (IHs cur A (tick st) len0 (Some A1) E1 S HK) as P. cbn [tick sw senv] in P.
          destruct (ex rd callf lfuel s (tick st)) as [st'|l' st'|ok st'|x|x]; simpl in P; try contradiction; try exact P; try exact I.
          destruct P as (A' & EA & S' & L). inversion EA; subst A'.
          eapply post_w0; [eapply IHr; eauto; lia|lia].
        + injection H as HoA HF. subst.
          pose proof (IHs cur A (tick st) len0 None E1 S HK) as P. cbn [tick sw senv] in P.
          destruct (ex rd callf lfuel s (tick st)) as [st'|l' st'|ok st'|x|x]; simpl in P; try contradiction; try exact P; try exact I.
          destruct P as (A' & EA & _). discriminate.
      - (* CNil *) intros; cbn [exc]; exact I.
      - (* CCons *)
        intros u b IHb r IHr cur e A st len0 oA v H S HK Ev. rewrite chkc_CCons in H. cbv zeta in H.
        destruct (chkb ps cur b (learn_case A e u)) as [o1 f1] eqn:E1.
        destruct (chkc ps cur e r A) as [o2 f2] eqn:E2. cbn [fst snd] in H. injection H as HoA HF.
        apply app_eq_nil in HF. destruct HF as [HF1 HF2]. subst.
        rewrite exc_CCons. destruct (Z.eqb_spec v u).
        + subst. apply post_join_l. eapply IHb; eauto. apply learn_case_sound; assumption.
        + pose proof (IHr cur e A st len0 o2 v E2 S HK Ev) as P.
          destruct (exc rd callf lfuel r v st); [apply post_join_r; exact P|exact I].
    Qed.
  End Main.

  (* ---------------------------------------------------------------- whole programs *)
  Theorem all_safe_run_ok : forall ps, all_safe ps = true ->
    forall fuel f w c a, known_fn ps f = true -> wfw w -> Z.of_nat fuel > wlen w ->
      ok_ret (run rd ps fuel f w c a).
  Proof.
    intros ps HS. induction fuel as [|k IH]; intros f w c a Hf Hw Hn.
    - unfold wfw in Hw. lia.
    - cbn [run]. unfold known_fn in Hf. destruct (lookup ps f) as [b|] eqn:L; [|discriminate].
      pose proof (all_safe_lookup ps f b HS L) as SP. unfold safe_prog in SP.
      apply andb_true_iff in SP. destruct SP as [SP _].
      unfold unsafe_sites in SP. destruct (chkb ps None b top) as [oA fs] eqn:E. cbn [snd] in SP.
      destruct fs; [|discriminate].
      assert (Hcall : forall f w c a, known_fn ps f = true -> wfw w -> wlen w < Z.of_nat k -> ok_ret (run rd ps k f w c a)).
      { intros f' w' c' a' H1 H2 H3. apply IH; auto. lia. }
      assert (Hfuel : Z.of_nat k < Z.of_nat (S k)) by lia.
      destruct (sound_mut ps (run rd ps k) (Z.of_nat k) (S k) Hcall Hfuel) as (_ & HB & _).
      specialize (HB b None top (mkSt w nil c a) (wlen w) oA E).
      cbn [sw senv] in HB. specialize (HB (sat_top w nil (wlen w) Hw ltac:(lia)) ltac:(lia)).
      destruct (exb rd (run rd ps k) (S k) b (mkSt w nil c a)) as [st'|l' st'|ok st'|s|s]; simpl in HB; simpl; auto.
      destruct HB as [HB _]. discriminate.
  Qed.
End WithInput.

(* for every decoder of a program table accepted by the checker: every input, every window, every fuel > len *)
Definition decoders_total (ps : programs) : Prop :=
  forall f body, lookup ps f = Some body ->
  forall (rd : Z -> Z) (w : window) (fuel : nat) (c a : Z),
    0 <= wlen w <= wcap w -> Z.of_nat fuel > wlen w ->
    exists ok st, run rd ps fuel f w c a = FRet ok st.

Theorem safe_prog_sound : forall ps, all_safe ps = true -> decoders_total ps.
Proof.
  intros ps HS f body L rd w fuel c a Hw Hn.
  assert (Hf : known_fn ps f = true) by (unfold known_fn; now rewrite L).
  pose proof (all_safe_run_ok rd ps HS fuel f w c a Hf Hw Hn) as R.
  destruct (run rd ps fuel f w c a) as [st|l st|ok st|s|s]; simpl in R; try contradiction.
  eauto.
Qed.
