(* Concrete semantics of the decoder IR: a big-step interpreter over Go slice windows (off,len,cap)
   into an immutable input `rd : Z -> Z` (byte at absolute offset; taken mod 256).
     data[i]            panics iff i < 0 or i >= len
     data[a:]           panics iff a < 0 or a > len
     data[a:b]          panics iff a < 0 or a > b or b > cap      (reading between len and cap is NOT a panic)
     BigEndian.UintK(s) panics iff len s < K/8
   Outcomes: FRet true (value) | FRet false (error) | FPanic site | FOutOfFuel.
   Counters: cost = 1 per statement executed and per loop-guard evaluation + 1 per element/byte copied;
             alloc = bytes of slices/strings made + 1 per fixed-size object (new / var tmp / append).
   No proofs in this file (it is extracted for the differential oracle). *)
From Coq Require Import ZArith List Bool.
From LLRP Require Import DecIR.IR.
Import ListNotations.
Open Scope Z_scope.

Record window : Type := mkW { woff : Z; wlen : Z; wcap : Z }.

Definition env := list (Z * Z).
Fixpoint get (e : env) (x : Z) : Z :=
  match e with nil => 0 | (y, v) :: r => if Z.eqb x y then v else get r x end.
Fixpoint set (e : env) (x v : Z) : env :=
  match e with
  | nil => [(x, v)]
  | (y, u) :: r => if Z.eqb x y then (y, v) :: r else (y, u) :: set r x v
  end.

Record state : Type := mkSt { sw : window; senv : env; scost : Z; salloc : Z }.

Inductive flow : Type :=
| FNormal (st : state)
| FBreak (l : Z) (st : state)
| FRet (ok : bool) (st : state)
| FPanic (site : Z)
| FOutOfFuel (site : Z).   (* site of the loop whose iteration bound ran out; -1: call depth *)

Definition tick (st : state) : state := mkSt (sw st) (senv st) (scost st + 1) (salloc st).
Definition add_cost (st : state) (c : Z) : state := mkSt (sw st) (senv st) (scost st + c) (salloc st).
Definition add_alloc (st : state) (a : Z) : state := mkSt (sw st) (senv st) (scost st) (salloc st + a).
Definition set_var (st : state) (x v : Z) : state := mkSt (sw st) (set (senv st) x v) (scost st) (salloc st).
Definition set_win (st : state) (w : window) : state := mkSt w (senv st) (scost st) (salloc st).
Definition set_counters (st : state) (from : state) : state := mkSt (sw st) (senv st) (scost from) (salloc from).

Definition cmp_eval (op : cmp) (a b : Z) : bool :=
  match op with
  | CLt => a <? b | CLe => a <=? b | CGt => b <? a | CGe => b <=? a | CEq => a =? b | CNe => negb (a =? b)
  end.

Section WithInput.
  Variable rd : Z -> Z.

  Fixpoint be (n : nat) (off acc : Z) : Z :=
    match n with O => acc | S m => be m (off + 1) (acc * 256 + (rd off) mod 256) end.

  Fixpoint eval (e : expr) (w : window) (en : env) : option Z :=
    match e with
    | EConst z => Some z
    | EVar x => Some (get en x)
    | ELen => Some (wlen w)
    | ELenFrom a =>
        match eval a w en with
        | Some v => if (0 <=? v) && (v <=? wlen w) then Some (wlen w - v) else None
        | None => None
        end
    | ERd k a =>
        match eval a w en with
        | Some v => if (0 <=? v) && (v + k <=? wlen w) then Some (be (Z.to_nat k) (woff w + v) 0) else None
        | None => None
        end
    | EAdd a b => match eval a w en, eval b w en with Some x, Some y => Some (x + y) | _, _ => None end
    | ESub a b => match eval a w en, eval b w en with Some x, Some y => Some (x - y) | _, _ => None end
    | EMul a b => match eval a w en, eval b w en with Some x, Some y => Some (x * y) | _, _ => None end
    | EShr a n => match eval a w en with Some x => Some (Z.shiftr x n) | None => None end
    | EAnd a m => match eval a w en with Some x => Some (Z.land x m) | None => None end
    end.

  Definition evalc (c : cond) (w : window) (en : env) : option bool :=
    match c with
    | CCmp op a b => match eval a w en, eval b w en with Some x, Some y => Some (cmp_eval op x y) | _, _ => None end
    end.

  (* lbl: for guard { body }  — at most n guard evaluations *)
  Definition loop_iter (guard : state -> option bool) (body : state -> flow) (site l : Z) : nat -> state -> flow :=
    fix iter (n : nat) (st : state) {struct n} : flow :=
      match n with
      | O => FOutOfFuel site
      | S n' =>
          match guard st with
          | None => FPanic site
          | Some false => FNormal st
          | Some true =>
              match body st with
              | FNormal st' => iter n' st'
              | FBreak l' st' => if Z.eqb l' l then FNormal st' else FBreak l' st'
              | r => r
              end
          end
      end.

  Section Body.
    (* callf f w cost alloc: the callee's result on window w (defined by `run` with less fuel) *)
    Variable callf : Z -> window -> Z -> Z -> flow.
    Variable lfuel : nat.   (* bound on the iterations of any one loop *)

    Fixpoint ex (s : stmt) (st : state) {struct s} : flow :=
      let w := sw st in let en := senv st in
      match s with
      | SLet site x e => match eval e w en with Some v => FNormal (set_var st x v) | None => FPanic site end
      | SEval site e => match eval e w en with Some _ => FNormal st | None => FPanic site end
      | SReslice site e =>
          match eval e w en with
          | Some v => if (0 <=? v) && (v <=? wlen w)
                      then FNormal (set_win st (mkW (woff w + v) (wlen w - v) (wcap w - v)))
                      else FPanic site
          | None => FPanic site
          end
      | SRetErr => FRet false st
      | SRetOk => FRet true st
      | SIf site c t e =>
          match evalc c w en with
          | Some true => exb t st
          | Some false => exb e st
          | None => FPanic site
          end
      | SSwitch site e cs d =>
          match eval e w en with
          | Some v => match exc cs v st with Some r => r | None => exb d st end
          | None => FPanic site
          end
      | SLoop site l c body =>
          loop_iter (fun st' => evalc c (sw st') (senv st')) (fun st' => exb body (tick st')) site l lfuel st
      | SBreak l => FBreak l st
      | SCall site f lo hi =>
          match eval lo w en with
          | None => FPanic site
          | Some a =>
              match (match hi with
                     | Some h => match eval h w en with
                                 | Some b => if (0 <=? a) && (a <=? b) && (b <=? wcap w) then Some b else None
                                 | None => None
                                 end
                     | None => if (0 <=? a) && (a <=? wlen w) then Some (wlen w) else None
                     end) with
              | None => FPanic site
              | Some b =>
                  match callf f (mkW (woff w + a) (b - a) (wcap w - a)) (scost st) (salloc st) with
                  | FRet true st' => FNormal (set_counters st st')
                  | FRet false st' => FRet false (set_counters st st')
                  | FPanic s => FPanic s
                  | FOutOfFuel s => FOutOfFuel s
                  | _ => FPanic site
                  end
              end
          end
      | SAlloc site n esz =>
          match eval n w en with
          | Some v => if 0 <=? v then FNormal (add_alloc st (v * esz)) else FPanic site
          | None => FPanic site
          end
      | SAllocObj => FNormal (add_alloc st 1)
      | SCopy site n at_ =>
          match eval n w en, eval at_ w en with
          | Some v, Some a => if (0 <=? a) && (a <=? wlen w)
                              then FNormal (add_cost st (Z.min (Z.max v 0) (wlen w - a)))
                              else FPanic site
          | _, _ => FPanic site
          end
      | SCopyLoop site n at_ step k =>
          match eval n w en with
          | Some v => if v <=? 0 then FNormal st
                      else if (0 <=? at_) && (0 <=? step) && (at_ + (v - 1) * step + k <=? wlen w)
                           then FNormal (add_cost st v) else FPanic site
          | None => FPanic site
          end
      | SStr site lo hi =>
          match eval lo w en, eval hi w en with
          | Some a, Some b => if (0 <=? a) && (a <=? b) && (b <=? wcap w)
                              then FNormal (add_alloc (add_cost st (b - a)) (b - a)) else FPanic site
          | _, _ => FPanic site
          end
      | SWrite site => FNormal st
      | SUnknown site => FPanic site
      end
    with exb (b : block) (st : state) {struct b} : flow :=
      match b with
      | BNil => FNormal st
      | BCons s r => match ex s (tick st) with FNormal st' => exb r st' | o => o end
      end
    with exc (cs : cases) (v : Z) (st : state) {struct cs} : option flow :=
      match cs with
      | CNil => None
      | CCons u b r => if Z.eqb v u then Some (exb b st) else exc r v st
      end.
  End Body.

  Variable ps : programs.

  Fixpoint run (fuel : nat) (f : Z) (w : window) (cost alloc : Z) {struct fuel} : flow :=
    match fuel with
    | O => FOutOfFuel (-1)
    | S k =>
        match lookup ps f with
        | None => FPanic (-1)
        | Some b =>
            match exb (run k) (S k) b (mkSt w nil cost alloc) with
            | FNormal st => FRet true st
            | FBreak _ _ => FPanic (-2)
            | r => r
            end
        end
    end.
End WithInput.

(* the outcome class compared with Go *)
Inductive oclass : Type := OOk | OErr | OPanic (site : Z) | OHang (site : Z).
Definition classify (r : flow) : oclass :=
  match r with
  | FRet true _ => OOk | FRet false _ => OErr | FPanic s => OPanic s | FOutOfFuel s => OHang s
  | FNormal _ => OOk | FBreak _ _ => OPanic (-2)
  end.
Definition final_cost (r : flow) : Z := match r with FRet _ st | FNormal st | FBreak _ st => scost st | _ => -1 end.
Definition final_alloc (r : flow) : Z := match r with FRet _ st | FNormal st | FBreak _ st => salloc st | _ => -1 end.

(* the input as a function: byte i of the list (0 outside) *)
Definition rd_of (bs : list Z) : Z -> Z := fun i => nth (Z.to_nat i) bs 0.

(* decode the whole byte string: window (0, n, cap) *)
Definition run_top (rd : Z -> Z) (ps : programs) (fuel : nat) (f : Z) (n cap : Z) : flow :=
  run rd ps fuel f (mkW 0 n cap) 0 0.

(* UnmarshalBinary of decoder f applied to exactly the bytes bs (len = cap = length bs), fuel = len + 1 *)
Definition decode (ps : programs) (f : Z) (bs : list Z) : flow :=
  run_top (rd_of bs) ps (S (length bs)) f (Z.of_nat (length bs)) (Z.of_nat (length bs)).
