(* Decoder IR for C11: a small structured imperative language over one Go byte slice `data`.
   Programs are produced on every run by tools/go-ir from pkg/llrp/generated_unmarshal.go
   (build/gen/C11/DecPrograms.v).  Each constructor stands for one Go statement/expression shape;
   constants, operators, slice bounds are copied from the Go AST.  All numbers are Z
   (variable ids, label ids, function ids, site ids are small non-negative Z). *)
From Coq Require Import ZArith List.
Open Scope Z_scope.

Inductive expr : Type :=
| EConst (z : Z)                 (* integer literal / ParamXxx constant *)
| EVar (x : Z)                   (* local (subLen, arrLen, nBytes, strLen, pt, subType) or a field stored earlier *)
| ELen                           (* len(data) *)
| ELenFrom (e : expr)            (* len(data[e:])          — panics iff e < 0 or e > len *)
| ERd (k : Z) (e : expr)         (* k=1: data[e]; k=2,4,8: binary.BigEndian.Uint{8k}(data[e:]) — panics iff e<0 or e+k > len *)
| EAdd (a b : expr) | ESub (a b : expr) | EMul (a b : expr)
| EShr (a : expr) (n : Z)        (* a >> n  (arithmetic on signed int: (0-1)>>3 = -1) *)
| EAnd (a : expr) (m : Z).       (* a & m *)

Inductive cmp : Type := CLt | CLe | CGt | CGe | CEq | CNe.
Inductive cond : Type := CCmp (op : cmp) (a b : expr).

Inductive stmt : Type :=
| SLet (site x : Z) (e : expr)            (* x := e / x = e / p.F = e when p.F is read later *)
| SEval (site : Z) (e : expr)             (* p.F = T(e): e evaluated (may panic), value not needed *)
| SReslice (site : Z) (e : expr)          (* data = data[e:]     — panics iff e<0 or e > len *)
| SRetErr                                 (* return <non-nil error> *)
| SRetOk                                  (* return nil *)
| SIf (site : Z) (c : cond) (t e : block)
| SSwitch (site : Z) (e : expr) (cs : cases) (dflt : block)
| SLoop (site lbl : Z) (c : cond) (body : block)      (* lbl: for c { body } *)
| SBreak (lbl : Z)                                     (* break lbl *)
| SCall (site f : Z) (lo : expr) (hi : option expr)    (* if err := x.UnmarshalBinary(data[lo:hi]); err != nil {return err} *)
| SAlloc (site : Z) (n : expr) (esz : Z)               (* X = make([]T, n), sizeof T = esz — panics iff n < 0 *)
| SAllocObj                                            (* new(T) / var tmp T / append(xs, tmp) *)
| SCopy (site : Z) (n at_ : expr)                      (* copy(X, data[at:]) with len X = n — panics iff at > len *)
| SCopyLoop (site : Z) (n : expr) (at_ step k : Z)     (* for i,pos := 0,at; i < n; i,pos = i+1,pos+step { X[i] = UintK(data[pos:]) } *)
| SStr (site : Z) (lo hi : expr)                       (* X = string(data[lo:hi]) — panics iff lo<0, lo>hi, hi>cap *)
| SWrite (site : Z)                                    (* any store through data / copy(data, ..): impure *)
| SUnknown (site : Z)                                  (* the translator did not recognise the function *)
with block : Type := BNil | BCons (s : stmt) (b : block)
with cases : Type := CNil | CCons (v : Z) (b : block) (cs : cases).

Scheme stmt_mut := Induction for stmt Sort Prop
with block_mut := Induction for block Sort Prop
with cases_mut := Induction for cases Sort Prop.
Combined Scheme ir_mutind from stmt_mut, block_mut, cases_mut.

Definition programs := list (Z * block).

Fixpoint lookup (ps : programs) (f : Z) : option block :=
  match ps with
  | nil => None
  | (g, b) :: r => if Z.eqb f g then Some b else lookup r f
  end.

Fixpoint block_size (b : block) : Z :=
  match b with BNil => 0 | BCons s r => stmt_size s + block_size r end
with stmt_size (s : stmt) : Z :=
  match s with
  | SIf _ _ t e => 1 + block_size t + block_size e
  | SSwitch _ _ cs d => 1 + cases_size cs + block_size d
  | SLoop _ _ _ b => 2 + block_size b
  | _ => 1
  end
with cases_size (cs : cases) : Z :=
  match cs with CNil => 0 | CCons _ b r => block_size b + cases_size r end.
