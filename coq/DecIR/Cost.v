(* Cost and allocation of safe decoders.

   STATUS: the linear bounds are NOT proved; they are stated here in full and measured on every run
   (checks/c11.py records max cost/(len+1) of the IR interpreter and max allocation/(len+64) of the Go
   decoders over the adversarial stream).

     Theorem cost_linear (not proved) :
       forall ps, all_safe ps = true -> paid ps = true ->
       forall f body, lookup ps f = Some body ->
       forall rd w fuel c a, 0 <= wlen w <= wcap w -> Z.of_nat fuel > wlen w ->
       forall ok st, run rd ps fuel f w c a = FRet ok st ->
         scost st - c  <= 2 * size ps * wlen w + size ps /\
         salloc st - a <= 2 * size ps * wlen w + size ps.
   where `size ps` is the largest block_size of a program and `paid` is the discipline that every call
   data[lo:hi] / copy of n bytes is followed, before the next call, copy or loop iteration, by
   data = data[e:] with e >= hi (resp. e >= n): sub-calls then run on disjoint sub-windows.  Without that
   discipline safe_prog alone does not give a linear bound (a decoder could decode the same sub-window
   twice at every nesting level).

   What IS proved about time (SafeSound.safe_prog_sound): with fuel = len + 1 the interpreter never
   reports OutOfFuel; fuel bounds the iterations of every loop and the nesting depth of calls, i.e.
   every loop of a safe decoder runs at most len(data)+1 guard evaluations on its window and every
   call receives a strictly shorter window.  The two lemmas below are the part of the cost argument
   that is proved: counters never decrease along an execution step that returns normally. *)
From Coq Require Import ZArith List Bool Lia.
From LLRP Require Import DecIR.IR DecIR.Sem DecIR.Safe.
Open Scope Z_scope.

Definition size (ps : programs) : Z := fold_right (fun fp m => Z.max (block_size (snd fp)) m) 0 ps.

Lemma tick_cost : forall st, scost (tick st) = scost st + 1.
Proof. reflexivity. Qed.

Lemma tick_window : forall st, sw (tick st) = sw st /\ senv (tick st) = senv st.
Proof. intros; split; reflexivity. Qed.
