(* Linear cost and allocation bounds for decoders accepted by Safe.all_safe and Linear.linear_prog:
     cost  of a run <= coef ps * len + size ps       (coef ps = 2 * (size ps + 1))
     alloc of a run <= coef ps * len + size ps
   for every input, window and fuel > len, where size ps is the largest block_size of a program.
   Amortised argument: for each counter a ghost q = "half-bytes of the current window's prefix already
   charged"; potential = D * (2 * len - q) (+ D when a covering reslice has happened in the current loop
   body), D = size ps + 1.  Every statement satisfies  counter' + potential' <= counter + potential + its size;
   a loop iteration that falls through has potential' + D <= potential, which pays its statements, so a loop
   costs nothing beyond the bytes it consumes; a call on data[lo:hi] (lo >= 1) is paid by the 2*hi-1
   half-bytes it charges, which the following reslice (>= hi) removes from the window. *)
From Coq Require Import ZArith List Bool Lia ZifyBool.
From LLRP Require Import DecIR.IR DecIR.Sem DecIR.Safe DecIR.SafeLemmas DecIR.SafeSound DecIR.Linear.
Import ListNotations.
Open Scope Z_scope.

(* ------------------------------------------------------------------ syntactic helpers *)
Lemma expr_eqb_sound : forall a b, expr_eqb a b = true -> a = b.
Proof.
  induction a; destruct b; simpl; intros H; try discriminate; try reflexivity;
    repeat match goal with
           | H : _ && _ = true |- _ => apply andb_true_iff in H; destruct H
           end;
    try (f_equal; try lia; auto; fail).
Qed.

Fixpoint seval (h : expr) (en : env) : Z :=
  match h with
  | EConst z => z
  | EVar x => get en x
  | EAdd a b => seval a en + seval b en
  | EMul a b => seval a en * seval b en
  | _ => 0
  end.

Lemma seval_eval : forall rd h w en, stable h = true -> eval rd h w en = Some (seval h en).
Proof.
  induction h; simpl; intros w en S; try discriminate; try reflexivity;
    apply andb_true_iff in S; destruct S as [S1 S2]; rewrite IHh1, IHh2 by assumption; reflexivity.
Qed.

Lemma seval_set_other : forall h en y v, mentions y h = false -> seval h (set en y v) = seval h en.
Proof.
  induction h; simpl; intros en y v M; try reflexivity.
  - rewrite get_set_neq; [reflexivity|]. intro E. subst. rewrite Z.eqb_refl in M. discriminate.
  - apply orb_false_iff in M. destruct M. rewrite IHh1, IHh2 by assumption. reflexivity.
  - apply orb_false_iff in M. destruct M. rewrite IHh1, IHh2 by assumption. reflexivity.
Qed.

Lemma covers_sound : forall rd e h w en v, covers e h = true -> eval rd e w en = Some v -> seval h en <= v.
Proof.
  intros rd e h w en v C E. unfold covers in C. apply andb_true_iff in C. destruct C as [S C].
  apply orb_true_iff in C. destruct C as [C|C]; [apply orb_true_iff in C; destruct C as [C|C]|].
  - apply expr_eqb_sound in C. subst. rewrite (seval_eval rd h w en S) in E. inversion E. lia.
  - destruct e; try discriminate. destruct e2; try discriminate.
    apply andb_true_iff in C. destruct C as [C1 C2]. apply expr_eqb_sound in C1. subst.
    cbn [eval] in E. rewrite (seval_eval rd h w en S) in E. inversion E. lia.
  - destruct e; try discriminate. destruct h; try discriminate. cbn in E. inversion E. simpl. lia.
Qed.

(* ------------------------------------------------------------------ ghost state *)
Definition pmeans (p : paid) (en : env) (q : Z) : Prop :=
  match p with
  | P0 => q = 0
  | PExpr h => q <= Z.max 0 (2 * seval h en - 1)
  | PAll => True
  end.

Definition ginv (L : lstate) (w : window) (en : env) (qc qa : Z) : Prop :=
  0 <= qc <= 2 * wlen w /\ 0 <= qa <= 2 * wlen w /\ pmeans (lpc L) en qc /\ pmeans (lpa L) en qa.

Lemma pmeans_pexpr : forall h en q, q <= Z.max 0 (2 * seval h en - 1) -> pmeans (pexpr h) en q.
Proof. intros h en q H. unfold pexpr. destruct (stable h); simpl; auto. Qed.

Lemma pmeans_join_l : forall a b en q, pmeans a en q -> pmeans (pjoin a b) en q.
Proof.
  intros [|h|] [|g|] en q H; simpl in *; auto; try lia.
  destruct (expr_eqb h g); simpl; auto.
Qed.
Lemma pmeans_join_r : forall a b en q, pmeans b en q -> pmeans (pjoin a b) en q.
Proof.
  intros [|h|] [|g|] en q H; simpl in *; auto; try lia.
  destruct (expr_eqb h g) eqn:E; simpl; auto. apply expr_eqb_sound in E. subst. exact H.
Qed.

Lemma pmeans_kill : forall p en x v q, pmeans p en q -> pmeans (kill_paid x p) (set en x v) q.
Proof.
  intros [|h|] en x v q H; simpl in *; auto.
  destruct (mentions x h) eqn:M; simpl; auto. rewrite seval_set_other by assumption. exact H.
Qed.

(* ------------------------------------------------------------------ potential and the per-statement claim *)
Definition pot (D : Z) (L : lstate) (w : window) (q : Z) : Z := D * (2 * wlen w - q) + D * Z.b2z (lcred L).

Section Amortised.
  Variable rd : Z -> Z.
  Variable ps : programs.
  Variable callf : Z -> window -> Z -> Z -> flow.
  Variable K : Z.
  Variable lfuel : nat.
  Variable S D : Z.
  Hypothesis HS : 0 <= S.
  Hypothesis HD : D = S + 1.
  (* callees: safe and within the bound, on every strictly shorter window *)
  Hypothesis Hcall : forall f w c a, known_fn ps f = true -> wfw w -> wlen w < K ->
    match callf f w c a with
    | FRet _ st' => scost st' <= c + 2 * D * wlen w + S /\ salloc st' <= a + 2 * D * wlen w + S
    | _ => False
    end.
  Hypothesis Hfuel : K < Z.of_nat lfuel.

  Lemma Hcall_ok : forall f w c a, known_fn ps f = true -> wfw w -> wlen w < K -> ok_ret (callf f w c a).
  Proof.
    intros f w c a H1 H2 H3. pose proof (Hcall f w c a H1 H2 H3) as H.
    destruct (callf f w c a); simpl; auto.
  Qed.

  (* c0 / a0: the totals the run may reach *)
  Definition cpost (c0 a0 : Z) (oL : option lstate) (r : flow) : Prop :=
    match r with
    | FNormal st' => exists L' qc' qa', oL = Some L' /\ ginv L' (sw st') (senv st') qc' qa' /\
                       scost st' + pot D L' (sw st') qc' <= c0 /\ salloc st' + pot D L' (sw st') qa' <= a0
    | FBreak _ st' => scost st' + 2 * D * wlen (sw st') <= c0 /\ salloc st' + 2 * D * wlen (sw st') <= a0
    | FRet _ st' => scost st' <= c0 /\ salloc st' <= a0
    | FPanic _ | FOutOfFuel _ => True
    end.

  Lemma cpost_mono : forall c0 a0 c1 a1 oL r, cpost c0 a0 oL r -> c0 <= c1 -> a0 <= a1 -> cpost c1 a1 oL r.
  Proof.
    intros c0 a0 c1 a1 oL [st|l st|ok st|s|s] P H1 H2; simpl in *; auto; try lia.
    destruct P as (L' & qc & qa & E & G & P1 & P2). exists L', qc, qa. repeat (split; [assumption|]). split; lia.
  Qed.

  Lemma pot_join_l : forall a b w q, 0 <= D -> pot D (mkL (pjoin (lpc a) (lpc b)) (pjoin (lpa a) (lpa b)) (lcred a && lcred b)) w q <= pot D a w q.
  Proof. intros a b w q H. unfold pot; cbn [lcred]. destruct (lcred a), (lcred b); simpl; nia. Qed.
  Lemma pot_join_r : forall a b w q, 0 <= D -> pot D (mkL (pjoin (lpc a) (lpc b)) (pjoin (lpa a) (lpa b)) (lcred a && lcred b)) w q <= pot D b w q.
  Proof. intros a b w q H. unfold pot; cbn [lcred]. destruct (lcred a), (lcred b); simpl; nia. Qed.

  Lemma D_pos : 1 <= D.
  Proof. lia. Qed.

  Lemma cpost_join_l : forall c0 a0 o1 o2 r, cpost c0 a0 o1 r -> cpost c0 a0 (ljoin o1 o2) r.
  Proof.
    intros c0 a0 o1 o2 [st|l st|ok st|s|s] P; simpl in *; auto.
    destruct P as (L' & qc & qa & E & G & P1 & P2). subst o1.
    destruct o2 as [b|]; [|exists L', qc, qa; auto].
    eexists _, qc, qa. split; [reflexivity|]. pose proof D_pos.
    destruct G as (G1 & G2 & G3 & G4).
    split; [|split].
    - unfold ginv; cbn [lpc lpa]. repeat split; try lia; auto using pmeans_join_l.
    - pose proof (pot_join_l L' b (sw st) qc ltac:(lia)). lia.
    - pose proof (pot_join_l L' b (sw st) qa ltac:(lia)). lia.
  Qed.
  Lemma cpost_join_r : forall c0 a0 o1 o2 r, cpost c0 a0 o2 r -> cpost c0 a0 (ljoin o1 o2) r.
  Proof.
    intros c0 a0 o1 o2 [st|l st|ok st|s|s] P; simpl in *; auto.
    destruct P as (L' & qc & qa & E & G & P1 & P2). subst o2.
    destruct o1 as [a|]; [|exists L', qc, qa; auto].
    eexists _, qc, qa. split; [reflexivity|]. pose proof D_pos.
    destruct G as (G1 & G2 & G3 & G4).
    split; [|split].
    - unfold ginv; cbn [lpc lpa]. repeat split; try lia; auto using pmeans_join_r.
    - pose proof (pot_join_r a L' (sw st) qc ltac:(lia)). lia.
    - pose proof (pot_join_r a L' (sw st) qa ltac:(lia)). lia.
  Qed.

  Lemma sizes_nonneg :
    (forall s, 1 <= stmt_size s) /\ (forall b, 0 <= block_size b) /\ (forall cs, 0 <= cases_size cs).
  Proof.
    apply ir_mutind; intros; cbn [stmt_size block_size cases_size]; lia.
  Qed.

  Lemma scaled_eval : forall n k w en v, eval rd n w en = Some v -> eval rd (scaled n k) w en = Some (v * k).
  Proof.
    intros n k w en v E. unfold scaled. destruct (Z.eqb_spec k 1).
    - subst. rewrite E. f_equal. lia.
    - cbn [eval]. rewrite E. reflexivity.
  Qed.

  Lemma le_len_sound : forall len0 A w en e v, sat len0 A w en -> le_len A e = true -> eval rd e w en = Some v -> v <= wlen w.
  Proof.
    intros len0 A w en e v St H E. unfold le_len in H. apply orb_true_iff in H. destruct H as [H|H].
    - pose proof (prove_le_len_sound rd _ _ _ _ _ _ _ St H E). lia.
    - destruct e; try discriminate. destruct e1; try discriminate. destruct e2; try discriminate.
      cbn in E. inversion E. lia.
  Qed.

  Lemma reslice_ghost : forall p e w en q v, pmeans p en q -> 0 <= q -> eval rd e w en = Some v -> 0 <= v ->
    pmeans (after_reslice p e) en (Z.max 0 (q - 2 * v)) /\ (covered p e = true -> q <= Z.max 0 (2 * v - 1)).
  Proof.
    intros p e w en q v P Hq E Hv. unfold after_reslice.
    assert (C : covered p e = true -> q <= Z.max 0 (2 * v - 1)).
    { intros C. destruct p as [|h|]; cbn [pmeans covered] in *; try discriminate; [lia|].
      pose proof (covers_sound rd _ _ _ _ _ C E). lia. }
    split; [|exact C]. destruct (covered p e); cbn [pmeans]; auto. specialize (C eq_refl). lia.
  Qed.

  (* unfolding equations of the checker *)
  Lemma lchk_SIf : forall cur site c t e A L,
    lchk ps cur (SIf site c t e) A L =
    (let r1 := lchkb ps cur t (assume c true A) L in
     let r2 := lchkb ps cur e (assume c false A) L in
     (ljoin (fst r1) (fst r2), snd r1 && snd r2)).
  Proof. reflexivity. Qed.
  Lemma lchk_SSwitch : forall cur site e cs d A L,
    lchk ps cur (SSwitch site e cs d) A L =
    (let r1 := lchkc ps cur e cs A L in
     let r2 := lchkb ps cur d A L in
     (ljoin (fst r1) (fst r2), snd r1 && snd r2)).
  Proof. reflexivity. Qed.
  Lemma lchk_SLoop : forall cur site l c body A L,
    lchk ps cur (SLoop site l c body) A L =
    (let r := lchkb ps (Some l) body (assume c true top) L0 in
     (Some (mkL P0 P0 (lcred L)),
      match cur with None => true | Some _ => false end
      && isP0 (lpc L) && isP0 (lpa L) && snd r
      && match fst r with None => true | Some Lb => isP0 (lpc Lb) && isP0 (lpa Lb) && lcred Lb end)).
  Proof. reflexivity. Qed.
  Lemma lchkb_BCons : forall cur s r A L,
    lchkb ps cur (BCons s r) A L =
    (let r1 := lchk ps cur s A L in
     match fst (chk ps cur s A), fst r1 with
     | Some A1, Some L1 => let r2 := lchkb ps cur r A1 L1 in (fst r2, snd r1 && snd r2)
     | _, _ => (None, snd r1)
     end).
  Proof. reflexivity. Qed.
  Lemma lchkc_CCons : forall cur e v b r A L,
    lchkc ps cur e (CCons v b r) A L =
    (let r1 := lchkb ps cur b (learn_case A e v) L in
     let r2 := lchkc ps cur e r A L in
     (ljoin (fst r1) (fst r2), snd r1 && snd r2)).
  Proof. reflexivity. Qed.

  Lemma isP0_means : forall p en q, isP0 p = true -> pmeans p en q -> q = 0.
  Proof. intros [|h|] en q H P; simpl in *; try discriminate; exact P. Qed.

  Ltac ginv_split := unfold ginv; cbn [lpc lpa]; split; [|split; [|split]].

  Definition stmt_claim (s : stmt) : Prop :=
    forall cur A L st len0 oA oL qc qa,
      chk ps cur s A = (oA, []) -> lchk ps cur s A L = (oL, true) ->
      sat len0 A (sw st) (senv st) -> wlen (sw st) <= K -> ginv L (sw st) (senv st) qc qa -> stmt_size s <= S ->
      cpost (scost st + pot D L (sw st) qc + stmt_size s) (salloc st + pot D L (sw st) qa + stmt_size s) oL
            (ex rd callf lfuel s (tick st)).

  Lemma claim_SLet : forall site x e, stmt_claim (SLet site x e).
  Proof.
    intros site x e cur A L st len0 oA oL qc qa H HL St HK G HSz.
    cbn [lchk] in HL. injection HL as HoL. subst oL.
    cbn [ex tick sw senv]. destruct (eval rd e (sw st) (senv st)) as [v|]; [|exact I].
    cbn [cpost set_var tick sw senv scost salloc]. destruct G as (G1 & G2 & G3 & G4).
    eexists _, qc, qa. split; [reflexivity|]. split; [|split].
    - ginv_split; auto using pmeans_kill.
    - unfold pot; cbn [lcred stmt_size]. lia.
    - unfold pot; cbn [lcred stmt_size]. lia.
  Qed.

  Lemma claim_SEval : forall site e, stmt_claim (SEval site e).
  Proof.
    intros site e cur A L st len0 oA oL qc qa H HL St HK G HSz.
    cbn [lchk] in HL. injection HL as HoL. subst oL.
    cbn [ex tick sw senv]. destruct (eval rd e (sw st) (senv st)) as [v|]; [|exact I].
    cbn [cpost tick sw senv scost salloc]. eexists _, qc, qa. split; [reflexivity|]. split; [exact G|].
    cbn [stmt_size]. split; lia.
  Qed.

  Lemma claim_SAllocObj : stmt_claim SAllocObj.
  Proof.
    intros cur A L st len0 oA oL qc qa H HL St HK G HSz.
    cbn [lchk] in HL. injection HL as HoL. subst oL.
    cbn [ex tick add_alloc cpost sw senv scost salloc]. eexists _, qc, qa. split; [reflexivity|]. split; [exact G|].
    cbn [stmt_size]. split; lia.
  Qed.

  Lemma claim_SRet : stmt_claim SRetErr /\ stmt_claim SRetOk.
  Proof.
    pose proof D_pos as HDp.
    split; intros cur A L st len0 oA oL qc qa H HL St HK G HSz; cbn [ex tick cpost scost salloc stmt_size];
      destruct G as (G1 & G2 & _); unfold pot; destruct (lcred L); cbn [Z.b2z]; split; nia.
  Qed.

  Lemma claim_SBreak : forall l, stmt_claim (SBreak l).
  Proof.
    intros l cur A L st len0 oA oL qc qa H HL St HK G HSz. pose proof D_pos as HDp.
    cbn [lchk] in HL. injection HL as HoL Hok. apply andb_true_iff in Hok. destruct Hok as [O1 O2].
    destruct G as (G1 & G2 & G3 & G4).
    pose proof (isP0_means _ _ _ O1 G3) as Z1. pose proof (isP0_means _ _ _ O2 G4) as Z2. subst qc qa.
    cbn [ex tick cpost sw scost salloc stmt_size]. unfold pot. destruct (lcred L); cbn [Z.b2z]; split; nia.
  Qed.

  Lemma claim_SReslice : forall site e, stmt_claim (SReslice site e).
  Proof.
    intros site e cur A L st len0 oA oL qc qa H HL St HK G HSz. pose proof D_pos as HDp.
    cbn [ex tick sw senv]. destruct (eval rd e (sw st) (senv st)) as [v|] eqn:Ev; [|exact I].
    destruct ((0 <=? v) && (v <=? wlen (sw st))) eqn:C; [|exact I].
    destruct G as (G1 & G2 & G3 & G4).
    destruct (reslice_ghost _ e (sw st) _ _ v G3 ltac:(lia) Ev ltac:(lia)) as [Rc Cc].
    destruct (reslice_ghost _ e (sw st) _ _ v G4 ltac:(lia) Ev ltac:(lia)) as [Ra Ca].
    cbn [lchk] in HL.
    cbn [cpost set_win tick sw senv scost salloc wlen stmt_size].
    destruct (covered (lpc L) e && covered (lpa L) e) eqn:CV; injection HL as HoL; subst oL.
    - apply andb_true_iff in CV. destruct CV as [CV1 CV2]. specialize (Cc CV1). specialize (Ca CV2).
      exists (mkL P0 P0 (lcred L || ge1 A e)), (Z.max 0 (qc - 2 * v)), (Z.max 0 (qa - 2 * v)).
      split; [reflexivity|].
      assert (V1 : ge1 A e = true -> 1 <= v) by (intros G1'; exact (ge1_sound rd _ _ _ _ _ _ St G1' Ev)).
      split; [|split].
      + ginv_split; cbn [wlen pmeans]; lia.
      + unfold pot; cbn [lcred wlen]. destruct (lcred L), (ge1 A e); cbn [orb Z.b2z]; try specialize (V1 eq_refl); nia.
      + unfold pot; cbn [lcred wlen]. destruct (lcred L), (ge1 A e); cbn [orb Z.b2z]; try specialize (V1 eq_refl); nia.
    - exists (mkL (after_reslice (lpc L) e) (after_reslice (lpa L) e) (lcred L)), (Z.max 0 (qc - 2 * v)), (Z.max 0 (qa - 2 * v)).
      split; [reflexivity|]. split; [|split].
      + ginv_split; cbn [wlen]; try lia; assumption.
      + unfold pot; cbn [lcred wlen]. nia.
      + unfold pot; cbn [lcred wlen]. nia.
  Qed.

  Lemma pexpr_val : forall rd' h w en v q, eval rd' h w en = Some v -> q <= Z.max 0 (2 * v - 1) -> pmeans (pexpr h) en q.
  Proof.
    intros rd' h w en v q E H. unfold pexpr. destruct (stable h) eqn:St; cbn [pmeans]; auto.
    rewrite (seval_eval rd' h w en St) in E. inversion E. lia.
  Qed.

  Lemma claim_SAlloc : forall site n esz, stmt_claim (SAlloc site n esz).
  Proof.
    intros site n esz cur A L st len0 oA oL qc qa H HL St HK G HSz. pose proof D_pos as HDp.
    cbn [lchk] in HL. injection HL as HoL Hok. subst oL.
    apply andb_true_iff in Hok. destruct Hok as [Hok O3]. apply andb_true_iff in Hok. destruct Hok as [O1 O2].
    cbn [ex tick sw senv]. destruct (eval rd n (sw st) (senv st)) as [v|] eqn:Ev; [|exact I].
    destruct (0 <=? v) eqn:C; [|exact I].
    destruct G as (G1 & G2 & G3 & G4). pose proof (isP0_means _ _ _ O1 G4) as Z2. subst qa.
    pose proof (scaled_eval n esz _ _ _ Ev) as Es.
    pose proof (le_len_sound _ _ _ _ _ _ St O3 Es) as Hle.
    cbn [cpost add_alloc tick sw senv scost salloc stmt_size].
    exists (mkL (lpc L) (pexpr (scaled n esz)) (lcred L)), qc, (Z.max 0 (2 * (v * esz) - 1)).
    split; [reflexivity|]. split; [|split].
    - ginv_split; try lia; try assumption. eapply pexpr_val; [exact Es|lia].
    - unfold pot; cbn [lcred]. lia.
    - unfold pot; cbn [lcred]. assert (0 <= v * esz) by nia. nia.
  Qed.

  Lemma claim_SCopy : forall site n at_, stmt_claim (SCopy site n at_).
  Proof.
    intros site n at_ cur A L st len0 oA oL qc qa H HL St HK G HSz. pose proof D_pos as HDp.
    cbn [lchk] in HL. injection HL as HoL Hok. subst oL.
    apply andb_true_iff in Hok. destruct Hok as [O1 O2].
    cbn [ex tick sw senv]. destruct (eval rd n (sw st) (senv st)) as [v|] eqn:Ev; [|exact I].
    destruct (eval rd at_ (sw st) (senv st)) as [a|] eqn:Ea; [|exact I].
    destruct ((0 <=? a) && (a <=? wlen (sw st))) eqn:C; [|exact I].
    destruct G as (G1 & G2 & G3 & G4). pose proof (isP0_means _ _ _ O1 G3) as Z1. subst qc.
    pose proof (nonneg_sound rd _ _ _ _ _ _ St O2 Ev) as Hv.
    cbn [cpost add_cost tick sw senv scost salloc stmt_size].
    set (m := Z.min (Z.max v 0) (wlen (sw st) - a)).
    exists (mkL (pexpr (EAdd n at_)) (lpa L) (lcred L)), (Z.max 0 (2 * (a + m) - 1)), qa.
    split; [reflexivity|]. split; [|split].
    - ginv_split; try lia; try assumption.
      eapply (pexpr_val rd (EAdd n at_) (sw st) (senv st) (v + a)); [cbn [eval]; rewrite Ev, Ea; reflexivity|lia].
    - unfold pot; cbn [lcred]. assert (0 <= m) by lia. nia.
    - unfold pot; cbn [lcred]. lia.
  Qed.

  Lemma claim_SCopyLoop : forall site n at_ step k, stmt_claim (SCopyLoop site n at_ step k).
  Proof.
    intros site n at_ step k cur A L st len0 oA oL qc qa H HL St HK G HSz. pose proof D_pos as HDp.
    cbn [lchk] in HL. injection HL as HoL Hok. subst oL.
    apply andb_true_iff in Hok. destruct Hok as [Hok O3]. apply andb_true_iff in Hok. destruct Hok as [O1 O2].
    cbn [ex tick sw senv]. destruct (eval rd n (sw st) (senv st)) as [v|] eqn:Ev; [|exact I].
    destruct G as (G1 & G2 & G3 & G4). pose proof (isP0_means _ _ _ O1 G3) as Z1. subst qc.
    pose proof (scaled_eval n step _ _ _ Ev) as Es.
    assert (Eh : eval rd (EAdd (scaled n step) (EConst at_)) (sw st) (senv st) = Some (v * step + at_))
      by (cbn [eval]; rewrite Es; reflexivity).
    destruct (v <=? 0) eqn:Cv.
    - cbn [cpost tick sw senv scost salloc stmt_size].
      eexists _, 0, qa. split; [reflexivity|]. split; [|split].
      + ginv_split; try lia; try assumption. eapply pexpr_val; [exact Eh|lia].
      + unfold pot; cbn [lcred]. lia.
      + unfold pot; cbn [lcred]. lia.
    - destruct ((0 <=? at_) && (0 <=? step) && (at_ + (v - 1) * step + k <=? wlen (sw st))) eqn:C; [|exact I].
      cbn [cpost add_cost tick sw senv scost salloc stmt_size].
      assert (X1 : 0 <= (v - 1) * step) by nia.
      assert (X2 : v - 1 <= (v - 1) * step) by nia.
      assert (X3 : (v - 1) * step + step = v * step) by ring.
      remember ((v - 1) * step) as Y eqn:EY.
      eexists _, (2 * (at_ + Y + k) - 1), qa. split; [reflexivity|]. split; [|split].
      + ginv_split; try lia; try assumption. eapply pexpr_val; [exact Eh|]. lia.
      + unfold pot; cbn [lcred]. assert (v <= at_ + Y + k) by lia. nia.
      + unfold pot; cbn [lcred]. lia.
  Qed.

  Lemma claim_SStr : forall site lo hi, stmt_claim (SStr site lo hi).
  Proof.
    intros site lo hi cur A L st len0 oA oL qc qa H HL St HK G HSz. pose proof D_pos as HDp.
    cbn [lchk] in HL. injection HL as HoL Hok. subst oL.
    apply andb_true_iff in Hok. destruct Hok as [Hok O3]. apply andb_true_iff in Hok. destruct Hok as [O1 O2].
    cbn [ex tick sw senv]. destruct (eval rd lo (sw st) (senv st)) as [a|] eqn:Ea; [|exact I].
    destruct (eval rd hi (sw st) (senv st)) as [b|] eqn:Eb; [|exact I].
    destruct ((0 <=? a) && (a <=? b) && (b <=? wcap (sw st))) eqn:C; [|exact I].
    destruct G as (G1 & G2 & G3 & G4).
    pose proof (isP0_means _ _ _ O1 G3) as Z1. pose proof (isP0_means _ _ _ O2 G4) as Z2. subst qc qa.
    pose proof (prove_le_len_sound rd _ _ _ _ _ _ _ St O3 Eb) as Hb.
    cbn [cpost add_cost add_alloc tick sw senv scost salloc stmt_size].
    eexists _, (Z.max 0 (2 * b - 1)), (Z.max 0 (2 * b - 1)). split; [reflexivity|]. split; [|split].
    - ginv_split; try lia; eapply pexpr_val; try exact Eb; lia.
    - unfold pot; cbn [lcred]. nia.
    - unfold pot; cbn [lcred]. nia.
  Qed.

  Lemma claim_SCall : forall site f lo hi, stmt_claim (SCall site f lo hi).
  Proof.
    intros site f lo hi cur A L st len0 oA oL qc qa H HL St HK G HSz. pose proof D_pos as HDp.
    cbn [lchk] in HL. injection HL as HoL Hok. subst oL.
    apply andb_true_iff in Hok. destruct Hok as [Hok O4]. apply andb_true_iff in Hok. destruct Hok as [Hok O3].
    apply andb_true_iff in Hok. destruct Hok as [O1 O2].
    (* the callee is known: from the safety check *)
    cbn [chk] in H. injection H as HoA HF.
    apply app_eq_nil in HF. destruct HF as [_ HF]. apply app_eq_nil in HF. destruct HF as [_ HF].
    apply app_eq_nil in HF. destruct HF as [Fk _]. apply req_nil in Fk.
    cbn [ex tick sw senv scost salloc]. destruct (eval rd lo (sw st) (senv st)) as [a|] eqn:Ea; [|exact I].
    pose proof (ge1_sound rd _ _ _ _ _ _ St O3 Ea) as Ha.
    destruct G as (G1 & G2 & G3 & G4).
    pose proof (isP0_means _ _ _ O1 G3) as Z1. pose proof (isP0_means _ _ _ O2 G4) as Z2. subst qc qa.
    pose proof St as (Hw & _). unfold wfw in Hw.
    assert (TAIL : forall b p, a <= b <= wlen (sw st) -> pmeans p (senv st) (2 * b - 1) ->
      cpost (scost st + pot D L (sw st) 0 + stmt_size (SCall site f lo hi)) (salloc st + pot D L (sw st) 0 + stmt_size (SCall site f lo hi))
        (Some (mkL p p (lcred L)))
        (match callf f (mkW (woff (sw st) + a) (b - a) (wcap (sw st) - a)) (scost st + 1) (salloc st) with
         | FRet true st' => FNormal (set_counters (tick st) st')
         | FRet false st' => FRet false (set_counters (tick st) st')
         | FPanic s => FPanic s
         | FOutOfFuel s => FOutOfFuel s
         | _ => FPanic site
         end)).
    { intros b p Hb Pb.
      pose proof (Hcall f (mkW (woff (sw st) + a) (b - a) (wcap (sw st) - a)) (scost st + 1) (salloc st) Fk) as R.
      unfold wfw in R; cbn [wlen wcap] in R. specialize (R ltac:(lia) ltac:(lia)).
      destruct (callf f _ (scost st + 1) (salloc st)) as [st'|l' st'|ok st'|x|x]; try contradiction; try exact I.
      destruct R as [R1 R2]. cbn [stmt_size].
      destruct ok; cbn [cpost set_counters tick sw senv scost salloc].
      - exists (mkL p p (lcred L)), (2 * b - 1), (2 * b - 1). split; [reflexivity|]. split; [|split].
        + ginv_split; try lia; assumption.
        + unfold pot; cbn [lcred]. nia.
        + unfold pot; cbn [lcred]. nia.
      - unfold pot. destruct (lcred L); cbn [Z.b2z]; split; nia. }
    destruct hi as [h|].
    - destruct (eval rd h (sw st) (senv st)) as [b|] eqn:Eb; [|exact I].
      destruct ((0 <=? a) && (a <=? b) && (b <=? wcap (sw st))) eqn:C; [|exact I].
      pose proof (prove_le_len_sound rd _ _ _ _ _ _ _ St O4 Eb).
      apply TAIL; [lia|]. eapply pexpr_val; [exact Eb|lia].
    - destruct ((0 <=? a) && (a <=? wlen (sw st))) eqn:C; [|exact I].
      apply TAIL; [lia|exact I].
  Qed.

  (* the loop: every iteration that falls through has restored q = 0 and earned D, which pays for it *)
  Lemma loop_cost : forall guard body site l (Sb C0 A0 : Z) (cred : bool),
    0 <= Sb -> Sb + 1 <= D ->
    (forall st, wlen (sw st) <= K -> wfw (sw st) -> guard st = Some true ->
       match body st with
       | FNormal st' => wfw (sw st') /\ wlen (sw st') <= wlen (sw st) /\
                        scost st' + 2 * D * wlen (sw st') + D <= scost st + 1 + 2 * D * wlen (sw st) + Sb /\
                        salloc st' + 2 * D * wlen (sw st') + D <= salloc st + 2 * D * wlen (sw st) + Sb
       | FBreak _ st' => wfw (sw st') /\
                         scost st' + 2 * D * wlen (sw st') <= scost st + 1 + 2 * D * wlen (sw st) + Sb /\
                         salloc st' + 2 * D * wlen (sw st') <= salloc st + 2 * D * wlen (sw st) + Sb
       | FRet _ st' => scost st' <= scost st + 1 + 2 * D * wlen (sw st) + Sb /\
                       salloc st' <= salloc st + 2 * D * wlen (sw st) + Sb
       | _ => True
       end) ->
    forall n st, wlen (sw st) <= K -> wfw (sw st) ->
      scost st + 2 * D * wlen (sw st) <= C0 -> salloc st + 2 * D * wlen (sw st) <= A0 ->
      cpost (C0 + D * Z.b2z cred + 1 + Sb) (A0 + D * Z.b2z cred + 1 + Sb) (Some (mkL P0 P0 cred))
            (loop_iter guard body site l n st).
  Proof.
    intros guard body site l Sb C0 A0 cred HSb HSD HB. pose proof D_pos as HDp.
    assert (OUT : forall st, wfw (sw st) -> scost st + 2 * D * wlen (sw st) <= C0 + 1 + Sb ->
                  salloc st + 2 * D * wlen (sw st) <= A0 + 1 + Sb ->
                  cpost (C0 + D * Z.b2z cred + 1 + Sb) (A0 + D * Z.b2z cred + 1 + Sb) (Some (mkL P0 P0 cred)) (FNormal st)).
    { intros st Hw H1 H2. cbn [cpost]. exists (mkL P0 P0 cred), 0, 0. split; [reflexivity|].
      unfold wfw in Hw. split; [|split].
      - ginv_split; cbn [pmeans]; lia.
      - unfold pot; cbn [lcred]. lia.
      - unfold pot; cbn [lcred]. lia. }
    induction n as [|n IH]; intros st HK Hw H1 H2; cbn [loop_iter]; [exact I|].
    destruct (guard st) as [[|]|] eqn:Eg; [|apply OUT; auto; lia|exact I].
    specialize (HB st HK Hw Eg). destruct (body st) as [st'|l' st'|ok st'|x|x]; try exact I.
    - destruct HB as (Hw' & Hl & B1 & B2). apply IH; try assumption; lia.
    - destruct HB as (Hw' & B1 & B2). destruct (l' =? l).
      + apply OUT; auto; lia.
      + cbn [cpost]. destruct cred; cbn [Z.b2z]; split; lia.
    - destruct HB as (B1 & B2). cbn [cpost]. destruct cred; cbn [Z.b2z]; split; lia.
  Qed.

  Lemma cost_mut :
    (forall s, stmt_claim s) /\
    (forall b cur A L st len0 oA oL qc qa,
       chkb ps cur b A = (oA, []) -> lchkb ps cur b A L = (oL, true) ->
       sat len0 A (sw st) (senv st) -> wlen (sw st) <= K -> ginv L (sw st) (senv st) qc qa -> block_size b <= S ->
       cpost (scost st + pot D L (sw st) qc + block_size b) (salloc st + pot D L (sw st) qa + block_size b) oL
             (exb rd callf lfuel b st)) /\
    (forall cs cur e A L st len0 oA oL qc qa v,
       chkc ps cur e cs A = (oA, []) -> lchkc ps cur e cs A L = (oL, true) ->
       sat len0 A (sw st) (senv st) -> wlen (sw st) <= K -> ginv L (sw st) (senv st) qc qa -> cases_size cs <= S ->
       eval rd e (sw st) (senv st) = Some v ->
       match exc rd callf lfuel cs v st with
       | Some r => cpost (scost st + pot D L (sw st) qc + cases_size cs) (salloc st + pot D L (sw st) qa + cases_size cs) oL r
       | None => True
       end).
  Proof.
    destruct (sound_mut rd ps callf K lfuel Hcall_ok Hfuel) as (SNDs & SNDb & SNDc).
    destruct sizes_nonneg as (SZs & SZb & SZc). pose proof D_pos as HDp.
    apply ir_mutind.
    - apply claim_SLet.
    - apply claim_SEval.
    - apply claim_SReslice.
    - apply claim_SRet.
    - apply claim_SRet.
    - (* SIf *)
      intros site c t IHt e IHe cur A L st len0 oA oL qc qa H HL St HK G HSz.
      rewrite chk_SIf in H. cbv zeta in H.
      remember (cond_fails A site c) as f0 eqn:F. symmetry in F.
      destruct f0 as [|x0 f0']; [|cbn [app] in H; inversion H].
      cbn [after_fails isnil app] in H.
      destruct (chkb ps cur t (assume c true A)) as [o1 f1] eqn:E1.
      destruct (chkb ps cur e (assume c false A)) as [o2 f2] eqn:E2.
      cbn [fst snd] in H. injection H as HoA HF. apply app_eq_nil in HF. destruct HF as [HF1 HF2]. subst f1 f2.
      rewrite lchk_SIf in HL. cbv zeta in HL.
      destruct (lchkb ps cur t (assume c true A) L) as [l1 k1] eqn:M1.
      destruct (lchkb ps cur e (assume c false A) L) as [l2 k2] eqn:M2.
      cbn [fst snd] in HL. injection HL as HoL Hok. apply andb_true_iff in Hok. destruct Hok; subst k1 k2 oL.
      rewrite ex_SIf. cbn [tick sw senv].
      destruct (evalc rd c (sw st) (senv st)) as [[|]|] eqn:Ec; [| |exact I].
      + apply cpost_join_l. cbn [stmt_size] in *. pose proof (SZb t). pose proof (SZb e).
        eapply cpost_mono; [eapply (IHt cur _ L (tick st) len0 o1 l1 qc qa E1 M1)|..]; cbn [tick sw senv scost salloc]; try assumption; try lia.
        apply (assume_sound rd); assumption.
      + apply cpost_join_r. cbn [stmt_size] in *. pose proof (SZb t). pose proof (SZb e).
        eapply cpost_mono; [eapply (IHe cur _ L (tick st) len0 o2 l2 qc qa E2 M2)|..]; cbn [tick sw senv scost salloc]; try assumption; try lia.
        apply (assume_sound rd); assumption.
    - (* SSwitch *)
      intros site e cs IHc d IHd cur A L st len0 oA oL qc qa H HL St HK G HSz.
      rewrite chk_SSwitch in H. cbv zeta in H.
      destruct (chkc ps cur e cs A) as [o1 f1] eqn:E1.
      destruct (chkb ps cur d A) as [o2 f2] eqn:E2.
      cbn [fst snd] in H. injection H as HoA HF.
      apply app_eq_nil in HF. destruct HF as [F HF]. apply app_eq_nil in HF. destruct HF as [HF1 HF2]. subst f1 f2.
      rewrite lchk_SSwitch in HL. cbv zeta in HL.
      destruct (lchkc ps cur e cs A L) as [l1 k1] eqn:M1.
      destruct (lchkb ps cur d A L) as [l2 k2] eqn:M2.
      cbn [fst snd] in HL. injection HL as HoL Hok. apply andb_true_iff in Hok. destruct Hok; subst k1 k2 oL.
      rewrite ex_SSwitch. cbn [tick sw senv].
      destruct (eval rd e (sw st) (senv st)) as [v|] eqn:Ev; [|exact I].
      cbn [stmt_size] in *. pose proof (SZc cs). pose proof (SZb d).
      pose proof (IHc cur e A L (tick st) len0 o1 l1 qc qa v E1 M1) as P. cbn [tick sw senv scost salloc] in P.
      specialize (P St HK G ltac:(lia) Ev).
      destruct (exc rd callf lfuel cs v (tick st)) as [r|].
      + apply cpost_join_l. eapply cpost_mono; [exact P|lia|lia].
      + apply cpost_join_r.
        eapply cpost_mono; [eapply (IHd cur A L (tick st) len0 o2 l2 qc qa E2 M2)|..]; cbn [tick sw senv scost salloc]; try assumption; try lia.
    - (* SLoop *)
      intros site l c body IHb cur A L st len0 oA oL qc qa H HL St HK G HSz.
      rewrite chk_SLoop in H. cbv zeta in H.
      destruct (chkb ps (Some l) body (assume c true top)) as [o1 f1] eqn:E1. cbn [fst snd] in H.
      injection H as HoA HF.
      apply app_eq_nil in HF. destruct HF as [F HF]. apply app_eq_nil in HF. destruct HF as [HF1 F2]. subst f1.
      rewrite lchk_SLoop in HL. cbv zeta in HL.
      destruct (lchkb ps (Some l) body (assume c true top) L0) as [l1 k1] eqn:M1. cbn [fst snd] in HL.
      injection HL as HoL Hok. subst oL.
      apply andb_true_iff in Hok. destruct Hok as [Hok O5]. apply andb_true_iff in Hok. destruct Hok as [Hok O4].
      apply andb_true_iff in Hok. destruct Hok as [Hok O3]. apply andb_true_iff in Hok. destruct Hok as [O1 O2]. subst k1.
      destruct G as (G1 & G2 & G3 & G4).
      pose proof (isP0_means _ _ _ O2 G3) as Z1. pose proof (isP0_means _ _ _ O3 G4) as Z2. subst qc qa.
      rewrite ex_SLoop. cbn [stmt_size] in *. pose proof (SZb body) as HSb.
      pose proof St as (Hw & _).
      eapply cpost_mono;
        [eapply (loop_cost _ _ site l (block_size body) (scost st + 1 + 2 * D * wlen (sw st)) (salloc st + 2 * D * wlen (sw st)) (lcred L))|..].
      + exact HSb.
      + lia.
      + intros st' HK' Hw' Eg.
        assert (St' : sat (wlen (sw st')) (assume c true top) (sw st') (senv st')).
        { apply (assume_sound rd); [|exact Eg]. apply sat_top; [assumption|lia]. }
        pose proof (SNDb body (Some l) _ (tick st') (wlen (sw st')) o1 E1 St' HK') as PS.
        pose proof (IHb (Some l) _ L0 (tick st') (wlen (sw st')) o1 l1 0 0 E1 M1 St' HK') as PC.
        cbn [tick sw senv scost salloc] in PS, PC.
        assert (G0 : ginv L0 (sw st') (senv st') 0 0).
        { unfold wfw in Hw'. unfold L0. ginv_split; cbn [pmeans]; lia. }
        specialize (PC G0 ltac:(lia)).
        destruct (exb rd callf lfuel body (tick st')) as [s2|l2 s2|ok s2|x|x]; cbn [post cpost] in PS, PC; try exact I.
        * destruct PS as (A1 & EA & (Hw2 & _) & Hl2).
          destruct PC as (Lb & q1 & q2 & EL & (GG1 & GG2 & GG3 & GG4) & C1 & C2). subst l1.
          apply andb_true_iff in O5. destruct O5 as [O5 O8]. apply andb_true_iff in O5. destruct O5 as [O6 O7].
          pose proof (isP0_means _ _ _ O6 GG3). pose proof (isP0_means _ _ _ O7 GG4). subst q1 q2.
          unfold pot in C1, C2. rewrite O8 in C1, C2. unfold L0 in C1, C2. cbn [lcred Z.b2z] in C1, C2.
          split; [assumption|]. split; [lia|]. split; lia.
        * destruct PS as (_ & Hw2 & _). destruct PC as (C1 & C2).
          unfold pot, L0 in C1, C2. cbn [lcred Z.b2z] in C1, C2. split; [assumption|]. split; lia.
        * destruct PC as (C1 & C2). unfold pot, L0 in C1, C2. cbn [lcred Z.b2z] in C1, C2. split; lia.
      + cbn [tick sw]. exact HK.
      + cbn [tick sw]. exact Hw.
      + cbn [tick sw scost]. lia.
      + cbn [tick sw salloc]. lia.
      + unfold pot. lia.
      + unfold pot. lia.
    - apply claim_SBreak.
    - apply claim_SCall.
    - apply claim_SAlloc.
    - apply claim_SAllocObj.
    - apply claim_SCopy.
    - apply claim_SCopyLoop.
    - apply claim_SStr.
    - (* SWrite *) intros site cur A L st len0 oA oL qc qa H. cbn [chk] in H. inversion H.
    - (* SUnknown *) intros site cur A L st len0 oA oL qc qa H. cbn [chk] in H. inversion H.
    - (* BNil *)
      intros cur A L st len0 oA oL qc qa H HL St HK G HSz. cbn [lchkb] in HL. injection HL as HoL. subst oL.
      cbn [exb cpost block_size]. exists L, qc, qa. split; [reflexivity|]. split; [exact G|]. split; lia.
    - (* BCons *)
      intros s IHs r IHr cur A L st len0 oA oL qc qa H HL St HK G HSz.
      rewrite chkb_BCons in H. cbv zeta in H.
      destruct (chk ps cur s A) as [o1 f1] eqn:E1. cbn [fst snd] in H.
      rewrite lchkb_BCons in HL. cbv zeta in HL. rewrite E1 in HL. cbn [fst] in HL.
      destruct (lchk ps cur s A L) as [l1 k1] eqn:M1. cbn [fst snd] in HL.
      rewrite exb_BCons. cbn [block_size] in *. pose proof (SZs s). pose proof (SZb r).
      destruct o1 as [A1|].
      + destruct (chkb ps cur r A1) as [o2 f2] eqn:E2. cbn [fst snd] in H. injection H as HoA HF.
        apply app_eq_nil in HF. destruct HF as [HF1 HF2]. subst f1 f2.
        pose proof (SNDs s cur A (tick st) len0 (Some A1) E1 St HK) as PS. cbn [tick sw senv] in PS.
        destruct l1 as [L1|].
        * destruct (lchkb ps cur r A1 L1) as [l2 k2] eqn:M2. cbn [fst snd] in HL. injection HL as HoL Hok.
          apply andb_true_iff in Hok. destruct Hok; subst k1 k2 oL.
          pose proof (IHs cur A L st len0 (Some A1) (Some L1) qc qa E1 M1 St HK G ltac:(lia)) as PC.
          destruct (ex rd callf lfuel s (tick st)) as [s2|l2' s2|ok s2|x|x]; cbn [post cpost] in PS, PC; try exact I.
          -- destruct PS as (A' & EA & St2 & Hl2). inversion EA; subst A'.
             destruct PC as (L' & q1 & q2 & EL & GG & C1 & C2). inversion EL; subst L'.
             eapply cpost_mono; [eapply (IHr cur A1 L1 s2 len0 o2 l2 q1 q2 E2 M2 St2)|..]; try assumption; try lia.
          -- cbn [cpost]. lia.
          -- cbn [cpost]. lia.
        * injection HL as HoL Hok. subst k1 oL.
          pose proof (IHs cur A L st len0 (Some A1) None qc qa E1 M1 St HK G ltac:(lia)) as PC.
          destruct (ex rd callf lfuel s (tick st)) as [s2|l2' s2|ok s2|x|x]; cbn [post cpost] in PS, PC; try exact I.
          -- destruct PC as (L' & q1 & q2 & EL & _). discriminate.
          -- cbn [cpost]. lia.
          -- cbn [cpost]. lia.
      + injection H as HoA HF. subst f1. injection HL as HoL Hok. subst k1 oL.
        pose proof (SNDs s cur A (tick st) len0 None E1 St HK) as PS.
        pose proof (IHs cur A L st len0 None l1 qc qa E1 M1 St HK G ltac:(lia)) as PC.
        destruct (ex rd callf lfuel s (tick st)) as [s2|l2' s2|ok s2|x|x]; cbn [post cpost] in PS, PC; try exact I.
        * destruct PS as (A' & EA & _). discriminate.
        * cbn [cpost]. lia.
        * cbn [cpost]. lia.
    - (* CNil *) intros; cbn [exc]; exact I.
    - (* CCons *)
      intros u b IHb r IHr cur e A L st len0 oA oL qc qa v H HL St HK G HSz Ev.
      rewrite chkc_CCons in H. cbv zeta in H.
      destruct (chkb ps cur b (learn_case A e u)) as [o1 f1] eqn:E1.
      destruct (chkc ps cur e r A) as [o2 f2] eqn:E2. cbn [fst snd] in H. injection H as HoA HF.
      apply app_eq_nil in HF. destruct HF as [HF1 HF2]. subst f1 f2.
      rewrite lchkc_CCons in HL. cbv zeta in HL.
      destruct (lchkb ps cur b (learn_case A e u) L) as [l1 k1] eqn:M1.
      destruct (lchkc ps cur e r A L) as [l2 k2] eqn:M2.
      cbn [fst snd] in HL. injection HL as HoL Hok. apply andb_true_iff in Hok. destruct Hok; subst k1 k2 oL.
      rewrite exc_CCons. cbn [cases_size] in *. pose proof (SZb b). pose proof (SZc r).
      destruct (Z.eqb_spec v u).
      + subst. apply cpost_join_l.
        eapply cpost_mono; [eapply (IHb cur _ L st len0 o1 l1 qc qa E1 M1)|..]; try assumption; try lia.
        apply (learn_case_sound rd); assumption.
      + pose proof (IHr cur e A L st len0 o2 l2 qc qa v E2 M2 St HK G ltac:(lia) Ev) as P.
        destruct (exc rd callf lfuel r v st); [|exact I].
        apply cpost_join_r. eapply cpost_mono; [exact P|lia|lia].
  Qed.
End Amortised.

(* ------------------------------------------------------------------ whole programs *)
Lemma size_nonneg : forall ps, 0 <= size ps.
Proof. induction ps as [|[f b] r IH]; simpl; lia. Qed.

Lemma size_lookup : forall ps f b, lookup ps f = Some b -> block_size b <= size ps.
Proof.
  induction ps as [|[g c] r IH]; simpl; intros f b H; [discriminate|].
  destruct (Z.eqb_spec f g).
  - inversion H; subst. lia.
  - specialize (IH f b H). lia.
Qed.

Lemma all_linear_safe : forall ps, all_linear ps = true -> all_safe ps = true.
Proof. intros ps H. unfold all_linear in H. apply andb_true_iff in H. tauto. Qed.

Lemma all_linear_lookup : forall ps f b, all_linear ps = true -> lookup ps f = Some b -> linear_prog ps b = true.
Proof.
  intros ps f b H L. unfold all_linear in H. apply andb_true_iff in H. destruct H as [_ H].
  rewrite forallb_forall in H. apply (H (f, b)). eapply lookup_in; eauto.
Qed.

Theorem all_linear_run_bound : forall rd ps, all_linear ps = true ->
  forall fuel f w c a, known_fn ps f = true -> wfw w -> Z.of_nat fuel > wlen w ->
    match run rd ps fuel f w c a with
    | FRet _ st => scost st <= c + coef ps * wlen w + size ps /\ salloc st <= a + coef ps * wlen w + size ps
    | _ => False
    end.
Proof.
  intros rd ps HL. pose proof (all_linear_safe ps HL) as HS. pose proof (size_nonneg ps) as HSz.
  induction fuel as [|k IH]; intros f w c a Hf Hw Hn.
  - unfold wfw in Hw. lia.
  - cbn [run]. unfold known_fn in Hf. destruct (lookup ps f) as [b|] eqn:L; [|discriminate].
    pose proof (all_safe_lookup ps f b HS L) as SP. unfold safe_prog in SP.
    apply andb_true_iff in SP. destruct SP as [SP _].
    unfold unsafe_sites in SP. destruct (chkb ps None b top) as [oA fs] eqn:E. cbn [snd] in SP.
    destruct fs; [|discriminate].
    pose proof (all_linear_lookup ps f b HL L) as LP. unfold linear_prog in LP.
    destruct (lchkb ps None b top L0) as [oL k1] eqn:M. cbn [snd] in LP. subst k1.
    assert (Hcall : forall f w c a, known_fn ps f = true -> wfw w -> wlen w < Z.of_nat k ->
              match run rd ps k f w c a with
              | FRet _ st' => scost st' <= c + 2 * (size ps + 1) * wlen w + size ps /\
                              salloc st' <= a + 2 * (size ps + 1) * wlen w + size ps
              | _ => False
              end).
    { intros f' w' c' a' H1 H2 H3. specialize (IH f' w' c' a' H1 H2 ltac:(lia)). unfold coef in IH. exact IH. }
    assert (Hfuel : Z.of_nat k < Z.of_nat (S k)) by lia.
    destruct (cost_mut rd ps (run rd ps k) (Z.of_nat k) (S k) (size ps) (size ps + 1) HSz eq_refl Hcall Hfuel) as (_ & CB & _).
    destruct (sound_mut rd ps (run rd ps k) (Z.of_nat k) (S k)
                (Hcall_ok ps (run rd ps k) (Z.of_nat k) (size ps) (size ps + 1) Hcall) Hfuel) as (_ & SB & _).
    pose proof (sat_top w nil (wlen w) Hw ltac:(lia)) as St.
    specialize (SB b None top (mkSt w nil c a) (wlen w) oA E St ltac:(cbn [sw]; lia)).
    assert (G : ginv L0 w nil 0 0).
    { unfold wfw in Hw. unfold ginv, L0; cbn [lpc lpa pmeans]. repeat split; lia. }
    specialize (CB b None top L0 (mkSt w nil c a) (wlen w) oA oL 0 0 E M St ltac:(cbn [sw]; lia) G (size_lookup ps f b L)).
    cbn [sw senv scost salloc] in SB, CB. unfold pot, L0 in CB. cbn [lcred Z.b2z] in CB.
    pose proof (size_lookup ps f b L) as Hb. unfold coef.
    destruct (exb rd (run rd ps k) (S k) b (mkSt w nil c a)) as [st'|l' st'|ok st'|s|s]; cbn [post cpost] in SB, CB; try contradiction.
    + destruct CB as (L' & qc & qa & _ & (G1 & G2 & _) & C1 & C2). unfold pot in C1, C2.
      assert (0 <= (size ps + 1) * (2 * wlen (sw st') - qc)) by nia.
      assert (0 <= (size ps + 1) * (2 * wlen (sw st') - qa)) by nia.
      assert (0 <= (size ps + 1) * Z.b2z (lcred L')) by (destruct (lcred L'); simpl; lia).
      split; lia.
    + destruct SB as (SB & _). discriminate.
    + destruct CB as (C1 & C2). split; lia.
Qed.

(* the statement in the shape of the property: every decoder, every input, every window, every fuel > len *)
Definition decoders_linear (ps : programs) : Prop :=
  forall f body, lookup ps f = Some body ->
  forall (rd : Z -> Z) (w : window) (fuel : nat) (c a : Z),
    0 <= wlen w <= wcap w -> Z.of_nat fuel > wlen w ->
    exists ok st, run rd ps fuel f w c a = FRet ok st
                  /\ scost st - c <= coef ps * wlen w + size ps
                  /\ salloc st - a <= coef ps * wlen w + size ps.

Theorem linear_sound : forall ps, all_linear ps = true -> decoders_linear ps.
Proof.
  intros ps HL f body L rd w fuel c a Hw Hn.
  assert (Hf : known_fn ps f = true) by (unfold known_fn; now rewrite L).
  pose proof (all_linear_run_bound rd ps HL fuel f w c a Hf Hw Hn) as R.
  destruct (run rd ps fuel f w c a) as [st|l st|ok st|s|s]; try contradiction.
  exists ok, st. split; [reflexivity|]. lia.
Qed.

(* ------------------------------------------------------------------ message-level entry points *)
Lemma entry_guard_bound : forall g n, entry_ok g = true -> cmp_eval (fst g) n (snd g) = false -> n <= snd g.
Proof.
  intros [op lim] n H E. unfold entry_ok in H. cbn [fst snd] in *.
  destruct op; try discriminate; cbn [cmp_eval] in E; lia.
Qed.

Lemma entry_limit_ge : forall gs g, In g gs -> snd g <= entry_limit gs.
Proof.
  induction gs as [|h r IH]; intros g I; [contradiction|]. cbn [entry_limit fold_right].
  destruct I as [->|I]; [lia|]. specialize (IH g I). unfold entry_limit in IH. lia.
Qed.

(* buffering n declared bytes behind an accepted guard and then decoding them with a decoder of a linear table:
   total allocation <= n + coef*n + size with n <= the guard's constant *)
Theorem entry_alloc_bound : forall ps gs unguarded, all_linear ps = true -> entries_ok gs unguarded = true ->
  forall g, In g gs -> forall n, 0 <= n -> cmp_eval (fst g) n (snd g) = false ->
  forall f body, lookup ps f = Some body -> forall bs : list Z, Z.of_nat (length bs) = n ->
    exists ok st, decode ps f bs = FRet ok st /\
      n + salloc st <= (coef ps + 1) * entry_limit gs + size ps /\
      scost st <= coef ps * entry_limit gs + size ps.
Proof.
  intros ps gs u HL HE g I n Hn E f body L bs Hlen.
  unfold entries_ok in HE. apply andb_true_iff in HE. destruct HE as [HE _].
  rewrite forallb_forall in HE. pose proof (entry_guard_bound g n (HE g I) E) as B.
  pose proof (entry_limit_ge gs g I) as B2.
  unfold decode, run_top.
  destruct (linear_sound ps HL f body L (rd_of bs) (mkW 0 (Z.of_nat (length bs)) (Z.of_nat (length bs)))
              (S (length bs)) 0 0) as (ok & st & R & C1 & C2).
  - cbn [wlen wcap]. lia.
  - cbn [wlen]. lia.
  - exists ok, st. split; [exact R|]. cbn [wlen] in C1, C2.
    assert (0 <= coef ps) by (unfold coef; pose proof (size_nonneg ps); lia).
    split; nia.
Qed.
