(* Safety checker for the decoder IR: an abstract interpreter.
   Abstract state: a proven lower bound `known` on len(data), a flag `prog` ("len(data) has strictly
   decreased since the start of the current loop body"), and facts about variables:
     FLo x c : c <= x        FHi x c : x <= c        FRel x a c : a*x + c <= len(data)
     FCond x c k : x > c -> k <= len(data)      (made where two branches join: one bounded x by c, the other proved len >= k)
   chk returns the abstract state after the statement (None: control never falls through) and the list
   of unproved requirements (site, code, need, have).  safe_prog ps p = true iff that list is empty.
   Codes: 1 need len(data) >= need (have: known)     2 need a bound on a variable-dependent index
          3 need a non-negative index/size           4 call/string: need lo <= hi
          5 call/string: need hi <= len(data)        6 loop body may fall through without consuming a byte
          7 call: need lo >= 1 (callee gets a strictly smaller window)
          8 unknown callee    9 break to a label that is not the innermost loop
         10 write through data    11 untranslated function    12 copy loop reads not covered by the count check
   No proofs in this file. *)
From Coq Require Import ZArith List Bool.
From LLRP Require Import DecIR.IR.
Import ListNotations.
Open Scope Z_scope.

Inductive fact : Type := FLo (x c : Z) | FHi (x c : Z) | FRel (x a c : Z) | FCond (x c k : Z).
Record astate : Type := mkA { known : Z; prog : bool; facts : list fact }.
Definition fail : Type := (Z * Z * Z * Z)%type.   (* site, code, need, have *)

Definition fact_var (f : fact) : Z := match f with FLo x _ | FHi x _ | FRel x _ _ | FCond x _ _ => x end.
Definition fact_eqb (f g : fact) : bool :=
  match f, g with
  | FLo x c, FLo y d | FHi x c, FHi y d => (x =? y) && (c =? d)
  | FRel x a c, FRel y b d | FCond x a c, FCond y b d => (x =? y) && (a =? b) && (c =? d)
  | _, _ => false
  end.
Definition is_rel (f : fact) : bool := match f with FRel _ _ _ | FCond _ _ _ => true | _ => false end.

Definition omax (a : option Z) (b : Z) : option Z := match a with Some x => Some (Z.max x b) | None => Some b end.
Definition omin (a : option Z) (b : Z) : option Z := match a with Some x => Some (Z.min x b) | None => Some b end.

Fixpoint lo_of (fs : list fact) (x : Z) : option Z :=
  match fs with
  | nil => None
  | FLo y c :: r => if x =? y then omax (lo_of r x) c else lo_of r x
  | _ :: r => lo_of r x
  end.
Fixpoint hi_of (fs : list fact) (x : Z) : option Z :=
  match fs with
  | nil => None
  | FHi y c :: r => if x =? y then omin (hi_of r x) c else hi_of r x
  | _ :: r => hi_of r x
  end.

Definition oadd (a b : option Z) : option Z := match a, b with Some x, Some y => Some (x + y) | _, _ => None end.
Definition osub (a b : option Z) : option Z := match a, b with Some x, Some y => Some (x - y) | _, _ => None end.
Definition omap (f : Z -> Z) (a : option Z) : option Z := match a with Some x => Some (f x) | None => None end.

Definition rd_max (k : Z) : Z := Z.pow 256 (Z.of_nat (Z.to_nat k)) - 1.

(* interval of an expression: (lower, upper), None = unbounded *)
Fixpoint range (A : astate) (e : expr) : option Z * option Z :=
  match e with
  | EConst z => (Some z, Some z)
  | EVar x => (lo_of (facts A) x, hi_of (facts A) x)
  | ELen => (Some (known A), None)
  | ELenFrom a => (Some (match snd (range A a) with Some h => Z.max 0 (known A - h) | None => 0 end), None)
  | ERd k _ => (Some 0, Some (rd_max k))
  | EAdd a b => (oadd (fst (range A a)) (fst (range A b)), oadd (snd (range A a)) (snd (range A b)))
  | ESub a b => (osub (fst (range A a)) (snd (range A b)), osub (snd (range A a)) (fst (range A b)))
  | EMul a b => match b with
                | EConst k => if 0 <=? k then (omap (fun x => x * k) (fst (range A a)), omap (fun x => x * k) (snd (range A a)))
                              else (None, None)
                | _ => (None, None)
                end
  | EShr a n => if 0 <=? n then (omap (fun x => Z.shiftr x n) (fst (range A a)), omap (fun x => Z.shiftr x n) (snd (range A a)))
                else (None, None)
  | EAnd a m => if 0 <=? m then (Some 0, Some m) else (None, None)
  end.

Definition lower (A : astate) (e : expr) : option Z := fst (range A e).
Definition upper (A : astate) (e : expr) : option Z := snd (range A e).

(* e = a * x + c *)
Fixpoint lin (e : expr) : option (Z * Z * Z) :=
  match e with
  | EVar x => Some (x, 1, 0)
  | EMul (EVar x) (EConst a) => Some (x, a, 0)
  | EAdd a (EConst c) => match lin a with Some (x, k, c0) => Some (x, k, c0 + c) | None => None end
  | _ => None
  end.

Definition has_rel (fs : list fact) (x a c : Z) : bool :=
  existsb (fun f => match f with FRel y b d => (y =? x) && (b =? a) && (c <=? d) | _ => false end) fs.

(* eval e + c <= len(data) *)
Definition prove_le_len (A : astate) (e : expr) (c : Z) : bool :=
  (match upper A e with Some u => u + c <=? known A | None => false end)
  || (match lin e with Some (x, a, c0) => has_rel (facts A) x a (c0 + c) | None => false end).

Definition nonneg (A : astate) (e : expr) : bool :=
  match lower A e with Some l => 0 <=? l | None => false end.
Definition ge1 (A : astate) (e : expr) : bool :=
  match lower A e with Some l => 1 <=? l | None => false end.
Definition le_expr (A : astate) (a b : expr) : bool :=
  match upper A a, lower A b with Some u, Some l => u <=? l | _, _ => false end.

Definition req (b : bool) (f : fail) : list fail := if b then [] else [f].
Definition oz (o : option Z) : Z := match o with Some z => z | None => -1 end.
Definition len_fail (A : astate) (site : Z) (e : expr) (c : Z) : fail :=
  match upper A e with Some u => (site, 1, u + c, known A) | None => (site, 2, c, known A) end.

Fixpoint expr_fails (A : astate) (site : Z) (e : expr) : list fail :=
  match e with
  | EConst _ | EVar _ | ELen => []
  | ELenFrom a => expr_fails A site a ++ req (nonneg A a) (site, 3, 0, oz (lower A a)) ++ req (prove_le_len A a 0) (len_fail A site a 0)
  | ERd k a => expr_fails A site a ++ req (nonneg A a) (site, 3, 0, oz (lower A a)) ++ req (prove_le_len A a k) (len_fail A site a k)
  | EAdd a b | ESub a b | EMul a b => expr_fails A site a ++ expr_fails A site b
  | EShr a _ | EAnd a _ => expr_fails A site a
  end.

Definition cond_fails (A : astate) (site : Z) (c : cond) : list fail :=
  match c with CCmp _ a b => expr_fails A site a ++ expr_fails A site b end.

(* ---- learning from branch conditions *)
Definition add_fact (A : astate) (f : fact) : astate := mkA (known A) (prog A) (f :: facts A).
Definition set_known (A : astate) (k : Z) : astate := mkA k (prog A) (facts A).

Definition learn_len (A : astate) (a : expr) (s p : Z) : astate :=      (* a + s <= len - p *)
  let A1 := match lower A a with Some l => set_known A (Z.max (known A) (l + s + p)) | None => A end in
  match lin a with Some (x, k, c0) => add_fact A1 (FRel x k (c0 + s + p)) | None => A1 end.

Definition learn_le (A : astate) (a b : expr) (s : Z) : astate :=        (* a + s <= b *)
  let A1 := match b with
            | ELen => learn_len A a s 0
            | ELenFrom (EConst p) => learn_len A a s p
            | _ => A
            end in
  let A2 := match b, lower A a with EVar x, Some l => add_fact A1 (FLo x (l + s)) | _, _ => A1 end in
  match a, upper A b with EVar y, Some u => add_fact A2 (FHi y (u - s)) | _, _ => A2 end.

(* known := max over FRel x a c (a >= 0) with a lower bound l of x: a*l + c *)
Fixpoint derive (all fs : list fact) (k : Z) : Z :=
  match fs with
  | nil => k
  | FRel x a c :: r =>
      derive all r (match lo_of all x with Some l => if 0 <=? a then Z.max k (a * l + c) else k | None => k end)
  | _ :: r => derive all r k
  end.
Definition derive_known (A : astate) : astate := set_known A (derive (facts A) (facts A) (known A)).

(* a <> b where b is the constant c and c is the proven lower bound of a: a >= c+1 *)
Definition learn_ne (A : astate) (a b : expr) : astate :=
  match b with
  | EConst c =>
      match a with
      | ELen => if known A =? c then set_known A (c + 1) else A
      | EVar x => match lo_of (facts A) x with Some l => if l =? c then add_fact A (FLo x (c + 1)) else A | None => A end
      | _ => A
      end
  | _ => A
  end.

Definition assume (c : cond) (pol : bool) (A : astate) : astate :=
  derive_known
  match c with
  | CCmp op a b =>
      match op, pol with
      | CLt, true | CGe, false => learn_le A a b 1
      | CLe, true | CGt, false => learn_le A a b 0
      | CGt, true | CLe, false => learn_le A b a 1
      | CGe, true | CLt, false => learn_le A b a 0
      | CEq, true | CNe, false => learn_le (learn_le A a b 0) b a 0
      | CEq, false | CNe, true => learn_ne A a b
      end
  end.

(* ---- abstract transfer *)
Definition kill (x : Z) (A : astate) : astate :=
  mkA (known A) (prog A) (filter (fun f => negb (fact_var f =? x)) (facts A)).

Definition let_state (A : astate) (x : Z) (e : expr) : astate :=
  let l := lower A e in let u := upper A e in
  let A1 := kill x A in
  let A2 := match l with Some c => add_fact A1 (FLo x c) | None => A1 end in
  match u with Some c => add_fact A2 (FHi x c) | None => A2 end.

Definition reslice_state (A : astate) (e : expr) : astate :=
  mkA (match upper A e with Some u => Z.max 0 (known A - u) | None => 0 end)
      (prog A || ge1 A e)
      (filter (fun f => negb (is_rel f)) (facts A)).

(* facts FCond x c k for every upper bound x <= c of the side that has the smaller `known`, k the other side's *)
Fixpoint conds (fs : list fact) (k : Z) : list fact :=
  match fs with
  | nil => nil
  | FHi x c :: r => FCond x c k :: conds r k
  | _ :: r => conds r k
  end.

Definition join (o1 o2 : option astate) : option astate :=
  match o1, o2 with
  | None, o | o, None => o
  | Some a, Some b => Some (mkA (Z.min (known a) (known b)) (prog a && prog b)
                                ((if known a <? known b then conds (facts a) (known b) else nil)
                                 ++ (if known b <? known a then conds (facts b) (known a) else nil)
                                 ++ filter (fun f => existsb (fact_eqb f) (facts b)) (facts a)))
  end.

(* entering `case v` of `switch e`: e = v *)
Fixpoint case_known (fs : list fact) (x v k : Z) : Z :=
  match fs with
  | nil => k
  | FCond y c n :: r => case_known r x v (if (y =? x) && (c <? v) then Z.max k n else k)
  | _ :: r => case_known r x v k
  end.
Definition learn_case (A : astate) (e : expr) (v : Z) : astate :=
  match e with
  | EVar x => set_known A (case_known (facts A) x v (known A))
  | _ => A
  end.

Definition top : astate := mkA 0 false [].

(* after an unproved requirement, continue as if it held (Go would have panicked otherwise): avoids
   reporting the same missing check at every later statement.  Only used when the fail list is non-empty. *)
Fixpoint need_len (A : astate) (e : expr) : Z :=
  match e with
  | ELenFrom a => Z.max (need_len A a) (oz (upper A a))
  | ERd k a => Z.max (need_len A a) (match upper A a with Some u => u + k | None => 0 end)
  | EAdd a b | ESub a b | EMul a b => Z.max (need_len A a) (need_len A b)
  | EShr a _ | EAnd a _ => need_len A a
  | _ => 0
  end.
Definition bump (A : astate) (n : Z) : astate := set_known A (Z.max (known A) n).
Definition isnil {T} (l : list T) : bool := match l with nil => true | _ => false end.
Definition after_fails (fs : list fail) (A : astate) (n : Z) : astate := if isnil fs then A else bump A n.

Definition copyloop_ok (A : astate) (n : expr) (at_ step k : Z) : bool :=
  (0 <=? at_) && (0 <=? step) &&
  ((match upper A n with Some u => (u <=? 0) || (at_ + (u - 1) * step + k <=? known A) | None => false end)
   || (match n with
       | EVar x => existsb (fun f => match f with FRel y a c => (y =? x) && (step <=? a) && (at_ + k - step <=? c) | _ => false end) (facts A)
       | _ => false
       end)).

Section Check.
  Variable ps : programs.

  Definition known_fn (f : Z) : bool := match lookup ps f with Some _ => true | None => false end.

  Fixpoint chk (cur : option Z) (s : stmt) (A : astate) {struct s} : option astate * list fail :=
    match s with
    | SLet site x e =>
        let f := expr_fails A site e in (Some (let_state (after_fails f A (need_len A e)) x e), f)
    | SEval site e =>
        let f := expr_fails A site e in (Some (after_fails f A (need_len A e)), f)
    | SReslice site e =>
        let f := expr_fails A site e ++ req (nonneg A e) (site, 3, 0, oz (lower A e))
                 ++ req (prove_le_len A e 0) (len_fail A site e 0) in
        (Some (reslice_state (after_fails f A (Z.max (need_len A e) (oz (upper A e)))) e), f)
    | SRetErr | SRetOk => (None, [])
    | SIf site c t e =>
        let f0 := cond_fails A site c in
        let A0 := after_fails f0 A (match c with CCmp _ a b => Z.max (need_len A a) (need_len A b) end) in
        let r1 := chkb cur t (assume c true A0) in
        let r2 := chkb cur e (assume c false A0) in
        (join (fst r1) (fst r2), f0 ++ snd r1 ++ snd r2)
    | SSwitch site e cs d =>
        let f0 := expr_fails A site e in
        let r1 := chkc cur e cs A in
        let r2 := chkb cur d A in
        (join (fst r1) (fst r2), f0 ++ snd r1 ++ snd r2)
    | SLoop site l c body =>
        let r := chkb (Some l) body (assume c true top) in
        (Some (mkA 0 (prog A) []),
         cond_fails top site c ++ snd r
         ++ match fst r with None => [] | Some A1 => req (prog A1) (site, 6, 0, 0) end)
    | SBreak l => (None, req (match cur with Some l' => l' =? l | None => false end) (l, 9, 0, 0))
    | SCall site f lo hi =>
        let f0 := expr_fails A site lo
                  ++ req (ge1 A lo) (site, 7, 1, oz (lower A lo))
                  ++ req (known_fn f) (site, 8, f, 0)
                  ++ match hi with
                     | Some h => expr_fails A site h
                                 ++ req (le_expr A lo h) (site, 4, oz (upper A lo), oz (lower A h))
                                 ++ req (prove_le_len A h 0) (len_fail A site h 0)
                     | None => req (prove_le_len A lo 0) (len_fail A site lo 0)
                     end in
        (Some (if isnil f0 then A else
               let A1 := bump A (match hi with Some h => oz (upper A h) | None => oz (upper A lo) end) in
               match hi, upper A lo with Some (EVar x), Some u => add_fact A1 (FLo x u) | _, _ => A1 end), f0)
    | SAlloc site n esz =>
        (Some A, expr_fails A site n ++ req (nonneg A n) (site, 3, 0, oz (lower A n)))
    | SAllocObj => (Some A, [])
    | SCopy site n at_ =>
        (Some A, expr_fails A site n ++ expr_fails A site at_ ++ req (nonneg A at_) (site, 3, 0, oz (lower A at_))
                 ++ req (prove_le_len A at_ 0) (len_fail A site at_ 0))
    | SCopyLoop site n at_ step k =>
        (Some A, expr_fails A site n ++ req (copyloop_ok A n at_ step k) (site, 12, at_ + k, known A))
    | SStr site lo hi =>
        (Some A, expr_fails A site lo ++ expr_fails A site hi ++ req (nonneg A lo) (site, 3, 0, oz (lower A lo))
                 ++ req (le_expr A lo hi) (site, 4, oz (upper A lo), oz (lower A hi))
                 ++ req (prove_le_len A hi 0) (len_fail A site hi 0))
    | SWrite site => (Some A, [(site, 10, 0, 0)])
    | SUnknown site => (None, [(site, 11, 0, 0)])
    end
  with chkb (cur : option Z) (b : block) (A : astate) {struct b} : option astate * list fail :=
    match b with
    | BNil => (Some A, [])
    | BCons s r =>
        let r1 := chk cur s A in
        match fst r1 with
        | None => (None, snd r1)          (* the rest is unreachable *)
        | Some A1 => let r2 := chkb cur r A1 in (fst r2, snd r1 ++ snd r2)
        end
    end
  with chkc (cur : option Z) (e : expr) (cs : cases) (A : astate) {struct cs} : option astate * list fail :=
    match cs with
    | CNil => (None, [])
    | CCons v b r =>
        let r1 := chkb cur b (learn_case A e v) in
        let r2 := chkc cur e r A in
        (join (fst r1) (fst r2), snd r1 ++ snd r2)
    end.

  Definition unsafe_sites (p : block) : list fail := snd (chkb None p top).
End Check.


(* purity, syntactically: SWrite is the only statement that stands for a store through data *)
Fixpoint writes_s (s : stmt) : bool :=
  match s with
  | SWrite _ | SUnknown _ => true
  | SIf _ _ t e => writes_b t || writes_b e
  | SSwitch _ _ cs d => writes_c cs || writes_b d
  | SLoop _ _ _ b => writes_b b
  | _ => false
  end
with writes_b (b : block) : bool := match b with BNil => false | BCons s r => writes_s s || writes_b r end
with writes_c (cs : cases) : bool := match cs with CNil => false | CCons _ b r => writes_b b || writes_c r end.

Definition safe_prog (ps : programs) (p : block) : bool := isnil (unsafe_sites ps p) && negb (writes_b p).
Definition all_safe (ps : programs) : bool := forallb (fun fp => safe_prog ps (snd fp)) ps.
Definition all_unsafe_sites (ps : programs) : list (Z * list fail) :=
  map (fun fp => (fst fp, unsafe_sites ps (snd fp))) ps.
