(* GoFn/IR.v — a small deep embedding of side-effect-free Go integer functions ("Way 1" tie of
   arithmetic models to the Go source: tools/go-fn-ir prints a [fn] from the Go AST on every
   run, the per-run obligation proves that its semantics IS the hand-written model function).

   What is embedded: parameters, receiver fields and locals of 64-bit integer types (int, int64,
   time.Duration, uint-free) and bool; + - * / << comparisons && || !; conversions between 64-bit
   integer types (transparent); one call rand.Int63n(e); if / else if / else, assignment,
   short variable declaration, `var x T`, return.  The translator refuses anything else.

   Semantics (Go spec, amd64): integer results wrap to int64 (two's complement); `/` truncates
   towards zero and panics on a zero divisor; `a << k` panics for k < 0 and loses the bits shifted
   out; && and || evaluate their right operand only when needed; rand.Int63n(n) panics for
   n <= 0 and otherwise returns the draw [r] (the caller of [run] states 0 <= r < n).
   A panic, an unbound variable, an ill-typed operation or falling off the end is [None]. *)
From Coq Require Import ZArith String List Bool.
Import ListNotations.
Open Scope Z_scope.

Definition g_two63 : Z := 9223372036854775808.
Definition g_two64 : Z := 18446744073709551616.
Definition g_wrap (x : Z) : Z := (x + g_two63) mod g_two64 - g_two63.

Inductive val := VI (z : Z) | VB (b : bool).

Inductive binop := OAdd | OSub | OMul | OQuo | OShl | OLe | OLt | OGe | OGt | OEq | ONe | OAnd | OOr.

Inductive expr :=
| EVar (x : string)
| EInt (z : Z)
| EBool (b : bool)
| EBin (o : binop) (a b : expr)
| ENot (a : expr)
| ERand (a : expr)
| EConv (a : expr).

Inductive stmt :=
| SSkip
| SSeq (a b : stmt)
| SIf (c : expr) (t e : stmt)
| SSet (x : string) (e : expr)
| SRet (e : expr).

Record fn := { fn_name : string; fn_params : list string; fn_body : stmt }.

Definition env := list (string * val).

Fixpoint lookup (x : string) (m : env) : option val :=
  match m with
  | [] => None
  | (y, v) :: r => if String.eqb y x then Some v else lookup x r
  end.

Definition arith (o : binop) (a b : Z) : option val :=
  match o with
  | OAdd => Some (VI (g_wrap (a + b)))
  | OSub => Some (VI (g_wrap (a - b)))
  | OMul => Some (VI (g_wrap (a * b)))
  | OQuo => if b =? 0 then None else Some (VI (g_wrap (Z.quot a b)))
  | OShl => if b <? 0 then None else Some (VI (g_wrap (a * 2 ^ b)))
  | OLe => Some (VB (a <=? b))
  | OLt => Some (VB (a <? b))
  | OGe => Some (VB (b <=? a))
  | OGt => Some (VB (b <? a))
  | OEq => Some (VB (a =? b))
  | ONe => Some (VB (negb (a =? b)))
  | OAnd | OOr => None
  end.

Fixpoint eval (m : env) (r : Z) (e : expr) : option val :=
  match e with
  | EVar x => lookup x m
  | EInt z => Some (VI z)
  | EBool b => Some (VB b)
  | EBin OAnd a b =>
      match eval m r a with
      | Some (VB true) => match eval m r b with Some (VB y) => Some (VB y) | _ => None end
      | Some (VB false) => Some (VB false)
      | _ => None
      end
  | EBin OOr a b =>
      match eval m r a with
      | Some (VB true) => Some (VB true)
      | Some (VB false) => match eval m r b with Some (VB y) => Some (VB y) | _ => None end
      | _ => None
      end
  | EBin o a b =>
      match eval m r a, eval m r b with
      | Some (VI x), Some (VI y) => arith o x y
      | Some (VB x), Some (VB y) =>
          match o with
          | OEq => Some (VB (Bool.eqb x y))
          | ONe => Some (VB (negb (Bool.eqb x y)))
          | _ => None
          end
      | _, _ => None
      end
  | ENot a => match eval m r a with Some (VB x) => Some (VB (negb x)) | _ => None end
  | ERand a => match eval m r a with
               | Some (VI n) => if n <=? 0 then None else Some (VI r)
               | _ => None
               end
  | EConv a => match eval m r a with Some (VI x) => Some (VI x) | _ => None end
  end.

Inductive outcome := Ret (v : val) | Cont (m : env).

Fixpoint exec (m : env) (r : Z) (s : stmt) : option outcome :=
  match s with
  | SSkip => Some (Cont m)
  | SSeq a b => match exec m r a with
                | Some (Cont m') => exec m' r b
                | o => o
                end
  | SIf c t e => match eval m r c with
                 | Some (VB true) => exec m r t
                 | Some (VB false) => exec m r e
                 | _ => None
                 end
  | SSet x e => match eval m r e with
                | Some v => Some (Cont ((x, v) :: m))
                | None => None
                end
  | SRet e => match eval m r e with Some v => Some (Ret v) | None => None end
  end.

(* run a function on arguments (in the order of fn_params) with draw [r]; the integer it returns *)
Definition run (f : fn) (args : list val) (r : Z) : option Z :=
  if negb (Nat.eqb (length args) (length (fn_params f))) then None
  else match exec (combine (fn_params f) args) r (fn_body f) with
       | Some (Ret (VI z)) => Some z
       | _ => None
       end.

(* ---- decidable syntactic equality (for diagnostics: which statement differs from the pinned text) *)
Definition binop_eqb (a b : binop) : bool :=
  match a, b with
  | OAdd, OAdd | OSub, OSub | OMul, OMul | OQuo, OQuo | OShl, OShl | OLe, OLe | OLt, OLt
  | OGe, OGe | OGt, OGt | OEq, OEq | ONe, ONe | OAnd, OAnd | OOr, OOr => true
  | _, _ => false
  end.

Fixpoint expr_eqb (a b : expr) : bool :=
  match a, b with
  | EVar x, EVar y => String.eqb x y
  | EInt x, EInt y => x =? y
  | EBool x, EBool y => Bool.eqb x y
  | EBin o a1 a2, EBin o' b1 b2 => binop_eqb o o' && expr_eqb a1 b1 && expr_eqb a2 b2
  | ENot a1, ENot b1 | ERand a1, ERand b1 | EConv a1, EConv b1 => expr_eqb a1 b1
  | _, _ => false
  end.

Fixpoint stmt_eqb (a b : stmt) : bool :=
  match a, b with
  | SSkip, SSkip => true
  | SSeq a1 a2, SSeq b1 b2 => stmt_eqb a1 b1 && stmt_eqb a2 b2
  | SIf c t e, SIf c' t' e' => expr_eqb c c' && stmt_eqb t t' && stmt_eqb e e'
  | SSet x e, SSet y e' => String.eqb x y && expr_eqb e e'
  | SRet e, SRet e' => expr_eqb e e'
  | _, _ => false
  end.
