(* GoFn/Tie.v — lemmas and tactics for per-run obligations "the translated Go function IS the
   model function" (symbolic execution of GoFn.IR programs: split on each integer comparison,
   remove int64 wraps that provably do nothing, close the leaves by reflexivity or lia).
   Imported only by generated obligation files (the [Arguments … : simpl never] below are global). *)
From Coq Require Import ZArith String List Bool Lia ZifyBool.
From LLRP Require Import GoFn.IR.
Import ListNotations.
Open Scope Z_scope.
Ltac Zify.zify_post_hook ::= Z.div_mod_to_equations.

Lemma g_wrap_small x : - 9223372036854775808 <= x < 9223372036854775808 -> g_wrap x = x.
Proof. unfold g_wrap, g_two63, g_two64. intros. lia. Qed.

Lemma pow_bounds k : 0 <= k <= 62 -> 1 <= 2 ^ k <= 4611686018427387904.
Proof.
  intros H. split.
  - assert (0 < 2 ^ k) by (apply Z.pow_pos_nonneg; lia). lia.
  - change 4611686018427387904 with (2 ^ 62). apply Z.pow_le_mono_r; lia.
Qed.

Lemma div_bound a b : 0 <= a -> 0 < b -> 0 <= a / b <= a.
Proof.
  intros Ha Hb. split; [apply Z.div_pos; lia|].
  apply Z.div_le_upper_bound; [lia|]. nia.
Qed.

Lemma quot_bound a b : 0 < b -> - 9223372036854775808 <= a < 9223372036854775808 ->
  - 9223372036854775808 <= Z.quot a b < 9223372036854775808.
Proof.
  intros Hb Ha.
  destruct (Z_lt_le_dec a 0) as [Hneg|Hpos].
  - rewrite <- (Z.opp_involutive a), Z.quot_opp_l by lia. rewrite Z.quot_div_nonneg by lia.
    pose proof (div_bound (- a) b ltac:(lia) Hb). lia.
  - rewrite Z.quot_div_nonneg by lia. pose proof (div_bound a b Hpos Hb). lia.
Qed.

Global Arguments Z.mul : simpl never.
Global Arguments Z.add : simpl never.
Global Arguments Z.sub : simpl never.
Global Arguments Z.pow : simpl never.
Global Arguments Z.quot : simpl never.
Global Arguments Z.leb : simpl never.
Global Arguments Z.ltb : simpl never.
Global Arguments Z.eqb : simpl never.
Global Arguments g_wrap : simpl never.

Ltac pow_fact k :=
  lazymatch goal with
  | _ : 1 <= 2 ^ k <= _ |- _ => fail
  | _ => pose proof (pow_bounds k ltac:(lia))
  end.
Ltac pow_facts :=
  repeat match goal with
  | |- context[2 ^ ?k] => pow_fact k
  | _ : context[2 ^ ?k] |- _ => pow_fact k
  end.

Ltac wrap_solver := first [ lia | apply quot_bound; lia ].

Ltac unwrap1 :=
  match goal with
  | |- context[g_wrap ?x] => rewrite (g_wrap_small x) in * by wrap_solver
  | _ : context[g_wrap ?x] |- _ => rewrite (g_wrap_small x) in * by wrap_solver
  end.
Ltac unwrap := rewrite ?Z.mul_1_l in *; repeat (pow_facts; unwrap1; rewrite ?Z.mul_1_l in *).

(* a hypothesis "the draw lies below the bound asked for" becomes usable as soon as its premise is known *)
Ltac use_draw :=
  repeat match goal with
  | H : ?P -> 0 <= _ < 2 ^ _ |- _ => specialize (H ltac:(lia))
  end.

Ltac split_cond :=
  match goal with
  | |- context[?a <=? ?b] => destruct (Z.leb_spec a b)
  | |- context[?a <? ?b] => destruct (Z.ltb_spec a b)
  | |- context[?a =? ?b] => destruct (Z.eqb_spec a b)
  | |- context[if ?c then _ else _] => is_var c; destruct c
  | |- context[match ?c with VB _ => _ | _ => _ end] => is_var c; destruct c
  end.

Ltac tie :=
  repeat (cbn; use_draw; unwrap; try split_cond);
  try reflexivity; try (exfalso; lia); try (f_equal; lia).
