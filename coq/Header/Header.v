(* Model of the LLRP message header codec of pkg/llrp:
     messages.go  Header.UnmarshalBinary / MarshalBinary / WriteTo / validateHeader
     reader.go    Client.readHeader / Client.writeHeader
   Executable definitions only, written with the code's own shifts and masks; the proofs are in
   HeaderProofs.v.  Bytes are [N] (the byte range is a hypothesis of the theorems), a buffer is
   a [list N].

   Go types of the fields:  payloadLen uint32, id uint32, typ uint16, version uint8. *)
From Coq Require Import NArith List Bool.
Import ListNotations.
Open Scope N_scope.

Record header := mkHdr { h_ver : N; h_typ : N; h_len : N; h_id : N }.

(* a value of the Go struct type: every field within its machine type *)
Definition wf_hdr (h : header) : Prop :=
  h_ver h < 2 ^ 8 /\ h_typ h < 2 ^ 16 /\ h_len h < 2 ^ 32 /\ h_id h < 2 ^ 32.

Inductive herr := ErrShort | ErrLenBelowHeader | ErrRefused | ErrDeadline.
Inductive hres := HOk (h : header) | HErr (e : herr).

Definition header_sz : N := 10.
Definition max_msg_type : N := 1023.          (* maxMsgType = MsgCustomMessage *)
Definition resv_start : N := 900.             (* msgResvStart *)
Definition resv_end : N := 999.               (* msgResvEnd *)
Definition max_payload_sz : N := 4294967285.  (* uint32(1<<32 - 1 - HeaderSz) *)

(* binary.BigEndian.Uint16 / Uint32:  uint16(b[1]) | uint16(b[0])<<8  etc. *)
Definition be16 (b0 b1 : N) : N := N.lor b1 (N.shiftl b0 8).
Definition be32 (b0 b1 b2 b3 : N) : N :=
  N.lor (N.lor (N.lor b3 (N.shiftl b2 8)) (N.shiftl b1 16)) (N.shiftl b0 24).

(* Header.UnmarshalBinary(buf):
     if len(buf) < HeaderSz { error }
     version:    (buf[0] >> 2) & 0b111
     typ:        BigEndian.Uint16(buf[0:2]) & 0b0011_1111_1111
     payloadLen: BigEndian.Uint32(buf[2:6])
     id:         BigEndian.Uint32(buf[6:10])
     if payloadLen < HeaderSz { error };  payloadLen -= HeaderSz
   Bytes after the tenth are ignored. *)
Definition hdr_decode (buf : list N) : hres :=
  match buf with
  | b0 :: b1 :: b2 :: b3 :: b4 :: b5 :: b6 :: b7 :: b8 :: b9 :: _ =>
      let ver := N.land (N.shiftr b0 2) 7 in
      let typ := N.land (be16 b0 b1) 1023 in
      let len := be32 b2 b3 b4 b5 in
      let id := be32 b6 b7 b8 b9 in
      if len <? header_sz then HErr ErrLenBelowHeader
      else HOk (mkHdr ver typ (len - header_sz) id)
  | _ => HErr ErrShort
  end.

(* Client.readHeader: io.ReadFull of exactly HeaderSz bytes from the connection, then
   UnmarshalBinary.  Nothing else is checked there (no version check, no reserved-bit check, no
   size limit).  [stream] is what the connection still delivers before EOF. *)
Definition read_header (stream : list N) : hres :=
  if N.of_nat (length stream) <? header_sz then HErr ErrShort
  else hdr_decode (firstn 10 stream).

(* The transport may hand the 10 bytes over in pieces: each conn.Read returns (part of) the
   next piece, possibly nothing.  io.ReadFull(conn, buf) = ReadAtLeast: keep calling
   conn.Read(buf[got:]) and append what arrives until len(buf) bytes are there; a Read never
   returns more than fits, the rest of a piece stays in the connection.  [read_full need chunks]
   is the content of buf[:got] when ReadFull stops (full, or the connection is exhausted). *)
Fixpoint read_full (need : nat) (chunks : list (list N)) : list N :=
  match chunks with
  | [] => []
  | c :: rest =>
      if Nat.leb need (length c) then firstn need c
      else c ++ read_full (need - length c) rest
  end.

(* Client.readHeader over a connection that delivers [chunks] one Read at a time, then EOF *)
Definition read_header_chunks (chunks : list (list N)) : hres :=
  let buf := read_full 10 chunks in
  if Nat.ltb (length buf) 10 then HErr ErrShort else hdr_decode buf.

(* validateHeader(payloadLen, typ): nil iff
     !(typ > maxMsgType) && !(msgResvStart <= typ && typ <= msgResvEnd) && !(payloadLen > maxPayloadSz) *)
Definition validate_header (len typ : N) : bool :=
  negb (max_msg_type <? typ)
  && negb ((resv_start <=? typ) && (typ <=? resv_end))
  && negb (max_payload_sz <? len).

Definition byte (x : N) : N := x mod 256.     (* Go's byte(x) conversion *)

(* BigEndian.PutUint16(b, v): b[0] = byte(v >> 8); b[1] = byte(v) *)
Definition put16 (v : N) : list N := [byte (N.shiftr v 8); byte v].
Definition put32 (v : N) : list N :=
  [byte (N.shiftr v 24); byte (N.shiftr v 16); byte (N.shiftr v 8); byte v].

(* the three Put calls shared by MarshalBinary, WriteTo and writeHeader:
     PutUint32(header[6:10], uint32(h.id))
     PutUint32(header[2:6], h.payloadLen+HeaderSz)               -- uint32 addition, wraps
     PutUint16(header[0:2], uint16(h.version)<<10|uint16(h.typ)) -- uint16 shift, drops high bits *)
Definition hdr_write (h : header) : list N :=
  put16 (N.lor (N.shiftl (h_ver h) 10 mod 2 ^ 16) (h_typ h))
  ++ put32 ((h_len h + header_sz) mod 2 ^ 32)
  ++ put32 (h_id h).

(* Header.MarshalBinary / Header.WriteTo: validateHeader first *)
Definition hdr_encode (h : header) : option (list N) :=
  if validate_header (h_len h) (h_typ h) then Some (hdr_write h) else None.

(* Client.writeHeader: "does not validate the parameters" *)
Definition write_header (h : header) : list N := hdr_write h.

(* Batches.  The codec entry points are functions of their argument only: the i-th result of a
   batch of calls - in whatever order, interleaving or goroutine the calls are made, and however
   long the caller keeps the result - is the result for the i-th argument.  The batch requests of
   the correspondence (harness: all calls first, results retained, compared afterwards) are
   answered by these maps. *)
Definition encode_batch (hs : list header) : list (option (list N) * list N) :=
  map (fun h => (hdr_encode h, write_header h)) hs.
Definition decode_batch (bufs : list (list N)) : list (hres * hres) :=
  map (fun b => (hdr_decode b, read_header b)) bufs.
