(* Proofs about the header codec model (Header.v) against the MSB-first bit view (Base/Bits.v). *)
From Coq Require Import NArith ZArith List Bool Lia ZifyN ZifyNat ZifyBool.
From LLRP Require Import Base.Bits Header.Header.
Import ListNotations.
Open Scope N_scope.
Ltac Zify.zify_post_hook ::= Z.div_mod_to_equations.

(* ------------------------------------------------------------------ arithmetic reading of the shifts and masks *)

Lemma be16_val : forall a b, a < 256 -> b < 256 -> be16 a b = a * 256 + b.
Proof.
  intros. unfold be16. rewrite N.lor_comm, lor_shiftl_add by (cbn; lia). reflexivity.
Qed.

Lemma be32_val : forall a b c d, a < 256 -> b < 256 -> c < 256 -> d < 256 ->
  be32 a b c d = a * 16777216 + b * 65536 + c * 256 + d.
Proof.
  intros. unfold be32.
  rewrite (N.lor_comm d), lor_shiftl_add by (cbn; lia).
  rewrite (N.lor_comm _ (N.shiftl b 16)), lor_shiftl_add by (cbn; lia).
  rewrite (N.lor_comm _ (N.shiftl a 24)), lor_shiftl_add by (cbn; lia).
  cbn. lia.
Qed.

Lemma be32_be_val : forall a b c d, a < 256 -> b < 256 -> c < 256 -> d < 256 ->
  be32 a b c d = be_val [a; b; c; d].
Proof. intros. rewrite be32_val by assumption. cbn. lia. Qed.

Lemma land7 : forall x, N.land x 7 = x mod 8.
Proof. intros. change 7 with (N.ones 3). rewrite N.land_ones. reflexivity. Qed.

Lemma land1023 : forall x, N.land x 1023 = x mod 1024.
Proof. intros. change 1023 with (N.ones 10). rewrite N.land_ones. reflexivity. Qed.

Lemma byte_lt : forall x, byte x < 256.
Proof. intros. unfold byte. lia. Qed.

(* ------------------------------------------------------------------ the decoder against the bit view *)

(* the number held in the [n] bits starting at MSB-first bit position [i] of the buffer *)
Definition field (i n : nat) (buf : list N) : N := bits_to_N (slice i n (bytes_to_bits buf)).

Ltac split_ok H :=
  repeat match type of H with
  | bytes_ok (_ :: _) => let h := fresh "Hb" in let t := fresh "Hok" in
      inversion H as [|? ? h t]; subst; clear H; rename t into H; unfold is_byte in h
  | Forall is_byte (_ :: _) => let h := fresh "Hb" in let t := fresh "Hok" in
      inversion H as [|? ? h t]; subst; clear H; rename t into H; unfold is_byte in h
  end.

Lemma field_ver : forall b0 r, field 3 3 (b0 :: r) = N.land (N.shiftr b0 2) 7.
Proof.
  intros. unfold field.
  replace (slice 3 3 (bytes_to_bits (b0 :: r))) with (slice 3 3 (bits_be 8 b0)) by reflexivity.
  rewrite bits_be_slice by lia. rewrite bits_to_N_bits_be_land. reflexivity.
Qed.

Lemma field_typ : forall b0 b1 r, b1 < 256 ->
  field 6 10 (b0 :: b1 :: r) = N.land (be16 b0 b1) 1023.
Proof.
  intros. unfold field.
  replace (slice 6 10 (bytes_to_bits (b0 :: b1 :: r)))
    with (slice 6 10 (bits_be 8 b0 ++ bits_be 8 b1)) by reflexivity.
  rewrite bits_be_app_lor by (cbn; lia).
  rewrite bits_be_slice by lia. rewrite bits_to_N_bits_be_land.
  unfold be16. rewrite (N.lor_comm b1). reflexivity.
Qed.

Lemma field_len : forall b0 b1 b2 b3 b4 b5 r, bytes_ok [b2; b3; b4; b5] ->
  field 16 32 (b0 :: b1 :: b2 :: b3 :: b4 :: b5 :: r) = be32 b2 b3 b4 b5.
Proof.
  intros * H. unfold field.
  replace (slice 16 32 (bytes_to_bits (b0 :: b1 :: b2 :: b3 :: b4 :: b5 :: r)))
    with (bytes_to_bits [b2; b3; b4; b5]) by reflexivity.
  rewrite bits_to_N_bytes by assumption.
  pose proof H as H'. split_ok H'.
  symmetry. apply be32_be_val; assumption.
Qed.

Lemma field_id : forall b0 b1 b2 b3 b4 b5 b6 b7 b8 b9 r, bytes_ok [b6; b7; b8; b9] ->
  field 48 32 (b0 :: b1 :: b2 :: b3 :: b4 :: b5 :: b6 :: b7 :: b8 :: b9 :: r) = be32 b6 b7 b8 b9.
Proof.
  intros * H. unfold field.
  replace (slice 48 32 (bytes_to_bits (b0 :: b1 :: b2 :: b3 :: b4 :: b5 :: b6 :: b7 :: b8 :: b9 :: r)))
    with (bytes_to_bits [b6; b7; b8; b9]) by reflexivity.
  rewrite bits_to_N_bytes by assumption.
  pose proof H as H'. split_ok H'.
  symmetry. apply be32_be_val; assumption.
Qed.

Ltac ten_bytes buf Hlen :=
  do 10 (destruct buf as [|? buf]; [cbn [length] in Hlen; lia|]).

(* For every buffer of at least 10 bytes: the decoder rejects iff the 32-bit field at bit 16 is
   below 10, and otherwise returns exactly: version = bits 3..5, type = bits 6..15,
   payload length = bits 16..47 minus 10, id = bits 48..79 (bit 0 = MSB of the first byte). *)
Lemma hdr_decode_spec : forall buf, (10 <= length buf)%nat -> bytes_ok buf ->
  hdr_decode buf =
    if field 16 32 buf <? 10 then HErr ErrLenBelowHeader
    else HOk (mkHdr (field 3 3 buf) (field 6 10 buf) (field 16 32 buf - 10) (field 48 32 buf)).
Proof.
  intros buf Hlen Hok. ten_bytes buf Hlen. split_ok Hok.
  rewrite field_ver, field_typ, field_len, field_id
    by (try assumption; repeat constructor; assumption).
  reflexivity.
Qed.

Lemma hdr_decode_short : forall buf, (length buf < 10)%nat -> hdr_decode buf = HErr ErrShort.
Proof.
  intros buf H. do 10 (destruct buf as [|? buf]; [reflexivity|]). cbn [length] in H. lia.
Qed.

Lemma hdr_decode_rejects : forall buf, (10 <= length buf)%nat -> bytes_ok buf ->
  field 16 32 buf < 10 -> hdr_decode buf = HErr ErrLenBelowHeader.
Proof.
  intros buf Hlen Hok H. rewrite hdr_decode_spec by assumption.
  apply N.ltb_lt in H. rewrite H. reflexivity.
Qed.

Lemma hdr_decode_accepts_iff : forall buf, bytes_ok buf ->
  (exists h, hdr_decode buf = HOk h) <-> ((10 <= length buf)%nat /\ 10 <= field 16 32 buf).
Proof.
  intros buf Hok. split.
  - intros [h H]. destruct (Nat.lt_ge_cases (length buf) 10) as [L|G].
    + rewrite hdr_decode_short in H by assumption. discriminate.
    + split; [assumption|]. rewrite hdr_decode_spec in H by assumption.
      destruct (field 16 32 buf <? 10) eqn:E; [discriminate|]. apply N.ltb_ge in E. exact E.
  - intros [G L]. rewrite hdr_decode_spec by assumption.
    apply N.ltb_ge in L. rewrite L. eexists. reflexivity.
Qed.

(* the decoded fields are within the ranges of the protocol *)
Lemma hdr_decode_ranges : forall buf h, bytes_ok buf -> hdr_decode buf = HOk h ->
  h_ver h < 8 /\ h_typ h < 1024 /\ h_len h <= max_payload_sz /\ h_id h < 2 ^ 32.
Proof.
  intros buf h Hok H.
  destruct (Nat.lt_ge_cases (length buf) 10) as [L|G].
  { rewrite hdr_decode_short in H by assumption. discriminate. }
  ten_bytes buf G. split_ok Hok. cbn [hdr_decode] in H.
  destruct (be32 n1 n2 n3 n4 <? header_sz) eqn:E; [discriminate|].
  injection H as <-. cbn [h_ver h_typ h_len h_id].
  rewrite land7, land1023. rewrite !be32_val by assumption.
  unfold max_payload_sz, header_sz. cbn. repeat split; lia.
Qed.

(* readHeader adds only the requirement that 10 bytes arrive *)
Lemma read_header_spec : forall s,
  read_header s = if (length s <? 10)%nat then HErr ErrShort else hdr_decode (firstn 10 s).
Proof.
  intros. unfold read_header, header_sz.
  destruct (Nat.ltb_spec (length s) 10); destruct (N.ltb_spec (N.of_nat (length s)) 10);
    try reflexivity; lia.
Qed.

Lemma hdr_decode_firstn : forall s, (10 <= length s)%nat -> hdr_decode (firstn 10 s) = hdr_decode s.
Proof. intros s H. ten_bytes s H. reflexivity. Qed.

(* reading in pieces = reading at once: ReadFull over any fragmentation of the stream collects
   exactly the first [need] bytes of the concatenation *)
Lemma read_full_concat : forall chunks need,
  read_full need chunks = firstn need (concat chunks).
Proof.
  induction chunks as [|c rest IH]; intros need; cbn [read_full concat].
  - rewrite firstn_nil. reflexivity.
  - rewrite firstn_app. destruct (Nat.leb_spec need (length c)) as [L|G].
    + replace (need - length c)%nat with 0%nat by lia. cbn [firstn]. rewrite app_nil_r. reflexivity.
    + rewrite IH. rewrite (firstn_all2 (n := need) c) by lia. reflexivity.
Qed.

(* so the header that readHeader returns does not depend on how the transport fragments it *)
Lemma read_header_chunks_concat : forall chunks,
  read_header_chunks chunks = read_header (concat chunks).
Proof.
  intros. unfold read_header_chunks. rewrite read_full_concat, read_header_spec.
  destruct (Nat.ltb_spec (length (concat chunks)) 10) as [L|G].
  - rewrite firstn_all2 by lia. destruct (Nat.ltb_spec (length (concat chunks)) 10); [reflexivity|lia].
  - rewrite firstn_length_le by lia. reflexivity.
Qed.

Lemma read_header_chunks_indep : forall chunks chunks',
  concat chunks = concat chunks' -> read_header_chunks chunks = read_header_chunks chunks'.
Proof. intros c c' H. rewrite !read_header_chunks_concat, H. reflexivity. Qed.

(* ------------------------------------------------------------------ the encoder *)

Lemma validate_header_true : forall len typ,
  validate_header len typ = true <->
  typ <= 1023 /\ ~ (900 <= typ <= 999) /\ len <= 4294967285.
Proof.
  intros. unfold validate_header, max_msg_type, resv_start, resv_end, max_payload_sz.
  rewrite !andb_true_iff, !negb_true_iff, andb_false_iff, !N.ltb_ge, N.leb_gt, N.leb_gt. lia.
Qed.

Lemma hdr_encode_refuses : forall h,
  hdr_encode h = None <-> (1023 < h_typ h \/ 900 <= h_typ h <= 999 \/ 2 ^ 32 - 11 < h_len h).
Proof.
  intros. unfold hdr_encode.
  destruct (validate_header (h_len h) (h_typ h)) eqn:E.
  - apply validate_header_true in E. change (2 ^ 32 - 11) with 4294967285.
    split; [discriminate|]. lia.
  - split; [intros _|reflexivity].
    assert (N : ~ (h_typ h <= 1023 /\ ~ (900 <= h_typ h <= 999) /\ h_len h <= 4294967285)).
    { intros C. apply validate_header_true in C. congruence. }
    change (2 ^ 32 - 11) with 4294967285. lia.
Qed.

Lemma hdr_encode_some : forall h b, hdr_encode h = Some b ->
  b = hdr_write h /\ h_typ h <= 1023 /\ ~ (900 <= h_typ h <= 999) /\ h_len h + 10 < 2 ^ 32.
Proof.
  intros h b H. unfold hdr_encode in H.
  destruct (validate_header (h_len h) (h_typ h)) eqn:E; [|discriminate].
  injection H as <-. apply validate_header_true in E. change (2 ^ 32) with 4294967296.
  split; [reflexivity|]. lia.
Qed.

Lemma hdr_write_length : forall h, length (hdr_write h) = 10%nat.
Proof. reflexivity. Qed.

Lemma hdr_write_bytes : forall h, bytes_ok (hdr_write h).
Proof. intros. unfold hdr_write, put16, put32. cbn [app]. repeat constructor; apply byte_lt. Qed.

(* get-after-put *)
Lemma be16_put16 : forall v, v < 2 ^ 16 ->
  be16 (byte (N.shiftr v 8)) (byte v) = v.
Proof.
  intros v H. rewrite be16_val by apply byte_lt. unfold byte.
  rewrite N.shiftr_div_pow2. change (2 ^ 8) with 256. change (2 ^ 16) with 65536 in H. lia.
Qed.

Lemma be32_put32 : forall v, v < 2 ^ 32 ->
  be32 (byte (N.shiftr v 24)) (byte (N.shiftr v 16)) (byte (N.shiftr v 8)) (byte v) = v.
Proof.
  intros v H. rewrite be32_val by apply byte_lt. unfold byte.
  rewrite !N.shiftr_div_pow2.
  change (2 ^ 8) with 256. change (2 ^ 16) with 65536. change (2 ^ 24) with 16777216.
  change (2 ^ 32) with 4294967296 in H. lia.
Qed.

(* put-after-get *)
Lemma put16_be16 : forall a b, a < 256 -> b < 256 -> put16 (be16 a b) = [a; b].
Proof.
  intros. rewrite be16_val by assumption. unfold put16, byte.
  rewrite N.shiftr_div_pow2. change (2 ^ 8) with 256. f_equal; [|f_equal]; lia.
Qed.

Lemma put32_be32 : forall a b c d, a < 256 -> b < 256 -> c < 256 -> d < 256 ->
  put32 (be32 a b c d) = [a; b; c; d].
Proof.
  intros. rewrite be32_val by assumption. unfold put32, byte.
  rewrite !N.shiftr_div_pow2.
  change (2 ^ 8) with 256. change (2 ^ 16) with 65536. change (2 ^ 24) with 16777216.
  f_equal; [|f_equal; [|f_equal; [|f_equal]]]; lia.
Qed.

(* the first 16 bits as one number *)
Lemma word16_val : forall ver typ, ver < 64 -> typ < 1024 ->
  N.lor (N.shiftl ver 10 mod 2 ^ 16) typ = ver * 1024 + typ.
Proof.
  intros ver typ Hv Ht.
  rewrite (N.mod_small (N.shiftl ver 10) (2 ^ 16))
    by (rewrite N.shiftl_mul_pow2; change (2 ^ 10) with 1024; change (2 ^ 16) with 65536; lia).
  rewrite lor_shiftl_add by (change (2 ^ 10) with 1024; lia). reflexivity.
Qed.

(* decode after encode: everything the encoder accepts with a 3-bit version decodes to itself *)
Lemma hdr_roundtrip_enc_dec : forall h b, wf_hdr h -> h_ver h < 8 ->
  hdr_encode h = Some b -> hdr_decode b = HOk h.
Proof.
  intros [ver typ len id] b (_ & _ & _ & Hid) Hv H. cbn [h_ver h_typ h_len h_id] in *.
  apply hdr_encode_some in H. cbn [h_ver h_typ h_len h_id] in H.
  destruct H as (-> & Ht & _ & Hl).
  unfold hdr_write, put16, put32. cbn [h_ver h_typ h_len h_id app hdr_decode].
  rewrite word16_val by lia.
  rewrite (N.mod_small (len + header_sz) (2 ^ 32)) by exact Hl.
  rewrite !be32_put32 by assumption.
  rewrite be16_put16 by (change (2 ^ 16) with 65536; lia).
  unfold header_sz.
  destruct (N.ltb_spec (len + 10) 10); [lia|].
  f_equal. f_equal.
  - rewrite land7. unfold byte. rewrite !N.shiftr_div_pow2.
    change (2 ^ 8) with 256. change (2 ^ 2) with 4. lia.
  - rewrite land1023. lia.
  - lia.
Qed.

(* clearing the three reserved bits of the first byte *)
Definition clear_resv (buf : list N) : list N :=
  match buf with [] => [] | b0 :: r => b0 mod 32 :: r end.

(* encode after decode: re-encoding what was decoded from exactly 10 bytes gives those bytes
   back, except that the three reserved bits (which the decoder ignores) come back as zero and
   that the reserved types 900..999 (which the decoder lets through) are refused *)
Lemma hdr_roundtrip_dec_enc : forall b h, length b = 10%nat -> bytes_ok b ->
  hdr_decode b = HOk h ->
  hdr_encode h = if (900 <=? h_typ h) && (h_typ h <=? 999) then None else Some (clear_resv b).
Proof.
  intros b h Hlen Hok H.
  pose proof (hdr_decode_ranges b h Hok H) as (Rv & Rt & Rl & Ri).
  assert (Hlen' : (10 <= length b)%nat) by lia.
  ten_bytes b Hlen'. destruct b; [|discriminate]. split_ok Hok.
  cbn [hdr_decode] in H.
  destruct (be32 n1 n2 n3 n4 <? header_sz) eqn:E; [discriminate|]. apply N.ltb_ge in E.
  injection H as <-. cbn [h_ver h_typ h_len h_id] in *. unfold header_sz, max_payload_sz in *.
  unfold hdr_encode. cbn [h_ver h_typ h_len h_id].
  destruct ((900 <=? N.land (be16 n n0) 1023) && (N.land (be16 n n0) 1023 <=? 999)) eqn:R.
  - destruct (validate_header _ _) eqn:V; [|reflexivity].
    apply validate_header_true in V. apply andb_true_iff in R. lia.
  - assert (V : validate_header (be32 n1 n2 n3 n4 - 10) (N.land (be16 n n0) 1023) = true).
    { apply validate_header_true. apply andb_false_iff in R. lia. }
    rewrite V. f_equal. unfold hdr_write. cbn [h_ver h_typ h_len h_id clear_resv].
    rewrite word16_val by lia.
    replace ((be32 n1 n2 n3 n4 - 10 + header_sz) mod 2 ^ 32) with (be32 n1 n2 n3 n4).
    2:{ unfold header_sz. rewrite N.sub_add by exact E. symmetry. apply N.mod_small.
        rewrite be32_val by assumption. cbn. lia. }
    rewrite !put32_be32 by assumption. unfold put16. cbn [app]. f_equal; [|f_equal].
    + rewrite land7, land1023, be16_val by assumption. unfold byte.
      rewrite !N.shiftr_div_pow2, !N.div2_div. change (2 ^ 8) with 256. lia.
    + rewrite land7, land1023, be16_val by assumption. unfold byte.
      rewrite !N.div2_div. lia.
Qed.

Lemma hdr_roundtrip_dec_enc_exact : forall b h, length b = 10%nat -> bytes_ok b ->
  hd 0 b < 32 -> hdr_decode b = HOk h -> ~ (900 <= h_typ h <= 999) ->
  hdr_encode h = Some b.
Proof.
  intros b h Hlen Hok H0 H R. rewrite (hdr_roundtrip_dec_enc b h Hlen Hok H).
  destruct ((900 <=? h_typ h) && (h_typ h <=? 999)) eqn:E.
  - apply andb_true_iff in E. lia.
  - f_equal. destruct b; [reflexivity|]. cbn [hd] in H0. cbn [clear_resv].
    rewrite (N.mod_small n 32) by exact H0. reflexivity.
Qed.

(* What the encoder does NOT refuse.  The version field is a uint8; values above 7 are not
   refused but are ORed over the reserved bits / shifted out, so they do not come back. *)
Lemma hdr_encode_version_unchecked :
  exists h b, wf_hdr h /\ hdr_encode h = Some b /\ hdr_decode b <> HOk h.
Proof.
  exists (mkHdr 8 1 0 0). eexists. split; [|split].
  - unfold wf_hdr. cbn. lia.
  - vm_compute. reflexivity.
  - vm_compute. discriminate.
Qed.

(* writeHeader performs no validation: the uint32 sum wraps *)
Lemma write_header_wraps :
  hdr_decode (write_header (mkHdr 1 1 4294967295 0)) = HErr ErrLenBelowHeader.
Proof. vm_compute. reflexivity. Qed.

(* on validated headers writeHeader and MarshalBinary agree *)
Lemma write_header_eq_encode : forall h b, hdr_encode h = Some b -> write_header h = b.
Proof. intros h b H. apply hdr_encode_some in H. symmetry. apply H. Qed.

(* ------------------------------------------------------------------ batches: value semantics *)

Lemma encode_batch_nth : forall hs i h, nth_error hs i = Some h ->
  nth_error (encode_batch hs) i = Some (hdr_encode h, write_header h).
Proof. intros hs i h H. unfold encode_batch. exact (map_nth_error (fun h => (hdr_encode h, write_header h)) i hs H). Qed.

Lemma decode_batch_nth : forall bufs i b, nth_error bufs i = Some b ->
  nth_error (decode_batch bufs) i = Some (hdr_decode b, read_header b).
Proof. intros bufs i b H. unfold decode_batch. exact (map_nth_error (fun b => (hdr_decode b, read_header b)) i bufs H). Qed.

(* a batch can be cut anywhere / answered by several workers: the results just concatenate *)
Lemma encode_batch_app : forall a b, encode_batch (a ++ b) = encode_batch a ++ encode_batch b.
Proof. intros. apply map_app. Qed.

(* what was retained from a batch of accepted encodings still decodes to the headers given *)
Lemma encode_batch_roundtrip : forall hs i h b w, nth_error hs i = Some h ->
  wf_hdr h -> h_ver h < 8 ->
  nth_error (encode_batch hs) i = Some (Some b, w) -> hdr_decode b = HOk h /\ w = b.
Proof.
  intros hs i h b w Hn Hwf Hv H. rewrite (encode_batch_nth hs i h Hn) in H.
  injection H as He <-. split.
  - apply hdr_roundtrip_enc_dec; assumption.
  - apply write_header_eq_encode. exact He.
Qed.
