(* Header decoding by a Client does not depend on the Client's state or on the history of the
   connection (model: Header/ClientState.v). *)
From Coq Require Import NArith ZArith Arith List Bool Lia.
From LLRP Require Import Base.Bits Header.Header Header.HeaderProofs Header.ClientState.
Import ListNotations.
Open Scope N_scope.

(* readHeader of a client in any state = readHeader of the bytes *)
Lemma client_read_header_stateless : forall c s, client_read_header c true s = read_header s.
Proof.
  intros. unfold client_read_header. cbn [negb]. rewrite andb_false_r. reflexivity.
Qed.

Lemma client_read_header_indep : forall c c' s,
  client_read_header c true s = client_read_header c' true s.
Proof. intros. rewrite !client_read_header_stateless. reflexivity. Qed.

(* the one thing of the client that matters: a client with a timeout reports a connection whose
   read deadline cannot be set *)
Lemma client_read_header_deadline : forall c s,
  client_read_header c false s = if c_timeout c then HErr ErrDeadline else read_header s.
Proof.
  intros. unfold client_read_header. cbn [negb]. rewrite andb_true_r. reflexivity.
Qed.

(* writeHeader likewise: the bytes written are those of the header, whatever the client's state;
   for a header the encoder accepts they are its encoding, which decodes back *)
Lemma client_write_header_indep : forall c c' h, client_write_header c h = client_write_header c' h.
Proof. reflexivity. Qed.

Lemma client_write_header_encode : forall c h b, hdr_encode h = Some b -> client_write_header c h = b.
Proof. intros c h b H. exact (write_header_eq_encode h b H). Qed.

Lemma client_write_read_roundtrip : forall c c' h b, wf_hdr h -> h_ver h < 8 -> hdr_encode h = Some b ->
  client_read_header c' true (client_write_header c h) = HOk h.
Proof.
  intros c c' h b W V E. rewrite (client_write_header_encode c h b E).
  rewrite client_read_header_stateless, read_header_spec.
  pose proof (hdr_encode_some h b E) as Hb. pose proof (write_header_eq_encode h b E) as Hw.
  assert (L : length b = 10%nat) by (rewrite <- Hw; apply hdr_write_length).
  rewrite L. cbn [Nat.ltb Nat.leb]. rewrite firstn_all2 by lia.
  apply hdr_roundtrip_enc_dec; assumption.
Qed.

(* bit-level reading of what a client in any state decodes *)
Lemma client_read_header_fields : forall c s, (10 <= length s)%nat -> bytes_ok s ->
  client_read_header c true s =
    if field 16 32 s <? 10 then HErr ErrLenBelowHeader
    else HOk (mkHdr (field 3 3 s) (field 6 10 s) (field 16 32 s - 10) (field 48 32 s)).
Proof.
  intros c s L B. rewrite client_read_header_stateless, read_header_spec.
  destruct (Nat.ltb_spec (length s) 10); [lia|].
  rewrite hdr_decode_firstn by assumption. apply hdr_decode_spec; assumption.
Qed.

Lemma client_read_header_accepts_iff : forall c s, bytes_ok s ->
  (exists h, client_read_header c true s = HOk h) <-> ((10 <= length s)%nat /\ 10 <= field 16 32 s).
Proof.
  intros c s B. rewrite client_read_header_stateless, read_header_spec.
  destruct (Nat.ltb_spec (length s) 10) as [L|G].
  - split; [intros [h H]; discriminate | intros [H _]; lia].
  - rewrite hdr_decode_firstn by assumption. apply hdr_decode_accepts_iff. assumption.
Qed.

(* ... in particular after every history *)
Lemma client_read_header_history : forall c0 evs s,
  client_read_header (client_run c0 evs) true s = read_header s.
Proof. intros. apply client_read_header_stateless. Qed.

(* every header the read side decodes along a history is the header of the bytes it was given *)
Lemma client_observe_reads : forall evs c,
  client_observe c evs = map read_header (client_reads c evs).
Proof.
  induction evs as [|e rest IH]; intros c; cbn [client_observe client_reads map]; [reflexivity|].
  rewrite map_app, IH. f_equal.
  destruct e; try reflexivity.
  destruct (reading c); cbn [map]; [|reflexivity].
  rewrite client_read_header_stateless. reflexivity.
Qed.

(* the configuration part of the state is never touched by a history ... *)
Lemma client_step_timeout : forall c e, c_timeout (client_step c e) = c_timeout c.
Proof.
  intros c e. destruct e; cbn [client_step]; unfold after_gsv, set_phase, die;
    repeat match goal with
           | |- context [match ?x with _ => _ end] => destruct x
           end; reflexivity.
Qed.

Lemma client_run_timeout : forall evs c, c_timeout (client_run c evs) = c_timeout c.
Proof.
  induction evs as [|e rest IH]; intros c; cbn [client_run fold_left]; [reflexivity|].
  change (c_timeout (client_run (client_step c e) rest) = c_timeout c).
  rewrite IH. apply client_step_timeout.
Qed.

(* ... and negotiation only ever lowers the version *)
Lemma client_step_version : forall c e, c_ver (client_step c e) <= c_ver c.
Proof.
  intros c e. destruct e; cbn [client_step]; unfold after_gsv, set_phase, die;
    repeat match goal with
           | |- context [match ?x with _ => _ end] => destruct x eqn:?
           end; cbn [c_ver]; try lia;
    repeat match goal with
           | H : (_ <? _) = true |- _ => apply N.ltb_lt in H
           end; lia.
Qed.

Lemma client_run_version : forall evs c, c_ver (client_run c evs) <= c_ver c.
Proof.
  induction evs as [|e rest IH]; intros c; cbn [client_run fold_left]; [lia|].
  change (c_ver (client_run (client_step c e) rest) <= c_ver c).
  pose proof (IH (client_step c e)). pose proof (client_step_version c e). lia.
Qed.

(* a dead read side stays dead *)
Lemma client_step_dead : forall c e, c_phase c = PDead -> c_phase (client_step c e) = PDead.
Proof.
  intros c e H. destruct e; cbn [client_step]; unfold reading; rewrite ?H; cbn [c_phase];
    first [assumption | reflexivity].
Qed.
