(* Header decoding by a Client does not depend on the Client's state or on the history of the
   connection (model: Header/ClientState.v). *)
From Coq Require Import NArith ZArith Arith List Bool Lia.
From LLRP Require Import Base.Bits Header.Header Header.HeaderProofs Header.ClientState.
Import ListNotations.
Open Scope N_scope.

(* readHeader of a client in any state = readHeader of the bytes *)
Lemma client_read_header_stateless : forall c s, client_read_header c true s = read_header s.
Proof.
  intros. unfold client_read_header. cbn [negb]. rewrite andb_false_r. reflexivity.
Qed.

Lemma client_read_header_indep : forall c c' s,
  client_read_header c true s = client_read_header c' true s.
Proof. intros. rewrite !client_read_header_stateless. reflexivity. Qed.

(* the one thing of the client that matters: a client with a timeout reports a connection whose
   read deadline cannot be set *)
Lemma client_read_header_deadline : forall c s,
  client_read_header c false s = if c_timeout c then HErr ErrDeadline else read_header s.
Proof.
  intros. unfold client_read_header. cbn [negb]. rewrite andb_true_r. reflexivity.
Qed.

(* writeHeader likewise: the bytes written are those of the header, whatever the client's state;
   for a header the encoder accepts they are its encoding, which decodes back *)
Lemma client_write_header_indep : forall c c' h, client_write_header c h = client_write_header c' h.
Proof. reflexivity. Qed.

Lemma client_write_header_encode : forall c h b, hdr_encode h = Some b -> client_write_header c h = b.
Proof. intros c h b H. exact (write_header_eq_encode h b H). Qed.

Lemma client_write_read_roundtrip : forall c c' h b, wf_hdr h -> h_ver h < 8 -> hdr_encode h = Some b ->
  client_read_header c' true (client_write_header c h) = HOk h.
Proof.
  intros c c' h b W V E. rewrite (client_write_header_encode c h b E).
  rewrite client_read_header_stateless, read_header_spec.
  pose proof (hdr_encode_some h b E) as Hb. pose proof (write_header_eq_encode h b E) as Hw.
  assert (L : length b = 10%nat) by (rewrite <- Hw; apply hdr_write_length).
  rewrite L. cbn [Nat.ltb Nat.leb]. rewrite firstn_all2 by lia.
  apply hdr_roundtrip_enc_dec; assumption.
Qed.

(* bit-level reading of what a client in any state decodes *)
Lemma client_read_header_fields : forall c s, (10 <= length s)%nat -> bytes_ok s ->
  client_read_header c true s =
    if field 16 32 s <? 10 then HErr ErrLenBelowHeader
    else HOk (mkHdr (field 3 3 s) (field 6 10 s) (field 16 32 s - 10) (field 48 32 s)).
Proof.
  intros c s L B. rewrite client_read_header_stateless, read_header_spec.
  destruct (Nat.ltb_spec (length s) 10); [lia|].
  rewrite hdr_decode_firstn by assumption. apply hdr_decode_spec; assumption.
Qed.

Lemma client_read_header_accepts_iff : forall c s, bytes_ok s ->
  (exists h, client_read_header c true s = HOk h) <-> ((10 <= length s)%nat /\ 10 <= field 16 32 s).
Proof.
  intros c s B. rewrite client_read_header_stateless, read_header_spec.
  destruct (Nat.ltb_spec (length s) 10) as [L|G].
  - split; [intros [h H]; discriminate | intros [H _]; lia].
  - rewrite hdr_decode_firstn by assumption. apply hdr_decode_accepts_iff. assumption.
Qed.

(* ... in particular after every history *)
Lemma client_read_header_history : forall c0 evs s,
  client_read_header (client_run c0 evs) true s = read_header s.
Proof. intros. apply client_read_header_stateless. Qed.

(* every header the read side decodes along a history is the header of the bytes it was given *)
Lemma client_observe_reads : forall evs c,
  client_observe c evs = map read_header (client_reads c evs).
Proof.
  induction evs as [|e rest IH]; intros c; cbn [client_observe client_reads map]; [reflexivity|].
  rewrite map_app, IH. f_equal.
  destruct e; try reflexivity.
  destruct (reading c); cbn [map]; [|reflexivity].
  rewrite client_read_header_stateless. reflexivity.
Qed.

(* the configuration part of the state is never touched by a history ... *)
Lemma client_step_timeout : forall c e, c_timeout (client_step c e) = c_timeout c.
Proof.
  intros c e. destruct e; cbn [client_step]; unfold sent_one, after_gsv, set_phase, die;
    repeat match goal with
           | |- context [match ?x with _ => _ end] => destruct x
           end; reflexivity.
Qed.

Lemma client_run_timeout : forall evs c, c_timeout (client_run c evs) = c_timeout c.
Proof.
  induction evs as [|e rest IH]; intros c; cbn [client_run fold_left]; [reflexivity|].
  change (c_timeout (client_run (client_step c e) rest) = c_timeout c).
  rewrite IH. apply client_step_timeout.
Qed.

(* ... and negotiation only ever lowers the version *)
Lemma client_step_version : forall c e, c_ver (client_step c e) <= c_ver c.
Proof.
  intros c e. destruct e; cbn [client_step]; unfold sent_one, after_gsv, set_phase, die;
    repeat match goal with
           | |- context [match ?x with _ => _ end] => destruct x eqn:?
           end; cbn [c_ver]; try lia;
    repeat match goal with
           | H : (_ <? _) = true |- _ => apply N.ltb_lt in H
           end; lia.
Qed.

Lemma client_run_version : forall evs c, c_ver (client_run c evs) <= c_ver c.
Proof.
  induction evs as [|e rest IH]; intros c; cbn [client_run fold_left]; [lia|].
  change (c_ver (client_run (client_step c e) rest) <= c_ver c).
  pose proof (IH (client_step c e)). pose proof (client_step_version c e). lia.
Qed.

(* a dead read side stays dead *)
Lemma client_step_dead : forall c e, c_phase c = PDead -> c_phase (client_step c e) = PDead.
Proof.
  intros c e H. destruct e; cbn [client_step]; unfold reading, sendable; rewrite ?H; cbn [c_phase];
    first [assumption | reflexivity].
Qed.

(* ------------------------------------------------------------------ the send paths *)

Lemma new_message_none : forall len typ,
  new_message len typ = None <-> (1023 < typ \/ 900 <= typ <= 999 \/ 2 ^ 32 - 11 < len).
Proof.
  intros len typ. rewrite <- (hdr_encode_refuses (mkHdr version_min typ len 0)).
  unfold new_message, hdr_encode. cbn [h_len h_typ].
  destruct (validate_header len typ); split; intros H; try discriminate; reflexivity.
Qed.

(* refused exactly when nothing takes the message, or the type is reserved or out of range, or
   the length does not fit *)
Lemma client_send_refused_iff : forall c typ len,
  client_send c typ len = None <->
  (sendable c = false \/ 1023 < typ \/ 900 <= typ <= 999 \/ 2 ^ 32 - 11 < len).
Proof.
  intros c typ len. unfold client_send. destruct (sendable c).
  - rewrite <- new_message_none. destruct (new_message len typ).
    + split; [discriminate | intros [H|H]; discriminate].
    + split; [intros _; right; reflexivity | reflexivity].
  - split; [intros _; left; reflexivity | reflexivity].
Qed.

(* what is not refused goes out as 10 bytes that decode to exactly that type and length, the
   version in use (1.1 for the two negotiation messages) and the next message ID *)
Lemma client_send_decodes : forall c typ len b, c_ver c < 8 -> c_next_id c < 2 ^ 32 ->
  client_send c typ len = Some b ->
  length b = 10%nat /\
  hdr_decode b = HOk (mkHdr (if (typ =? 46) || (typ =? 47) then 2 else c_ver c) typ len (c_next_id c)).
Proof.
  intros c typ len b V I H. unfold client_send in H.
  destruct (sendable c); [|discriminate].
  unfold new_message in H. destruct (validate_header len typ) eqn:E; [|discriminate].
  injection H as <-. unfold client_write_header, stamp. cbn [h_typ h_len h_id].
  change (0 =? 0) with true. cbv iota.
  set (h := mkHdr (if (typ =? 46) || (typ =? 47) then 2 else c_ver c) typ len (c_next_id c)).
  assert (He : hdr_encode h = Some (hdr_write h)).
  { unfold hdr_encode. subst h. cbn [h_len h_typ]. rewrite E. reflexivity. }
  split; [apply hdr_write_length|].
  apply validate_header_true in E.
  apply hdr_roundtrip_enc_dec; [| |exact He].
  - subst h. unfold wf_hdr. cbn [h_ver h_typ h_len h_id].
    change (2 ^ 8) with 256. change (2 ^ 16) with 65536. change (2 ^ 32) with 4294967296 in *.
    unfold max_msg_type, max_payload_sz in E.
    destruct ((typ =? 46) || (typ =? 47)); repeat split; lia.
  - subst h. cbn [h_ver]. destruct ((typ =? 46) || (typ =? 47)); lia.
Qed.

Lemma client_send_all_length : forall reqs c, length (client_send_all c reqs) = length reqs.
Proof.
  induction reqs as [|[t l] rest IH]; intros c; cbn [client_send_all length]; [reflexivity|].
  rewrite IH. reflexivity.
Qed.

(* ------------------------------------------------------------------ a connection that fails inside the header *)

(* whatever writeHeader reports, the peer has received a prefix of the header's encoding; all of
   it whenever success is reported; and a failed Write is always reported *)
Lemma client_write_header_io_prefix : forall c h f,
  let r := client_write_header_io c h f in
  (exists rest, client_write_header c h = fst r ++ rest)
  /\ (snd r = true -> fst r = client_write_header c h)
  /\ (snd r = true <-> f = WNoFault).
Proof.
  intros c h f. unfold client_write_header_io, conn_write. destruct f as [|k t]; cbn [fst snd].
  - split; [exists []; rewrite app_nil_r; reflexivity|]. split; [reflexivity|]. split; reflexivity.
  - split; [exists (skipn k (client_write_header c h)); symmetry; apply firstn_skipn|].
    split; [discriminate|]. split; discriminate.
Qed.

Lemma client_send_io_prefix : forall c typ len f got ok,
  client_send_io c typ len f = Some (got, ok) ->
  exists hb, client_send c typ len = Some hb
    /\ (ok = true -> f = WNoFault /\ got = hb ++ repeat 0 (N.to_nat len))
    /\ (ok = false -> exists rest, hb = got ++ rest).
Proof.
  intros c typ len f got ok H. unfold client_send_io in H.
  destruct (client_send c typ len) as [hb|]; [|discriminate]. exists hb. split; [reflexivity|].
  unfold conn_write in H. destruct f as [|k t]; injection H as <- <-.
  - split; [intros _; split; reflexivity | discriminate].
  - split; [discriminate | intros _; exists (skipn k hb); symmetry; apply firstn_skipn].
Qed.

(* the message ID counter stays a uint32 along every history *)
Lemma client_step_next_id : forall c e, c_next_id c < 2 ^ 32 -> c_next_id (client_step c e) < 2 ^ 32.
Proof.
  intros c e H. assert (M : next_id c < 2 ^ 32) by (unfold next_id; apply N.mod_lt; discriminate).
  destruct e; cbn [client_step]; unfold sent_one, after_gsv, set_phase, die;
    repeat match goal with
           | |- context [match ?x with _ => _ end] => destruct x
           end; cbn [c_next_id]; assumption.
Qed.

Lemma client_run_next_id : forall evs c, c_next_id c < 2 ^ 32 -> c_next_id (client_run c evs) < 2 ^ 32.
Proof.
  induction evs as [|e rest IH]; intros c H; cbn [client_run fold_left]; [assumption|].
  change (c_next_id (client_run (client_step c e) rest) < 2 ^ 32).
  apply IH, client_step_next_id, H.
Qed.

(* after any history of a client configured with a version that fits the field *)
Lemma client_send_decodes_history : forall v timeout evs typ len b, v < 8 ->
  let c := client_run (c_new v timeout) evs in
  client_send c typ len = Some b ->
  length b = 10%nat /\
  hdr_decode b = HOk (mkHdr (if (typ =? 46) || (typ =? 47) then 2 else c_ver c) typ len (c_next_id c)).
Proof.
  intros v t evs typ len b V c H. apply client_send_decodes; [| |exact H].
  - pose proof (client_run_version evs (c_new v t)). cbn [c_new c_ver] in H0. subst c. lia.
  - subst c. apply client_run_next_id. cbn. reflexivity.
Qed.

(* ------------------------------------------------------------------ a stream delivered with pauses *)

Lemma parse_frames_app_prefix : forall fuel s1 s2,
  exists rest, parse_frames fuel (s1 ++ s2) = parse_frames fuel s1 ++ rest.
Proof.
  induction fuel as [|f IH]; intros s1 s2; cbn [parse_frames].
  - exists []. reflexivity.
  - destruct (Nat.ltb_spec (length s1) 10) as [L|G].
    + eexists. cbn [app]. reflexivity.
    + rewrite app_length. destruct (Nat.ltb_spec (length s1 + length s2) 10); [lia|].
      assert (F : firstn 10 (s1 ++ s2) = firstn 10 s1).
      { rewrite firstn_app. replace (10 - length s1)%nat with 0%nat by lia.
        rewrite firstn_O. apply app_nil_r. }
      rewrite F. destruct (hdr_decode (firstn 10 s1)) as [h|e]; [|exists []; reflexivity].
      rewrite skipn_app.
      destruct (IH (skipn (10 + N.to_nat (h_len h)) s1)
                   (skipn (10 + N.to_nat (h_len h) - length s1) s2)) as [rest R].
      exists rest. rewrite R. reflexivity.
Qed.

Lemma parse_frames_fuel : forall f1 f2 s, (length s <= f1)%nat -> (length s <= f2)%nat ->
  parse_frames f1 s = parse_frames f2 s.
Proof.
  induction f1 as [|f1 IH]; intros f2 s L1 L2.
  - destruct s; [|cbn in L1; lia]. destruct f2; reflexivity.
  - destruct f2 as [|f2].
    + destruct s; [reflexivity | cbn in L2; lia].
    + cbn [parse_frames]. destruct (Nat.ltb_spec (length s) 10) as [L|G]; [reflexivity|].
      destruct (hdr_decode (firstn 10 s)) as [h|e]; [|reflexivity].
      f_equal. apply IH; rewrite skipn_length; lia.
Qed.

(* the headers reported for a stream are laid out frame by frame: the first is the decoding of
   its first 10 bytes, the others those of the stream after that frame *)
Lemma frame_headers_unfold : forall s h t, frame_headers s = h :: t ->
  hdr_decode (firstn 10 s) = HOk h /\ t = frame_headers (skipn (10 + N.to_nat (h_len h)) s).
Proof.
  intros s h t H. unfold frame_headers in *. destruct (length s) as [|n] eqn:E; [discriminate|].
  cbn [parse_frames] in H. rewrite E in H.
  destruct (Nat.ltb_spec (S n) 10) as [L|G]; [discriminate|].
  destruct (hdr_decode (firstn 10 s)) as [h'|e]; [|discriminate].
  injection H as <- <-. split; [reflexivity|].
  apply parse_frames_fuel; rewrite skipn_length; lia.
Qed.

(* whatever the pauses, what the read side reports is an initial part of the headers that sit at
   the frame boundaries of the byte stream the peer sent: no header is ever decoded from bytes that
   do not start a frame *)
Lemma client_paused_log_prefix : forall c pieces,
  exists rest, frame_headers (concat pieces) = client_paused_log c pieces ++ rest.
Proof.
  intros c pieces. unfold client_paused_log.
  destruct (reading c); [|eexists; cbn [app]; reflexivity].
  assert (P : exists rest, frame_headers (concat pieces) = frame_headers (hd [] pieces) ++ rest).
  { destruct pieces as [|p ps]; cbn [concat hd].
    - exists []. reflexivity.
    - unfold frame_headers.
      destruct (parse_frames_app_prefix (length (p ++ concat ps)) p (concat ps)) as [rest R].
      exists rest. rewrite R. f_equal. apply parse_frames_fuel; [rewrite app_length; lia | lia]. }
  destruct P as [rest R]. destruct (c_closed c); [|exists rest; exact R].
  exists (skipn 1 (frame_headers (hd [] pieces)) ++ rest).
  rewrite app_assoc, firstn_skipn. exact R.
Qed.

(* a pause inside the first header: nothing is reported at all *)
Lemma client_paused_log_split_header : forall c p ps, (length p < 10)%nat ->
  client_paused_log c (p :: ps) = [].
Proof.
  intros c p ps L. unfold client_paused_log, frame_headers. cbn [hd].
  assert (E : parse_frames (length p) p = []).
  { destruct (length p) as [|n] eqn:E; [reflexivity|]. cbn [parse_frames]. rewrite E.
    destruct (Nat.ltb_spec (S n) 10); [reflexivity|lia]. }
  rewrite E. destruct (reading c); [|reflexivity]. destruct (c_closed c); reflexivity.
Qed.

(* ------------------------------------------------------------------ shared writers *)

Lemma frame_headers_cons : forall b pl rest h, hdr_decode b = HOk h -> length b = 10%nat ->
  length pl = N.to_nat (h_len h) -> frame_headers ((b ++ pl) ++ rest) = h :: frame_headers rest.
Proof.
  intros b pl rest h D Lb Lp. unfold frame_headers.
  assert (L : length ((b ++ pl) ++ rest) = S (9 + N.to_nat (h_len h) + length rest)).
  { rewrite !app_length. lia. }
  rewrite L. cbn [parse_frames]. rewrite L.
  destruct (Nat.ltb_spec (S (9 + N.to_nat (h_len h) + length rest)) 10); [lia|].
  assert (F : firstn 10 ((b ++ pl) ++ rest) = b).
  { rewrite <- app_assoc, firstn_app, Lb. replace (10 - 10)%nat with 0%nat by lia.
    rewrite firstn_O, app_nil_r. apply firstn_all2. lia. }
  rewrite F, D. f_equal.
  assert (S' : skipn (10 + N.to_nat (h_len h)) ((b ++ pl) ++ rest) = rest).
  { rewrite skipn_app, app_length, Lb, Lp. replace (10 + N.to_nat (h_len h) - (10 + N.to_nat (h_len h)))%nat with 0%nat by lia.
    rewrite skipn_all2 by (rewrite app_length; lia). reflexivity. }
  rewrite S'. apply parse_frames_fuel; lia.
Qed.

(* whatever order the writer serves the calls in, the stream it produces carries, frame by frame,
   exactly the headers of the accepted calls - each once, each followed by its own payload *)
Lemma msg_writer_stream_headers : forall ver items, ver < 8 ->
  Forall (fun it : N * N * N * N => snd (fst it) < 2 ^ 32) items ->
  frame_headers (msg_writer_stream ver items) = msg_writer_headers ver items.
Proof.
  intros ver items V. induction items as [|[[[typ len] id] fill] rest IH]; intros W.
  - reflexivity.
  - inversion W as [|x l Hid Hrest]; subst. cbn [fst snd] in Hid.
    unfold msg_writer_stream, msg_writer_frames, msg_writer_headers in *. cbn [flat_map].
    unfold msg_writer_frame at 1.
    destruct (hdr_encode (mkHdr ver typ len id)) as [b|] eqn:E.
    + cbn [app concat]. destruct (hdr_encode_some _ _ E) as (Hb & T & R & Ln). cbn [h_typ h_len] in *.
      rewrite (frame_headers_cons b (repeat fill (N.to_nat len)) _ (mkHdr ver typ len id)).
      * rewrite IH by assumption. reflexivity.
      * apply hdr_roundtrip_enc_dec; [|assumption|exact E].
        unfold wf_hdr. cbn [h_ver h_typ h_len h_id]. change (2 ^ 8) with 256. change (2 ^ 16) with 65536.
        change (2 ^ 32) with 4294967296 in *. repeat split; lia.
      * subst b. apply hdr_write_length.
      * cbn [h_len]. apply repeat_length.
    + cbn [app]. apply IH. assumption.
Qed.
