(* Message-type tables of pkg/llrp as data, boolean checkers over them, and soundness of the
   checkers (proved once).  The tables themselves are NOT written here: on every run the check
   dumps, from the running Go code and for all 1024 type codes t,
       MessageType(t).IsValid()
       MessageType(t).Converse()            (value, ok)
       MessageType(t).NewInstance()         nil?, and the instance's own Type()
       { u < 1024 | Message{typ:u}.isResponseTo(t) == nil }
   into build/gen/C19/MsgTables.v as a [msg_tables] value, and compiles
       Theorem ... : checker gen_tables = true.  Proof. vm_compute. reflexivity. Qed.
   against the soundness lemmas below. *)
From Coq Require Import NArith List Bool Lia ZifyN ZifyNat ZifyBool.
Import ListNotations.
Open Scope N_scope.

Record msg_tables := mkTables {
  t_valid  : list bool;        (* index t: IsValid() *)
  t_mirror : list (option N);  (* index t: Converse(): Some u if ok *)
  t_inst   : list (option N);  (* index t: NewInstance() != nil -> Some (instance.Type()) *)
  t_resp   : list (list N)     (* index t: response types accepted by isResponseTo(t), ascending *)
}.

Definition ncodes : nat := 1024.
Definition codes : list N := map N.of_nat (seq 0 ncodes).

Definition valid_of (T : msg_tables) (t : N) : bool := nth (N.to_nat t) (t_valid T) false.
Definition mirror_of (T : msg_tables) (t : N) : option N := nth (N.to_nat t) (t_mirror T) None.
Definition inst_of (T : msg_tables) (t : N) : option N := nth (N.to_nat t) (t_inst T) None.
Definition resp_of (T : msg_tables) (t : N) : list N := nth (N.to_nat t) (t_resp T) [].

(* the pinned list of LLRP 1.1 request -> response pairs (same content as spec/llrp_pairs.json,
   entries with "required": true; the generated file re-states the JSON content and proves it
   equal to this definition).  Every LLRP message named X that has a message X_RESPONSE. *)
Definition llrp_pairs : list (N * N) :=
  [ (1, 11);   (* GET_READER_CAPABILITIES *)
    (2, 12);   (* GET_READER_CONFIG *)
    (3, 13);   (* SET_READER_CONFIG *)
    (14, 4);   (* CLOSE_CONNECTION -> CLOSE_CONNECTION_RESPONSE *)
    (20, 30);  (* ADD_ROSPEC *)
    (21, 31);  (* DELETE_ROSPEC *)
    (22, 32);  (* START_ROSPEC *)
    (23, 33);  (* STOP_ROSPEC *)
    (24, 34);  (* ENABLE_ROSPEC *)
    (25, 35);  (* DISABLE_ROSPEC *)
    (26, 36);  (* GET_ROSPECS *)
    (40, 50);  (* ADD_ACCESSSPEC *)
    (41, 51);  (* DELETE_ACCESSSPEC *)
    (42, 52);  (* ENABLE_ACCESSSPEC *)
    (43, 53);  (* DISABLE_ACCESSSPEC *)
    (44, 54);  (* GET_ACCESSSPECS *)
    (45, 55);  (* CLIENT_REQUEST_OP (reader -> client) -> CLIENT_REQUEST_OP_RESPONSE *)
    (46, 56);  (* GET_SUPPORTED_VERSION *)
    (47, 57);  (* SET_PROTOCOL_VERSION *)
    (1023, 1023) ] (* CUSTOM_MESSAGE: a custom request is answered by a custom message; the device
                     service's documented custom-message command relies on this pairing *).

(* ------------------------------------------------------------------ checkers *)

Definition opt_eqb (a b : option N) : bool :=
  match a, b with Some x, Some y => x =? y | None, None => true | _, _ => false end.

Fixpoint list_eqb (a b : list N) : bool :=
  match a, b with
  | [], [] => true
  | x :: a', y :: b' => (x =? y) && list_eqb a' b'
  | _, _ => false
  end.

Definition shape_b (T : msg_tables) : bool :=
  Nat.eqb (length (t_valid T)) ncodes && Nat.eqb (length (t_mirror T)) ncodes
  && Nat.eqb (length (t_inst T)) ncodes && Nat.eqb (length (t_resp T)) ncodes.

(* every instantiable type reports its own code *)
Definition instance_type_agree_b (T : msg_tables) : bool :=
  forallb (fun t => match inst_of T t with Some n => n =? t | None => true end) codes.

(* mirror t = Some u  ->  u < 1024 and mirror u = Some t *)
Definition mirror_symmetric_b (T : msg_tables) : bool :=
  forallb (fun t => match mirror_of T t with
                    | Some u => (u <? 1024) && opt_eqb (mirror_of T u) (Some t)
                    | None => true end) codes.

(* every pinned request maps to its response (and, being symmetric, back) *)
Definition mirror_complete_b (T : msg_tables) (pairs : list (N * N)) : bool :=
  forallb (fun p => opt_eqb (mirror_of T (fst p)) (Some (snd p))
                    && opt_eqb (mirror_of T (snd p)) (Some (fst p))) pairs.

(* isResponseTo(t) accepts exactly the mirror of t *)
Definition resp_consistent_b (T : msg_tables) : bool :=
  forallb (fun t => list_eqb (resp_of T t)
                      (match mirror_of T t with Some u => [u] | None => [] end)) codes.

(* IsValid is the range 1..1023 without 900..999, and whatever can be instantiated or paired
   is valid *)
Definition valid_consistent_b (T : msg_tables) : bool :=
  forallb (fun t =>
    Bool.eqb (valid_of T t) ((1 <=? t) && (t <=? 1023) && negb ((900 <=? t) && (t <=? 999)))
    && match inst_of T t with Some _ => valid_of T t | None => true end
    && match mirror_of T t with Some _ => valid_of T t | None => true end) codes.

(* diagnosis: the codes at which a per-code checker fails (evaluated by the check to name the
   failing type code in its report) *)
Definition failing (f : N -> bool) : list N := filter (fun t => negb (f t)) codes.

(* ------------------------------------------------------------------ soundness *)

Lemma in_codes : forall t, t < 1024 -> In t codes.
Proof.
  intros t H. unfold codes. apply in_map_iff. exists (N.to_nat t). split; [lia|].
  apply in_seq. unfold ncodes. lia.
Qed.

Lemma opt_eqb_eq : forall a b, opt_eqb a b = true -> a = b.
Proof.
  intros [x|] [y|]; cbn; intros H; try discriminate; try reflexivity.
  apply N.eqb_eq in H. congruence.
Qed.

Lemma list_eqb_eq : forall a b, list_eqb a b = true -> a = b.
Proof.
  induction a; destruct b; cbn; intros H; try discriminate; try reflexivity.
  apply andb_true_iff in H. destruct H as [H1 H2]. apply N.eqb_eq in H1. f_equal; auto.
Qed.

Lemma instance_type_agree_sound : forall T, instance_type_agree_b T = true ->
  forall t n, t < 1024 -> inst_of T t = Some n -> n = t.
Proof.
  intros T H t n Ht Hi. unfold instance_type_agree_b in H. rewrite forallb_forall in H.
  specialize (H t (in_codes t Ht)). rewrite Hi in H. apply N.eqb_eq. exact H.
Qed.

Lemma mirror_symmetric_sound : forall T, mirror_symmetric_b T = true ->
  forall t u, t < 1024 -> mirror_of T t = Some u -> u < 1024 /\ mirror_of T u = Some t.
Proof.
  intros T H t u Ht Hm. unfold mirror_symmetric_b in H. rewrite forallb_forall in H.
  specialize (H t (in_codes t Ht)). rewrite Hm in H. apply andb_true_iff in H.
  destruct H as [H1 H2]. split; [apply N.ltb_lt; exact H1|apply opt_eqb_eq; exact H2].
Qed.

(* a symmetric partial map is one-to-one *)
Lemma mirror_injective_sound : forall T, mirror_symmetric_b T = true ->
  forall t t' u, t < 1024 -> t' < 1024 -> mirror_of T t = Some u -> mirror_of T t' = Some u -> t = t'.
Proof.
  intros T H t t' u Ht Ht' Hm Hm'.
  destruct (mirror_symmetric_sound T H t u Ht Hm) as [_ A].
  destruct (mirror_symmetric_sound T H t' u Ht' Hm') as [_ B].
  congruence.
Qed.

Lemma mirror_complete_sound : forall T pairs, mirror_complete_b T pairs = true ->
  forall rq rs, In (rq, rs) pairs -> mirror_of T rq = Some rs /\ mirror_of T rs = Some rq.
Proof.
  intros T pairs H rq rs Hin. unfold mirror_complete_b in H. rewrite forallb_forall in H.
  specialize (H (rq, rs) Hin). cbn [fst snd] in H. apply andb_true_iff in H.
  destruct H as [H1 H2]. split; apply opt_eqb_eq; assumption.
Qed.

Lemma resp_consistent_sound : forall T, resp_consistent_b T = true ->
  forall t, t < 1024 ->
  resp_of T t = match mirror_of T t with Some u => [u] | None => [] end.
Proof.
  intros T H t Ht. unfold resp_consistent_b in H. rewrite forallb_forall in H.
  apply list_eqb_eq. exact (H t (in_codes t Ht)).
Qed.

Lemma valid_consistent_sound : forall T, valid_consistent_b T = true ->
  forall t, t < 1024 ->
  (valid_of T t = true <-> (1 <= t <= 1023 /\ ~ (900 <= t <= 999)))
  /\ (inst_of T t <> None -> valid_of T t = true)
  /\ (mirror_of T t <> None -> valid_of T t = true).
Proof.
  intros T H t Ht. unfold valid_consistent_b in H. rewrite forallb_forall in H.
  specialize (H t (in_codes t Ht)). apply andb_true_iff in H. destruct H as [H H3].
  apply andb_true_iff in H. destruct H as [H1 H2]. apply eqb_prop in H1.
  split; [|split].
  - rewrite H1, !andb_true_iff, negb_true_iff, andb_false_iff, !N.leb_le, !N.leb_gt. lia.
  - destruct (inst_of T t); [intros _; exact H2|congruence].
  - destruct (mirror_of T t); [intros _; exact H3|congruence].
Qed.
