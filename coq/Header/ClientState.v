(* The read side of a Client in every state a connection can be in.

   Client.readHeader is a method: it can see every field of the Client (the version in use, whether
   the first message has been seen, whether negotiation is under way or finished, outstanding
   requests, sentClose, isClosed ...).  The property fixes what a header decodes to as a function
   of its 10 bytes, so the model of the method takes the whole client state as an argument and the
   theorems (ClientStateProofs.v) say that the result does not depend on it.  What the code does
   look at is written in:  c.timeout > 0  =>  conn.SetReadDeadline first, whose failure is returned.

   The states themselves are produced by [client_run] from a connection history (what Connect, the
   peer and the user of the Client did so far); the correspondence drives a real Client through
   the same histories (harness/llrp/c19_test.go, requests stl / std) and compares, per history,
   the version the Client holds then and what it decodes, with these definitions.
   Executable definitions only. *)
From Coq Require Import NArith List Bool.
From LLRP Require Import Header.Header.
Import ListNotations.
Open Scope N_scope.

Inductive cphase :=
| PNew          (* NewClient(...) done, Connect not called: nothing reads the connection *)
| PAwaitFirst   (* Connect -> checkInitialMessage is reading the first message *)
| PNegGsv       (* loops run; GetSupportedVersion sent, reply outstanding *)
| PNegSpv       (* SetProtocolVersion sent, reply outstanding *)
| PReady        (* c.ready closed: negotiation finished (or skipped for a 1.0.1 client) *)
| PDead.        (* the read loop has returned *)

Record cstate := mkC {
  c_ver : N;            (* Client.version: sent in headers; established during negotiation *)
  c_timeout : bool;     (* Client.timeout > 0 *)
  c_phase : cphase;
  c_outstanding : N;    (* entries of the awaiting map placed by users of the Client *)
  c_sent_close : bool;  (* sentClose *)
  c_closed : bool;      (* isClosed (done is closed) *)
  c_next_id : N         (* nextMsgID of the write loop: the ID the next message without one gets *)
}.

(* NewClient(WithVersion(v)[, WithTimeout(d)]) *)
Definition c_new (v : N) (timeout : bool) : cstate := mkC v timeout PNew 0 false false 0.

(* Client.readHeader on a client in state [c]; [deadline_ok] = conn.SetReadDeadline succeeds;
   [stream] = what the connection delivers before EOF *)
Definition client_read_header (c : cstate) (deadline_ok : bool) (stream : list N) : hres :=
  if c_timeout c && negb deadline_ok then HErr ErrDeadline else read_header stream.

(* Client.writeHeader on a client in state [c]: the bytes handed to conn.Write *)
Definition client_write_header (c : cstate) (h : header) : list N := write_header h.

(* is the message whose header [h] was just decoded handed to the handler registered for it (or the
   default handler)?  The read loop always does; checkInitialMessage refuses to buffer a first
   message above MaxBufferedPayloadSz and returns before any handler sees it. *)
Definition max_buffered_payload : N := 655360.
Definition client_offers (c : cstate) (h : header) : bool :=
  match c_phase c with
  | PAwaitFirst => h_len h <=? max_buffered_payload
  | _ => true
  end.

(* is a goroutine of the Client reading headers from the connection? *)
Definition reading (c : cstate) : bool :=
  match c_phase c with
  | PAwaitFirst | PNegGsv | PNegSpv | PReady => true
  | PNew | PDead => false
  end.

Inductive cevent :=
| EvConn                   (* Connect(conn) is called *)
| EvFirst                  (* the peer's ReaderEventNotification with a successful connection event *)
| EvGsv (cur mx : N)       (* GetSupportedVersionResponse{current, max supported}, status success *)
| EvGsvErr                 (* ErrorMessage "version unsupported" answering GetSupportedVersion *)
| EvSpv                    (* SetProtocolVersionResponse, status success *)
| EvXchg                   (* a complete request/response exchange through SendMessage *)
| EvReq                    (* SendMessage has written a request; no reply yet *)
| EvSentClose              (* Shutdown has written CloseConnection; no reply yet *)
| EvClose                  (* Close() *)
| EvFail                   (* the peer sends a header whose length field is 0 *)
| EvEof                    (* the peer closes the connection *)
| EvRecv (stream : list N) (* any other message arrives: [stream] = its header and payload, complete;
                              not the reply to an outstanding request *).

Definition set_phase (c : cstate) (p : cphase) : cstate :=
  mkC (c_ver c) (c_timeout c) p (c_outstanding c) (c_sent_close c) (c_closed c) (c_next_id c).

(* the read side returns; Connect's deferred Close has run *)
Definition die (c : cstate) : cstate :=
  mkC (c_ver c) (c_timeout c) PDead (c_outstanding c) (c_sent_close c) true (c_next_id c).

(* the write loop: "if msg.id == 0 { msg.id = nextMsgID; nextMsgID++ }" (a uint32) *)
Definition next_id (c : cstate) : N := (c_next_id c + 1) mod 2 ^ 32.
Definition sent_one (c : cstate) : cstate :=
  mkC (c_ver c) (c_timeout c) (c_phase c) (c_outstanding c) (c_sent_close c) (c_closed c) (next_id c).
(* can a caller's message reach the write loop?  (ready, done not closed, loop not stopped) *)
Definition sendable (c : cstate) : bool :=
  match c_phase c with PReady => negb (c_closed c) && negb (c_sent_close c) | _ => false end.

(* negotiate(): ver := min(c.version, MaxSupportedVersion) (stored when lowered);
   done if the reader already uses it, else SetProtocolVersion *)
Definition after_gsv (c : cstate) (cur mx : N) : cstate :=
  let v := if mx <? c_ver c then mx else c_ver c in
  mkC v (c_timeout c) (if cur =? v then PReady else PNegSpv)
      (c_outstanding c) (c_sent_close c) (c_closed c)
      (if cur =? v then c_next_id c else next_id c).   (* SetProtocolVersion goes out *)

Definition client_step (c : cstate) (e : cevent) : cstate :=
  match e with
  | EvConn => match c_phase c with PNew => set_phase c PAwaitFirst | _ => c end
  | EvFirst =>
      match c_phase c with
      | PAwaitFirst =>
          if c_closed c then die c    (* the loops (and negotiation) see done at once *)
          else if 1 <? c_ver c then sent_one (set_phase c PNegGsv)   (* GetSupportedVersion goes out *)
          else set_phase c PReady
      | _ => c
      end
  (* a reply that arrives after Close is no longer awaited: read as one more message, then the
     loop notices done *)
  | EvGsv cur mx =>
      match c_phase c with PNegGsv => if c_closed c then die c else after_gsv c cur mx | _ => c end
  | EvGsvErr =>
      match c_phase c with PNegGsv => if c_closed c then die c else after_gsv c 1 1 | _ => c end
  | EvSpv =>
      match c_phase c with PNegSpv => if c_closed c then die c else set_phase c PReady | _ => c end
  | EvXchg => if sendable c then sent_one c else c
  | EvReq =>
      if sendable c
      then mkC (c_ver c) (c_timeout c) PReady (c_outstanding c + 1) (c_sent_close c) (c_closed c) (next_id c)
      else c
  | EvSentClose =>
      if sendable c
      then mkC (c_ver c) (c_timeout c) PReady (c_outstanding c) true (c_closed c) (next_id c)
      else c
  | EvClose => mkC (c_ver c) (c_timeout c) (c_phase c) (c_outstanding c) (c_sent_close c) true (c_next_id c)
  | EvFail | EvEof => if reading c then die c else c
  | EvRecv s =>
      if reading c then
        match client_read_header c true s with
        | HErr _ => die c                       (* "failed to get next message" *)
        | HOk _ =>
            if c_closed c then die c            (* the loop notices done after this message *)
            else match c_phase c with
                 | PAwaitFirst => die c         (* not the connection event: Connect returns *)
                 | _ => c
                 end
        end
      else c
  end.

Definition client_run (c : cstate) (evs : list cevent) : cstate := fold_left client_step evs c.

(* what the read side decodes along a history: one entry per message it reads *)
Fixpoint client_observe (c : cstate) (evs : list cevent) : list hres :=
  match evs with
  | [] => []
  | e :: rest =>
      let here := match e with
                  | EvRecv s => if reading c then [client_read_header c true s] else []
                  | _ => []
                  end in
      here ++ client_observe (client_step c e) rest
  end.

(* ... and the byte streams those reads were given *)
Fixpoint client_reads (c : cstate) (evs : list cevent) : list (list N) :=
  match evs with
  | [] => []
  | e :: rest =>
      let here := match e with
                  | EvRecv s => if reading c then [s] else []
                  | _ => []
                  end in
      here ++ client_reads (client_step c e) rest
  end.

(* ---- every way a caller can put a message type on the connection.

   newMessage(data, payloadLen, typ) - shared by NewHdrOnlyMsg(typ) (payloadLen 0) and
   NewByteMessage(typ, payload) (payloadLen = len(payload)), hence by Client.SendMessage(ctx, typ,
   data) and Client.SendFor(ctx, out, in) (typ = out.Type(), data = out.MarshalBinary()) - panics
   unless validateHeader accepts (payloadLen, typ); the Message carries version VersionMin, id 0. *)
Definition version_min : N := 1.
Definition new_message (len typ : N) : option header :=
  if validate_header len typ then Some (mkHdr version_min typ len 0) else None.

(* handleOutgoing: the ID is assigned if the message has none; GetSupportedVersion and
   SetProtocolVersion carry 1.1, everything else the version in use; then writeHeader *)
Definition stamp (c : cstate) (m : header) : header :=
  mkHdr (if (h_typ m =? 46) || (h_typ m =? 47) then 2 else c_ver c) (h_typ m) (h_len m)
        (if h_id m =? 0 then c_next_id c else h_id m).

(* SendNoWait(newMessage ..) / SendMessage / SendFor on a client in state [c]: refused (None: the
   constructor panics, or nothing takes the message), or the header bytes that go out *)
Definition client_send (c : cstate) (typ len : N) : option (list N) :=
  if sendable c then
    match new_message len typ with
    | None => None
    | Some m => Some (client_write_header c (stamp c m))
    end
  else None.

(* a batch of sends, one after the other: each accepted one uses up an ID *)
Fixpoint client_send_all (c : cstate) (reqs : list (N * N)) : list (option (list N)) :=
  match reqs with
  | [] => []
  | (typ, len) :: rest =>
      let r := client_send c typ len in
      r :: client_send_all (match r with Some _ => sent_one c | None => c end) rest
  end.

(* ---- a connection that fails while the header is written.  conn.Write(p) either takes all of p,
   or takes the first k bytes and returns an error (a deadline that expired, or anything else);
   what happens on later Write calls is irrelevant: writeHeader calls Write once and reports its
   error. *)
Inductive wfault := WNoFault | WFault (k : nat) (is_timeout : bool).

Definition conn_write (f : wfault) (p : list N) : list N * bool :=
  match f with
  | WNoFault => (p, true)
  | WFault k _ => (firstn k p, false)
  end.

(* writeHeader over such a connection: (what the peer has received, success reported) *)
Definition client_write_header_io (c : cstate) (h : header) (f : wfault) : list N * bool :=
  conn_write f (client_write_header c h).

(* a message of [len] zero bytes sent through the write loop over such a connection (the fault hits
   the first Write, which is the header's): the payload follows only a header reported as written *)
Definition client_send_io (c : cstate) (typ len : N) (f : wfault) : option (list N * bool) :=
  match client_send c typ len with
  | None => None
  | Some hb =>
      let (got, ok) := conn_write f hb in
      Some (if ok then got ++ repeat 0 (N.to_nat len) else got, ok)
  end.

(* ---- a stream whose delivery pauses for longer than the read deadline.

   The peer sends frames (header, payload) back to back; the connection hands them to the client in
   [pieces], and between two pieces a Read returns a deadline error (the client has a timeout and
   the bytes came too late), after which the remaining bytes do arrive.  io.ReadFull returns that
   error with the k bytes it already holds consumed, so readHeader fails, and its callers
   (checkInitialMessage, the read loop; likewise while a payload is read) give the connection up:
   reading a header is all-or-nothing, and a failed read uses the connection up - nothing is decoded
   from later bytes, which would start at an arbitrary offset inside a frame.

   [parse_frames fuel s]: the headers the read side reports (logs, dispatches) for the byte stream
   [s] that arrives without a pause: one per frame whose 10 header bytes are all there, in order,
   until a header is rejected or the stream ends (inside a header: not reported; inside a payload:
   the header was reported). *)
Fixpoint parse_frames (fuel : nat) (s : list N) : list header :=
  match fuel with
  | O => []
  | S f =>
      if Nat.ltb (length s) 10 then []
      else match hdr_decode (firstn 10 s) with
           | HErr _ => []
           | HOk h => h :: parse_frames f (skipn (10 + N.to_nat (h_len h)) s)
           end
  end.

Definition frame_headers (s : list N) : list header := parse_frames (length s) s.

(* the read side of a client in state [c] given the stream in [pieces] (a deadline error between
   consecutive pieces): only what precedes the first pause is ever decoded.  A closed client reads
   one more message.  (In PAwaitFirst the first frame is taken to be the connection-success event;
   anything else ends Connect after that one header.) *)
Definition client_paused_log (c : cstate) (pieces : list (list N)) : list header :=
  if reading c then
    let log := frame_headers (hd [] pieces) in
    if c_closed c then firstn 1 log else log
  else [].

(* ---- writers shared between goroutines.  msgWriter.Write(mid, out) (msg_builder.go; one writer is
   shared by the goroutines of its users) puts Header{version of the writer, out.Type(),
   len(out.MarshalBinary()), mid} and the payload on the underlying io.Writer under its mutex; the
   write loop of a Client does the same for the messages queued by concurrent SendNoWait calls.
   An item is (type, payload length, id, payload byte). *)
Definition msg_writer_frame (ver : N) (it : N * N * N * N) : option (list N) :=
  let '(typ, len, id, fill) := it in
  match hdr_encode (mkHdr ver typ len id) with
  | Some b => Some (b ++ repeat fill (N.to_nat len))
  | None => None
  end.

(* the frames that reach the wire for the calls [items], in the order the writer served them *)
Definition msg_writer_frames (ver : N) (items : list (N * N * N * N)) : list (list N) :=
  flat_map (fun it => match msg_writer_frame ver it with Some f => [f] | None => [] end) items.

Definition msg_writer_stream (ver : N) (items : list (N * N * N * N)) : list N :=
  concat (msg_writer_frames ver items).

(* the headers of the accepted calls *)
Definition msg_writer_headers (ver : N) (items : list (N * N * N * N)) : list header :=
  flat_map (fun it => let '(typ, len, id, _) := it in
                      match hdr_encode (mkHdr ver typ len id) with Some _ => [mkHdr ver typ len id] | None => [] end)
           items.
