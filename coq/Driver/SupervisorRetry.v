(* C15/C18 — consistency of the two models of the retry behaviour.

   Driver/Supervisor.v abstracts retry.Quick / retry.Slow to the fields [round_fails] and
   [in_slow] of its state; Retry/RetryLoop.v models ExpBackOff.RetryWithCtx itself
   ([retry_run] over outcome/context histories, [retry_run_cfg] with the configured policy).
   Each is tied to the Go code separately. Here: the way the supervisor consumes dial outcomes in
   its nested loops

       for ctx.Err() == nil {                                               -- outer loop
         retry.Slow.RetryWithCtx(ctx, retry.Forever, func {                 -- slow phase
           err := retry.Quick.RetryWithCtx(ctx, maxConnAttempts, dial)      -- quick phase ("round")
           switch err { case nil: return true, nil; case context.Canceled: return false, err }
           <Down block>; return true, err }) }

   is an instance of [retry_run_cfg] with the configuration of retry.Quick / retry.Slow
   (internal/retry/retry.go:26-41) and the [retries] arguments device.go passes.

   THE ABSTRACTION FUNCTION (supervisor events -> RetryLoop histories)
   * one dial attempt -> one call of the retried func; its result as device.go's callback
     returns it ([cb]): ClosedNormally -> (_, nil) = Ok; every other end of an attempt ->
     (true, err) = Rec; never (false, err): no attempt is Fatal.
   * quick phase that starts with the dial outcomes [ds] ahead ([quick_hist]):
       pre   = ctx.Err() at entry: None, except when no attempt is left and Stop comes: the
               supervisor model's Stop in its "about to dial" state is read as "the context had
               ended when Quick.RetryWithCtx was entered" (see FINDING below);
       first = cb (first outcome); steps = one WRun (cb o) per further outcome, then, if Stop
       arrives when the outcomes are used up, WCtx Canceled (Stop during the pause: the
       supervisor model handles Stop atomically, so the select sees ctx.Done with the timer not
       due; the event StRunCtxEnded of RetryLoop has no counterpart);
       t_remaining = None throughout (the device's context has no deadline), so the deadline
       pre-check never fires and the result does not depend on the jitter draws.
   * what the quick phase returns to the slow phase ([scb]): RetNil -> Ok;
     any *FError -> Rec. `case context.Canceled:` compares the *FError with == and never
     matches (DESIGN §7), so a cancelled quick phase is Rec too, after the Down block.
   * slow phase = [retry_run_cfg slow_cfg Forever] over the results of the rounds.

   THE CORNER "Stop while the supervisor is about to dial" (initial state, or right after an
   attempt ended with ErrClientClosed; found while proving this, first reported as a difference
   between the two models, now modelled): in Go the cancellation is noticed either
     - by Quick.RetryWithCtx's entry check or by the dial already in flight: the quick phase
       returns an *FError and the Down block runs -- the event [Stop] of Supervisor.v; as a
       RetryLoop history: slow phase pre = None, quick phase pre = Some Canceled
       ([quick_phase_agrees] with ds = [], [about_to_dial_stop_in_supervisor]); or
     - a few instructions earlier, by the outer `for ctx.Err() == nil` or Slow.RetryWithCtx's
       entry check: the slow func is never called, no Down block -- the event [StopAtEntry];
       as a RetryLoop history: slow phase pre = Some Canceled, zero calls
       ([stop_at_entry_agrees], [slow_entry_cancelled_no_down]).
   In every other state the two events coincide ([stop_events_coincide]). The harness exercises
   the corner with Stop right after NewLLRPDevice and accepts either of the two behaviours. *)
From Coq Require Import ZArith NArith List Bool Arith Lia.
From LLRP Require Retry.NextWait Retry.RetryLoop Retry.RetryLoopProofs Driver.Supervisor.
Import ListNotations.

Module S := LLRP.Driver.Supervisor.
Module R := LLRP.Retry.RetryLoop.

(* ---- configuration, from /repo/internal/retry/retry.go and device.go ---- *)
(* Quick = ExpBackOff{BackOff: 50ms, Max: 30s, Jitter: true, KeepErrs: 10}  (nanoseconds) *)
Definition quick_cfg : R.config := R.mkCfg 50000000 30000000000 true.
(* Slow = ExpBackOff{BackOff: 5s, Max: 30min, Jitter: true, KeepErrs: 10} *)
Definition slow_cfg : R.config := R.mkCfg 5000000000 1800000000000 true.
Definition keep_errs : Z := 10.
(* device.go:133  retry.Quick.RetryWithCtx(ctx, maxConnAttempts, ...) *)
Definition quick_retries : Z := Z.of_nat S.max_conn_attempts.
(* device.go:130  retry.Slow.RetryWithCtx(ctx, retry.Forever, ...);  const Forever = -1 *)
Definition forever : Z := -1.

(* ---- the abstraction function ---- *)
(* device.go:133-178: what the dial callback returns *)
Definition cb (o : S.outcome) : R.outcome :=
  match o with S.ClosedNormally => R.Ok | _ => R.Rec 0 end.

(* the five outcomes whose attempt is over when the event is (no connection left standing) *)
Definition five (o : S.outcome) : bool := match o with S.Established => false | _ => true end.

(* timed history without deadline: draws are arbitrary *)
Fixpoint mk_ts (draw : nat -> Z) (k : nat) (evs : list R.wait_ev) : list R.tstep :=
  match evs with
  | [] => []
  | e :: rest => R.mkT (draw k) None e :: mk_ts draw (S k) rest
  end.

Definition stop_ev (stop : bool) : list R.wait_ev := if stop then [R.WCtx R.Canceled] else [].

(* history of the quick phase that starts with the outcomes ds ahead; Stop (if any) arrives
   when they are used up *)
Definition quick_pre (ds : list S.outcome) (stop : bool) : option R.ctx_err :=
  match ds with [] => if stop then Some R.Canceled else None | _ => None end.
Definition quick_first (ds : list S.outcome) : R.outcome := cb (hd S.Refused ds).
Definition quick_evs (ds : list S.outcome) (stop : bool) : list R.wait_ev :=
  map (fun o => R.WRun (cb o)) (tl ds) ++ stop_ev stop.

Definition quick_result (draw : nat -> Z) (ds : list S.outcome) (stop : bool) : R.result :=
  R.retry_run_cfg quick_cfg quick_retries keep_errs (quick_pre ds stop) (quick_first ds)
                  (mk_ts draw 0 (quick_evs ds stop)).

(* how a phase ends *)
Inductive kind := KNil | KExhausted | KCtx | KMore | KOtherErr.
Definition kind_of (r : R.result) : kind :=
  match R.res r with
  | R.RetNil => KNil                  (* returned nil *)
  | R.RetMore _ => KMore              (* still looping: the history has no further event *)
  | R.RetErr fe => match R.main fe with
                   | R.ERetriesExceeded => KExhausted
                   | R.ECtx R.Canceled => KCtx
                   | _ => KOtherErr
                   end
  end.
Definition ctx_ended (r : R.result) : bool := match kind_of r with KCtx => true | _ => false end.

(* the supervisor events of that phase: as many dials as the retried func ran, then Stop if the
   phase saw the context end *)
Definition quick_events (r : R.result) (ds : list S.outcome) (force : bool) : list S.event :=
  map S.Dial (firstn (R.runs r) ds) ++ (if ctx_ended r then [S.Stop force] else []).

(* device.go:180-206: what the slow func returns for a finished quick phase *)
Definition scb (r : R.result) : R.outcome :=
  match R.res r with R.RetNil => R.Ok | _ => R.Rec 0 end.

(* a supervisor state at the start of a quick phase *)
Definition round_start (s : S.state) : Prop :=
  S.stopped s = false /\ S.connected s = false /\ S.round_fails s = 0 /\ S.lcl s = S.LFresh /\
  S.sdk_fails s = false.

(* what a phase writes into the supervisor's history, as a function of the attempts it made
   ([used]) and of how RetryWithCtx ended ([k]): the attempts, Stop if it was the context that ended
   the phase, and then -- exactly when RetryWithCtx returned an *FError (exhausted or cancelled:
   `case context.Canceled` never matches) -- the Down block *)
Definition up_entry (up : bool) : list S.entry := if up then [] else [S.LReport S.Up true].
Definition attempt_entries (a : S.addr) (up : bool) (d : S.outcome) : list S.entry :=
  S.LDial a ::
  match d with
  | S.Refused | S.AcceptedSilent | S.BadHandshake => [S.LFail]
  | S.HandshakeThenDropped => S.LHandshake :: up_entry up ++ [S.LFail]
  | S.ClosedNormally => S.LHandshake :: up_entry up ++ [S.LNormal]
  | S.Established => S.LHandshake :: up_entry up
  end.
Fixpoint attempts_log (a : S.addr) (up : bool) (ds : list S.outcome) : list S.entry :=
  match ds with
  | [] => []
  | d :: rest => attempt_entries a up d ++ attempts_log a (up || S.handshake_ok d) rest
  end.
Definition up_after (up : bool) (ds : list S.outcome) : bool := up || existsb S.handshake_ok ds.
Definition returns_ferror (k : kind) : bool :=
  match k with KExhausted | KCtx | KOtherErr => true | _ => false end.
Definition phase_log (a : S.addr) (up : bool) (used : list S.outcome) (k : kind) : list S.entry :=
  attempts_log a up used ++
  (match k with KCtx => [S.LStop] | _ => [] end) ++
  (if returns_ferror k && up_after up used then [S.LReport S.Down true] else []).

(* ---------------------------------------------------------------- proofs *)
Import S.
From LLRP Require Import Driver.SupervisorProofs.

Lemma to_steps_nodeadline : forall evs cfg draw n k,
  R.to_steps cfg n (mk_ts draw k evs) = map R.ev_step evs.
Proof.
  induction evs as [|e evs IH]; intros; cbn [mk_ts R.to_steps map]; auto.
  cbn [R.t_remaining R.exceeds R.t_ev]. now rewrite IH.
Qed.

(* without a deadline the configured policy and the jitter draws do not matter *)
Lemma quick_result_eq : forall draw ds stop,
  quick_result draw ds stop =
  R.retry_run quick_retries keep_errs (quick_pre ds stop) (quick_first ds)
              (map R.ev_step (quick_evs ds stop)).
Proof. intros. unfold quick_result, R.retry_run_cfg. now rewrite to_steps_nodeadline. Qed.

Lemma quick_two : forall e o tail,
  R.retry_run quick_retries keep_errs None (R.Rec e) (R.StRun o :: tail) =
  R.retry_run quick_retries keep_errs None (R.Rec e) [R.StRun o].
Proof. intros. destruct o, tail; reflexivity. Qed.

(* the quick phase, read off the supervisor's point of view: how many of the outcomes ahead it
   consumes and how it ends *)
Definition quick_shape (ds : list S.outcome) (stop : bool) : nat * kind :=
  match ds with
  | [] => (0, if stop then KCtx else KNil (* not used *))
  | d1 :: ds' =>
    match cb d1 with
    | R.Ok => (1, KNil)
    | _ => match ds' with
           | [] => (1, if stop then KCtx else KMore)
           | d2 :: _ => (2, match cb d2 with R.Ok => KNil | _ => KExhausted end)
           end
    end
  end.

Lemma quick_result_shape : forall draw ds stop, (ds <> [] \/ stop = true) ->
  (R.runs (quick_result draw ds stop), kind_of (quick_result draw ds stop)) = quick_shape ds stop.
Proof.
  intros draw ds stop H. rewrite quick_result_eq.
  destruct ds as [|d1 [|d2 rest]].
  - destruct H as [H|H]; [congruence|]. subst. reflexivity.
  - destruct d1, stop; reflexivity.
  - unfold quick_pre, quick_first, quick_evs. cbn [hd tl map List.app R.ev_step].
    destruct d1; cbn [cb]; try reflexivity; rewrite quick_two; destruct d2; reflexivity.
Qed.

Lemma round_start_inv : forall s, round_start s ->
  s = mk (isUp s) (cur_addr s) false false 0 (in_slow s) LFresh false (log s).
Proof. intros s (A & B & C & D & E). destruct s. cbn in *. now subst. Qed.

(* THE QUICK PHASE.  From any state at the start of a round, with the dial outcomes ds ahead
   (any number of them, each one of the five that end the attempt) and Stop arriving, if at
   all, when they are used up:  r = Quick.RetryWithCtx's run on the corresponding history. *)
Lemma quick_phase_agrees : forall draw s ds stop force,
  round_start s -> forallb five ds = true -> (ds <> [] \/ stop = true) ->
  (ds = [] -> in_slow s = false) ->   (* with no attempt ahead: about to dial, not in the slow wait *)
  let r := quick_result draw ds stop in
  let used := firstn (R.runs r) ds in
  let s' := run s (quick_events r ds force) in
  (* the supervisor's history of the phase is the one determined by RetryWithCtx's run: as many
     dials as the retried func ran, the Down block exactly when it returned an *FError *)
  log s' = log s ++ phase_log (cur_addr s) (isUp s) used (kind_of r) /\
  R.runs r <= max_conn_attempts /\
  isUp s' = (if returns_ferror (kind_of r) then false else up_after (isUp s) used) /\
  cur_addr s' = cur_addr s /\
  (* what ends the phase and where the supervisor is afterwards *)
  match kind_of r with
  | KNil =>          (* an attempt ended with ErrClientClosed: next phase afresh, no slow wait *)
      round_start s' /\ in_slow s' = false
  | KExhausted =>    (* maxConnAttempts recoverable failures: (Down block) then the slow wait *)
      round_start s' /\ in_slow s' = true
  | KCtx =>          (* Stop during the quick pause, or seen at entry: (Down block) and the end *)
      stop = true /\ stopped s' = true
  | KMore =>         (* in the quick pause, nothing more has happened yet *)
      stop = false /\ stopped s' = false /\ round_fails s' = 1 /\ in_slow s' = false
  | KOtherErr => False
  end.
Proof.
  intros draw s ds stop force RS F H SL. cbv zeta.
  pose proof (quick_result_shape draw ds stop H) as Sh.
  unfold quick_events, ctx_ended.
  set (r := quick_result draw ds stop) in *.
  assert (Hr : R.runs r = fst (quick_shape ds stop)) by (now rewrite <- Sh).
  assert (Hk : kind_of r = snd (quick_shape ds stop)) by (now rewrite <- Sh).
  rewrite Hr, Hk. clear Sh Hr Hk r.
  rewrite (round_start_inv s RS). set (up := isUp s). set (a := cur_addr s).
  set (sl := in_slow s) in *. set (lg := log s). clearbody up a sl lg. clear RS s.
  unfold phase_log, round_start, up_after.
  destruct ds as [|d1 [|d2 rest]].
  - destruct H as [H|H]; [congruence|]. subst stop. rewrite (SL eq_refl). clear SL.
    destruct up, force; cbn; rewrite <- ?app_assoc; cbn [List.app]; repeat split; auto; unfold max_conn_attempts; lia.
  - clear SL. destruct d1; try discriminate; destruct stop, up, force, sl; cbn;
      rewrite <- ?app_assoc; cbn [List.app]; repeat split; auto; unfold max_conn_attempts; lia.
  - cbn [forallb] in F. apply andb_true_iff in F. destruct F as [F1 F].
    apply andb_true_iff in F. destruct F as [F2 _]. clear SL.
    destruct d1; try discriminate; destruct d2; try discriminate; destruct up, sl; cbn;
      rewrite <- ?app_assoc; cbn [List.app]; repeat split; auto; unfold max_conn_attempts; lia.
Qed.

(* ---------------------------------------------------------------- the slow phase *)
(* a finished round: dial outcomes that make up exactly one complete quick phase *)
Definition round_kind (rd : list outcome) : kind := snd (quick_shape rd false).
Definition finished (rd : list outcome) : bool :=
  forallb five rd && negb (Nat.eqb (length rd) 0) && Nat.eqb (fst (quick_shape rd false)) (length rd) &&
  match round_kind rd with KNil | KExhausted => true | _ => false end.

(* what the slow func returns for it *)
Definition round_out (draw : nat -> Z) (rd : list outcome) : R.outcome :=
  scb (quick_result draw rd false).

(* history of one Slow.RetryWithCtx(ctx, Forever, slow func) whose calls of the slow func are the
   rounds rds; Stop (if any) arrives during the slow pause after the last of them *)
Definition slow_evs (draw : nat -> Z) (rds : list (list outcome)) (stop : bool) : list R.wait_ev :=
  map (fun rd => R.WRun (round_out draw rd)) (tl rds) ++ stop_ev stop.
Definition slow_result (draw draw' : nat -> Z) (rds : list (list outcome)) (stop : bool) : R.result :=
  R.retry_run_cfg slow_cfg forever keep_errs None (round_out draw (hd [] rds))
                  (mk_ts draw' 0 (slow_evs draw rds stop)).

(* the slow phase read off the rounds: it goes on until a round ends with nil *)
Fixpoint slow_shape (ks : list kind) (stop : bool) : nat * kind :=
  match ks with
  | [] => (0, if stop then KCtx else KMore)
  | KNil :: _ => (1, KNil)
  | _ :: rest => let '(n, k) := slow_shape rest stop in (S n, k)
  end.

Lemma scb_kind : forall r, scb r = match kind_of r with KNil => R.Ok | _ => R.Rec 0 end.
Proof.
  intros r. unfold scb, kind_of. destruct (R.res r) as [|fe|fe]; auto.
  destruct (R.main fe) as [| | |[|]|]; auto.
Qed.

Lemma finished_nonempty : forall rd, finished rd = true -> rd <> [].
Proof. intros [|d rd] H; [discriminate|congruence]. Qed.

Lemma round_out_kind : forall draw rd, finished rd = true ->
  round_out draw rd = match round_kind rd with KNil => R.Ok | _ => R.Rec 0 end.
Proof.
  intros draw rd F. unfold round_out. rewrite scb_kind.
  pose proof (quick_result_shape draw rd false (or_introl (finished_nonempty rd F))) as Sh.
  unfold round_kind. now rewrite <- Sh.
Qed.

Definition out_of_kind (k : kind) : R.outcome := match k with KNil => R.Ok | _ => R.Rec 0 end.

Lemma loop_forever_shape : forall ks stop re rn,
  let r := R.loop forever re rn (map (fun k => R.StRun (out_of_kind k)) ks ++ map R.ev_step (stop_ev stop)) in
  R.runs r = length rn + fst (slow_shape ks stop) /\ kind_of r = snd (slow_shape ks stop).
Proof.
  induction ks as [|k ks IH]; intros stop re rn; cbv zeta.
  - destruct stop; cbn; split; auto; lia.
  - cbn [map List.app]. rewrite LLRP.Retry.RetryLoopProofs.loop_unfold.
    unfold LLRP.Retry.RetryLoopProofs.cond. change (forever =? -1)%Z with true. cbn [orb].
    destruct k; cbn [out_of_kind slow_shape].
    1: { cbn. rewrite app_length. cbn. split; auto; lia. }
    all: specialize (IH stop (R.add_err re (R.EUser 0)) (rn ++ [R.Rec 0])); cbv zeta in IH;
      destruct IH as [A B]; destruct (slow_shape ks stop) as [n k'] eqn:E; cbn [fst snd] in *;
      rewrite A, B, app_length; cbn; split; auto; lia.
Qed.

Lemma slow_result_shape : forall draw draw' rd rds stop,
  forallb finished (rd :: rds) = true ->
  let r := slow_result draw draw' (rd :: rds) stop in
  (R.runs r, kind_of r) = slow_shape (map round_kind (rd :: rds)) stop.
Proof.
  intros draw draw' rd rds stop F. cbv zeta.
  cbn [forallb] in F. apply andb_true_iff in F. destruct F as [F1 F2].
  unfold slow_result, R.retry_run_cfg. rewrite to_steps_nodeadline.
  unfold slow_evs. cbn [hd tl map]. rewrite (round_out_kind draw rd F1).
  destruct (round_kind rd) eqn:K; cbn [slow_shape].
  1: reflexivity.
  all: cbn [R.retry_run]; rewrite map_app, map_map;
    rewrite (map_ext_in (fun x => R.ev_step (R.WRun (round_out draw x)))
                        (fun x => R.StRun (out_of_kind (round_kind x))));
    [|intros x Hx; cbn [R.ev_step]; rewrite round_out_kind; auto;
      rewrite forallb_forall in F2; auto];
    rewrite <- (map_map round_kind (fun k => R.StRun (out_of_kind k)));
    pose proof (loop_forever_shape (map round_kind rds) stop (R.new_ferror (R.EUser 0) keep_errs) [R.Rec 0]) as L;
    cbv zeta in L; destruct L as [A B];
    destruct (slow_shape (map round_kind rds) stop) as [n k]; cbn [fst snd length] in *;
    now rewrite A, B.
Qed.

(* one finished round, seen from the supervisor *)
Lemma round_step : forall draw s rd, round_start s -> finished rd = true ->
  let s' := run s (map Dial rd) in
  log s' = log s ++ phase_log (cur_addr s) (isUp s) rd (round_kind rd) /\
  isUp s' = (if returns_ferror (round_kind rd) then false else up_after (isUp s) rd) /\
  cur_addr s' = cur_addr s /\ round_start s' /\
  in_slow s' = (match round_kind rd with KNil => false | _ => true end) /\
  kind_of (quick_result draw rd false) = round_kind rd /\ R.runs (quick_result draw rd false) = length rd.
Proof.
  intros draw s rd RS F. cbv zeta.
  pose proof (finished_nonempty rd F) as NE.
  unfold finished in F. repeat (apply andb_true_iff in F; destruct F as [F ?]).
  pose proof (quick_result_shape draw rd false (or_introl NE)) as Sh.
  assert (Hr : R.runs (quick_result draw rd false) = length rd).
  { apply Nat.eqb_eq in H0. rewrite <- H0. now rewrite <- Sh. }
  assert (Hk : kind_of (quick_result draw rd false) = round_kind rd).
  { unfold round_kind. now rewrite <- Sh. }
  pose proof (quick_phase_agrees draw s rd false false RS F (or_introl NE) (fun E => False_ind _ (NE E))) as Q.
  cbv zeta in Q. unfold quick_events, ctx_ended in Q. rewrite Hr, Hk, firstn_all in Q.
  destruct (round_kind rd) eqn:K; try discriminate; rewrite app_nil_r in Q;
    destruct Q as (A & _ & B & C & D & E); repeat split; auto; apply D.
Qed.

Fixpoint rounds_log (a : addr) (up : bool) (rds : list (list outcome)) : list entry :=
  match rds with
  | [] => []
  | rd :: rest =>
    phase_log a up rd (round_kind rd) ++
    rounds_log a (if returns_ferror (round_kind rd) then false else up_after up rd) rest
  end.
Fixpoint rounds_up (up : bool) (rds : list (list outcome)) : bool :=
  match rds with
  | [] => up
  | rd :: rest => rounds_up (if returns_ferror (round_kind rd) then false else up_after up rd) rest
  end.
Definition rounds_events (rds : list (list outcome)) : list event := concat (map (map Dial) rds).

Lemma rounds_run : forall rds s, round_start s -> forallb finished rds = true ->
  let s' := run s (rounds_events rds) in
  log s' = log s ++ rounds_log (cur_addr s) (isUp s) rds /\
  isUp s' = rounds_up (isUp s) rds /\ cur_addr s' = cur_addr s /\ round_start s' /\
  (rds <> [] -> in_slow s' = match round_kind (last rds []) with KNil => false | _ => true end).
Proof.
  induction rds as [|rd rds IH]; intros s RS F; cbv zeta.
  - cbn. rewrite app_nil_r. repeat split; auto; try apply RS. congruence.
  - cbn [forallb] in F. apply andb_true_iff in F. destruct F as [F1 F2].
    unfold rounds_events. cbn [map concat]. rewrite run_app.
    destruct (round_step (fun _ => 0%Z) s rd RS F1) as (A & B & C & D & E & _).
    set (s1 := run s (map Dial rd)) in *.
    destruct (IH s1 D F2) as (A' & B' & C' & D' & E'). fold (rounds_events rds).
    cbn [rounds_log rounds_up]. rewrite A', B', C'. rewrite A, B, C. rewrite <- app_assoc.
    split; [reflexivity|]. split; [reflexivity|]. split; [reflexivity|]. split; [exact D'|].
    intros _. destruct rds as [|rd2 rds'].
    + cbn. exact E.
    + change (last (rd :: rd2 :: rds') []) with (last (rd2 :: rds') []). apply E'. congruence.
Qed.

Lemma in_firstn : forall (A : Type) n (l : list A) x, In x (firstn n l) -> In x l.
Proof.
  induction n as [|n IH]; intros [|y l] x H; cbn in *; auto; try contradiction.
  destruct H as [H|H]; auto.
Qed.

Definition good_kind (k : kind) : Prop := k = KNil \/ k = KExhausted.

Lemma slow_shape_facts : forall ks stop, ks <> [] -> Forall good_kind ks ->
  let n := fst (slow_shape ks stop) in let k := snd (slow_shape ks stop) in
  1 <= n <= length ks /\
  match k with
  | KNil => last (firstn n ks) KMore = KNil
  | KCtx => stop = true /\ n = length ks /\ last ks KMore = KExhausted
  | KMore => stop = false /\ n = length ks /\ last ks KMore = KExhausted
  | _ => False
  end.
Proof.
  induction ks as [|k1 ks IH]; intros stop NE G; [congruence|]. cbv zeta.
  inversion G as [|? ? G1 G2]; subst.
  destruct G1 as [-> | ->]; cbn [slow_shape].
  - cbn. split; auto. lia.
  - destruct ks as [|k2 ks'].
    + destruct stop; cbn; repeat split; auto.
    + assert (NE' : k2 :: ks' <> []) by congruence.
      specialize (IH stop NE' G2). cbv zeta in IH.
      destruct (slow_shape (k2 :: ks') stop) as [n k] eqn:E. cbn [fst snd] in *.
      destruct IH as [[L1 L2] IH]. split; [cbn [length] in *; lia|].
      destruct k; auto.
      * destruct n as [|n]; [lia|]. change (firstn (S (S n)) (KExhausted :: k2 :: ks'))
          with (KExhausted :: firstn (S n) (k2 :: ks')).
        cbn [firstn] in *. exact IH.
      * destruct IH as (A & B & C). repeat split; auto. cbn [length] in *; lia.
      * destruct IH as (A & B & C). repeat split; auto. cbn [length] in *; lia.
Qed.

Lemma last_map_kind : forall (rds : list (list outcome)), rds <> [] ->
  last (map round_kind rds) KMore = round_kind (last rds []).
Proof.
  induction rds as [|rd rds IH]; intros NE; [congruence|].
  destruct rds as [|rd2 rds']; [reflexivity|].
  change (last (map round_kind (rd2 :: rds')) KMore = round_kind (last (rd2 :: rds') [])).
  apply IH. congruence.
Qed.

Lemma finished_good : forall rd, finished rd = true -> good_kind (round_kind rd).
Proof.
  intros rd F. unfold finished in F. apply andb_true_iff in F. destruct F as [_ F].
  unfold good_kind. destruct (round_kind rd); auto; discriminate.
Qed.

Lemma stop_in_slow_wait : forall s force, round_start s -> in_slow s = true ->
  let s' := step s (Stop force) in
  log s' = log s ++ [LStop] /\ stopped s' = true /\ isUp s' = isUp s.
Proof.
  intros s force RS SL. rewrite (round_start_inv s RS), SL. destruct force; cbn; auto.
Qed.

(* THE SLOW PHASE.  From any state at the start of a round, with the finished rounds
   rd :: rds ahead (as many as one likes) and Stop arriving, if at all, in the slow wait after
   the last of them: R = Slow.RetryWithCtx(ctx, Forever, slow func) on the corresponding history,
   the slow func's results being those of the quick phases ([round_out]). *)
Lemma slow_phase_agrees : forall draw draw' s rd rds stop force,
  round_start s -> forallb finished (rd :: rds) = true ->
  let r := slow_result draw draw' (rd :: rds) stop in
  let done := firstn (R.runs r) (rd :: rds) in
  let s' := run s (rounds_events done ++ (if ctx_ended r then [Stop force] else [])) in
  (* the supervisor goes through exactly the rounds in which RetryWithCtx called the slow func *)
  log s' = log s ++ rounds_log (cur_addr s) (isUp s) done ++ (if ctx_ended r then [LStop] else []) /\
  1 <= R.runs r <= length (rd :: rds) /\
  isUp s' = rounds_up (isUp s) done /\
  match kind_of r with
  | KNil =>    (* a round ended with nil: Slow returns nil, the outer loop starts both policies afresh *)
      round_start s' /\ in_slow s' = false /\ round_kind (last done []) = KNil
  | KMore =>   (* every round so far exhausted its attempts: waiting in the slow pause, for ever if need be *)
      stop = false /\ R.runs r = length (rd :: rds) /\ round_start s' /\ in_slow s' = true
  | KCtx =>    (* Stop during the slow pause: no Down block, the supervisor ends *)
      stop = true /\ R.runs r = length (rd :: rds) /\ stopped s' = true
  | KExhausted | KOtherErr => False   (* retry.Forever: never "retries exceeded" *)
  end.
Proof.
  intros draw draw' s rd rds stop force RS F. cbv zeta.
  pose proof (slow_result_shape draw draw' rd rds stop F) as Sh. cbv zeta in Sh.
  set (r := slow_result draw draw' (rd :: rds) stop) in *.
  assert (G : Forall good_kind (map round_kind (rd :: rds))).
  { apply Forall_forall. intros k Hk. apply in_map_iff in Hk. destruct Hk as [x [<- Hx]].
    apply finished_good. rewrite forallb_forall in F. auto. }
  assert (NE : map round_kind (rd :: rds) <> []) by (cbn; congruence).
  pose proof (slow_shape_facts _ stop NE G) as SF. cbv zeta in SF. rewrite <- Sh in SF.
  cbn [fst snd] in SF. rewrite map_length in SF. destruct SF as [Hn SF].
  set (n := R.runs r) in *. set (done := firstn n (rd :: rds)).
  assert (Fd : forallb finished done = true).
  { apply forallb_forall. intros x Hx. rewrite forallb_forall in F. apply F.
    eapply in_firstn. exact Hx. }
  assert (NEd : done <> []).
  { unfold done. destruct n; [lia|]. cbn. congruence. }
  pose proof (rounds_run done s RS Fd) as RR. cbv zeta in RR.
  destruct RR as (A & B & C & D & E). specialize (E NEd).
  rewrite run_app. set (s1 := run s (rounds_events done)) in *.
  assert (LK : last (firstn n (map round_kind (rd :: rds))) KMore = round_kind (last done [])).
  { rewrite firstn_map. fold done. apply last_map_kind; auto. }
  unfold ctx_ended. destruct (kind_of r) eqn:K; try contradiction.
  - rewrite LK in SF. cbn [run fold_left]. rewrite app_nil_r. rewrite SF in E.
    repeat split; auto; try apply D; lia.
  - destruct SF as (S1 & S2 & S3). rewrite firstn_all2 in LK by (rewrite map_length; cbn [length] in *; lia).
    rewrite S3 in LK. rewrite <- LK in E.
    destruct (stop_in_slow_wait s1 force D E) as (X & Y & Z). cbn [run fold_left].
    rewrite X, A, <- app_assoc, Z. repeat split; auto; lia.
  - destruct SF as (S1 & S2 & S3). rewrite firstn_all2 in LK by (rewrite map_length; cbn [length] in *; lia).
    rewrite S3 in LK. rewrite <- LK in E. cbn [run fold_left]. rewrite app_nil_r.
    repeat split; auto; try apply D; lia.
Qed.

(* ---------------------------------------------------------------- the outer loop, and the corner *)
(* the outer `for ctx.Err() == nil` starts a slow phase in a state like the initial one; that is
   the state both phase lemmas start from and the one a slow phase that returned nil ends in *)
Lemma init_round_start : forall up0 a0, round_start (init up0 a0) /\ in_slow (init up0 a0) = false.
Proof. intros. unfold round_start. cbn. repeat split; auto. Qed.

(* Stop while a connection is established: the attempt returns ErrClientClosed = nil; the quick
   phase and the slow phase return nil at their FIRST call (whatever else their histories hold),
   the outer loop sees the cancellation: no Down block, no further dial *)
Lemma connected_stop_agrees : forall ts ts' s force, round_start s ->
  let s' := run s [Dial Established; Stop force] in
  let q := R.retry_run_cfg quick_cfg quick_retries keep_errs None (cb ClosedNormally) ts in
  let sl := R.retry_run_cfg slow_cfg forever keep_errs None (scb q) ts' in
  kind_of q = KNil /\ R.runs q = 1 /\ kind_of sl = KNil /\ R.runs sl = 1 /\
  log s' = log s ++ LDial (cur_addr s) :: LHandshake :: up_entry (isUp s) ++ [LStop; LNormal] /\
  stopped s' = true /\ isUp s' = true /\ dial_enabled s' = false.
Proof.
  intros ts ts' s force RS. cbv zeta. rewrite (round_start_inv s RS).
  unfold R.retry_run_cfg. cbn [cb R.retry_run scb R.res].
  destruct (isUp s), (in_slow s), force; cbn; rewrite <- ?app_assoc; cbn [List.app];
    repeat split; auto.
Qed.

(* The corner, both behaviours.  (1) [Stop] in the "about to dial" state runs the Down block; as a
   RetryLoop history: the quick phase is entered with the context already ended
   (quick_phase_agrees with ds = []). *)
Lemma about_to_dial_stop_in_supervisor : forall s force, round_start s -> in_slow s = false ->
  log (step s (Stop force)) =
  log s ++ LStop :: (if isUp s then [LReport Down true] else []).
Proof.
  intros s force RS SL. rewrite (round_start_inv s RS), SL.
  destruct (isUp s), force; cbn; rewrite <- ?app_assoc; reflexivity.
Qed.
(* (2) When the cancellation is there before Slow.RetryWithCtx is entered (or before the outer
   loop's check), the slow func -- hence the quick phase and the Down block -- is never called:
   the event [StopAtEntry]. *)
Lemma slow_entry_cancelled_no_down : forall first ts,
  let r := R.retry_run_cfg slow_cfg forever keep_errs (Some R.Canceled) first ts in
  R.runs r = 0 /\ kind_of r = KCtx.
Proof. intros. unfold R.retry_run_cfg. cbn. auto. Qed.

Lemma stop_at_entry_agrees : forall first ts s force, round_start s -> in_slow s = false ->
  let r := R.retry_run_cfg slow_cfg forever keep_errs (Some R.Canceled) first ts in
  let s' := step s (StopAtEntry force) in
  R.runs r = 0 /\ kind_of r = KCtx /\
  log s' = log s ++ [LStop] /\ stopped s' = true /\ isUp s' = isUp s /\ dials (log s') = dials (log s).
Proof.
  intros first ts s force RS SL. cbv zeta. rewrite (round_start_inv s RS), SL.
  unfold R.retry_run_cfg. destruct force; cbn; hist; rewrite ?app_nil_r; repeat split; auto.
Qed.

(* ---------------------------------------------------------------- headline *)
Lemma supervisor_retry_agrees :
  (* quick phase *)
  (forall draw s ds stop force,
    round_start s -> forallb five ds = true -> (ds <> [] \/ stop = true) ->
    (ds = [] -> in_slow s = false) ->
    let r := quick_result draw ds stop in
    let used := firstn (R.runs r) ds in
    let s' := run s (quick_events r ds force) in
    log s' = log s ++ phase_log (cur_addr s) (isUp s) used (kind_of r) /\
    R.runs r <= max_conn_attempts /\
    isUp s' = (if returns_ferror (kind_of r) then false else up_after (isUp s) used) /\
    cur_addr s' = cur_addr s /\
    match kind_of r with
    | KNil => round_start s' /\ in_slow s' = false
    | KExhausted => round_start s' /\ in_slow s' = true
    | KCtx => stop = true /\ stopped s' = true
    | KMore => stop = false /\ stopped s' = false /\ round_fails s' = 1 /\ in_slow s' = false
    | KOtherErr => False
    end) /\
  (* slow phase *)
  (forall draw draw' s rd rds stop force,
    round_start s -> forallb finished (rd :: rds) = true ->
    let r := slow_result draw draw' (rd :: rds) stop in
    let done := firstn (R.runs r) (rd :: rds) in
    let s' := run s (rounds_events done ++ (if ctx_ended r then [Stop force] else [])) in
    log s' = log s ++ rounds_log (cur_addr s) (isUp s) done ++ (if ctx_ended r then [LStop] else []) /\
    1 <= R.runs r <= length (rd :: rds) /\
    isUp s' = rounds_up (isUp s) done /\
    match kind_of r with
    | KNil => round_start s' /\ in_slow s' = false /\ round_kind (last done []) = KNil
    | KMore => stop = false /\ R.runs r = length (rd :: rds) /\ round_start s' /\ in_slow s' = true
    | KCtx => stop = true /\ R.runs r = length (rd :: rds) /\ stopped s' = true
    | KExhausted | KOtherErr => False
    end) /\
  (* outer loop: it starts in such a state *)
  (forall up0 a0, round_start (init up0 a0) /\ in_slow (init up0 a0) = false).
Proof.
  split; [exact quick_phase_agrees|]. split; [exact slow_phase_agrees|exact init_round_start].
Qed.
