(* C15/C18 — consistency of the two models of the retry behaviour.

   Driver/Supervisor.v abstracts retry.Quick / retry.Slow to the fields [round_fails] and
   [in_slow] of its state; Retry/RetryLoop.v models ExpBackOff.RetryWithCtx itself
   ([retry_run] over outcome/context histories, [retry_run_cfg] with the configured policy).
   Each is tied to the Go code separately. Here: the way the supervisor consumes dial outcomes in
   its nested loops

       for ctx.Err() == nil {                                               -- outer loop
         retry.Slow.RetryWithCtx(ctx, retry.Forever, func {                 -- slow phase
           err := retry.Quick.RetryWithCtx(ctx, maxConnAttempts, dial)      -- quick phase ("round")
           switch err { case nil: return true, nil; case context.Canceled: return false, err }
           <Down block>; return true, err }) }

   is an instance of [retry_run_cfg] with the configuration of retry.Quick / retry.Slow
   (internal/retry/retry.go:26-41) and the [retries] arguments device.go passes.

   THE ABSTRACTION FUNCTION (supervisor events -> RetryLoop histories)
   * one dial attempt -> one call of the retried func; its result as device.go's callback
     returns it ([cb]): ClosedNormally -> (_, nil) = Ok; every other end of an attempt ->
     (true, err) = Rec; never (false, err): no attempt is Fatal.
   * quick phase that starts with the dial outcomes [ds] ahead ([quick_hist]):
       pre   = ctx.Err() at entry: None, except when no attempt is left and Stop comes: the
               supervisor model's Stop in its "about to dial" state is read as "the context had
               ended when Quick.RetryWithCtx was entered" (see FINDING below);
       first = cb (first outcome); steps = one WRun (cb o) per further outcome, then, if Stop
       arrives when the outcomes are used up, WCtx Canceled (Stop during the pause: the
       supervisor model handles Stop atomically, so the select sees ctx.Done with the timer not
       due; the event StRunCtxEnded of RetryLoop has no counterpart);
       t_remaining = None throughout (the device's context has no deadline), so the deadline
       pre-check never fires and the result does not depend on the jitter draws.
   * what the quick phase returns to the slow phase ([scb]): RetNil -> Ok;
     any *FError -> Rec. `case context.Canceled:` compares the *FError with == and never
     matches (DESIGN §7), so a cancelled quick phase is Rec too, after the Down block.
   * slow phase = [retry_run_cfg slow_cfg Forever] over the results of the rounds.

   FINDING (reported, not papered over): the two models differ in one corner that neither
   harness exercises. Stop while the supervisor is "about to dial" (initial state, or right
   after an attempt ended with ErrClientClosed):
     - Supervisor.v always runs the Down block (it reads the situation as: the dial is in
       flight / Quick's entry check sees the cancellation). As a RetryLoop history this is
       slow phase pre = None, quick phase pre = Some Canceled ([quick_phase_agrees], case ds = []).
     - composing RetryLoop sequentially in the order of device.go, a cancellation that arrives
       before the outer `for ctx.Err() == nil` or before Slow.RetryWithCtx's entry check ends the
       supervisor WITHOUT any call of the slow func, hence without Down block
       ([slow_entry_cancelled_no_down]). In Go both happen, depending on a window of a few
       instructions; for Stop immediately after NewLLRPDevice the second is the likely one.
       Supervisor.v represents only the first (its Stop is atomic). The scripts of checks/c15.py
       never put Stop there (only in waiting states), so neither tie covers it. *)
From Coq Require Import ZArith NArith List Bool Arith Lia.
From LLRP Require Retry.NextWait Retry.RetryLoop Driver.Supervisor.
Import ListNotations.

Module S := LLRP.Driver.Supervisor.
Module R := LLRP.Retry.RetryLoop.

(* ---- configuration, from /repo/internal/retry/retry.go and device.go ---- *)
(* Quick = ExpBackOff{BackOff: 50ms, Max: 30s, Jitter: true, KeepErrs: 10}  (nanoseconds) *)
Definition quick_cfg : R.config := R.mkCfg 50000000 30000000000 true.
(* Slow = ExpBackOff{BackOff: 5s, Max: 30min, Jitter: true, KeepErrs: 10} *)
Definition slow_cfg : R.config := R.mkCfg 5000000000 1800000000000 true.
Definition keep_errs : Z := 10.
(* device.go:133  retry.Quick.RetryWithCtx(ctx, maxConnAttempts, ...) *)
Definition quick_retries : Z := Z.of_nat S.max_conn_attempts.
(* device.go:130  retry.Slow.RetryWithCtx(ctx, retry.Forever, ...);  const Forever = -1 *)
Definition forever : Z := -1.

(* ---- the abstraction function ---- *)
(* device.go:133-178: what the dial callback returns *)
Definition cb (o : S.outcome) : R.outcome :=
  match o with S.ClosedNormally => R.Ok | _ => R.Rec 0 end.

(* the five outcomes whose attempt is over when the event is (no connection left standing) *)
Definition five (o : S.outcome) : bool := match o with S.Established => false | _ => true end.

(* timed history without deadline: draws are arbitrary *)
Fixpoint mk_ts (draw : nat -> Z) (k : nat) (evs : list R.wait_ev) : list R.tstep :=
  match evs with
  | [] => []
  | e :: rest => R.mkT (draw k) None e :: mk_ts draw (S k) rest
  end.

Definition stop_ev (stop : bool) : list R.wait_ev := if stop then [R.WCtx R.Canceled] else [].

(* history of the quick phase that starts with the outcomes ds ahead; Stop (if any) arrives
   when they are used up *)
Definition quick_pre (ds : list S.outcome) (stop : bool) : option R.ctx_err :=
  match ds with [] => if stop then Some R.Canceled else None | _ => None end.
Definition quick_first (ds : list S.outcome) : R.outcome := cb (hd S.Refused ds).
Definition quick_evs (ds : list S.outcome) (stop : bool) : list R.wait_ev :=
  map (fun o => R.WRun (cb o)) (tl ds) ++ stop_ev stop.

Definition quick_result (draw : nat -> Z) (ds : list S.outcome) (stop : bool) : R.result :=
  R.retry_run_cfg quick_cfg quick_retries keep_errs (quick_pre ds stop) (quick_first ds)
                  (mk_ts draw 0 (quick_evs ds stop)).

(* how a phase ends *)
Inductive kind := KNil | KExhausted | KCtx | KMore | KOtherErr.
Definition kind_of (r : R.result) : kind :=
  match R.res r with
  | R.RetNil => KNil                  (* returned nil *)
  | R.RetMore _ => KMore              (* still looping: the history has no further event *)
  | R.RetErr fe => match R.main fe with
                   | R.ERetriesExceeded => KExhausted
                   | R.ECtx R.Canceled => KCtx
                   | _ => KOtherErr
                   end
  end.
Definition ctx_ended (r : R.result) : bool := match kind_of r with KCtx => true | _ => false end.

(* the supervisor events of that phase: as many dials as the retried func ran, then Stop if the
   phase saw the context end *)
Definition quick_events (r : R.result) (ds : list S.outcome) (force : bool) : list S.event :=
  map S.Dial (firstn (R.runs r) ds) ++ (if ctx_ended r then [S.Stop force] else []).

(* device.go:180-206: what the slow func returns for a finished quick phase *)
Definition scb (r : R.result) : R.outcome :=
  match R.res r with R.RetNil => R.Ok | _ => R.Rec 0 end.

(* a supervisor state at the start of a quick phase *)
Definition round_start (s : S.state) : Prop :=
  S.stopped s = false /\ S.connected s = false /\ S.round_fails s = 0 /\ S.lcl s = S.LFresh /\
  S.sdk_fails s = false.

(* the Up report caused by the first good handshake of the phase, the Down report of the Down block *)
Definition ups (s : S.state) (ds : list S.outcome) : list S.entry :=
  if negb (S.isUp s) && existsb S.handshake_ok ds then [S.LReport S.Up true] else [].
Definition down_entries (s : S.state) (ds : list S.outcome) : list S.entry :=
  if S.isUp s || existsb S.handshake_ok ds then [S.LReport S.Down true] else [].

Fixpoint reports_only (l : list S.entry) : list S.entry :=
  match l with
  | [] => []
  | S.LReport o b :: l' => S.LReport o b :: reports_only l'
  | _ :: l' => reports_only l'
  end.

(* ---------------------------------------------------------------- proofs *)
Import S.
From LLRP Require Import Driver.SupervisorProofs.

Lemma to_steps_nodeadline : forall evs cfg draw n k,
  R.to_steps cfg n (mk_ts draw k evs) = map R.ev_step evs.
Proof.
  induction evs as [|e evs IH]; intros; cbn [mk_ts R.to_steps map]; auto.
  cbn [R.t_remaining R.exceeds R.t_ev]. now rewrite IH.
Qed.

(* without a deadline the configured policy and the jitter draws do not matter *)
Lemma quick_result_eq : forall draw ds stop,
  quick_result draw ds stop =
  R.retry_run quick_retries keep_errs (quick_pre ds stop) (quick_first ds)
              (map R.ev_step (quick_evs ds stop)).
Proof. intros. unfold quick_result, R.retry_run_cfg. now rewrite to_steps_nodeadline. Qed.

Lemma quick_two : forall e o tail,
  R.retry_run quick_retries keep_errs None (R.Rec e) (R.StRun o :: tail) =
  R.retry_run quick_retries keep_errs None (R.Rec e) [R.StRun o].
Proof. intros. destruct o, tail; reflexivity. Qed.

(* the quick phase, read off the supervisor's point of view: how many of the outcomes ahead it
   consumes and how it ends *)
Definition quick_shape (ds : list S.outcome) (stop : bool) : nat * kind :=
  match ds with
  | [] => (0, if stop then KCtx else KNil (* not used *))
  | d1 :: ds' =>
    match cb d1 with
    | R.Ok => (1, KNil)
    | _ => match ds' with
           | [] => (1, if stop then KCtx else KMore)
           | d2 :: _ => (2, match cb d2 with R.Ok => KNil | _ => KExhausted end)
           end
    end
  end.

Lemma quick_result_shape : forall draw ds stop, (ds <> [] \/ stop = true) ->
  (R.runs (quick_result draw ds stop), kind_of (quick_result draw ds stop)) = quick_shape ds stop.
Proof.
  intros draw ds stop H. rewrite quick_result_eq.
  destruct ds as [|d1 [|d2 rest]].
  - destruct H as [H|H]; [congruence|]. subst. reflexivity.
  - destruct d1, stop; reflexivity.
  - unfold quick_pre, quick_first, quick_evs. cbn [hd tl map List.app R.ev_step].
    destruct d1; cbn [cb]; try reflexivity; rewrite quick_two; destruct d2; reflexivity.
Qed.

Lemma round_start_inv : forall s, round_start s ->
  s = mk (isUp s) (cur_addr s) false false 0 (in_slow s) LFresh false (log s).
Proof. intros s (A & B & C & D & E). destruct s. cbn in *. now subst. Qed.

(* THE QUICK PHASE.  From any state at the start of a round, with the dial outcomes ds ahead
   (any number of them, each one of the five that end the attempt) and Stop arriving, if at
   all, when they are used up:  r = Quick.RetryWithCtx's run on the corresponding history. *)
Lemma quick_phase_agrees : forall draw s ds stop force,
  round_start s -> forallb five ds = true -> (ds <> [] \/ stop = true) ->
  let r := quick_result draw ds stop in
  let used := firstn (R.runs r) ds in
  let s' := run s (quick_events r ds force) in
  (* as many dials as the retried func ran, at most maxConnAttempts, all to the current address *)
  dials (log s') = dials (log s) ++ repeat (cur_addr s) (R.runs r) /\
  (R.runs r <= max_conn_attempts) /\
  (* the Down block runs exactly when the phase returns an *FError, as the last thing of the phase *)
  match kind_of r with
  | KNil =>          (* an attempt ended with ErrClientClosed: the next phase starts afresh, no slow wait *)
      round_start s' /\ in_slow s' = false /\ isUp s' = true /\
      reports_only (log s') = reports_only (log s) ++ ups s used
  | KExhausted =>    (* maxConnAttempts recoverable failures: Down block, then the slow wait *)
      (exists body, log s' = log s ++ body ++ down_entries s used /\ reports_only body = ups s used) /\
      isUp s' = false /\ round_start s' /\ in_slow s' = true
  | KCtx =>          (* Stop during the quick pause (or seen at entry): Down block, supervisor ends *)
      (exists body, log s' = log s ++ body ++ down_entries s used /\ reports_only body = ups s used) /\
      isUp s' = false /\ stop = true /\ stopped s' = true
  | KMore =>         (* in the quick pause, nothing more has happened yet *)
      stopped s' = false /\ round_fails s' = 1 /\ in_slow s' = false /\ stop = false /\
      reports_only (log s') = reports_only (log s) ++ ups s used
  | KOtherErr => False
  end.
Proof.
  intros draw s ds stop force RS F H. cbv zeta.
  pose proof (quick_result_shape draw ds stop H) as Sh.
  unfold quick_events, ctx_ended.
  set (r := quick_result draw ds stop) in *.
  assert (Hr : R.runs r = fst (quick_shape ds stop)) by (now rewrite <- Sh).
  assert (Hk : kind_of r = snd (quick_shape ds stop)) by (now rewrite <- Sh).
  rewrite Hr, Hk. clear Sh Hr Hk r.
  rewrite (round_start_inv s RS). set (up := isUp s). set (a := cur_addr s).
  set (sl := in_slow s). set (lg := log s). clearbody up a sl lg. clear RS s.
  unfold ups, down_entries, round_start.
  destruct ds as [|d1 [|d2 rest]].
  - destruct H as [H|H]; [congruence|]. subst stop. cbn [quick_shape fst snd firstn map List.app].
    destruct up, force; cbn; repeat split; auto;
      try (eexists; split; [rewrite <- ?app_assoc; reflexivity|reflexivity]).
  - destruct d1; try discriminate; destruct stop, up, force; cbn;
      repeat split; auto; try lia;
      try (eexists; split; [rewrite <- ?app_assoc; cbn [List.app]; reflexivity|reflexivity]);
      hist; rewrite ?app_nil_r; auto.
  - cbn [forallb] in F. apply andb_true_iff in F. destruct F as [F1 F]. apply andb_true_iff in F. destruct F as [F2 _].
    destruct d1; try discriminate; destruct d2; try discriminate; destruct up; cbn;
      repeat split; auto; try lia;
      try (eexists; split; [rewrite <- ?app_assoc; cbn [List.app]; reflexivity|reflexivity]);
      hist; rewrite ?app_nil_r; auto.
Qed.
