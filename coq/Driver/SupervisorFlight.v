(* Driver/SupervisorFlight.v — what Driver/Supervisor.v treats as ATOMIC and the Go code does not
   do in one instant (C15): a call of UpdateDeviceOperatingState that takes time (a report "in
   flight") and a dial that is neither accepted nor refused for a while (a dial "in flight").

   MODEL ONLY (no proofs here).

   internal/driver/device.go, NewLLRPDevice's goroutine ("the supervisor") and onConnect:

     supervisor, after a Quick round of maxConnAttempts failed attempts (or a cancelled round):
         isEnabled := isUp; isUp = false
         if isEnabled { svc.UpdateDeviceOperatingState(name, Down) }   -- the supervisor WAITS for it
         return true, err                                              -- only then: slow wait, next round
     onConnect (its own goroutine, started by the reader's connection-success event):
         if !isUp { if svc.UpdateDeviceOperatingState(name, Up) == nil { isUp = true } }
     every attempt:  dialCtx := WithTimeout(ctx, dialTimeout); dialer.DialContext(dialCtx, ..)
                     -- the dial is bound to the device's context: Stop cancels a dial in flight

   What EdgeX holds is decided by the order in which the calls COMPLETE, not by the order in which
   they are made.  The environment of this model may make ONE call slow at a time ([FArm]: the next
   call made does not return until [FComplete]); calls made while it is in flight return at once.
   That is enough for a later call to overtake an earlier one.

   Two flags name the variants of the code (as Driver/Registry.v does):
     [down_waits]  the supervisor waits for the Down call before it goes on (the tree: true);
                   false = the call is made from a goroutine of its own
     [dial_bound]  the dial in flight ends when the device's context is cancelled (the tree: true);
                   false = the dial has a timeout of its own and goes on after Stop

   Abstraction w.r.t. Driver/Supervisor.v: addresses, the client object (lclient), TrySend and SDK
   failures are left out; outcomes of an attempt are "fails" (refused, silent, bad handshake) or
   "good handshake, the connection stands" (then [FDrop] / [FStop]).  Without [FArm] and
   [FDialStart] this system IS Supervisor.v restricted to those events
   (SupervisorFlightProofs.flight_refines_supervisor). *)
From Coq Require Import NArith List Bool Arith.
From LLRP Require Import Driver.Supervisor.
Import ListNotations.

Record fflags := mkFF { down_waits : bool; dial_bound : bool }.
Definition flags_tree := mkFF true true.

Inductive fevent :=
| FDial (ok : bool)      (* an attempt answered at once: it fails / good handshake, the connection stands *)
| FDialStart             (* an attempt whose dial is neither accepted nor refused for now *)
| FDialEnd (ok : bool)   (* the reader answers the dial in flight: refuses (or the dial times out) / accepts with a good handshake *)
| FDrop                  (* the standing connection breaks *)
| FStop
| FArm                   (* the next UpdateDeviceOperatingState call made is slow *)
| FComplete.             (* the slow call returns *)

(* append-only history, oldest first *)
Inductive fentry :=
| FLDial                  (* an attempt starts *)
| FLPending               (* ... and its dial hangs *)
| FLConn                  (* a TCP connection to the reader is established *)
| FLHs                    (* the reader's connection-success event *)
| FLFail
| FLNorm                  (* the attempt ended with ErrClientClosed *)
| FLStop
| FLIssue (o : opstate)   (* a call was made that does not return yet *)
| FLDone (o : opstate) (late : bool).   (* a call returned: EdgeX now holds o; late = it was the slow one *)

Record fstate := mkFS {
  f_isUp : bool;               (* l.isUp *)
  f_conn : bool;               (* a negotiated connection stands *)
  f_pending : bool;            (* the supervisor sits in DialContext *)
  f_fails : nat;               (* failed attempts in the current Quick round *)
  f_slow : bool;               (* in the Slow wait after an exhausted round *)
  f_stopped : bool;            (* ctx cancelled *)
  f_busy : bool;               (* the supervisor sits in UpdateDeviceOperatingState(Down) *)
  f_arm : bool;                (* the next call made will be slow *)
  f_flight : option opstate;   (* the slow call, made and not yet returned *)
  f_edgex : opstate;           (* what EdgeX holds: the call that returned last (else the recorded state) *)
  f_log : list fentry
}.

Definition finit (up0 : bool) : fstate :=
  mkFS up0 false false 0 false false false false None (st0 up0) [].

Definition fapp (s : fstate) (e : fentry) : fstate :=
  mkFS (f_isUp s) (f_conn s) (f_pending s) (f_fails s) (f_slow s) (f_stopped s) (f_busy s) (f_arm s)
       (f_flight s) (f_edgex s) (f_log s ++ [e]).
Definition fset_isUp (s : fstate) (b : bool) : fstate :=
  mkFS b (f_conn s) (f_pending s) (f_fails s) (f_slow s) (f_stopped s) (f_busy s) (f_arm s)
       (f_flight s) (f_edgex s) (f_log s).
Definition fset_conn (s : fstate) (b : bool) : fstate :=
  mkFS (f_isUp s) b (f_pending s) (f_fails s) (f_slow s) (f_stopped s) (f_busy s) (f_arm s)
       (f_flight s) (f_edgex s) (f_log s).
Definition fset_pending (s : fstate) (b : bool) : fstate :=
  mkFS (f_isUp s) (f_conn s) b (f_fails s) (f_slow s) (f_stopped s) (f_busy s) (f_arm s)
       (f_flight s) (f_edgex s) (f_log s).
Definition fset_round (s : fstate) (n : nat) (slow : bool) : fstate :=
  mkFS (f_isUp s) (f_conn s) (f_pending s) n slow (f_stopped s) (f_busy s) (f_arm s)
       (f_flight s) (f_edgex s) (f_log s).
Definition fset_stopped (s : fstate) : fstate :=
  mkFS (f_isUp s) (f_conn s) (f_pending s) (f_fails s) (f_slow s) true (f_busy s) (f_arm s)
       (f_flight s) (f_edgex s) (f_log s).
Definition fset_arm (s : fstate) (b : bool) : fstate :=
  mkFS (f_isUp s) (f_conn s) (f_pending s) (f_fails s) (f_slow s) (f_stopped s) (f_busy s) b
       (f_flight s) (f_edgex s) (f_log s).
Definition fset_flight (s : fstate) (busy : bool) (fl : option opstate) : fstate :=
  mkFS (f_isUp s) (f_conn s) (f_pending s) (f_fails s) (f_slow s) (f_stopped s) busy (f_arm s)
       fl (f_edgex s) (f_log s).
Definition fset_edgex (s : fstate) (o : opstate) : fstate :=
  mkFS (f_isUp s) (f_conn s) (f_pending s) (f_fails s) (f_slow s) (f_stopped s) (f_busy s) (f_arm s)
       (f_flight s) o (f_log s).

(* UpdateDeviceOperatingState(name, o) returns (successfully): EdgeX holds o.  Only onConnect
   writes isUp after its call; the Down block wrote isUp = false BEFORE the call. *)
Definition returned (s : fstate) (o : opstate) (late : bool) : fstate :=
  let s := fapp (fset_edgex s o) (FLDone o late) in
  match o with Up => fset_isUp s true | Down => s end.

(* UpdateDeviceOperatingState(name, o) is called *)
Definition issue (fl : fflags) (s : fstate) (o : opstate) : fstate :=
  match f_arm s, f_flight s with
  | true, None =>
    let busy := match o with Down => down_waits fl | Up => false end in
    fapp (fset_flight (fset_arm s false) busy (Some o)) (FLIssue o)
  | _, _ => returned s o false
  end.

(* device.go:185-204 *)
Definition fdown_block (fl : fflags) (s : fstate) : fstate :=
  if f_isUp s then issue fl (fset_isUp s false) Down else s.
(* device.go:463-477 *)
Definition fon_connect (fl : fflags) (s : fstate) : fstate :=
  if f_isUp s then s else issue fl s Up.

Definition ffail (fl : fflags) (s : fstate) : fstate :=
  let s := fapp s FLFail in
  if S (f_fails s) <? max_conn_attempts
  then fset_round s (S (f_fails s)) false
  else fdown_block fl (fset_round s 0 true).

Definition fdial_enabled (s : fstate) : bool :=
  negb (f_stopped s) && negb (f_conn s) && negb (f_pending s) && negb (f_busy s).

(* the TCP connection is there and the reader sends its connection-success event *)
Definition faccepted (fl : fflags) (s : fstate) : fstate :=
  let s := fapp (fapp s FLConn) FLHs in
  if f_stopped s
  then (* only with a dial that outlives Stop: the client was closed by Stop, Connect reads the
          first message, starts onConnect and ends with ErrClientClosed *)
       fset_round (fapp (fon_connect fl s) FLNorm) 0 false
  else fon_connect fl (fset_conn s true).

Definition fstep (fl : fflags) (s : fstate) (e : fevent) : fstate :=
  match e with
  | FDial ok =>
    if fdial_enabled s then
      let s := fapp (fset_round s (f_fails s) false) FLDial in
      if ok then faccepted fl s else ffail fl s
    else s
  | FDialStart =>
    if fdial_enabled s then
      fset_pending (fapp (fapp (fset_round s (f_fails s) false) FLDial) FLPending) true
    else s
  | FDialEnd ok =>
    if f_pending s then
      let s := fset_pending s false in
      if ok then faccepted fl s
      else if f_stopped s
           then (* Quick.RetryWithCtx sees the cancelled context after the failed attempt *)
                fdown_block fl (fapp s FLFail)
           else ffail fl s
    else s
  | FDrop => if f_conn s then ffail fl (fset_conn s false) else s
  | FStop =>
    if f_stopped s then s
    else
      let s := fapp (fset_stopped s) FLStop in
      if f_conn s then fset_round (fapp (fset_conn s false) FLNorm) 0 false
      else if f_busy s then s                    (* the supervisor sits in the Down call; it ends when that returns *)
      else if f_pending s then
        if dial_bound fl
        then (* DialContext returns the context's error: a failed attempt of a cancelled round *)
             fdown_block fl (fapp (fset_pending s false) FLFail)
        else s                                   (* the dial goes on *)
      else if f_slow s then s
      else fdown_block fl s                      (* Supervisor.v's [Stop] *)
  | FArm => match f_flight s with None => fset_arm s true | Some _ => s end
  | FComplete =>
    match f_flight s with
    | Some o => returned (fset_flight s false None) o true
    | None => s
    end
  end.

Definition frun (fl : fflags) (s : fstate) (evs : list fevent) : fstate := fold_left (fstep fl) evs s.

(* ---- functions of the history alone ---- *)

(* failed attempts since the reader last accepted a connection or EdgeX was last told Up *)
Fixpoint ffails_acc (acc : nat) (l : list fentry) : nat :=
  match l with
  | [] => acc
  | FLHs :: l' => ffails_acc 0 l'
  | FLDone Up _ :: l' => ffails_acc 0 l'
  | FLFail :: l' => ffails_acc (S acc) l'
  | _ :: l' => ffails_acc acc l'
  end.
Definition ffails_since_up (l : list fentry) : nat := ffails_acc 0 l.

Fixpoint fconns (l : list fentry) : nat :=
  match l with
  | [] => 0
  | FLConn :: l' => S (fconns l')
  | _ :: l' => fconns l'
  end.

Fixpoint fdials (l : list fentry) : nat :=
  match l with
  | [] => 0
  | FLDial :: l' => S (fdials l')
  | _ :: l' => fdials l'
  end.

(* the calls in the order in which they returned *)
Fixpoint fdones (l : list fentry) : list opstate :=
  match l with
  | [] => []
  | FLDone o _ :: l' => o :: fdones l'
  | _ :: l' => fdones l'
  end.

(* ---- the atomic fragment and its image in Supervisor.v ---- *)
Definition atomic_ev (e : fevent) : bool :=
  match e with FDial _ | FDrop | FStop => true | _ => false end.

Definition to_base (e : fevent) : event :=
  match e with
  | FDial true => Dial Established
  | FDial false => Dial Refused
  | FDrop => Drop
  | _ => Stop false
  end.

Fixpoint proj_log (a : addr) (l : list fentry) : list entry :=
  match l with
  | [] => []
  | FLDial :: l' => LDial a :: proj_log a l'
  | FLHs :: l' => LHandshake :: proj_log a l'
  | FLFail :: l' => LFail :: proj_log a l'
  | FLNorm :: l' => LNormal :: proj_log a l'
  | FLStop :: l' => LStop :: proj_log a l'
  | FLDone o _ :: l' => LReport o true :: proj_log a l'
  | _ :: l' => proj_log a l'
  end.
