(* C15 — proofs about the supervisor LTS of Driver/Supervisor.v *)
From Coq Require Import NArith List Bool Arith Lia.
From LLRP Require Import Driver.Supervisor.
Import ListNotations.

(* ---------- history functions and append ---------- *)
Lemma last_report_app : forall l1 l2 cur,
  last_report cur (l1 ++ l2) = last_report (last_report cur l1) l2.
Proof.
  induction l1 as [|e l1 IH]; intros; cbn [List.app last_report]; auto.
  destruct e as [a| | | |o ok| |a|n m c]; auto. destruct ok; auto.
Qed.

Lemma reports_app : forall l1 l2, reports (l1 ++ l2) = reports l1 ++ reports l2.
Proof.
  induction l1 as [|e l1 IH]; intros; cbn [List.app reports]; auto.
  destruct e as [a| | | |o ok| |a|n m c]; auto. destruct ok; cbn [List.app]; auto. now rewrite IH.
Qed.

Lemma calls_app : forall l1 l2, calls (l1 ++ l2) = calls l1 ++ calls l2.
Proof.
  induction l1 as [|e l1 IH]; intros; cbn [List.app calls]; auto.
  destruct e; auto. cbn [List.app]. now rewrite IH.
Qed.

Lemma dials_app : forall l1 l2, dials (l1 ++ l2) = dials l1 ++ dials l2.
Proof.
  induction l1 as [|e l1 IH]; intros; cbn [List.app dials]; auto.
  destruct e; auto. cbn [List.app]. now rewrite IH.
Qed.

Lemma fails_acc_app : forall l1 l2 acc,
  fails_since_hs_acc acc (l1 ++ l2) = fails_since_hs_acc (fails_since_hs_acc acc l1) l2.
Proof.
  induction l1 as [|e l1 IH]; intros; cbn [List.app fails_since_hs_acc]; auto.
  destruct e; auto.
Qed.

Lemma fails_app : forall l1 l2,
  fails_since_hs (l1 ++ l2) = fails_since_hs_acc (fails_since_hs l1) l2.
Proof. intros. unfold fails_since_hs. apply fails_acc_app. Qed.

Lemma last_cons_indep : forall (A : Type) (l : list A) (x d d' : A),
  last (x :: l) d = last (x :: l) d'.
Proof.
  induction l as [|y l IH]; intros; auto.
  change (last (y :: l) d = last (y :: l) d'). apply IH.
Qed.

Lemma alternates_app : forall l1 l2 cur,
  alternates cur (l1 ++ l2) = alternates cur l1 && alternates (last l1 cur) l2.
Proof.
  induction l1 as [|o l1 IH]; intros; cbn [List.app alternates last]; auto.
  rewrite IH. rewrite andb_assoc. f_equal.
  destruct l1; auto. f_equal. apply last_cons_indep.
Qed.

Lemma last_reports : forall l cur, last (reports l) cur = last_report cur l.
Proof.
  induction l as [|e l IH]; intros; cbn [reports last_report last]; auto.
  destruct e as [a| | | |o ok| |a|n m c]; auto. destruct ok; auto.
  rewrite <- (IH o). destruct (reports l) as [|x R]; auto.
  change (last (x :: R) cur = last (x :: R) o). apply last_cons_indep.
Qed.

(* ---------- field projections of the setters (all by computation) ---------- *)
Ltac fields := cbn [isUp cur_addr stopped connected round_fails in_slow lcl sdk_fails log
                    app set_isUp set_addr set_stopped set_conn set_round set_lcl set_sdk] in *.

#[export] Hint Rewrite last_report_app reports_app calls_app dials_app fails_app : hist.
Ltac hist := autorewrite with hist in *;
             cbn [last_report reports calls dials fails_since_hs_acc List.app] in *.

(* ---------- the main invariant (holds whatever the SDK does) ---------- *)
Record Inv (up0 : bool) (s : state) : Prop := {
  inv_isup : isUp s = is_up (last_report (if up0 then Up else Down) (log s));
  inv_alt : alternates (if up0 then Up else Down) (reports (log s)) = true;
  inv_round : round_fails s <= 1;
  inv_conn : connected s = true -> stopped s = false
}.

Lemma is_up_of_bool : forall b : bool, is_up (if b then Up else Down) = b.
Proof. destruct b; reflexivity. Qed.

Lemma Inv_init : forall up0 a0, Inv up0 (init up0 a0).
Proof.
  intros. constructor; cbn; auto; try discriminate. now rewrite is_up_of_bool.
Qed.

(* entries that are not reports leave the report-related parts alone *)
Definition neutral (e : entry) : Prop := match e with LReport _ _ => False | _ => True end.

Lemma Inv_app : forall up0 s e, neutral e -> Inv up0 s -> Inv up0 (app s e).
Proof.
  intros up0 s e N [A B C D]. constructor; fields; auto.
  - hist. destruct e; cbn in *; auto. contradiction.
  - hist. destruct e; cbn in *; try contradiction; now rewrite app_nil_r.
Qed.

Lemma Inv_report : forall up0 s o, isUp s = negb (is_up o) -> Inv up0 s -> Inv up0 (report s o).
Proof.
  intros up0 s o H [A B C D]. unfold report. destruct (sdk_fails s).
  - constructor; fields; auto; hist; auto. now rewrite app_nil_r.
  - constructor; fields; auto.
    + hist. reflexivity.
    + hist. rewrite alternates_app, B. cbn [alternates andb].
      rewrite last_reports, <- A, H. destruct (is_up o); reflexivity.
Qed.

Lemma Inv_down_block : forall up0 s, Inv up0 s -> Inv up0 (down_block s).
Proof.
  intros. unfold down_block. destruct (isUp s) eqn:E; auto. apply Inv_report; auto.
Qed.

Lemma Inv_on_connect : forall up0 s, Inv up0 s -> Inv up0 (on_connect s).
Proof.
  intros. unfold on_connect. destruct (isUp s) eqn:E; auto. apply Inv_report; auto.
Qed.

(* setters that touch neither isUp nor the log *)
Lemma Inv_set_round : forall up0 s n b, n <= 1 -> Inv up0 s -> Inv up0 (set_round s n b).
Proof. intros up0 s n b Hn [A B C D]. constructor; fields; auto. Qed.
Lemma Inv_set_lcl : forall up0 s l, Inv up0 s -> Inv up0 (set_lcl s l).
Proof. intros up0 s l [A B C D]. constructor; fields; auto. Qed.
Lemma Inv_set_addr : forall up0 s a, Inv up0 s -> Inv up0 (set_addr s a).
Proof. intros up0 s a [A B C D]. constructor; fields; auto. Qed.
Lemma Inv_set_sdk : forall up0 s b, Inv up0 s -> Inv up0 (set_sdk s b).
Proof. intros up0 s b [A B C D]. constructor; fields; auto. Qed.
Lemma Inv_set_conn_false : forall up0 s l, Inv up0 s -> Inv up0 (set_conn s false l).
Proof. intros up0 s l [A B C D]. constructor; fields; auto. discriminate. Qed.
Lemma Inv_set_conn_true : forall up0 s l, stopped s = false -> Inv up0 s -> Inv up0 (set_conn s true l).
Proof. intros up0 s l Hs [A B C D]. constructor; fields; auto. Qed.
Lemma Inv_set_stopped : forall up0 s, connected s = false -> Inv up0 s -> Inv up0 (set_stopped s).
Proof. intros up0 s Hc [A B C D]. constructor; fields; auto. congruence. Qed.

Lemma Inv_fail : forall up0 s, Inv up0 s -> Inv up0 (fail s).
Proof.
  intros. unfold fail.
  destruct (S (round_fails (app s LFail)) <? max_conn_attempts) eqn:E.
  - apply Inv_set_round. apply Nat.ltb_lt in E. unfold max_conn_attempts in E. lia.
    apply Inv_app; cbn; auto.
  - apply Inv_down_block. apply Inv_set_round; auto. apply Inv_app; cbn; auto.
Qed.

Lemma Inv_normal_reset : forall up0 s, Inv up0 s -> Inv up0 (normal_reset s).
Proof. intros. unfold normal_reset. apply Inv_set_round; auto. apply Inv_app; cbn; auto. Qed.

Lemma Inv_close_conn : forall up0 s, Inv up0 s -> Inv up0 (close_conn s).
Proof. intros. unfold close_conn. apply Inv_normal_reset, Inv_set_conn_false; auto. Qed.

Lemma Inv_close_locked : forall up0 s f, Inv up0 s -> Inv up0 (close_locked f s).
Proof. intros. unfold close_locked. destruct (lcl s); auto using Inv_set_lcl. Qed.

Lemma Inv_drop : forall up0 s, Inv up0 s -> Inv up0 (drop s).
Proof.
  intros. unfold drop. destruct (connected s); auto.
  apply Inv_fail, Inv_set_conn_false; auto.
Qed.

Lemma stopped_report : forall s o, stopped (report s o) = stopped s.
Proof. intros. unfold report. destruct (sdk_fails s); reflexivity. Qed.
Lemma stopped_on_connect : forall s, stopped (on_connect s) = stopped s.
Proof. intros. unfold on_connect. destruct (isUp s); auto using stopped_report. Qed.

Lemma Inv_handshake : forall up0 s, stopped s = false -> Inv up0 s -> Inv up0 (handshake s).
Proof.
  intros. unfold handshake.
  assert (I1 : Inv up0 (on_connect (app s LHandshake))).
  { apply Inv_on_connect, Inv_app; cbn; auto. }
  destruct (poisoned s).
  - apply Inv_normal_reset, Inv_set_conn_false; auto.
  - apply Inv_set_conn_true; auto. rewrite stopped_on_connect. exact H.
Qed.

Lemma Inv_step : forall up0 s e, Inv up0 s -> Inv up0 (step s e).
Proof.
  intros up0 s e I. destruct e as [o| |f|a f|b|r|f]; cbn [step].
  - destruct (dial_enabled s) eqn:E; auto.
    unfold dial_enabled in E. apply andb_true_iff in E. destruct E as [E1 E2].
    apply negb_true_iff in E1.
    set (s1 := app (set_round s (round_fails s) false) (LDial (cur_addr s))).
    assert (I1 : Inv up0 s1).
    { apply Inv_app; cbn; auto. apply Inv_set_round; auto. apply (inv_round _ _ I). }
    assert (S1 : stopped s1 = false) by exact E1.
    destruct o.
    + apply Inv_fail; auto.
    + apply Inv_fail, Inv_set_lcl; auto.
    + apply Inv_fail, Inv_set_lcl; auto.
    + apply Inv_drop, Inv_handshake; auto.
    + pose proof (Inv_handshake _ _ S1 I1).
      destruct (connected (handshake s1)); auto using Inv_close_conn.
    + apply Inv_handshake; auto.
  - apply Inv_drop; auto.
  - destruct (stopped s) eqn:E.
    + apply Inv_close_locked; auto.
    + destruct (connected s) eqn:C.
      * cbn [connected app set_stopped]. rewrite C.
        (* set_stopped with connected=true breaks inv_conn for a moment; close_conn repairs it *)
        destruct I as [A B C' D]. unfold close_conn, normal_reset.
        constructor; fields; auto; hist; auto; try discriminate.
        now rewrite !app_nil_r.
      * cbn [connected app set_stopped]. rewrite C.
        assert (I1 : Inv up0 (app (set_stopped s) LStop)).
        { apply Inv_app; cbn; auto. apply Inv_set_stopped; auto. }
        apply Inv_close_locked.
        cbn [in_slow app set_stopped]. destruct (in_slow s); auto using Inv_down_block.
  - assert (I1 : Inv up0 (app (set_addr s a) (LSetAddr a))).
    { apply Inv_app; cbn; auto. apply Inv_set_addr; auto. }
    destruct (N.eqb a (cur_addr s)); auto.
    cbn [connected app set_addr]. destruct (connected s) eqn:C.
    + apply Inv_close_conn; auto.
    + apply Inv_close_locked; auto.
  - apply Inv_set_sdk; auto.
  - destruct (try_send (fun _ => send_class (lcl s) r)) as [n c].
    apply Inv_app; cbn; auto.
  - destruct (stopped s) eqn:E.
    + apply Inv_close_locked; auto.
    + destruct (connected s) eqn:C.
      * cbn [connected app set_stopped]. rewrite C.
        destruct I as [A B C' D]. unfold close_conn, normal_reset.
        constructor; fields; auto; hist; auto; try discriminate.
        now rewrite !app_nil_r.
      * cbn [connected app set_stopped]. rewrite C.
        assert (I1 : Inv up0 (app (set_stopped s) LStop)).
        { apply Inv_app; cbn; auto. apply Inv_set_stopped; auto. }
        apply Inv_close_locked.
        cbn [in_slow round_fails app set_stopped].
        destruct (in_slow s || Nat.eqb (round_fails s) 0); auto using Inv_down_block.
Qed.

Lemma Inv_run : forall up0 evs s, Inv up0 s -> Inv up0 (run s evs).
Proof.
  intros up0 evs. induction evs as [|e evs IH]; intros; cbn [run fold_left]; auto.
  apply IH, Inv_step; auto.
Qed.

(* ---------- reachable states when the SDK never fails ---------- *)
Definition sdk_ok (evs : list event) : bool := forallb (fun e => negb (is_sdkfail e)) evs.

Record Inv2 (s : state) : Prop := {
  i2_sdk : sdk_fails s = false;
  i2_round : round_fails s <= 1;
  i2_up : isUp s = true -> fails_since_hs (log s) <= round_fails s;
  i2_conn : connected s = true -> fails_since_hs (log s) = 0
}.

#[export] Hint Rewrite fails_acc_app : hist.

Ltac brute :=
  unfold step, dial_enabled, drop, handshake, close_conn, normal_reset, fail, down_block,
         on_connect, report, close_locked, poisoned, max_conn_attempts, fails_since_hs in *;
  fields.

Ltac fin2 :=
  brute; cbn; intros; hist; try discriminate; try reflexivity;
  repeat match goal with H : ?x = ?x -> _ |- _ => specialize (H eq_refl) end;
  try lia.

Lemma Inv2_init : forall up0 a0, Inv2 (init up0 a0).
Proof. intros. constructor; cbn; auto; discriminate. Qed.

Lemma Inv2_step : forall s e, negb (is_sdkfail e) = true -> Inv2 s -> Inv2 (step s e).
Proof.
  intros s e He [A B C D].
  destruct s as [up a st co rf sl lc sf lg]. fields. subst sf.
  assert (R : rf = 0 \/ rf = 1) by lia. clear B.
  destruct e as [o| |f|a' f|b|r|f].
  - destruct st; [constructor; cbn; auto; lia|].
    destruct co; [constructor; cbn; auto; lia|].
    destruct o, up, sl, lc, R; subst rf; constructor; fin2.
  - destruct co; [|constructor; cbn; auto; lia].
    destruct up, R; subst rf; constructor; fin2.
  - destruct f, st, co, up, sl, lc, R; subst rf; constructor; fin2.
  - cbn [step]. fields. destruct (N.eqb a' a);
    destruct f, co, up, lc, R; subst rf; constructor; fin2.
  - destruct b; try discriminate. constructor; cbn; auto. lia.
  - cbn [step]. fields. destruct (try_send (fun _ => send_class lc r)) as [n c].
    constructor; brute; cbn; intros; hist; auto; try lia.
  - destruct f, st, co, up, sl, lc, R; subst rf; constructor; fin2.
Qed.

Lemma Inv2_run : forall evs s, sdk_ok evs = true -> Inv2 s -> Inv2 (run s evs).
Proof.
  induction evs as [|e evs IH]; intros s H I; cbn [run fold_left]; auto.
  cbn [sdk_ok forallb] in H. apply andb_true_iff in H. destruct H as [H1 H2].
  apply IH; auto. apply Inv2_step; auto.
Qed.

(* ---------- Stop, dials, addresses ---------- *)
Lemma stopped_step : forall s e, is_stop e = false -> stopped (step s e) = stopped s.
Proof.
  intros s e H. destruct s as [up a st co rf sl lc sf lg].
  destruct e as [o| |f|a' f|b|r|f]; try discriminate.
  - destruct o, st, co, up, sf, lc, rf as [|[|rf]]; reflexivity.
  - destruct st, co, up, sf, rf as [|[|rf]]; reflexivity.
  - cbn [step]. fields. destruct (N.eqb a' a); destruct co, lc, f; reflexivity.
  - reflexivity.
  - cbn [step]. fields. destruct (try_send (fun _ => send_class lc r)). reflexivity.
Qed.

Lemma stopped_after_stop : forall s f, stopped (step s (Stop f)) = true.
Proof.
  intros. destruct s as [up a st co rf sl lc sf lg].
  destruct st, co, up, sf, sl, lc, f; reflexivity.
Qed.

Lemma stopped_stays : forall s e, stopped s = true ->
  stopped (step s e) = true /\ dials (log (step s e)) = dials (log s).
Proof.
  intros s e H. destruct s as [up a st co rf sl lc sf lg]. fields. subst st.
  destruct e as [o| |f|a' f|b|r|f].
  - split; reflexivity.
  - destruct co; [|split; reflexivity].
    destruct up, sf, rf as [|[|rf]]; split; try reflexivity; brute; cbn; hist;
      now rewrite ?app_nil_r.
  - destruct lc, f; split; reflexivity.
  - cbn [step]. fields. destruct (N.eqb a' a); destruct co, lc, f; split; try reflexivity;
      brute; cbn; hist; now rewrite ?app_nil_r.
  - split; reflexivity.
  - cbn [step]. fields. destruct (try_send (fun _ => send_class lc r)).
    split; try reflexivity. fields. hist. now rewrite app_nil_r.
  - destruct lc, f; split; reflexivity.
Qed.

Lemma stop_no_dial : forall s f, dials (log (step s (Stop f))) = dials (log s).
Proof.
  intros. destruct s as [up a st co rf sl lc sf lg].
  destruct st, co, up, sf, sl, lc, f; brute; cbn; hist; now rewrite ?app_nil_r.
Qed.

Lemma stopped_run : forall evs s, stopped s = true ->
  stopped (run s evs) = true /\ dials (log (run s evs)) = dials (log s).
Proof.
  induction evs as [|e evs IH]; intros s H; cbn [run fold_left]; auto.
  destruct (stopped_stays s e H) as [H1 H2].
  destruct (IH _ H1) as [H3 H4]. unfold run in *. split; auto. congruence.
Qed.

Lemma run_app : forall evs1 evs2 s, run s (evs1 ++ evs2) = run (run s evs1) evs2.
Proof. intros. unfold run. apply fold_left_app. Qed.

Lemma no_stop_run : forall evs s, forallb (fun e => negb (is_stop e)) evs = true ->
  stopped (run s evs) = stopped s.
Proof.
  induction evs as [|e evs IH]; intros s H; cbn [run fold_left]; auto.
  cbn [forallb] in H. apply andb_true_iff in H. destruct H as [H1 H2].
  apply negb_true_iff in H1. fold (run (step s e) evs). rewrite IH; auto.
  apply stopped_step; auto.
Qed.

Lemma dial_appends : forall s o, dial_enabled s = true ->
  exists l, log (step s (Dial o)) = log s ++ LDial (cur_addr s) :: l.
Proof.
  intros s o H. destruct s as [up a st co rf sl lc sf lg].
  unfold dial_enabled in H. fields. destruct st, co; try discriminate.
  destruct o, up, sf, lc, rf as [|[|rf]]; brute; cbn;
    rewrite <- ?app_assoc; cbn [List.app]; eexists; reflexivity.
Qed.

Lemma dial_disabled : forall s o, dial_enabled s = false -> step s (Dial o) = s.
Proof. intros. cbn [step]. now rewrite H. Qed.

Lemma drop_enables : forall s, stopped s = false -> connected s = true ->
  dial_enabled (step s Drop) = true.
Proof.
  intros s H1 H2. destruct s as [up a st co rf sl lc sf lg]. fields. subst.
  destruct up, sf, rf as [|[|rf]]; reflexivity.
Qed.

Lemma connected_step : forall s e, is_established e = false -> connected s = false ->
  connected (step s e) = false.
Proof.
  intros s e H C. destruct s as [up a st co rf sl lc sf lg]. fields. subst co.
  destruct e as [o| |f|a' f|b|r|f].
  - destruct o; try discriminate; destruct st, up, sf, lc, rf as [|[|rf]]; reflexivity.
  - reflexivity.
  - destruct st, up, sf, sl, lc, f; reflexivity.
  - cbn [step]. fields. destruct (N.eqb a' a); destruct lc, f; reflexivity.
  - reflexivity.
  - cbn [step]. fields. destruct (try_send (fun _ => send_class lc r)). reflexivity.
  - destruct st, up, sf, sl, lc, f, rf as [|rf]; reflexivity.
Qed.

Lemma cur_addr_step : forall s e,
  cur_addr (step s e) = match e with UpdateAddr a _ => a | _ => cur_addr s end.
Proof.
  intros. destruct s as [up a st co rf sl lc sf lg].
  destruct e as [o| |f|a' f|b|r|f].
  - destruct o, st, co, up, sf, lc, rf as [|[|rf]]; reflexivity.
  - destruct st, co, up, sf, rf as [|[|rf]]; reflexivity.
  - destruct st, co, up, sf, sl, lc, f; reflexivity.
  - cbn [step]. fields. destruct (N.eqb a' a); destruct co, lc, f; reflexivity.
  - reflexivity.
  - cbn [step]. fields. destruct (try_send (fun _ => send_class lc r)). reflexivity.
  - destruct st, co, up, sf, sl, lc, f, rf as [|rf]; reflexivity.
Qed.

Lemma cur_addr_run : forall evs s, cur_addr (run s evs) = last_addr (cur_addr s) evs.
Proof.
  induction evs as [|e evs IH]; intros; cbn [run fold_left last_addr]; auto.
  fold (run (step s e) evs). rewrite IH, cur_addr_step. destruct e; reflexivity.
Qed.

(* ---------- Up on reconnect ---------- *)
Lemma handshake_reports_up : forall up0 s o,
  Inv up0 s -> sdk_fails s = false -> dial_enabled s = true -> handshake_ok o = true ->
  exists l, log (step s (Dial o)) = log s ++ LDial (cur_addr s) :: LHandshake :: l /\
            last_report (if up0 then Up else Down)
                        (log s ++ LDial (cur_addr s) :: LHandshake :: firstn 1 l) = Up.
Proof.
  intros up0 s o [A _ _ _] F E H. destruct s as [up a st co rf sl lc sf lg].
  unfold dial_enabled in E. fields. subst sf. destruct st, co; try discriminate.
  destruct o; try discriminate;
    destruct up, lc, rf as [|[|rf]]; brute; cbn;
    rewrite <- ?app_assoc; cbn [List.app]; eexists; (split; [reflexivity|]);
    cbn [firstn]; hist; rewrite <- ?A; destruct (last_report _ lg); try reflexivity;
    discriminate.
Qed.

(* ---------- TrySend ---------- *)
Lemma try_send_spec : forall res,
  let n := fst (try_send res) in let c := snd (try_send res) in
  1 <= n <= max_send_attempts /\ c = res (n - 1) /\
  (forall i, S i < n -> res i = SClosed \/ res i = SNoClient) /\
  (n < max_send_attempts -> retriable c = false).
Proof.
  intros res. unfold try_send, max_send_attempts. cbn [Nat.sub try_send_from].
  destruct (res 0) eqn:E0; cbn [retriable fst snd];
    try (repeat split; auto; try lia; intros; lia).
  all: destruct (res 1) eqn:E1; cbn [retriable fst snd Nat.sub];
    repeat split; auto; try lia; intros i Hi;
    (assert (i = 0 \/ i = 1) as [-> | ->] by lia); rewrite ?E0, ?E1; auto; lia.
Qed.

Definition send_entry_ok (e : entry) : Prop :=
  match e with
  | LSend n m c => 1 <= n <= max_send_attempts /\ m <= n /\ (1 < n -> c = SClosed \/ c = SNoClient)
  | _ => True
  end.

Lemma step_log_extends : forall s e, exists l, log (step s e) = log s ++ l /\
  Forall send_entry_ok l.
Proof.
  intros. destruct s as [up a st co rf sl lc sf lg].
  destruct e as [o| |f|a' f|b|r|f].
  - destruct o, st, co, up, sf, lc, rf as [|[|rf]]; brute; cbn;
      rewrite <- ?app_assoc; cbn [List.app];
      (eexists; split; [try reflexivity; symmetry; apply app_nil_r|repeat constructor]).
  - destruct st, co, up, sf, rf as [|[|rf]]; brute; cbn;
      rewrite <- ?app_assoc; cbn [List.app];
      (eexists; split; [try reflexivity; symmetry; apply app_nil_r|repeat constructor]).
  - destruct st, co, up, sf, sl, lc, f; brute; cbn;
      rewrite <- ?app_assoc; cbn [List.app];
      (eexists; split; [try reflexivity; symmetry; apply app_nil_r|repeat constructor]).
  - cbn [step]. fields. destruct (N.eqb a' a); destruct co, lc, f; brute; cbn;
      rewrite <- ?app_assoc; cbn [List.app];
      (eexists; split; [try reflexivity; symmetry; apply app_nil_r|repeat constructor]).
  - exists []. split; [symmetry; apply app_nil_r|constructor].
  - cbn [step]. fields. exists [let '(n, c) := try_send (fun _ => send_class lc r) in
                                 LSend n (match c with SNoClient => 0 | _ => n end) c].
    split. { destruct (try_send (fun _ => send_class lc r)); reflexivity. }
    constructor; [|constructor].
    destruct lc, r; cbv; repeat split; auto; try lia; intros; try lia.
  - destruct st, co, up, sf, sl, lc, f, rf as [|rf]; brute; cbn;
      rewrite <- ?app_assoc; cbn [List.app];
      (eexists; split; [try reflexivity; symmetry; apply app_nil_r|repeat constructor]).
Qed.

Lemma sends_ok_run : forall evs s, Forall send_entry_ok (log s) ->
  Forall send_entry_ok (log (run s evs)).
Proof.
  induction evs as [|e evs IH]; intros s H; cbn [run fold_left]; auto.
  apply IH. destruct (step_log_extends s e) as [l [E F]]. rewrite E.
  apply Forall_app; auto.
Qed.

(* ---------- the property theorems of Props/C15.v ---------- *)
Lemma retries_until_stop : forall up0 a0 evs,
  forallb (fun e => negb (is_stop e)) evs = true ->
  let s := run (init up0 a0) evs in
  (dial_enabled s = true \/ (connected s = true /\ dial_enabled (step s Drop) = true)) /\
  (forall o, dial_enabled s = true ->
     exists l, log (step s (Dial o)) = log s ++ LDial (cur_addr s) :: l).
Proof.
  intros up0 a0 evs H s.
  assert (S : stopped s = false) by (unfold s; rewrite no_stop_run; auto).
  split.
  - unfold dial_enabled. rewrite S. destruct (connected s) eqn:C; auto.
    right. split; auto. apply drop_enables; auto.
  - intros o E. apply dial_appends; auto.
Qed.

Lemma retries_until_stop_five : forall up0 a0 evs,
  forallb (fun e => negb (is_stop e)) evs = true ->
  forallb (fun e => negb (is_established e)) evs = true ->
  dial_enabled (run (init up0 a0) evs) = true.
Proof.
  intros up0 a0 evs H1 H2. unfold dial_enabled.
  rewrite no_stop_run; auto. cbn [stopped init negb andb].
  assert (C : forall evs s, forallb (fun e => negb (is_established e)) evs = true ->
              connected s = false -> connected (run s evs) = false).
  { clear. induction evs as [|e evs IH]; intros s H C; cbn [run fold_left]; auto.
    cbn [forallb] in H. apply andb_true_iff in H. destruct H as [Ha Hb].
    apply (IH (step s e)); auto. apply connected_step; auto. now apply negb_true_iff. }
  rewrite C; auto.
Qed.

Lemma down_after_two : forall up0 a0 evs,
  sdk_ok evs = true ->
  let s := run (init up0 a0) evs in
  2 <= fails_since_hs (log s) -> last_report (st0 up0) (log s) = Down.
Proof.
  intros up0 a0 evs H s F.
  pose proof (Inv_run up0 evs _ (Inv_init up0 a0)) as I.
  pose proof (Inv2_run evs _ H (Inv2_init up0 a0)) as I2. fold s in I, I2.
  destruct I as [A _ _ _]. destruct I2 as [_ R U _].
  unfold st0. destruct (last_report (if up0 then Up else Down) (log s)); auto.
  cbn in A. specialize (U A). lia.
Qed.

Lemma up_on_reconnect : forall up0 a0 evs o,
  sdk_ok evs = true -> handshake_ok o = true ->
  let s := run (init up0 a0) evs in
  dial_enabled s = true ->
  exists l, log (step s (Dial o)) = log s ++ LDial (cur_addr s) :: LHandshake :: l /\
            last_report (st0 up0) (log s ++ LDial (cur_addr s) :: LHandshake :: firstn 1 l) = Up.
Proof.
  intros up0 a0 evs o H Ho s E.
  apply handshake_reports_up; auto.
  - apply Inv_run, Inv_init.
  - apply (i2_sdk _ (Inv2_run evs _ H (Inv2_init up0 a0))).
Qed.

Lemma states_alternate : forall up0 a0 evs,
  alternates (st0 up0) (reports (log (run (init up0 a0) evs))) = true.
Proof. intros. apply (inv_alt _ _ (Inv_run up0 evs _ (Inv_init up0 a0))). Qed.

Lemma isup_is_reported : forall up0 a0 evs,
  let s := run (init up0 a0) evs in isUp s = is_up (last_report (st0 up0) (log s)).
Proof. intros. apply (inv_isup _ _ (Inv_run up0 evs _ (Inv_init up0 a0))). Qed.

Lemma no_dial_after_stop : forall up0 a0 evs1 f evs2,
  dials (log (run (init up0 a0) (evs1 ++ Stop f :: evs2))) =
  dials (log (run (init up0 a0) evs1)).
Proof.
  intros. rewrite run_app. cbn [run fold_left].
  destruct (stopped_run evs2 (step (run (init up0 a0) evs1) (Stop f))
                        (stopped_after_stop _ f)) as [_ H].
  unfold run in *. rewrite H. apply stop_no_dial.
Qed.

Lemma addr_change_redirects : forall up0 a0 evs o,
  let s := run (init up0 a0) evs in
  dial_enabled s = true ->
  exists l, log (step s (Dial o)) = log s ++ LDial (last_addr a0 evs) :: l.
Proof.
  intros up0 a0 evs o s E.
  destruct (dial_appends s o E) as [l H]. exists l. rewrite H.
  unfold s. rewrite cur_addr_run. reflexivity.
Qed.

Lemma sends_in_runs : forall up0 a0 evs n m c,
  In (LSend n m c) (log (run (init up0 a0) evs)) ->
  1 <= n <= 3 /\ m <= n /\ (1 < n -> c = SClosed \/ c = SNoClient).
Proof.
  intros up0 a0 evs n m c H.
  pose proof (sends_ok_run evs (init up0 a0) (Forall_nil _)) as F.
  rewrite Forall_forall in F. apply (F _ H).
Qed.

(* ---------- the second Stop event ---------- *)
Lemma stopped_after_stop_at_entry : forall s f, stopped (step s (StopAtEntry f)) = true.
Proof.
  intros. destruct s as [up a st co rf sl lc sf lg].
  destruct st, co, up, sf, sl, lc, f, rf as [|rf]; reflexivity.
Qed.

Lemma stop_at_entry_no_dial : forall s f, dials (log (step s (StopAtEntry f))) = dials (log s).
Proof.
  intros. destruct s as [up a st co rf sl lc sf lg].
  destruct st, co, up, sf, sl, lc, f, rf as [|rf]; brute; cbn; hist; now rewrite ?app_nil_r.
Qed.

Lemma no_dial_after_stop_at_entry : forall up0 a0 evs1 f evs2,
  dials (log (run (init up0 a0) (evs1 ++ StopAtEntry f :: evs2))) =
  dials (log (run (init up0 a0) evs1)).
Proof.
  intros. rewrite run_app. cbn [run fold_left].
  destruct (stopped_run evs2 (step (run (init up0 a0) evs1) (StopAtEntry f))
                        (stopped_after_stop_at_entry _ f)) as [_ H].
  unfold run in *. rewrite H. apply stop_at_entry_no_dial.
Qed.

(* the two Stop events differ only when the supervisor is about to dial *)
Lemma stop_events_coincide : forall s f,
  (stopped s = true \/ connected s = true \/ in_slow s = true \/ 1 <= round_fails s) ->
  step s (StopAtEntry f) = step s (Stop f).
Proof.
  intros s f H. destruct s as [up a st co rf sl lc sf lg]. cbn in H.
  destruct st; [reflexivity|]. destruct co; [reflexivity|].
  destruct sl; [reflexivity|]. destruct rf as [|rf]; [|reflexivity].
  destruct H as [H|[H|[H|H]]]; try discriminate; lia.
Qed.

(* ---------- Down after two consecutive failed attempts, handshakes in between or not ---------- *)
Lemma fails_consec_acc_app : forall l1 l2 acc,
  fails_consec_acc acc (l1 ++ l2) = fails_consec_acc (fails_consec_acc acc l1) l2.
Proof.
  induction l1 as [|e l1 IH]; intros; cbn [List.app fails_consec_acc]; auto.
  destruct e as [a| | | |o ok| |a|n m c]; auto. destruct o, ok; auto.
Qed.

Record Inv3 (s : state) : Prop := {
  i3_sdk : sdk_fails s = false;
  i3_round : round_fails s <= 1;
  i3_up : isUp s = true -> fails_consec (log s) <= round_fails s
}.

Lemma Inv3_init : forall up0 a0, Inv3 (init up0 a0).
Proof. intros. constructor; cbn; auto. Qed.

Ltac fin3 :=
  unfold step, dial_enabled, drop, handshake, close_conn, normal_reset, fail, down_block,
         on_connect, report, close_locked, poisoned, max_conn_attempts, fails_consec in *;
  fields; cbn; intros; rewrite ?fails_consec_acc_app; cbn [fails_consec_acc];
  try discriminate; try reflexivity;
  repeat match goal with H : ?x = ?x -> _ |- _ => specialize (H eq_refl) end;
  try lia.

Lemma Inv3_step : forall s e, negb (is_sdkfail e) = true -> Inv3 s -> Inv3 (step s e).
Proof.
  intros s e He [A B C].
  destruct s as [up a st co rf sl lc sf lg]. fields. subst sf.
  assert (R : rf = 0 \/ rf = 1) by lia. clear B.
  destruct e as [o| |f|a' f|b|r|f].
  - destruct st; [constructor; cbn; auto; lia|].
    destruct co; [constructor; cbn; auto; lia|].
    destruct o, up, sl, lc, R; subst rf; constructor; fin3.
  - destruct co; [|constructor; cbn; auto; lia].
    destruct up, R; subst rf; constructor; fin3.
  - destruct f, st, co, up, sl, lc, R; subst rf; constructor; fin3.
  - cbn [step]. fields. destruct (N.eqb a' a);
    destruct f, co, up, lc, R; subst rf; constructor; fin3.
  - destruct b; try discriminate. constructor; cbn; auto. lia.
  - cbn [step]. fields. destruct (try_send (fun _ => send_class lc r)) as [n c].
    constructor; fields; auto; try lia. intros. unfold fails_consec in *.
    rewrite fails_consec_acc_app. cbn [fails_consec_acc]. auto.
  - destruct f, st, co, up, sl, lc, R; subst rf; constructor; fin3.
Qed.

Lemma Inv3_run : forall evs s, sdk_ok evs = true -> Inv3 s -> Inv3 (run s evs).
Proof.
  induction evs as [|e evs IH]; intros s H I; cbn [run fold_left]; auto.
  cbn [sdk_ok forallb] in H. apply andb_true_iff in H. destruct H as [H1 H2].
  apply IH; auto. apply Inv3_step; auto.
Qed.

Lemma down_after_two_consecutive : forall up0 a0 evs,
  sdk_ok evs = true ->
  let s := run (init up0 a0) evs in
  2 <= fails_consec (log s) -> last_report (st0 up0) (log s) = Down.
Proof.
  intros up0 a0 evs H s F.
  pose proof (Inv_run up0 evs _ (Inv_init up0 a0)) as I.
  pose proof (Inv3_run evs _ H (Inv3_init up0 a0)) as I3. fold s in I, I3.
  destruct I as [A _ _ _]. destruct I3 as [_ R U].
  unfold st0. destruct (last_report (if up0 then Up else Down) (log s)); auto.
  cbn in A. specialize (U A). lia.
Qed.
