(* Driver/RegistrySplit.v — Driver.removeDevice as TWO steps (C15).

   MODEL ONLY.  Driver/Registry.v has RemoveDevice as one event [RRemove]: the tree's removeDevice
   takes the write lock of devicesMu, stops the registered instance (LLRPDevice.Stop: cancel the
   supervisor's context, then wait for the reader's CloseConnectionResponse, up to shutdownGrace)
   and deletes the entry, all in ONE critical section; every other event of the name waits.

   Here the removal is written as what it does in time:
     [SRemoveLookup]    the removal looks the registered instance up and begins to stop it
                        (its context is cancelled at once: from here on it dials no more);
     [SRemoveStopDone]  Stop has returned (the reader answered, or the grace period is over) and
                        the entry is deleted;
   with a flag for WHO MAY RUN IN BETWEEN: [split = false] (the tree): nobody — the lock is held from
   the lookup to the deletion, so the two steps are one ([SRemoveLookup] does all of [RRemove],
   [SRemoveStopDone] has nothing left to do); [split = true]: the lookup is made under a read lock,
   Stop runs without the lock, the deletion takes the write lock and removes the entry only if it
   still refers to the instance that was stopped.  All other events are Registry.v's, with the
   tree's getDevice and cleanup ([flags_repaired]). *)
From Coq Require Import List Bool Arith.
From LLRP Require Import Driver.Registry.
Import ListNotations.

Inductive sev :=
| SE (e : rev)
| SRemoveLookup
| SRemoveStopDone.

Record sstate := mkS {
  sbase : rstate;
  rm : option nat     (* a removal that has looked instance i up and is waiting in its Stop *)
}.

Definition sinit : sstate := mkS rinit None.

Definition sstep (split : bool) (s : sstate) (ev : sev) : sstate :=
  match ev with
  | SE e => mkS (rstep flags_repaired (sbase s) e) (rm s)
  | SRemoveLookup =>
      if split then
        match rm s, reg (sbase s) with
        | None, Some i =>
            let b := sbase s in
            mkS (mkR (reg b) (next b) (drop i (live b)) (exited b) (pend b) (got b)) (Some i)
        | _, _ => s
        end
      else mkS (rstep flags_repaired (sbase s) RRemove) (rm s)
  | SRemoveStopDone =>
      match rm s with
      | Some i =>
          let b := sbase s in
          mkS (mkR (match reg b with Some j => if j =? i then None else Some j | None => None end)
                   (next b) (live b) (exited b) (pend b) (got b)) None
      | None => s
      end
  end.

Definition srun (split : bool) (evs : list sev) : sstate := fold_left (sstep split) evs sinit.

(* the tree's schedule as a schedule of Registry.v *)
Definition to_rev (ev : sev) : list rev :=
  match ev with
  | SE e => [e]
  | SRemoveLookup => [RRemove]
  | SRemoveStopDone => []
  end.

Definition is_removal (ev : sev) : bool :=
  match ev with SE RRemove | SRemoveLookup => true | _ => false end.
