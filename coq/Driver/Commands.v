(* C14 — model of Driver.handleReadCommands / handleWriteCommands
   (/repo/internal/driver/driver.go:200-249, :269-493) written after the code's decision
   structure, and — separately — the documented command table (README.md "Device Profiles,
   Custom LLRP Messages, and Service Limitations" + cmd/res/profiles/llrp.device.profile.yaml,
   transcribed in /verif/spec/doc_commands.json).  No proofs here. *)
From Coq Require Import NArith List Bool String Ascii.
From LLRP Require Import Driver.KeepAlive.
Import ListNotations.
Open Scope N_scope.

(* ------------------------------------------------------------------ strings as Go sees them *)
Definition bytes_of (s : string) : list N := map N_of_ascii (list_ascii_of_string s).
Definition str_of (l : list N) : string := string_of_list_ascii (map ascii_of_N l).

(* strconv.ParseUint(s, 10, 64): non-empty, ASCII digits only (no sign, no '_' for base 10),
   value < 2^64 *)
Definition digit (c : N) : option N :=
  if (48 <=? c) && (c <=? 57) then Some (c - 48) else None.
Fixpoint parse_dec (l : list N) (acc : N) : option N :=
  match l with
  | [] => Some acc
  | c :: t => match digit c with Some d => parse_dec t (acc * 10 + d) | None => None end
  end.
Definition parse_uint64 (s : string) : option N :=
  match bytes_of s with
  | [] => None
  | l => match parse_dec l 0 with
         | Some v => if v <? 2 ^ 64 then Some v else None
         | None => None
         end
  end.

(* base64.StdEncoding.DecodeString (padded, non-strict; '\r' and '\n' are skipped) *)
Definition b64_val (c : N) : option N :=
  if (65 <=? c) && (c <=? 90) then Some (c - 65)
  else if (97 <=? c) && (c <=? 122) then Some (c - 71)
  else if (48 <=? c) && (c <=? 57) then Some (c + 4)
  else if c =? 43 then Some 62
  else if c =? 47 then Some 63
  else None.
Fixpoint b64_quads (l : list N) : option (list N) :=
  match l with
  | [] => Some []
  | a :: b :: c :: d :: rest =>
      match b64_val a, b64_val b with
      | Some va, Some vb =>
          let b1 := va * 4 + vb / 16 in
          if c =? 61 then
            if d =? 61 then match rest with [] => Some [b1] | _ => None end else None
          else match b64_val c with
               | None => None
               | Some vc =>
                   let b2 := (vb mod 16) * 16 + vc / 4 in
                   if d =? 61 then match rest with [] => Some [b1; b2] | _ => None end
                   else match b64_val d with
                        | None => None
                        | Some vd =>
                            match b64_quads rest with
                            | Some t => Some (b1 :: b2 :: (vc mod 4) * 64 + vd :: t)
                            | None => None
                            end
                        end
               end
      | _, _ => None
      end
  | _ => None
  end.
Definition b64_decode (s : string) : option (list N) :=
  b64_quads (filter (fun c => negb ((c =? 10) || (c =? 13))) (bytes_of s)).

(* ------------------------------------------------------------------ commands *)
(* CommandRequest.Type / CommandValue.Type: only these distinctions are looked at *)
Inductive vtype := TString | TUint32 | TObject | TOtherType.

(* CommandValue.Value as far as the code looks at it.
   VDoc: a Go value that json.Marshal turns into a JSON document; the three components say what
   json.Unmarshal of that document into llrp.SetReaderConfig / llrp.ROSpec / llrp.AccessSpec
   gives (None = Unmarshal fails).  Decoded ROSpec/AccessSpec documents are opaque identifiers
   (nothing in the driver looks inside them); a decoded config is a [cfg].
   VOther: any other Go value (int64, bool, slice, ...): not a string, not a uint32, and its
   JSON form does not unmarshal into a struct. *)
Inductive value :=
| VStr (s : string)
| VU32 (n : N)
| VDoc (as_cfg : option cfg) (as_rospec : option N) (as_accessspec : option N)
| VOther.

(* an attribute of the deviceResource: absent, present but not a Go string, or a string *)
Inductive attr := AMissing | ANonString | AStr (s : string).

Record req := mkReq { r_name : string; r_type : vtype; r_vendor : attr; r_subtype : attr }.
Record param := mkParam { p_name : string; p_type : vtype; p_val : value }.

Inductive cmd :=
| CRead (reqs : list req)
| CWrite (reqs : list req) (params : list param).

Inductive request :=
| GetReaderCapabilities | GetReaderConfig | GetROSpecs | GetAccessSpecs
| SetReaderConfig (c : cfg)
| AddROSpec (doc : N) | AddAccessSpec (doc : N)
| EnableROSpec (id : N) | StartROSpec (id : N) | StopROSpec (id : N)
| DisableROSpec (id : N) | DeleteROSpec (id : N)
| EnableAccessSpec (id : N) | DisableAccessSpec (id : N) | DeleteAccessSpec (id : N)
| CustomMessage (vendor subtype : N) (data : list N).

Inductive err :=
| ENoRequests | EMismatch | EUnknownResource | EParamCount | ENoAction | EValueType
| EUnknownAction | EAttribute | ERange | EBase64 | EJson | EResultType | EMultiRead.

Inductive result (A : Type) := Ok (a : A) | Err (e : err).
Arguments Ok {A} a.
Arguments Err {A} e.

(* CommandValue.StringValue / Uint32Value: the Type tag must match and the dynamic type too *)
Definition string_value (p : param) : option string :=
  match p_type p, p_val p with TString, VStr s => Some s | _, _ => None end.
Definition u32_value (p : param) : option N :=
  match p_type p, p_val p with TUint32, VU32 n => Some n | _, _ => None end.

(* json.Marshal(params[0].Value) followed by json.Unmarshal into the target *)
Definition decode_cfg (v : value) : option cfg :=
  match v with VDoc c _ _ => c | _ => None end.
Definition decode_rospec (v : value) : option N :=
  match v with VDoc _ r _ => r | _ => None end.
Definition decode_accessspec (v : value) : option N :=
  match v with VDoc _ _ a => a | _ => None end.

(* getUintAttrib: getAttrib rejects "" ; a missing key gives nil and a non-string value fails
   the .(string) assertion; then ParseUint *)
Definition uint_attrib (a : attr) : option N :=
  match a with
  | AStr s => if (s =? "")%string then None else parse_uint64 s
  | _ => None
  end.

(* ------------------------------------------------------------------ handleReadCommands *)
(* the switch on reqs[i].DeviceResourceName *)
Definition read_request (r : req) : result request :=
  let n := r_name r in
  if (n =? "ReaderConfig")%string then Ok GetReaderConfig
  else if (n =? "ReaderCapabilities")%string then Ok GetReaderCapabilities
  else if (n =? "ROSpec")%string then Ok GetROSpecs
  else if (n =? "AccessSpec")%string then Ok GetAccessSpecs
  else Err EUnknownResource.

(* what was sent, and whether an error was returned *)
Record outcome := mkOut { sent : list request; failed : bool }.

(* the loop: send, then NewCommandValueWithOrigin(name, reqs[i].Type, resp) which only accepts
   an Object-typed request for a struct value *)
Fixpoint read_loop (reqs : list req) (acc : list request) : outcome :=
  match reqs with
  | [] => mkOut acc false
  | r :: t =>
      match read_request r with
      | Err _ => mkOut acc true
      | Ok q =>
          match r_type r with
          | TObject => read_loop t (acc ++ [q])
          | _ => mkOut (acc ++ [q]) true
          end
      end
  end.
Definition run_read (reqs : list req) : outcome :=
  match reqs with [] => mkOut [] true | _ => read_loop reqs [] end.

(* ------------------------------------------------------------------ handleWriteCommands *)
Definition ro_action (a : string) : option (N -> request) :=
  if (a =? "Enable")%string then Some EnableROSpec
  else if (a =? "Start")%string then Some StartROSpec
  else if (a =? "Stop")%string then Some StopROSpec
  else if (a =? "Disable")%string then Some DisableROSpec
  else if (a =? "Delete")%string then Some DeleteROSpec
  else None.
Definition as_action (a : string) : option (N -> request) :=
  if (a =? "Enable")%string then Some EnableAccessSpec
  else if (a =? "Disable")%string then Some DisableAccessSpec
  else if (a =? "Delete")%string then Some DeleteAccessSpec
  else None.

(* the ROSpecID / AccessSpecID cases (len(params) = len(reqs) was checked before) *)
Definition id_action (tbl : string -> option (N -> request)) (params : list param) : result request :=
  match params with
  | [p0; p1] =>
      if negb (p_name p1 =? "Action")%string then Err ENoAction else
      match u32_value p0 with
      | None => Err EValueType
      | Some id =>
          match string_value p1 with
          | None => Err EValueType
          | Some a => match tbl a with Some mk => Ok (mk id) | None => Err EUnknownAction end
          end
      end
  | _ => Err EParamCount
  end.

(* the default case: CustomMessage *)
Definition custom_message (r0 : req) (p0 : param) : result request :=
  match uint_attrib (r_vendor r0) with
  | None => Err EAttribute
  | Some vendor =>
      if 2 ^ 32 - 1 <? vendor then Err ERange else
      match uint_attrib (r_subtype r0) with
      | None => Err EAttribute
      | Some subtype =>
          if 255 <? subtype then Err ERange else
          match string_value p0 with
          | None => Err EValueType
          | Some s =>
              match b64_decode s with
              | Some data => Ok (CustomMessage vendor subtype data)
              | None => Err EBase64
              end
          end
      end
  end.

(* [with_accessspec_case = false] is the code as shipped: there is no `case ResourceAccessSpec`
   in handleWriteCommands and the name falls into the default (CustomMessage) branch.
   [true] is the code with that case added (mirroring the ROSpec case). The check decides by
   observation which of the two the tree under test behaves like. *)
Definition write_request (with_accessspec_case : bool) (reqs : list req) (params : list param)
  : result request :=
  match reqs with
  | [] => Err ENoRequests
  | r0 :: _ =>
      if negb (N.of_nat (List.length reqs) =? N.of_nat (List.length params)) then Err EMismatch else
      match params with
      | [] => Err EMismatch
      | p0 :: _ =>
          let n := r_name r0 in
          if (n =? "ReaderConfig")%string then
            match decode_cfg (p_val p0) with Some c => Ok (SetReaderConfig c) | None => Err EJson end
          else if (n =? "ROSpec")%string then
            match decode_rospec (p_val p0) with Some d => Ok (AddROSpec d) | None => Err EJson end
          else if (n =? "ROSpecID")%string then id_action ro_action params
          else if (n =? "AccessSpecID")%string then id_action as_action params
          else if with_accessspec_case && (n =? "AccessSpec")%string then
            match decode_accessspec (p_val p0) with Some d => Ok (AddAccessSpec d) | None => Err EJson end
          else custom_message r0 p0
      end
  end.

(* LLRPDevice.TrySend *)
Definition enforce_request (q : request) : request :=
  match q with SetReaderConfig c => SetReaderConfig (enforce_keepalive c) | _ => q end.

(* the request a command is turned into (what reaches the reader) *)
Definition cmd_to_request (with_accessspec_case : bool) (c : cmd) : result request :=
  match c with
  | CRead [r] => read_request r
  | CRead _ => Err EMultiRead
  | CWrite reqs params =>
      match write_request with_accessspec_case reqs params with
      | Ok q => Ok (enforce_request q)
      | Err e => Err e
      end
  end.

(* everything a command sends, and whether it returns an error *)
Definition run (with_accessspec_case : bool) (c : cmd) : outcome :=
  match c with
  | CRead reqs => run_read reqs
  | CWrite _ _ =>
      match cmd_to_request with_accessspec_case c with
      | Ok q => mkOut [q] false
      | Err _ => mkOut [] true
      end
  end.

(* ------------------------------------------------------------------ replies and TrySend's retry loop *)
(* What the reader does with one send attempt: answers successfully; answers with a fault (failing
   LLRPStatus in the expected response, ERROR_MESSAGE, a reply of another type, an undecodable reply)
   while the connection stays up; or the llrp.Client is closed under the request (SendFor returns
   an error wrapping ErrClientClosed — the supervision of that case is C15's).
   TrySend = retry.Quick.RetryWithCtx(ctx, maxSendAttempts, f) where f asks for another attempt
   only when the error wraps llrp.ErrClientClosed. *)
Inductive attempt := AOk | AFault | AClosed.
Definition max_send_attempts : nat := 3.

(* number of times the request is put on the wire, and whether TrySend returns nil;
   an exhausted script means the reader answers successfully *)
Fixpoint try_send (fuel : nat) (script : list attempt) : nat * bool :=
  match fuel with
  | O => (O, false)
  | S f =>
      match script with
      | [] => (1%nat, true)
      | AOk :: _ => (1%nat, true)
      | AFault :: _ => (1%nat, false)
      | AClosed :: t => let (n, ok) := try_send f t in (S n, ok)
      end
  end.

(* handleReadCommands' loop when every request of the command is answered after [script] *)
Fixpoint read_loop_reply (script : list attempt) (reqs : list req) (acc : list request) : outcome :=
  match reqs with
  | [] => mkOut acc false
  | r :: t =>
      match read_request r with
      | Err _ => mkOut acc true
      | Ok q =>
          let (n, ok) := try_send max_send_attempts script in
          let acc' := acc ++ repeat q n in
          if ok then
            match r_type r with
            | TObject => read_loop_reply script t acc'
            | _ => mkOut acc' true
            end
          else mkOut acc' true
      end
  end.

(* everything a command puts on the wire and whether it returns an error, when the reader
   answers each of its requests after [script] *)
Definition run_reply (with_accessspec_case : bool) (script : list attempt) (c : cmd) : outcome :=
  match c with
  | CRead [] => mkOut [] true
  | CRead reqs => read_loop_reply script reqs []
  | CWrite _ _ =>
      match cmd_to_request with_accessspec_case c with
      | Ok q => let (n, ok) := try_send max_send_attempts script in mkOut (repeat q n) (negb ok)
      | Err _ => mkOut [] true
      end
  end.

(* ================================================================== the documentation *)
(* Transcribed from spec/doc_commands.json (README.md lines cited there); deliberately written
   as tables + relations, not as the code's if-cascade. *)
Fixpoint lookup {A} (k : string) (t : list (string * A)) : option A :=
  match t with
  | [] => None
  | (k', v) :: t' => if (k =? k')%string then Some v else lookup k t'
  end.

(* README 289-300 *)
Definition doc_read_table : list (string * request) :=
  [("ReaderCapabilities", GetReaderCapabilities); ("ReaderConfig", GetReaderConfig);
   ("ROSpec", GetROSpecs); ("AccessSpec", GetAccessSpecs)]%string.
(* README 221, 308-316; profile deviceCommands *)
Definition doc_rospec_actions : list (string * (N -> request)) :=
  [("Enable", EnableROSpec); ("Start", StartROSpec); ("Stop", StopROSpec);
   ("Disable", DisableROSpec); ("Delete", DeleteROSpec)]%string.
(* README 222, 315-316; profile deviceCommands *)
Definition doc_accessspec_actions : list (string * (N -> request)) :=
  [("Enable", EnableAccessSpec); ("Disable", DisableAccessSpec); ("Delete", DeleteAccessSpec)]%string.
(* the names with a documented write mapping; every other name is a CustomMessage resource
   (README 327-335) *)
Definition doc_write_names : list string :=
  ["ReaderConfig"; "ROSpec"; "AccessSpec"; "ROSpecID"; "AccessSpecID"]%string.

(* "s is the decimal numeral of v": non-empty, digits only *)
Definition is_digit (c : N) : Prop := 48 <= c <= 57.
Definition digits_value (l : list N) : N := fold_left (fun a c => a * 10 + (c - 48)) l 0.
Definition decimal_attr (a : attr) (v : N) : Prop :=
  exists s, a = AStr s /\ bytes_of s <> [] /\ Forall is_digit (bytes_of s) /\ digits_value (bytes_of s) = v.

(* README 361-366: the service overrides the KeepAliveSpec with its own: periodic, 30 s *)
Definition doc_config (c : cfg) : cfg := mkCfg (Some (1, 30000)) (cfg_other c).

Inductive doc_read : req -> request -> Prop :=
| DR r q : lookup (r_name r) doc_read_table = Some q -> r_type r = TObject -> doc_read r q.

Inductive doc_write : list req -> list param -> request -> Prop :=
(* README 218, 320-325: write ReaderConfig -> SET_READER_CONFIG *)
| DW_config r rs p ps c :
    List.length rs = List.length ps -> r_name r = "ReaderConfig"%string ->
    decode_cfg (p_val p) = Some c ->
    doc_write (r :: rs) (p :: ps) (SetReaderConfig (doc_config c))
(* README 219, 320-325: write ROSpec -> ADD_ROSPEC *)
| DW_rospec r rs p ps d :
    List.length rs = List.length ps -> r_name r = "ROSpec"%string ->
    decode_rospec (p_val p) = Some d ->
    doc_write (r :: rs) (p :: ps) (AddROSpec d)
(* README 219, 320-325, profile AccessSpec RW: write AccessSpec -> ADD_ACCESSSPEC *)
| DW_accessspec r rs p ps d :
    List.length rs = List.length ps -> r_name r = "AccessSpec"%string ->
    decode_accessspec (p_val p) = Some d ->
    doc_write (r :: rs) (p :: ps) (AddAccessSpec d)
(* README 308-318 *)
| DW_rospec_id r0 r1 p0 p1 id a mk :
    r_name r0 = "ROSpecID"%string -> p_name p1 = "Action"%string ->
    p_type p0 = TUint32 -> p_val p0 = VU32 id ->
    p_type p1 = TString -> p_val p1 = VStr a ->
    lookup a doc_rospec_actions = Some mk ->
    doc_write [r0; r1] [p0; p1] (mk id)
| DW_accessspec_id r0 r1 p0 p1 id a mk :
    r_name r0 = "AccessSpecID"%string -> p_name p1 = "Action"%string ->
    p_type p0 = TUint32 -> p_val p0 = VU32 id ->
    p_type p1 = TString -> p_val p1 = VStr a ->
    lookup a doc_accessspec_actions = Some mk ->
    doc_write [r0; r1] [p0; p1] (mk id)
(* README 327-335 *)
| DW_custom r rs p ps vendor subtype s data :
    List.length rs = List.length ps -> ~ In (r_name r) doc_write_names ->
    decimal_attr (r_vendor r) vendor -> vendor <= 2 ^ 32 - 1 ->
    decimal_attr (r_subtype r) subtype -> subtype <= 255 ->
    p_type p = TString -> p_val p = VStr s -> b64_decode s = Some data ->
    doc_write (r :: rs) (p :: ps) (CustomMessage vendor subtype data).

(* the documented requests of a command, in order (README 303-306 for several reads) *)
Inductive doc_maps : cmd -> list request -> Prop :=
| DM_read reqs qs : reqs <> [] -> Forall2 doc_read reqs qs -> doc_maps (CRead reqs) qs
| DM_write reqs params q : doc_write reqs params q -> doc_maps (CWrite reqs params) [q].

(* single-request form *)
Definition doc_map (c : cmd) (q : request) : Prop := doc_maps c [q].

(* The malformed commands the property text lists, spelled out (independent of the model):
   unknown resource, unknown action, missing or mistyped parameters, bad attributes,
   undecodable JSON or base64. *)
Inductive malformed : cmd -> Prop :=
| M_read_none : malformed (CRead [])
| M_write_none ps : malformed (CWrite [] ps)
| M_count rs ps : List.length rs <> List.length ps -> malformed (CWrite rs ps)
| M_json_config r rs p ps :
    r_name r = "ReaderConfig"%string -> decode_cfg (p_val p) = None -> malformed (CWrite (r :: rs) (p :: ps))
| M_json_rospec r rs p ps :
    r_name r = "ROSpec"%string -> decode_rospec (p_val p) = None -> malformed (CWrite (r :: rs) (p :: ps))
| M_json_accessspec r rs p ps :
    r_name r = "AccessSpec"%string -> decode_accessspec (p_val p) = None -> malformed (CWrite (r :: rs) (p :: ps))
| M_id_count r rs ps :
    (r_name r = "ROSpecID" \/ r_name r = "AccessSpecID")%string -> List.length ps <> 2%nat ->
    malformed (CWrite (r :: rs) ps)
| M_id_noaction r rs p0 p1 :
    (r_name r = "ROSpecID" \/ r_name r = "AccessSpecID")%string -> p_name p1 <> "Action"%string ->
    malformed (CWrite (r :: rs) [p0; p1])
| M_id_type r rs p0 p1 :
    (r_name r = "ROSpecID" \/ r_name r = "AccessSpecID")%string -> u32_value p0 = None ->
    malformed (CWrite (r :: rs) [p0; p1])
| M_action_type r rs p0 p1 :
    (r_name r = "ROSpecID" \/ r_name r = "AccessSpecID")%string -> string_value p1 = None ->
    malformed (CWrite (r :: rs) [p0; p1])
| M_rospec_action r rs p0 p1 a :
    r_name r = "ROSpecID"%string -> string_value p1 = Some a -> lookup a doc_rospec_actions = None ->
    malformed (CWrite (r :: rs) [p0; p1])
| M_accessspec_action r rs p0 p1 a :
    r_name r = "AccessSpecID"%string -> string_value p1 = Some a -> lookup a doc_accessspec_actions = None ->
    malformed (CWrite (r :: rs) [p0; p1])
| M_custom_vendor r rs p ps :
    ~ In (r_name r) doc_write_names -> (forall v, decimal_attr (r_vendor r) v -> 2 ^ 32 - 1 < v) ->
    malformed (CWrite (r :: rs) (p :: ps))
| M_custom_subtype r rs p ps :
    ~ In (r_name r) doc_write_names -> (forall v, decimal_attr (r_subtype r) v -> 255 < v) ->
    malformed (CWrite (r :: rs) (p :: ps))
| M_custom_value r rs p ps :
    ~ In (r_name r) doc_write_names -> string_value p = None -> malformed (CWrite (r :: rs) (p :: ps))
| M_custom_base64 r rs p ps s :
    ~ In (r_name r) doc_write_names -> string_value p = Some s -> b64_decode s = None ->
    malformed (CWrite (r :: rs) (p :: ps)).

(* a read is malformed at the first resource name that is not in the table *)
Definition unknown_read (r : req) : Prop := lookup (r_name r) doc_read_table = None.

(* ================================================================== commands in progress at the same time *)
(* The SDK serves every REST call on a goroutine of its own: several callers issue commands
   against one Driver at once — different devices and the same device.  A caller ([lane]) issues
   its commands one after the other; the steps of different callers interleave in any order
   (the schedule).  What a command of the code under test is turned into is computed from that
   command's OWN arguments into locals of the call ([Private]): no other command in progress is
   looked at.  The wire records what the readers received, in arrival order, tagged with the
   caller — the check attributes requests to commands by markers embedded in their parameters.

   For contrast the machine has a second mode, [Shared]: the JSON document of an Object-typed
   write (ReaderConfig / ROSpec / AccessSpec) goes through ONE scratch slot kept on the Driver
   — written in one step, read back in a later step.  The statement below is FALSE of that mode
   (shared_scratch_refuted): the class of change the concurrent scenarios of the check look for. *)
Record job := mkJob { j_dev : N; j_cmd : cmd }.

Inductive scratch_mode := Private | Shared.

Inductive phase :=
| Idle                                          (* between two commands *)
| Encoded                                       (* Shared only: document written to the scratch slot, not yet read back *)
| Sending (rest : list request) (fail : bool).  (* translated; these requests are still to go out *)

Record lane := mkLane { l_todo : list job; l_phase : phase; l_results : list bool }.

(* (caller, (device, request)) in arrival order *)
Definition wire := list (nat * (N * request)).

Record cstate := mkC { c_lanes : nat -> lane; c_scratch : option value; c_wire : wire }.

Definition set_lane (ls : nat -> lane) (i : nat) (l : lane) : nat -> lane :=
  fun k => if Nat.eqb k i then l else ls k.

(* the document of an Object-typed write, and the command with another document in its place *)
Definition obj_doc (c : cmd) : option value :=
  match c with
  | CWrite (r :: _) (p :: _) =>
      let n := r_name r in
      if ((n =? "ReaderConfig") || (n =? "ROSpec") || (n =? "AccessSpec"))%string
      then Some (p_val p) else None
  | _ => None
  end.
Definition with_doc (v : value) (c : cmd) : cmd :=
  match c with
  | CWrite rs (p :: ps) => CWrite rs (mkParam (p_name p) (p_type p) v :: ps)
  | _ => c
  end.

Definition translated (b : bool) (c : cmd) : phase :=
  let o := run b c in Sending (sent o) (failed o).

(* one step of caller i *)
Definition conc_step (m : scratch_mode) (b : bool) (i : nat) (st : cstate) : cstate :=
  let l := c_lanes st i in
  match l_todo l with
  | [] => st
  | j :: t =>
      let upd ph := set_lane (c_lanes st) i (mkLane (j :: t) ph (l_results l)) in
      match l_phase l with
      | Idle =>
          match m, obj_doc (j_cmd j) with
          | Shared, Some v => mkC (upd Encoded) (Some v) (c_wire st)
          | _, _ => mkC (upd (translated b (j_cmd j))) (c_scratch st) (c_wire st)
          end
      | Encoded =>
          let c' := match c_scratch st with Some v => with_doc v (j_cmd j) | None => j_cmd j end in
          mkC (upd (translated b c')) (c_scratch st) (c_wire st)
      | Sending (q :: qs) f =>
          mkC (upd (Sending qs f)) (c_scratch st) (c_wire st ++ [(i, (j_dev j, q))])
      | Sending [] f =>
          mkC (set_lane (c_lanes st) i (mkLane t Idle (l_results l ++ [f]))) (c_scratch st) (c_wire st)
      end
  end.

Fixpoint conc_exec (m : scratch_mode) (b : bool) (sched : list nat) (st : cstate) : cstate :=
  match sched with
  | [] => st
  | i :: s => conc_exec m b s (conc_step m b i st)
  end.

Definition conc_init (lanes : list (list job)) : cstate :=
  mkC (fun i => mkLane (nth i lanes []) Idle []) None [].

(* what caller i put on the wire *)
Definition proj_wire (i : nat) (w : wire) : list (N * request) :=
  map snd (filter (fun e => Nat.eqb (fst e) i) w).

(* the same commands one at a time: each one's requests and verdict from [run] of that command alone *)
Definition job_reqs (b : bool) (j : job) : list (N * request) := map (pair (j_dev j)) (sent (run b (j_cmd j))).
Definition all_reqs (b : bool) (js : list job) : list (N * request) := flat_map (job_reqs b) js.
Definition all_results (b : bool) (js : list job) : list bool := map (fun j => failed (run b (j_cmd j))) js.

Definition lane_finished (l : lane) : bool := match l_todo l with [] => true | _ => false end.
Definition conc_finished (n : nat) (st : cstate) : bool :=
  forallb (fun i => lane_finished (c_lanes st i)) (seq 0 n).
