(* Driver/RegistryProofs.v — invariants of the device registry model (C15) for ALL schedules. *)
From Coq Require Import List Bool Arith Lia.
From LLRP Require Import Driver.Registry.
Import ListNotations.

Lemma cons_neq {A} (x : A) l : l = x :: l -> False.
Proof. intros H. apply (f_equal (@length A)) in H. cbn in H. lia. Qed.

Lemma in_drop i j l : In j (drop i l) <-> In j l /\ j <> i.
Proof.
  unfold drop. rewrite filter_In. split; intros [H1 H2]; split; try assumption.
  - intros ->. rewrite Nat.eqb_refl in H2. discriminate.
  - apply negb_true_iff, Nat.eqb_neq. assumption.
Qed.

Lemma nodup_drop i l : NoDup l -> NoDup (drop i l).
Proof. intros H. unfold drop. apply NoDup_filter. assumption. Qed.

Lemma memb_false i l : memb i l = false <-> ~ In i l.
Proof.
  unfold memb. split.
  - intros H Hin. assert (existsb (fun j => j =? i) l = true) as E.
    { apply existsb_exists. exists i. split; [assumption|apply Nat.eqb_refl]. }
    rewrite E in H. discriminate.
  - intros H. destruct (existsb (fun j => j =? i) l) eqn:E; [|reflexivity].
    apply existsb_exists in E as [j [Hj Hij]]. apply Nat.eqb_eq in Hij. subst. contradiction.
Qed.

Lemma pend_find_del_other c c' p :
  c' <> c -> pend_find c' (pend_del c p) = pend_find c' p.
Proof.
  intros Hne. induction p as [|[d b] p IH]; [reflexivity|]. unfold pend_del in *. cbn [filter fst pend_find].
  destruct (d =? c) eqn:E; cbn [negb].
  - apply Nat.eqb_eq in E. subst d. destruct (c =? c') eqn:E2.
    + apply Nat.eqb_eq in E2. congruence.
    + exact IH.
  - cbn [pend_find]. destruct (d =? c'); [reflexivity|exact IH].
Qed.

(* ---------------------------------------------------------------- the invariant *)
Record RInv (s : rstate) : Prop := {
  inv_live_reg : forall i, In i (live s) -> reg s = Some i;
  inv_reg_live : forall i, reg s = Some i -> In i (live s);
  inv_live_lt  : forall i, In i (live s) -> i < next s;
  inv_nodup    : NoDup (live s);
  inv_pend     : forall c b, pend_find c (pend s) = Some b -> b = None
}.

Lemma rinv_init : RInv rinit.
Proof. split; cbn; intros; try contradiction; try discriminate. constructor. Qed.

Lemma pend_find_del_some c c' p b :
  pend_find c' (pend_del c p) = Some b -> pend_find c' p = Some b.
Proof.
  destruct (Nat.eq_dec c' c) as [->|Hne].
  - intros H. exfalso. induction p as [|[d b'] p IH]; [discriminate|].
    unfold pend_del in *. cbn [filter fst] in H. destruct (d =? c) eqn:E; cbn [negb] in H.
    + apply IH, H.
    + cbn [pend_find] in H. rewrite E in H. apply IH, H.
  - rewrite pend_find_del_other by assumption. trivial.
Qed.

(* getDevice as found (create under the lock); the invariant holds whichever cleanup is used *)
Lemma rinv_step co s e : RInv s -> RInv (rstep (mkRFlags true co) s e).
Proof.
  intros [Ha Hb Hc Hd He]. destruct e as [c|c|c| |i]; cbn [rstep create_under_lock cleanup_own_only].
  - destruct (pend_find c (pend s)) eqn:Ep; [split; assumption|].
    destruct (reg s) eqn:Er; split; cbn [reg live next pend]; try assumption; try (rewrite Er; assumption).
    + intros c' b. cbn [pend_find]. destruct (c =? c'); [intros H; injection H as <-; reflexivity|apply He].
  - split; assumption.
  - destruct (pend_find c (pend s)) as [b|] eqn:Ep; [|split; assumption].
    destruct (reg s) as [j|] eqn:Er.
    + cbn [orb]. split; cbn [reg live next pend]; try assumption; try (rewrite Er; assumption).
      intros c' b' H. apply pend_find_del_some in H. eapply He, H.
    + assert (b = None) as -> by (eapply He, Ep).
      assert (live s = []) as El.
      { destruct (live s) as [|k r] eqn:El; [reflexivity|]. specialize (Ha k (or_introl eq_refl)). discriminate. }
      split; cbn [reg live next pend]; rewrite ?El.
      * intros i [<-|[]]. reflexivity.
      * intros i H. injection H as <-. left. reflexivity.
      * intros i [<-|[]]. lia.
      * constructor; [intros []|constructor].
      * intros c' b' H. apply pend_find_del_some in H. eapply He, H.
  - destruct (reg s) as [i|] eqn:Er; [|split; try assumption; rewrite Er; assumption].
    split; cbn [reg live next pend]; try assumption.
    + intros j Hj. apply in_drop in Hj as [Hj Hne]. apply Ha in Hj. congruence.
    + intros j H. discriminate.
    + intros j Hj. apply in_drop in Hj as [Hj _]. apply Hc, Hj.
    + apply nodup_drop, Hd.
  - destruct ((i <? next s) && negb (memb i (live s)) && negb (memb i (exited s))) eqn:G; [|split; assumption].
    apply andb_true_iff in G as [G _]. apply andb_true_iff in G as [_ G].
    apply negb_true_iff, memb_false in G.
    destruct co.
    + split; cbn [reg live next pend]; try assumption.
      * intros k Hk. rewrite (Ha k Hk). destruct (k =? i) eqn:E; [|reflexivity].
        apply Nat.eqb_eq in E. subst. contradiction.
      * intros k Hk. destruct (reg s) as [j|] eqn:Er; [|discriminate].
        destruct (j =? i); [discriminate|]. injection Hk as ->. apply Hb. reflexivity.
    + destruct (reg s) as [j|] eqn:Er; split; cbn [reg live next pend]; try assumption; try discriminate.
      * intros k Hk. apply in_drop in Hk as [Hk Hne]. apply Ha in Hk. congruence.
      * intros k Hk. apply in_drop in Hk as [Hk _]. apply Hc, Hk.
      * apply nodup_drop, Hd.
Qed.

Lemma rinv_fold co evs s : RInv s -> RInv (fold_left (rstep (mkRFlags true co)) evs s).
Proof. revert s. induction evs as [|e evs IH]; intros s H; [exact H|]. cbn [fold_left]. apply IH, rinv_step, H. Qed.

Theorem rinv_reachable co evs : RInv (rrun (mkRFlags true co) evs).
Proof. apply rinv_fold, rinv_init. Qed.

(* ---------------------------------------------------------------- consequences *)
(* at most one supervisor per name, and it is the registered one *)
Theorem one_supervisor co evs :
  let s := rrun (mkRFlags true co) evs in
  supervisors s <= 1 /\ forall i, In i (live s) -> reg s = Some i.
Proof.
  intros s. destruct (rinv_reachable co evs) as [Ha _ _ Hd _]. fold s in Ha, Hd. split; [|exact Ha].
  unfold supervisors. destruct (live s) as [|a [|b r]] eqn:E; cbn; try lia.
  exfalso. assert (reg s = Some a) as Ea by (apply Ha; left; reflexivity).
  assert (reg s = Some b) as Eb by (apply Ha; right; left; reflexivity).
  assert (a = b) by congruence. subst. inversion Hd as [|x l Hn _]. apply Hn. left. reflexivity.
Qed.

(* after RemoveDevice returned nobody dials for this name *)
Theorem nothing_live_after_remove co evs :
  live (rstep (mkRFlags true co) (rrun (mkRFlags true co) evs) RRemove) = [] /\
  reg (rstep (mkRFlags true co) (rrun (mkRFlags true co) evs) RRemove) = None.
Proof.
  pose proof (rinv_step co _ RRemove (rinv_reachable co evs)) as [Ha _ _ _ _].
  set (s' := rstep _ _ RRemove) in *.
  assert (reg s' = None) as Er.
  { unfold s'. cbn [rstep]. destruct (reg (rrun _ evs)) eqn:E; [reflexivity|exact E]. }
  split; [|exact Er]. destruct (live s') as [|k r] eqn:El; [reflexivity|].
  specialize (Ha k (or_introl eq_refl)). congruence.
Qed.

(* a managed device stays managed, with its supervisor running, until RemoveDevice:
   no other step — in particular not the late cleanup of an earlier instance — stops or
   unregisters it (repaired cleanup) *)
Theorem managed_until_removed evs e i :
  e <> RRemove ->
  let s := rrun flags_repaired evs in
  reg s = Some i ->
  reg (rstep flags_repaired s e) = Some i /\ In i (live (rstep flags_repaired s e)).
Proof.
  intros Hne s Hr. pose proof (rinv_reachable true evs) as Hs. fold flags_repaired in Hs. fold s in Hs.
  pose proof (rinv_step true s e Hs) as [_ Hb' _ _ _]. fold flags_repaired in Hb'.
  assert (reg (rstep flags_repaired s e) = Some i) as E; [|split; [exact E|apply Hb', E]].
  destruct Hs as [Ha Hb _ _ He].
  destruct e as [c|c|c| |k]; cbn [rstep flags_repaired create_under_lock cleanup_own_only].
  - destruct (pend_find c (pend s)); [exact Hr|]. rewrite Hr. reflexivity.
  - exact Hr.
  - destruct (pend_find c (pend s)); [|exact Hr]. rewrite Hr. cbn [orb reg]. reflexivity.
  - congruence.
  - destruct ((k <? next s) && negb (memb k (live s)) && negb (memb k (exited s))) eqn:G; [|exact Hr].
    apply andb_true_iff in G as [G _]. apply andb_true_iff in G as [_ G].
    apply negb_true_iff, memb_false in G. cbn [reg]. rewrite Hr.
    destruct (i =? k) eqn:E; [|reflexivity]. apply Nat.eqb_eq in E. subst k.
    exfalso. apply G, Hb, Hr.
Qed.

(* every caller is handed the instance that is registered at that moment *)
Theorem caller_gets_registered co evs e c i :
  let s := rrun (mkRFlags true co) evs in
  got (rstep (mkRFlags true co) s e) = (c, i) :: got s ->
  reg (rstep (mkRFlags true co) s e) = Some i.
Proof.
  intros s. destruct e as [d|d|d| |k]; cbn [rstep create_under_lock cleanup_own_only].
  - destruct (pend_find d (pend s)); [intros H; exfalso; exact (cons_neq _ _ H)|].
    destruct (reg s) eqn:Er; cbn [got reg].
    + intros H. injection H as _ <-. reflexivity.
    + intros H; exfalso; exact (cons_neq _ _ H).
  - intros H; exfalso; exact (cons_neq _ _ H).
  - destruct (pend_find d (pend s)) as [b|]; [|intros H; exfalso; exact (cons_neq _ _ H)].
    destruct (reg s) eqn:Er; cbn [orb got reg].
    + intros H. injection H as _ <-. reflexivity.
    + destruct b; cbn [got reg]; intros H; injection H as _ <-; reflexivity.
  - destruct (reg s); intros H; exfalso; exact (cons_neq _ _ H).
  - destruct ((k <? next s) && negb (memb k (live s)) && negb (memb k (exited s))); [|intros H; exfalso; exact (cons_neq _ _ H)].
    destruct co; [|destruct (reg s)]; cbn [got]; intros H; exfalso; exact (cons_neq _ _ H).
Qed.

(* ---------------------------------------------------------------- re-adding after a removal *)
(* the same two facts from any state of the invariant *)
Lemma managed_step s e i :
  RInv s -> e <> RRemove -> reg s = Some i -> reg (rstep flags_repaired s e) = Some i.
Proof.
  intros [Ha Hb _ _ He] Hne Hr.
  destruct e as [c|c|c| |k]; cbn [rstep flags_repaired create_under_lock cleanup_own_only].
  - destruct (pend_find c (pend s)); [exact Hr|]. rewrite Hr. reflexivity.
  - exact Hr.
  - destruct (pend_find c (pend s)); [|exact Hr]. rewrite Hr. cbn [orb reg]. reflexivity.
  - congruence.
  - destruct ((k <? next s) && negb (memb k (live s)) && negb (memb k (exited s))) eqn:G; [|exact Hr].
    apply andb_true_iff in G as [G _]. apply andb_true_iff in G as [_ G].
    apply negb_true_iff, memb_false in G. cbn [reg]. rewrite Hr.
    destruct (i =? k) eqn:E; [|reflexivity]. apply Nat.eqb_eq in E. subst k.
    exfalso. apply G, Hb, Hr.
Qed.

Lemma got_step fl s e :
  got (rstep fl s e) = got s \/
  exists c i, got (rstep fl s e) = (c, i) :: got s /\ reg (rstep fl s e) = Some i.
Proof.
  destruct fl as [cu co]. destruct e as [d|d|d| |k]; cbn [rstep create_under_lock cleanup_own_only].
  - destruct (pend_find d (pend s)); [left; reflexivity|].
    destruct (reg s) eqn:Er; cbn [got reg]; [right; eauto|left; reflexivity].
  - destruct cu; [left; reflexivity|]. destruct (pend_find d (pend s)) as [[x|]|]; left; reflexivity.
  - destruct (pend_find d (pend s)) as [b|]; [|left; reflexivity].
    destruct (reg s) eqn:Er.
    + destruct (cu || match b with Some _ => true | None => false end); cbn [got reg]; [right; eauto|left; reflexivity].
    + destruct b; cbn [got reg]; [right; eauto|]. destruct cu; cbn [got reg]; [right; eauto|left; reflexivity].
  - destruct (reg s); left; reflexivity.
  - destruct ((k <? next s) && negb (memb k (live s)) && negb (memb k (exited s))); [|left; reflexivity].
    destruct co; [|destruct (reg s)]; cbn [got]; left; reflexivity.
Qed.

(* whoever is answered after the last removal leaves the name managed by a running supervisor *)
Lemma readd_fold evs : forall s,
  RInv s -> Forall (fun e => e <> RRemove) evs ->
  let s' := fold_left (rstep flags_repaired) evs s in
  (reg s <> None \/ length (got s) < length (got s')) ->
  exists i, reg s' = Some i /\ In i (live s').
Proof.
  induction evs as [|e evs IH]; intros s I F s' H.
  - cbn [fold_left] in s'. subst s'. destruct H as [H|H]; [|lia].
    destruct (reg s) as [i|] eqn:Er; [|congruence]. exists i. split; [reflexivity|].
    apply (inv_reg_live _ I), Er.
  - inversion F as [|x l Fe Fl]; subst. cbn [fold_left] in s'.
    assert (I1 : RInv (rstep flags_repaired s e)) by (apply (rinv_step true), I).
    apply (IH _ I1 Fl). fold s'.
    destruct (reg s) as [i|] eqn:Er.
    + left. rewrite (managed_step s e i I Fe Er). discriminate.
    + destruct H as [H|H]; [congruence|].
      destruct (got_step flags_repaired s e) as [G|[c [i [G R]]]].
      * right. rewrite G. exact H.
      * left. rewrite R. discriminate.
Qed.
