From Coq Require Import NArith Bool.
From LLRP Require Import Driver.AddrUpdate.

Lemma update_device_stores : forall ep s a locked sbe,
  let s' := update_device (mkAF sbe false false) ep s a locked in
  next_dial s' = a /\ managed_a s' = true.
Proof.
  intros ep [m st b] a locked sbe. unfold update_device, update_addr, next_dial. cbn.
  destruct m; cbn; [|split; reflexivity].
  destruct (same_addr (mkAF sbe false false) ep st a); cbn; split; reflexivity.
Qed.

(* a change of spelling closes the connection (the next attempt is made at once); the tree's sameAddr *)
Lemma update_device_bounces : forall ep s a locked,
  managed_a s = true -> a <> stored s ->
  bounces (update_device aflags_tree ep s a locked) = S (bounces s).
Proof.
  intros ep [m st b] a locked M H. cbn in M, H. subst m.
  unfold update_device, update_addr, same_addr. cbn.
  destruct (N.eqb st a) eqn:E; [apply N.eqb_eq in E; congruence|reflexivity].
Qed.
