(* Driver/Registry.v — who runs a connection supervisor for ONE device name (C15).

   Driver.getDevice / removeDevice / the deferred cleanup of a supervisor goroutine
   (internal/driver/driver.go, device.go) as a transition system over the entry of
   Driver.activeDevices for one name (entries of different names are independent: every step
   below touches the entry of its own name only).  Instances of LLRPDevice are numbered in the
   order in which NewLLRPDevice is called; NewLLRPDevice is not a passive constructor, it starts
   the supervisor goroutine, so "instance i is live" = "a goroutine dials the reader for i".

   One event per critical section (devicesMu read- or write-locked) or per call made outside it:

     RCheck c    caller c (AddDevice / UpdateDevice / a command): RLock; look the name up; RUnlock
     RCreate c   caller c builds its device OUTSIDE the lock (only in the create-before-lock variant)
     REnter c    caller c: Lock; look the name up again; create if needed; insert; Unlock
     RRemove     RemoveDevice (or Driver.Stop): Lock; Stop the registered instance; delete; Unlock
     RExit i     the goroutine of the stopped instance i runs its deferred cleanup

   The event list is the schedule: callers overlap in any way.  Two flags name the variants of
   the code: [create_under_lock] (getDevice as found: true) and [cleanup_own_only] (the deferred
   cleanup as found removed whatever device was registered under the NAME: false; repaired:
   it removes the entry only if it still refers to the exiting instance). *)
From Coq Require Import List Bool Arith.
Import ListNotations.

Inductive rev :=
| RCheck (c : nat)
| RCreate (c : nat)
| REnter (c : nat)
| RRemove
| RExit (i : nat).

Record rflags := mkRFlags { create_under_lock : bool; cleanup_own_only : bool }.

Definition flags_found    := mkRFlags true false.
Definition flags_repaired := mkRFlags true true.

Record rstate := mkR {
  reg    : option nat;               (* the instance registered under the name *)
  next   : nat;                      (* instances 0 .. next-1 have been created *)
  live   : list nat;                 (* created and not stopped: their supervisor dials *)
  exited : list nat;                 (* instances whose goroutine has run its cleanup *)
  pend   : list (nat * option nat);  (* callers that saw "not managed": their own instance, if built *)
  got    : list (nat * nat)          (* (caller, instance returned to it), newest first *)
}.

Definition rinit : rstate := mkR None 0 [] [] [] [].

Definition drop (i : nat) (l : list nat) : list nat := filter (fun j => negb (j =? i)) l.

Fixpoint pend_find (c : nat) (p : list (nat * option nat)) : option (option nat) :=
  match p with
  | [] => None
  | (c', b) :: r => if c' =? c then Some b else pend_find c r
  end.

Definition pend_del (c : nat) (p : list (nat * option nat)) : list (nat * option nat) :=
  filter (fun e => negb (fst e =? c)) p.

Definition memb (i : nat) (l : list nat) : bool := existsb (fun j => j =? i) l.

Definition rstep (fl : rflags) (s : rstate) (e : rev) : rstate :=
  match e with
  | RCheck c =>
      match pend_find c (pend s) with
      | Some _ => s                                    (* c is between its two looks already *)
      | None =>
          match reg s with
          | Some i => mkR (reg s) (next s) (live s) (exited s) (pend s) ((c, i) :: got s)
          | None => mkR (reg s) (next s) (live s) (exited s) ((c, None) :: pend s) (got s)
          end
      end
  | RCreate c =>
      if create_under_lock fl then s
      else match pend_find c (pend s) with
           | Some None =>
               mkR (reg s) (S (next s)) (next s :: live s) (exited s)
                   ((c, Some (next s)) :: pend_del c (pend s)) (got s)
           | _ => s
           end
  | REnter c =>
      match pend_find c (pend s) with
      | None => s
      | Some b =>
          match reg s with
          | Some j =>                                  (* somebody else was first *)
              if create_under_lock fl || (match b with Some _ => true | None => false end)
              then mkR (reg s) (next s) (live s) (exited s) (pend_del c (pend s)) ((c, j) :: got s)
              else s
          | None =>
              match b with
              | Some i => mkR (Some i) (next s) (live s) (exited s) (pend_del c (pend s)) ((c, i) :: got s)
              | None =>
                  if create_under_lock fl
                  then mkR (Some (next s)) (S (next s)) (next s :: live s) (exited s)
                           (pend_del c (pend s)) ((c, next s) :: got s)
                  else s                               (* must build its device first *)
              end
          end
      end
  | RRemove =>
      match reg s with
      | Some i => mkR None (next s) (drop i (live s)) (exited s) (pend s) (got s)
      | None => s
      end
  | RExit i =>
      if (i <? next s) && negb (memb i (live s)) && negb (memb i (exited s)) then
        if cleanup_own_only fl then
          mkR (match reg s with Some j => if j =? i then None else Some j | None => None end)
              (next s) (live s) (i :: exited s) (pend s) (got s)
        else
          match reg s with
          | Some j => mkR None (next s) (drop j (live s)) (i :: exited s) (pend s) (got s)
          | None => mkR None (next s) (live s) (i :: exited s) (pend s) (got s)
          end
      else s
  end.

Definition rrun (fl : rflags) (evs : list rev) : rstate := fold_left (rstep fl) evs rinit.

(* what the harness observes *)
Definition managed (s : rstate) : bool := match reg s with Some _ => true | None => false end.
Definition supervisors (s : rstate) : nat := length (live s).
