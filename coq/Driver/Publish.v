(* C13 — every tag report and reader event reaches EdgeX exactly once.
   Model of the data path of internal/driver/device.go: the llrp.Client read loop of each device
   calls the device's handler for ROAccessReport / ReaderEventNotification synchronously
   (newROHandler / newReaderEventHandler, also from checkInitialMessage for the first message);
   the handler decodes the payload; on a decoding error it returns; otherwise it starts one
   goroutine ("publisher") that owns the decoded value, the device's name (never written after
   construction) and the resource name (a constant per handler), possibly runs onConnect first,
   and then performs one send on the driver's asynchronous-values channel.

   MODEL ONLY (no proofs here). Publishers run in any order: [PublisherRun k] lets the k-th
   pending publisher complete its channel send (the SDK takes the value). Commands, their
   replies, keep-alives and messages of other types do not touch readings. *)
From Coq Require Import NArith List Bool Arith.
Import ListNotations.

Definition dev := N.        (* a managed device (its name) *)
Definition content := N.    (* identity of a decoded message value *)

Inductive mtype := MROAccessReport | MReaderEventNotification | MKeepAlive | MReply | MOther.
Inductive resource := ResROAccessReport | ResReaderEventNotification.

(* which handler a device registers for which message type, and under which resource name that
   handler publishes (device.go:101-107, 377/380, 419) *)
Definition resource_of (t : mtype) : option resource :=
  match t with
  | MROAccessReport => Some ResROAccessReport
  | MReaderEventNotification => Some ResReaderEventNotification
  | _ => None
  end.

Definition reading := (dev * resource * content)%type.

Inductive event :=
| Recv (d : dev) (t : mtype) (dec : option content) (conn_success : bool)
    (* device d's client reads a message of type t; dec = what decoding its payload into t's
       struct gives (None: the decoder returns an error); conn_success: a ReaderEventNotification
       with a successful ConnectionAttemptEvent (its publisher runs onConnect before sending) *)
| PublisherRun (k : nat)     (* the k-th pending publisher performs its channel send *)
| Command (d : dev)          (* a command issued through the driver (request + reply) *)
| KeepAliveAck (d : dev).    (* the client acknowledges a keep-alive *)

Record state := mk {
  pending : list reading;     (* publishers started and not yet through their channel send *)
  published : list reading;   (* values the SDK took from the channel, in order *)
  onconnects : nat            (* how often onConnect was run by a publisher *)
}.

Definition init : state := mk [] [] 0.

Fixpoint remove_nth {A} (k : nat) (l : list A) : list A :=
  match l, k with
  | [], _ => []
  | _ :: l', 0 => l'
  | x :: l', S k' => x :: remove_nth k' l'
  end.

Definition step (s : state) (e : event) : state :=
  match e with
  | Recv d t dec cs =>
    match resource_of t, dec with
    | Some r, Some c => mk (pending s ++ [(d, r, c)]) (published s)
                           (if cs then S (onconnects s) else onconnects s)
    | _, _ => s              (* no handler for this type, or the handler returned on the error *)
    end
  | PublisherRun k =>
    match nth_error (pending s) k with
    | Some x => mk (remove_nth k (pending s)) (published s ++ [x]) (onconnects s)
    | None => s
    end
  | Command _ => s
  | KeepAliveAck _ => s
  end.

Definition run (s : state) (evs : list event) : state := fold_left step evs s.

(* what must reach EdgeX, as a function of the received messages alone *)
Fixpoint expected (evs : list event) : list reading :=
  match evs with
  | [] => []
  | Recv d t (Some c) _ :: evs' =>
    match resource_of t with
    | Some r => (d, r, c) :: expected evs'
    | None => expected evs'
    end
  | _ :: evs' => expected evs'
  end.

(* let every pending publisher run (one fair schedule) *)
Definition drain (s : state) : list event := repeat (PublisherRun 0) (length (pending s)).
