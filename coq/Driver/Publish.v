(* C13 — every tag report and reader event reaches EdgeX exactly once.
   Model of the data path of internal/driver/device.go: the llrp.Client read loop of each device
   calls the device's handler for ROAccessReport / ReaderEventNotification synchronously
   (newROHandler / newReaderEventHandler, also from checkInitialMessage for the first message);
   the handler reads the payload the header announced and decodes it; when the payload does not
   arrive completely (the connection ends first) or decoding fails it returns; otherwise it starts
   one goroutine ("publisher") that owns the decoded value, the device's name (never written after
   construction) and the resource name (a constant per handler) and performs one send on the
   driver's asynchronous-values channel. The publisher of a successful connection event runs
   onConnect first: it reads the device's cached operating-state flag (isUp) and, when that says
   DOWN, calls the SDK's UpdateDeviceOperatingState(Up) and waits for it to return (the flag
   becomes true only if the call succeeds); only publishers of connection events ever look at
   the flag. The supervisor marks a device DOWN after failed connection attempts.

   MODEL ONLY (no proofs here). Publishers run in any order: [OnConnectStart k] lets the k-th
   started connection-event publisher enter onConnect, [SdkReturn k ok] lets the SDK call of the
   k-th parked one return, [PublisherRun k] lets the k-th pending publisher complete its channel
   send (the SDK takes the value). Commands, their replies, keep-alives and messages of other
   types do not touch readings.

   The decoder is a parameter of the model: [dec t bs] is what decoding the payload bytes [bs]
   into the struct of message type [t] gives (None: error); [is_conn c] says whether a decoded
   ReaderEventNotification carries a successful ConnectionAttemptEvent. A message is received at
   a time [now] of the driver's clock (the handlers read it); nothing published depends on it. *)
From Coq Require Import NArith List Bool Arith.
Import ListNotations.

Definition dev := N.        (* a managed device (its name) *)
Definition content := N.    (* identity of a decoded message value *)

Inductive mtype := MROAccessReport | MReaderEventNotification | MKeepAlive | MReply | MOther.
Inductive resource := ResROAccessReport | ResReaderEventNotification.

(* which handler a device registers for which message type, and under which resource name that
   handler publishes (device.go:101-107, 377/380, 419) *)
Definition resource_of (t : mtype) : option resource :=
  match t with
  | MROAccessReport => Some ResROAccessReport
  | MReaderEventNotification => Some ResReaderEventNotification
  | _ => None
  end.

Definition reading := (dev * resource * content)%type.

Inductive event :=
| Recv (d : dev) (t : mtype) (bs : list N) (now : N)
    (* device d's client reads a complete message of type t with payload bytes bs, at time now *)
| RecvCut (d : dev) (t : mtype) (got : list N) (missing : nat) (now : N)
    (* the header of a message of type t announced [length got + S missing] payload bytes; the
       connection ended (end of stream, reset, deadline) after [got] *)
| OnConnectStart (k : nat)   (* the k-th started connection-event publisher enters onConnect *)
| SdkReturn (k : nat) (ok : bool)
    (* UpdateDeviceOperatingState(Up) called by the k-th parked publisher returns (ok: without error) *)
| PublisherRun (k : nat)     (* the k-th pending publisher performs its channel send *)
| MarkDown (d : dev) (sdk_ok : bool)
    (* the supervisor gives up after maxConnAttempts: isUp := false, and back to true when
       telling EdgeX fails (device.go:188-205) *)
| Command (d : dev)          (* a command issued through the driver (request + reply) *)
| KeepAliveAck (d : dev).    (* the client acknowledges a keep-alive *)

Record state := mk {
  starting : list reading;    (* connection-event publishers started, not yet in onConnect *)
  parked : list reading;      (* in onConnect, waiting for the SDK's operating-state call *)
  pending : list reading;     (* publishers that have only their channel send left *)
  published : list reading;   (* values the SDK took from the channel, in order *)
  isup : dev -> bool;         (* the devices' cached operating-state flags *)
  onconnects : nat;           (* how often onConnect was run by a publisher *)
  sdk_up_calls : nat          (* how often UpdateDeviceOperatingState(Up) was called *)
}.

Definition init_up (up0 : dev -> bool) : state := mk [] [] [] [] up0 0 0.
(* every device registered UP (Driver.AddDevice) *)
Definition init : state := init_up (fun _ => true).

(* everything started and not yet published *)
Definition inflight (s : state) : list reading := starting s ++ parked s ++ pending s.

Fixpoint remove_nth {A} (k : nat) (l : list A) : list A :=
  match l, k with
  | [], _ => []
  | _ :: l', 0 => l'
  | x :: l', S k' => x :: remove_nth k' l'
  end.

Definition set_up (f : dev -> bool) (d : dev) (b : bool) : dev -> bool :=
  fun d' => if N.eqb d' d then b else f d'.

Definition is_ren (r : resource) : bool :=
  match r with ResReaderEventNotification => true | _ => false end.

Section Model.
Variable dec : mtype -> list N -> option content.
Variable is_conn : content -> bool.

(* does the publisher of this reading run onConnect before sending? *)
Definition conn_reading (x : reading) : bool :=
  match x with (_, r, c) => is_ren r && is_conn c end.

Definition step (s : state) (e : event) : state :=
  match e with
  | Recv d t bs _ =>
    match resource_of t, dec t bs with
    | Some r, Some c =>
      if conn_reading (d, r, c)
      then mk (starting s ++ [(d, r, c)]) (parked s) (pending s) (published s)
              (isup s) (onconnects s) (sdk_up_calls s)
      else mk (starting s) (parked s) (pending s ++ [(d, r, c)]) (published s)
              (isup s) (onconnects s) (sdk_up_calls s)
    | _, _ => s              (* no handler for this type, or the handler returned on the error *)
    end
  | RecvCut _ _ _ _ _ => s   (* reading the payload fails: the handler returns *)
  | OnConnectStart k =>
    match nth_error (starting s) k with
    | Some x =>
      if isup s (fst (fst x))
      then mk (remove_nth k (starting s)) (parked s) (pending s ++ [x]) (published s)
              (isup s) (S (onconnects s)) (sdk_up_calls s)
      else mk (remove_nth k (starting s)) (parked s ++ [x]) (pending s) (published s)
              (isup s) (S (onconnects s)) (S (sdk_up_calls s))
    | None => s
    end
  | SdkReturn k ok =>
    match nth_error (parked s) k with
    | Some x =>
      mk (starting s) (remove_nth k (parked s)) (pending s ++ [x]) (published s)
         (if ok then set_up (isup s) (fst (fst x)) true else isup s)
         (onconnects s) (sdk_up_calls s)
    | None => s
    end
  | PublisherRun k =>
    match nth_error (pending s) k with
    | Some x => mk (starting s) (parked s) (remove_nth k (pending s)) (published s ++ [x])
                   (isup s) (onconnects s) (sdk_up_calls s)
    | None => s
    end
  | MarkDown d sdk_ok =>
    mk (starting s) (parked s) (pending s) (published s)
       (set_up (isup s) d (isup s d && negb sdk_ok)) (onconnects s) (sdk_up_calls s)
  | Command _ => s
  | KeepAliveAck _ => s
  end.

Definition run (s : state) (evs : list event) : state := fold_left step evs s.

(* what must reach EdgeX, as a function of the completely received messages alone *)
Fixpoint expected (evs : list event) : list reading :=
  match evs with
  | [] => []
  | Recv d t bs _ :: evs' =>
    match resource_of t, dec t bs with
    | Some r, Some c => (d, r, c) :: expected evs'
    | _, _ => expected evs'
    end
  | _ :: evs' => expected evs'
  end.

(* let every started publisher run to its end (one fair schedule); [ok]: how the SDK calls end *)
Definition drain (ok : bool) (s : state) : list event :=
  let n := length (inflight s) in
  repeat (OnConnectStart 0) n ++ repeat (SdkReturn 0 ok) n ++ repeat (PublisherRun 0) n.

(* the same events, received at other times *)
Definition retime (f : N -> N) (e : event) : event :=
  match e with
  | Recv d t bs now => Recv d t bs (f now)
  | RecvCut d t got m now => RecvCut d t got m (f now)
  | _ => e
  end.

End Model.
