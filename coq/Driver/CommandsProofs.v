(* C14 — proofs about the command model (Driver/Commands.v, Driver/KeepAlive.v) *)
From Coq Require Import NArith List Bool String Ascii Lia.
From LLRP Require Import Driver.KeepAlive Driver.Commands.
Import ListNotations.
Open Scope N_scope.

(* ------------------------------------------------------------------ keep-alive *)
Lemma enforce_keepalive_doc : forall c, enforce_keepalive c = doc_config c.
Proof.
  intros [[[trig iv]|] other]; unfold enforce_keepalive, doc_config; cbn [cfg_ka cfg_other].
  - destruct (N.eqb_spec iv keep_alive_interval_ms) as [Hi|Hi];
      destruct (N.eqb_spec trig ka_periodic) as [Ht|Ht]; cbn [negb orb]; try reflexivity.
    subst. reflexivity.
  - reflexivity.
Qed.

Lemma enforce_keepalive_spec : forall c,
  cfg_ka (enforce_keepalive c) = Some (ka_periodic, 30000) /\
  cfg_other (enforce_keepalive c) = cfg_other c.
Proof. intro c. rewrite enforce_keepalive_doc. split; reflexivity. Qed.

Lemma keepalive_is_half_read_timeout :
  keep_alive_interval_ms = 30000 /\ read_timeout_ms = 60000 /\ 2 * keep_alive_interval_ms = read_timeout_ms.
Proof. vm_compute. repeat split; reflexivity. Qed.

Lemma enforce_keepalive_idempotent : forall c, enforce_keepalive (enforce_keepalive c) = enforce_keepalive c.
Proof. intro c. rewrite !enforce_keepalive_doc. reflexivity. Qed.

(* ------------------------------------------------------------------ decimal numerals *)
Lemma digit_spec : forall c d, digit c = Some d <-> is_digit c /\ d = c - 48.
Proof.
  intros c d. unfold digit, is_digit.
  destruct (N.leb_spec 48 c); destruct (N.leb_spec c 57); cbn [andb]; split; intro H';
    try discriminate; try (injection H' as <-; split; [lia|reflexivity]);
    try (destruct H' as [[? ?] ->]; try reflexivity; lia).
Qed.

Lemma digit_none : forall c, digit c = None <-> ~ is_digit c.
Proof.
  intros c. unfold digit, is_digit.
  destruct (N.leb_spec 48 c); destruct (N.leb_spec c 57); cbn [andb]; split; intro H';
    try discriminate; try lia; try reflexivity; try (exfalso; apply H'; lia).
Qed.

Lemma parse_dec_spec : forall l acc v,
  parse_dec l acc = Some v <->
  Forall is_digit l /\ fold_left (fun a c => a * 10 + (c - 48)) l acc = v.
Proof.
  induction l as [|c t IH]; intros acc v; cbn [parse_dec fold_left].
  - split. + intro H; injection H as <-. split; [constructor|reflexivity].
    + intros [_ <-]. reflexivity.
  - destruct (digit c) as [d|] eqn:Hd.
    + apply digit_spec in Hd. destruct Hd as [Hc ->]. rewrite IH. split.
      * intros [Ht Hv]. split; [constructor; assumption|assumption].
      * intros [Ht Hv]. inversion Ht; subst. split; [assumption|reflexivity].
    + apply digit_none in Hd. split; [discriminate|].
      intros [Ht _]. inversion Ht; subst. contradiction.
Qed.

Lemma uint_attrib_spec : forall a v,
  uint_attrib a = Some v <-> decimal_attr a v /\ v < 2 ^ 64.
Proof.
  intros a v. unfold uint_attrib, decimal_attr. destruct a as [| |s].
  - split; [discriminate|]. intros [[s [H _]] _]. discriminate.
  - split; [discriminate|]. intros [[s [H _]] _]. discriminate.
  - unfold parse_uint64, digits_value.
    destruct (String.eqb_spec s "") as [->|Hne].
    + split; [discriminate|]. intros [[s [H [Hn _]]] _]. injection H as <-.
      exfalso. apply Hn. reflexivity.
    + destruct (bytes_of s) as [|c t] eqn:Hb.
      * split; [discriminate|]. intros [[s' [H [Hn _]]] _]. injection H as <-.
        rewrite Hb in Hn. contradiction.
      * destruct (parse_dec (c :: t) 0) as [w|] eqn:Hp.
        -- apply parse_dec_spec in Hp. destruct Hp as [Hd Hw].
           destruct (N.ltb_spec w (2 ^ 64)) as [Hlt|Hge].
           ++ split.
              ** intro H; injection H as <-. split; [|assumption].
                 exists s. rewrite Hb. repeat split; try assumption. discriminate.
              ** intros [[s' [H [_ [_ Hv]]]] _]. injection H as <-. rewrite Hb in Hv.
                 rewrite Hw in Hv. subst. reflexivity.
           ++ split; [discriminate|].
              intros [[s' [H [_ [_ Hv]]]] Hlt]. injection H as <-. rewrite Hb in Hv.
              rewrite Hw in Hv. subst. lia.
        -- split; [discriminate|].
           intros [[s' [H [_ [Hd Hv]]]] _]. injection H as <-. rewrite Hb in Hd, Hv.
           assert (parse_dec (c :: t) 0 = Some v) as Hc by (apply parse_dec_spec; split; assumption).
           rewrite Hc in Hp. discriminate.
Qed.

Lemma decimal_attr_fun : forall a v w, decimal_attr a v -> decimal_attr a w -> v = w.
Proof.
  intros a v w [s [Hs [_ [_ Hv]]]] [s' [Hs' [_ [_ Hw]]]]. subst a. injection Hs' as <-.
  rewrite <- Hv, <- Hw. reflexivity.
Qed.

(* ------------------------------------------------------------------ tables vs. the code's switches *)
Lemma ro_action_table : forall a, ro_action a = lookup a doc_rospec_actions.
Proof. intro a. reflexivity. Qed.
Lemma as_action_table : forall a, as_action a = lookup a doc_accessspec_actions.
Proof. intro a. reflexivity. Qed.

Lemma read_request_table : forall r,
  read_request r = match lookup (r_name r) doc_read_table with Some q => Ok q | None => Err EUnknownResource end.
Proof.
  intro r. unfold read_request, doc_read_table. cbn [lookup].
  destruct (String.eqb_spec (r_name r) "ReaderConfig") as [->|]; [reflexivity|].
  destruct (String.eqb_spec (r_name r) "ReaderCapabilities"); [reflexivity|].
  destruct (String.eqb_spec (r_name r) "ROSpec"); [reflexivity|].
  destruct (String.eqb_spec (r_name r) "AccessSpec"); reflexivity.
Qed.

Lemma not_write_name : forall n,
  ~ In n doc_write_names <->
  (n =? "ReaderConfig")%string = false /\ (n =? "ROSpec")%string = false /\
  (n =? "ROSpecID")%string = false /\ (n =? "AccessSpecID")%string = false /\
  (n =? "AccessSpec")%string = false.
Proof.
  intro n. unfold doc_write_names. cbn [In]. rewrite !String.eqb_neq. split.
  - intro H. repeat split; intro E; apply H; subst; tauto.
  - intros [H1 [H2 [H3 [H4 H5]]]] [E|[E|[E|[E|[E|[]]]]]]; subst; congruence.
Qed.

(* ------------------------------------------------------------------ reads *)
Lemma read_loop_ok : forall reqs acc qs,
  read_loop reqs acc = mkOut qs false <-> exists qs', qs = acc ++ qs' /\ Forall2 doc_read reqs qs'.
Proof.
  induction reqs as [|r t IH]; intros acc qs; cbn [read_loop].
  - split.
    + intro H. injection H as <-. exists []. rewrite app_nil_r. split; [reflexivity|constructor].
    + intros [qs' [-> H]]. inversion H; subst. rewrite app_nil_r. reflexivity.
  - rewrite read_request_table.
    destruct (lookup (r_name r) doc_read_table) as [q|] eqn:Hl.
    + destruct (r_type r) eqn:Ht;
        try (split; [discriminate|]; intros [qs' [_ H]]; inversion H as [|? ? ? ? Hr]; subst;
             inversion Hr; congruence).
      rewrite IH. split.
      * intros [qs' [-> H]]. exists (q :: qs'). rewrite <- app_assoc. split; [reflexivity|].
        constructor; [constructor; assumption|assumption].
      * intros [qs' [-> H]]. inversion H as [|? q' ? qs'' Hr Hrest]; subst.
        inversion Hr as [? ? Hl' _]; subst. rewrite Hl in Hl'. injection Hl' as <-.
        exists qs''. rewrite <- app_assoc. split; [reflexivity|assumption].
    + split; [discriminate|]. intros [qs' [_ H]]. inversion H as [|? ? ? ? Hr]; subst.
      inversion Hr; congruence.
Qed.

Lemma run_read_ok : forall reqs qs,
  run_read reqs = mkOut qs false <-> reqs <> [] /\ Forall2 doc_read reqs qs.
Proof.
  intros reqs qs. unfold run_read. destruct reqs as [|r t].
  - split; [discriminate|]. intros [H _]. contradiction.
  - rewrite read_loop_ok. split.
    + intros [qs' [-> H]]. split; [discriminate|assumption].
    + intros [_ H]. exists qs. split; [reflexivity|assumption].
Qed.

Lemma read_loop_unknown : forall pre acc qs r post,
  Forall2 doc_read pre qs -> unknown_read r ->
  read_loop (pre ++ r :: post) acc = mkOut (acc ++ qs) true.
Proof.
  induction pre as [|p t IH]; intros acc qs r post H Hu; inversion H; subst; cbn [app read_loop].
  - rewrite read_request_table. unfold unknown_read in Hu. rewrite Hu. rewrite app_nil_r. reflexivity.
  - match goal with Hr : doc_read p _ |- _ => inversion Hr as [? ? Hl Ht]; subst end.
    rewrite read_request_table, Hl, Ht. rewrite IH with (qs := l') by assumption.
    rewrite <- app_assoc. reflexivity.
Qed.

Lemma run_read_unknown : forall pre qs r post,
  Forall2 doc_read pre qs -> unknown_read r ->
  run_read (pre ++ r :: post) = mkOut qs true.
Proof.
  intros pre qs r post H Hu. unfold run_read.
  destruct (pre ++ r :: post) eqn:E; [destruct pre; discriminate|].
  rewrite <- E. rewrite read_loop_unknown with (qs := qs) by assumption. reflexivity.
Qed.

(* ------------------------------------------------------------------ writes *)
Lemma len_eqb : forall (rs : list req) (ps : list param),
  (N.of_nat (List.length rs) =? N.of_nat (List.length ps)) = true <-> List.length rs = List.length ps.
Proof. intros. rewrite N.eqb_eq. split; [apply Nat2N.inj|congruence]. Qed.

Lemma id_action_sound : forall tbl table params q,
  (forall a, tbl a = lookup a table) ->
  id_action tbl params = Ok q ->
  exists p0 p1 id a mk, params = [p0; p1] /\ p_name p1 = "Action"%string /\
    p_type p0 = TUint32 /\ p_val p0 = VU32 id /\ p_type p1 = TString /\ p_val p1 = VStr a /\
    lookup a table = Some mk /\ q = mk id.
Proof.
  intros tbl table params q Ht H. unfold id_action in H.
  destruct params as [|p0 [|p1 [|? ?]]]; try discriminate.
  destruct (String.eqb_spec (p_name p1) "Action") as [Hn|]; cbn [negb] in H; [|discriminate].
  destruct (u32_value p0) as [id|] eqn:Hu; [|discriminate].
  destruct (string_value p1) as [a|] eqn:Hs; [|discriminate].
  rewrite Ht in H. destruct (lookup a table) as [mk|] eqn:Hl; [|discriminate].
  injection H as <-.
  unfold u32_value in Hu. destruct (p_type p0) eqn:T0; try discriminate.
  destruct (p_val p0) eqn:V0; try discriminate. injection Hu as ->.
  unfold string_value in Hs. destruct (p_type p1) eqn:T1; try discriminate.
  destruct (p_val p1) eqn:V1; try discriminate. injection Hs as ->.
  exists p0, p1, id, a, mk. repeat split; assumption.
Qed.

Lemma id_action_complete : forall tbl table p0 p1 id a mk,
  (forall a, tbl a = lookup a table) ->
  p_name p1 = "Action"%string -> p_type p0 = TUint32 -> p_val p0 = VU32 id ->
  p_type p1 = TString -> p_val p1 = VStr a -> lookup a table = Some mk ->
  id_action tbl [p0; p1] = Ok (mk id).
Proof.
  intros tbl table p0 p1 id a mk Ht Hn T0 V0 T1 V1 Hl. unfold id_action.
  rewrite Hn. cbn [String.eqb Ascii.eqb Bool.eqb negb].
  unfold u32_value, string_value. rewrite T0, V0, T1, V1, Ht, Hl. reflexivity.
Qed.

Lemma custom_sound : forall r p q,
  custom_message r p = Ok q ->
  exists vendor subtype s data,
    decimal_attr (r_vendor r) vendor /\ vendor <= 2 ^ 32 - 1 /\
    decimal_attr (r_subtype r) subtype /\ subtype <= 255 /\
    p_type p = TString /\ p_val p = VStr s /\ b64_decode s = Some data /\
    q = CustomMessage vendor subtype data.
Proof.
  intros r p q H. unfold custom_message in H.
  destruct (uint_attrib (r_vendor r)) as [v|] eqn:Hv; [|discriminate].
  destruct (N.ltb_spec (2 ^ 32 - 1) v); [discriminate|].
  destruct (uint_attrib (r_subtype r)) as [st|] eqn:Hs; [|discriminate].
  destruct (N.ltb_spec 255 st); [discriminate|].
  destruct (string_value p) as [s|] eqn:Hp; [|discriminate].
  destruct (b64_decode s) as [data|] eqn:Hb; [|discriminate].
  injection H as <-.
  apply uint_attrib_spec in Hv. apply uint_attrib_spec in Hs.
  unfold string_value in Hp. destruct (p_type p) eqn:T; try discriminate.
  destruct (p_val p) eqn:V; try discriminate. injection Hp as ->.
  exists v, st, s, data. repeat split; tauto.
Qed.

Lemma custom_complete : forall r p vendor subtype s data,
  decimal_attr (r_vendor r) vendor -> vendor <= 2 ^ 32 - 1 ->
  decimal_attr (r_subtype r) subtype -> subtype <= 255 ->
  p_type p = TString -> p_val p = VStr s -> b64_decode s = Some data ->
  custom_message r p = Ok (CustomMessage vendor subtype data).
Proof.
  intros r p vendor subtype s data Hv Hvr Hs Hsr T V Hb. unfold custom_message.
  assert (uint_attrib (r_vendor r) = Some vendor) as -> by (apply uint_attrib_spec; split; [assumption|lia]).
  destruct (N.ltb_spec (2 ^ 32 - 1) vendor); [lia|].
  assert (uint_attrib (r_subtype r) = Some subtype) as -> by (apply uint_attrib_spec; split; [assumption|lia]).
  destruct (N.ltb_spec 255 subtype); [lia|].
  unfold string_value. rewrite T, V, Hb. reflexivity.
Qed.

Lemma write_sound : forall reqs params q,
  write_request true reqs params = Ok q -> doc_write reqs params (enforce_request q).
Proof.
  intros reqs params q H. unfold write_request in H.
  destruct reqs as [|r0 rs]; [discriminate|].
  destruct (N.of_nat (List.length (r0 :: rs)) =? N.of_nat (List.length params)) eqn:Hlen;
    cbn [negb] in H; [|discriminate].
  apply len_eqb in Hlen.
  destruct params as [|p0 ps]; [discriminate|].
  cbn [List.length] in Hlen. injection Hlen as Hlen.
  destruct (String.eqb_spec (r_name r0) "ReaderConfig") as [E1|N1].
  { destruct (decode_cfg (p_val p0)) as [c|] eqn:Hd; [|discriminate]. injection H as <-.
    cbn [enforce_request]. rewrite enforce_keepalive_doc. apply DW_config; assumption. }
  destruct (String.eqb_spec (r_name r0) "ROSpec") as [E2|N2].
  { destruct (decode_rospec (p_val p0)) as [d|] eqn:Hd; [|discriminate]. injection H as <-.
    cbn [enforce_request]. apply DW_rospec; assumption. }
  destruct (String.eqb_spec (r_name r0) "ROSpecID") as [E3|N3].
  { apply id_action_sound with (table := doc_rospec_actions) in H; [|exact ro_action_table].
    destruct H as [p0' [p1 [id [a [mk [Hp [Hn [T0 [V0 [T1 [V1 [Hl ->]]]]]]]]]]]].
    injection Hp as <- ->. destruct rs as [|r1 [|? ?]]; try discriminate.
    assert (enforce_request (mk id) = mk id) as ->.
    { unfold doc_rospec_actions in Hl. cbn [lookup] in Hl.
      repeat match type of Hl with (if ?b then _ else _) = _ => destruct b end;
        try discriminate; injection Hl as <-; reflexivity. }
    eapply DW_rospec_id; eassumption. }
  destruct (String.eqb_spec (r_name r0) "AccessSpecID") as [E4|N4].
  { apply id_action_sound with (table := doc_accessspec_actions) in H; [|exact as_action_table].
    destruct H as [p0' [p1 [id [a [mk [Hp [Hn [T0 [V0 [T1 [V1 [Hl ->]]]]]]]]]]]].
    injection Hp as <- ->. destruct rs as [|r1 [|? ?]]; try discriminate.
    assert (enforce_request (mk id) = mk id) as ->.
    { unfold doc_accessspec_actions in Hl. cbn [lookup] in Hl.
      repeat match type of Hl with (if ?b then _ else _) = _ => destruct b end;
        try discriminate; injection Hl as <-; reflexivity. }
    eapply DW_accessspec_id; eassumption. }
  cbn [andb] in H.
  destruct (String.eqb_spec (r_name r0) "AccessSpec") as [E5|N5].
  { destruct (decode_accessspec (p_val p0)) as [d|] eqn:Hd; [|discriminate]. injection H as <-.
    cbn [enforce_request]. apply DW_accessspec; assumption. }
  apply custom_sound in H.
  destruct H as [vendor [subtype [s [data [Hv [Hvr [Hs [Hsr [T [V [Hb ->]]]]]]]]]]].
  cbn [enforce_request]. eapply DW_custom; try eassumption.
  apply not_write_name. rewrite !String.eqb_neq. tauto.
Qed.

Lemma write_complete : forall reqs params q,
  doc_write reqs params q -> cmd_to_request true (CWrite reqs params) = Ok q.
Proof.
  intros reqs params q H. unfold cmd_to_request, write_request.
  inversion H; subst.
  - assert ((N.of_nat (List.length (r :: rs)) =? N.of_nat (List.length (p :: ps))) = true) as ->
      by (apply len_eqb; cbn [List.length]; congruence).
    cbn [negb]. rewrite H1. cbn [String.eqb Ascii.eqb Bool.eqb]. rewrite H2.
    cbn [enforce_request]. rewrite enforce_keepalive_doc. reflexivity.
  - assert ((N.of_nat (List.length (r :: rs)) =? N.of_nat (List.length (p :: ps))) = true) as ->
      by (apply len_eqb; cbn [List.length]; congruence).
    cbn [negb]. rewrite H1. cbn [String.eqb Ascii.eqb Bool.eqb]. rewrite H2. reflexivity.
  - assert ((N.of_nat (List.length (r :: rs)) =? N.of_nat (List.length (p :: ps))) = true) as ->
      by (apply len_eqb; cbn [List.length]; congruence).
    cbn [negb]. rewrite H1. cbn [String.eqb Ascii.eqb Bool.eqb andb]. rewrite H2. reflexivity.
  - cbn [List.length N.of_nat N.eqb Pos.eqb Pos.of_succ_nat Pos.succ negb]. rewrite H0.
    cbn [String.eqb Ascii.eqb Bool.eqb].
    rewrite id_action_complete with (table := doc_rospec_actions) (id := id) (a := a) (mk := mk);
      try assumption; try exact ro_action_table.
    assert (enforce_request (mk id) = mk id) as ->; [|reflexivity].
    unfold doc_rospec_actions in H6. cbn [lookup] in H6.
    repeat match type of H6 with (if ?b then _ else _) = _ => destruct b end;
      try discriminate; injection H6 as <-; reflexivity.
  - cbn [List.length N.of_nat N.eqb Pos.eqb Pos.of_succ_nat Pos.succ negb]. rewrite H0.
    cbn [String.eqb Ascii.eqb Bool.eqb].
    rewrite id_action_complete with (table := doc_accessspec_actions) (id := id) (a := a) (mk := mk);
      try assumption; try exact as_action_table.
    assert (enforce_request (mk id) = mk id) as ->; [|reflexivity].
    unfold doc_accessspec_actions in H6. cbn [lookup] in H6.
    repeat match type of H6 with (if ?b then _ else _) = _ => destruct b end;
      try discriminate; injection H6 as <-; reflexivity.
  - assert ((N.of_nat (List.length (r :: rs)) =? N.of_nat (List.length (p :: ps))) = true) as ->
      by (apply len_eqb; cbn [List.length]; congruence).
    cbn [negb]. apply not_write_name in H1. destruct H1 as [E1 [E2 [E3 [E4 E5]]]].
    rewrite E1, E2, E3, E4, E5. cbn [andb].
    rewrite custom_complete with (vendor := vendor) (subtype := subtype) (s := s) (data := data);
      try assumption. reflexivity.
Qed.

(* the full correspondence between the model with the AccessSpec case and the documentation *)
Lemma run_ok_iff_documented : forall c qs, run true c = mkOut qs false <-> doc_maps c qs.
Proof.
  intros [reqs|reqs params] qs; cbn [run].
  - rewrite run_read_ok. split.
    + intros [Hn H]. constructor; assumption.
    + intro H. inversion H; subst. split; assumption.
  - cbn [cmd_to_request]. destruct (write_request true reqs params) as [q|e] eqn:Hw.
    + apply write_sound in Hw. split.
      * intro H. injection H as <-. constructor. assumption.
      * intro H. inversion H as [|? ? q' Hd]; subst.
        apply write_complete in Hd. apply write_complete in Hw. rewrite Hd in Hw.
        injection Hw as ->. reflexivity.
    + split; [discriminate|]. intro H. inversion H as [|? ? q' Hd]; subst.
      apply write_complete in Hd. cbn [cmd_to_request] in Hd. rewrite Hw in Hd. discriminate.
Qed.

Lemma write_cmd_sound : forall reqs params q,
  cmd_to_request true (CWrite reqs params) = Ok q -> doc_map (CWrite reqs params) q.
Proof.
  intros reqs params q H. cbn [cmd_to_request] in H.
  destruct (write_request true reqs params) as [q'|] eqn:Hw; [|discriminate].
  injection H as <-. constructor. apply write_sound. assumption.
Qed.

Lemma doc_map_accepted : forall c q, doc_map c q -> run true c = mkOut [q] false.
Proof. intros c q H. apply run_ok_iff_documented. exact H. Qed.

(* anything the documentation assigns no request list to is rejected and nothing is sent
   (writes); reads stop at the first undocumented name, see run_read_unknown *)
Lemma write_undocumented_rejected : forall b reqs params,
  (forall q, cmd_to_request b (CWrite reqs params) <> Ok q) ->
  run b (CWrite reqs params) = mkOut [] true.
Proof.
  intros b reqs params H. cbn [run].
  destruct (cmd_to_request b (CWrite reqs params)) as [q|e] eqn:E; [|reflexivity].
  exfalso. apply (H q). reflexivity.
Qed.

Lemma run_write_shape : forall b reqs params,
  (exists q, run b (CWrite reqs params) = mkOut [q] false) \/
  run b (CWrite reqs params) = mkOut [] true.
Proof.
  intros b reqs params. cbn [run].
  destruct (cmd_to_request b (CWrite reqs params)) as [q|e]; [left; exists q|right]; reflexivity.
Qed.

Lemma lookup_none_tbl : forall a, lookup a doc_rospec_actions = None -> ro_action a = None.
Proof. intros a H. rewrite ro_action_table. exact H. Qed.

Lemma malformed_rejected : forall c, malformed c -> run true c = mkOut [] true.
Proof.
  intros c H.
  assert (forall reqs params, (forall q, ~ doc_write reqs params q) ->
                              run true (CWrite reqs params) = mkOut [] true) as Hnd.
  { intros reqs params Hn. destruct (run_write_shape true reqs params) as [[q Hq]|Hq]; [|exact Hq].
    apply run_ok_iff_documented in Hq. inversion Hq; subst. exfalso. eapply Hn. eassumption. }
  inversion H; subst; try reflexivity; apply Hnd; intros q Hd; inversion Hd; subst;
    cbn [List.length] in *;
    try congruence;
    try (match goal with
         | Hi : ~ In ?n doc_write_names, He : ?n = _ |- _ => apply Hi; rewrite He; cbn; tauto
         | Hi : ~ In ?n doc_write_names, He : ?n = _ \/ ?n = _ |- _ =>
             apply Hi; destruct He as [He|He]; rewrite He; cbn; tauto
         end);
    try (match goal with He : _ = _ \/ _ = _ |- _ => destruct He; congruence end).
  all: try (match goal with
            | Hu : u32_value ?p = None, T : p_type ?p = TUint32, V : p_val ?p = VU32 _ |- _ =>
                unfold u32_value in Hu; rewrite T, V in Hu; discriminate
            | Hu : string_value ?p = None, T : p_type ?p = TString, V : p_val ?p = VStr _ |- _ =>
                unfold string_value in Hu; rewrite T, V in Hu; discriminate
            | Hu : string_value ?p = Some _, T : p_type ?p = TString, V : p_val ?p = VStr _ |- _ =>
                unfold string_value in Hu; rewrite T, V in Hu; injection Hu as <-; congruence
            end).
  all: try (match goal with
            | Hall : forall v, decimal_attr ?a v -> _ < v, Hd : decimal_attr ?a ?w |- _ =>
                specialize (Hall w Hd); lia
            end).
Qed.

(* ------------------------------------------------------------------ every SetReaderConfig sent *)
Lemma read_loop_no_set : forall reqs acc k,
  In (SetReaderConfig k) (sent (read_loop reqs acc)) -> In (SetReaderConfig k) acc.
Proof.
  induction reqs as [|r t IH]; intros acc k H; cbn [read_loop] in H.
  - exact H.
  - unfold read_request in H.
    repeat match type of H with context [if ?b then _ else _] => destruct b end;
      try exact H;
      destruct (r_type r); cbn [sent] in H; try apply IH in H;
      apply in_app_or in H; destruct H as [H|[H|[]]]; try assumption; discriminate.
Qed.

Lemma every_set_reader_config_sent : forall b c k,
  In (SetReaderConfig k) (sent (run b c)) ->
  cfg_ka k = Some (ka_periodic, 30000).
Proof.
  intros b [reqs|reqs params] k H; cbn [run] in H.
  - unfold run_read in H. destruct reqs; [destruct H|].
    apply read_loop_no_set in H. destruct H.
  - cbn [cmd_to_request] in H.
    destruct (write_request b reqs params) as [q|e]; cbn [sent In] in H; [|destruct H].
    destruct H as [H|[]]. destruct q; cbn [enforce_request] in H; try discriminate.
    injection H as <-. apply enforce_keepalive_spec.
Qed.

Lemma set_reader_config_sent_exact : forall b r rs p ps c,
  List.length rs = List.length ps -> r_name r = "ReaderConfig"%string ->
  decode_cfg (p_val p) = Some c ->
  run b (CWrite (r :: rs) (p :: ps)) = mkOut [SetReaderConfig (mkCfg (Some (ka_periodic, 30000)) (cfg_other c))] false.
Proof.
  intros b r rs p ps c Hl Hn Hd. cbn [run cmd_to_request]. unfold write_request.
  assert ((N.of_nat (List.length (r :: rs)) =? N.of_nat (List.length (p :: ps))) = true) as ->
    by (apply len_eqb; cbn [List.length]; congruence).
  cbn [negb]. rewrite Hn. cbn [String.eqb Ascii.eqb Bool.eqb]. rewrite Hd.
  cbn [enforce_request]. rewrite enforce_keepalive_doc. reflexivity.
Qed.

(* ------------------------------------------------------------------ the code as shipped *)
Lemma shipped_agrees_off_accessspec : forall reqs params,
  (forall r rs, reqs = r :: rs -> r_name r <> "AccessSpec"%string) ->
  write_request false reqs params = write_request true reqs params.
Proof.
  intros reqs params H. unfold write_request. destruct reqs as [|r0 rs]; [reflexivity|].
  specialize (H r0 rs eq_refl). apply String.eqb_neq in H. rewrite H. reflexivity.
Qed.

Definition as_req : req := mkReq "AccessSpec" TObject AMissing AMissing.
Definition as_param : param := mkParam "AccessSpec" TObject (VDoc None None (Some 7)).
Definition as_req_custom : req := mkReq "AccessSpec" TObject (AStr "25882") (AStr "21").
Definition as_param_custom : param := mkParam "AccessSpec" TString (VStr "AAAAAA==").

(* documented: write AccessSpec -> AddAccessSpec; as shipped: rejected, nothing sent *)
Lemma shipped_refuted_rejects :
  doc_map (CWrite [as_req] [as_param]) (AddAccessSpec 7) /\
  run false (CWrite [as_req] [as_param]) = mkOut [] true /\
  run true (CWrite [as_req] [as_param]) = mkOut [AddAccessSpec 7] false.
Proof.
  split; [|split; vm_compute; reflexivity].
  constructor. apply DW_accessspec; reflexivity.
Qed.

(* a string is not an AccessSpec document (malformed); as shipped a CustomMessage goes out *)
Lemma shipped_refuted_sends :
  malformed (CWrite [as_req_custom] [as_param_custom]) /\
  run false (CWrite [as_req_custom] [as_param_custom]) = mkOut [CustomMessage 25882 21 [0; 0; 0; 0]] false /\
  run true (CWrite [as_req_custom] [as_param_custom]) = mkOut [] true.
Proof.
  split; [|split; vm_compute; reflexivity].
  apply M_json_accessspec; reflexivity.
Qed.

(* ------------------------------------------------------------------ replies: one command, one request *)
Lemma try_send_ok : forall s, try_send max_send_attempts (AOk :: s) = (1%nat, true).
Proof. reflexivity. Qed.
Lemma try_send_nil : try_send max_send_attempts [] = (1%nat, true).
Proof. reflexivity. Qed.
Lemma try_send_fault : forall s, try_send max_send_attempts (AFault :: s) = (1%nat, false).
Proof. reflexivity. Qed.

(* TrySend sends once unless the client was closed under the request, and never more than 3 times *)
Lemma try_send_once_unless_closed : forall script,
  (forall t, script <> AClosed :: t) -> fst (try_send max_send_attempts script) = 1%nat.
Proof.
  intros [|[| |] t] H; try reflexivity. exfalso. apply (H t). reflexivity.
Qed.

Lemma try_send_bounded : forall fuel script, (fst (try_send fuel script) <= fuel)%nat.
Proof.
  induction fuel as [|f IH]; intro script; cbn [try_send fst]; [lia|].
  destruct script as [|[| |] t]; cbn [fst]; try lia.
  specialize (IH t). destruct (try_send f t) as [n ok]. cbn [fst] in *. lia.
Qed.

Lemma read_loop_reply_ok : forall script reqs acc,
  (script = [] \/ exists s, script = AOk :: s) ->
  read_loop_reply script reqs acc = read_loop reqs acc.
Proof.
  intros script reqs acc Hs.
  assert (try_send max_send_attempts script = (1%nat, true)) as Ht
    by (destruct Hs as [->|[s ->]]; reflexivity).
  revert acc. induction reqs as [|r t IH]; intro acc; cbn [read_loop_reply read_loop]; [reflexivity|].
  destruct (read_request r) as [q|e]; [|reflexivity].
  rewrite Ht. cbn [repeat]. destruct (r_type r); try reflexivity. apply IH.
Qed.

Lemma run_reply_ok : forall b script c,
  (script = [] \/ exists s, script = AOk :: s) -> run_reply b script c = run b c.
Proof.
  intros b script c Hs.
  assert (try_send max_send_attempts script = (1%nat, true)) as Ht
    by (destruct Hs as [->|[s ->]]; reflexivity).
  destruct c as [reqs|reqs params]; cbn [run_reply run].
  - unfold run_read. destruct reqs as [|r t]; [reflexivity|]. apply read_loop_reply_ok. exact Hs.
  - destruct (cmd_to_request b (CWrite reqs params)); [|reflexivity]. rewrite Ht. reflexivity.
Qed.

Lemma read_loop_prefix : forall reqs acc, exists l, sent (read_loop reqs acc) = acc ++ l.
Proof.
  induction reqs as [|r t IH]; intro acc; cbn [read_loop].
  - exists []. rewrite app_nil_r. reflexivity.
  - destruct (read_request r) as [q|e]; [|exists []; rewrite app_nil_r; reflexivity].
    destruct (r_type r); try (exists [q]; reflexivity).
    destruct (IH (acc ++ [q])) as [l Hl]. exists (q :: l). rewrite Hl, <- app_assoc. reflexivity.
Qed.

(* A fault reply (connection up): what is on the wire is the FIRST request of the fault-free run,
   exactly once, and the command returns an error if it sent anything *)
Lemma fault_reply_one_request : forall b s c,
  sent (run_reply b (AFault :: s) c) = firstn 1 (sent (run b c)) /\
  failed (run_reply b (AFault :: s) c) = true.
Proof.
  intros b s c. destruct c as [reqs|reqs params]; cbn [run_reply run].
  - unfold run_read. destruct reqs as [|r t]; [split; reflexivity|].
    cbn [read_loop_reply read_loop]. destruct (read_request r) as [q|e]; [|split; reflexivity].
    rewrite try_send_fault. cbn [repeat app sent failed].
    destruct (r_type r); try (split; reflexivity).
    destruct (read_loop_prefix t [q]) as [l Hl]. rewrite Hl. split; reflexivity.
  - destruct (cmd_to_request b (CWrite reqs params)) as [q|e]; [|split; reflexivity].
    rewrite try_send_fault. split; reflexivity.
Qed.

(* whatever the replies: a write command never puts two different requests on the wire and at most
   maxSendAttempts copies, and exactly one copy unless the client was closed under it *)
Lemma write_reply_shape : forall b script reqs params,
  exists q n, (n <= max_send_attempts)%nat /\
    (sent (run_reply b script (CWrite reqs params)) = repeat q n) /\
    ((forall t, script <> AClosed :: t) -> (n <= 1)%nat).
Proof.
  intros b script reqs params. cbn [run_reply].
  destruct (cmd_to_request b (CWrite reqs params)) as [q|e].
  - pose proof (try_send_bounded max_send_attempts script) as Hb.
    pose proof (try_send_once_unless_closed script) as H1.
    destruct (try_send max_send_attempts script) as [n ok]. cbn [fst] in *.
    exists q, n. repeat split; try assumption. intro H. rewrite (H1 H). lia.
  - exists GetROSpecs, O. repeat split; cbn; lia.
Qed.

(* ------------------------------------------------------------------ commands in progress at the same time *)
From Coq Require Import PeanoNat.
Lemma set_lane_same : forall ls i l, set_lane ls i l i = l.
Proof. intros. unfold set_lane. rewrite Nat.eqb_refl. reflexivity. Qed.

Lemma set_lane_other : forall ls i l k, k <> i -> set_lane ls i l k = ls k.
Proof. intros ls i l k H. unfold set_lane. destruct (Nat.eqb_spec k i); [contradiction|reflexivity]. Qed.

Lemma proj_wire_snoc : forall i w k e,
  proj_wire i (w ++ [(k, e)]) = proj_wire i w ++ (if Nat.eqb k i then [e] else []).
Proof.
  intros. unfold proj_wire. rewrite filter_app, map_app. cbn [filter fst].
  destruct (Nat.eqb k i); reflexivity.
Qed.

(* what a caller has still to put on the wire / to report, given where it stands *)
Definition outstanding (b : bool) (l : lane) : list (N * request) :=
  match l_todo l with
  | [] => []
  | j :: t =>
      match l_phase l with
      | Sending rest _ => map (pair (j_dev j)) rest
      | _ => job_reqs b j
      end ++ all_reqs b t
  end.
Definition out_results (b : bool) (l : lane) : list bool :=
  match l_todo l with
  | [] => []
  | j :: t =>
      match l_phase l with
      | Sending _ f => f
      | _ => failed (run b (j_cmd j))
      end :: all_results b t
  end.

Definition lane_inv (b : bool) (orig : list job) (sent_so_far : list (N * request)) (l : lane) : Prop :=
  l_phase l <> Encoded /\
  sent_so_far ++ outstanding b l = all_reqs b orig /\
  l_results l ++ out_results b l = all_results b orig.

Definition conc_inv (b : bool) (lanes : list (list job)) (st : cstate) : Prop :=
  forall i, lane_inv b (nth i lanes []) (proj_wire i (c_wire st)) (c_lanes st i).

Lemma conc_inv_init : forall b lanes, conc_inv b lanes (conc_init lanes).
Proof.
  intros b lanes i. unfold conc_init, lane_inv, outstanding, out_results, proj_wire.
  cbn [c_lanes c_wire l_todo l_phase l_results filter map app].
  split; [discriminate|].
  destruct (nth i lanes []) as [|j t]; split; reflexivity.
Qed.

Lemma conc_inv_step : forall b lanes k st,
  conc_inv b lanes st -> conc_inv b lanes (conc_step Private b k st).
Proof.
  intros b lanes k st Hinv i.
  pose proof (Hinv i) as Hi. pose proof (Hinv k) as Hk.
  unfold conc_step.
  destruct (l_todo (c_lanes st k)) as [|j t] eqn:Et; [exact Hi|].
  destruct Hk as (Hne & Hq & Hr).
  unfold outstanding in Hq. unfold out_results in Hr. rewrite Et in Hq, Hr.
  destruct (l_phase (c_lanes st k)) as [| |rest f] eqn:Ep; [|contradiction|].
  - (* Idle -> translated *)
    cbn [c_lanes c_wire].
    destruct (Nat.eq_dec i k) as [->|Hik].
    + rewrite set_lane_same. unfold lane_inv, outstanding, out_results, translated.
      cbn [l_todo l_phase l_results]. split; [discriminate|]. split; assumption.
    + rewrite set_lane_other by assumption. exact Hi.
  - destruct rest as [|q qs].
    + (* the command returns *)
      cbn [c_lanes c_wire].
      destruct (Nat.eq_dec i k) as [->|Hik].
      * rewrite set_lane_same. unfold lane_inv, outstanding, out_results.
        cbn [l_todo l_phase l_results]. split; [discriminate|].
        cbn [map app] in Hq. split.
        -- rewrite <- Hq. destruct t; reflexivity.
        -- rewrite <- Hr, <- app_assoc. cbn [app]. destruct t; reflexivity.
      * rewrite set_lane_other by assumption. exact Hi.
    + (* one request goes out *)
      cbn [c_lanes c_wire]. rewrite proj_wire_snoc.
      destruct (Nat.eq_dec i k) as [->|Hik].
      * rewrite set_lane_same, Nat.eqb_refl. unfold lane_inv, outstanding, out_results.
        cbn [l_todo l_phase l_results]. split; [discriminate|]. split.
        -- rewrite <- Hq, <- app_assoc. reflexivity.
        -- exact Hr.
      * rewrite set_lane_other by assumption.
        destruct (Nat.eqb_spec k i) as [E|_]; [symmetry in E; contradiction|].
        rewrite app_nil_r. exact Hi.
Qed.

Lemma conc_inv_exec : forall b lanes sched st,
  conc_inv b lanes st -> conc_inv b lanes (conc_exec Private b sched st).
Proof.
  intros b lanes sched. induction sched as [|k s IH]; intros st H; [exact H|].
  cbn [conc_exec]. apply IH, conc_inv_step, H.
Qed.

(* Whatever else is in progress and however the steps interleave: what caller i has put on the
   wire so far and the verdicts it has got are an initial part of what its commands give ONE AT
   A TIME — each request is [run] of that command alone (device from the command, payload from
   its own parameters). *)
Lemma conc_request_function_of_command_alone : forall b lanes sched i,
  let st := conc_exec Private b sched (conc_init lanes) in
  exists more_q more_r,
    all_reqs b (nth i lanes []) = proj_wire i (c_wire st) ++ more_q /\
    all_results b (nth i lanes []) = l_results (c_lanes st i) ++ more_r.
Proof.
  intros b lanes sched i st.
  destruct (conc_inv_exec b lanes sched _ (conc_inv_init b lanes) i) as (_ & Hq & Hr).
  eexists. eexists. split; symmetry; eassumption.
Qed.

(* ... and once a caller's commands have all returned: exactly that, nothing lost, nothing repeated *)
Lemma conc_finished_exact : forall b lanes sched i,
  let st := conc_exec Private b sched (conc_init lanes) in
  lane_finished (c_lanes st i) = true ->
  proj_wire i (c_wire st) = all_reqs b (nth i lanes []) /\
  l_results (c_lanes st i) = all_results b (nth i lanes []).
Proof.
  intros b lanes sched i st Hf.
  destruct (conc_inv_exec b lanes sched _ (conc_inv_init b lanes) i) as (_ & Hq & Hr).
  fold st in Hq, Hr. unfold outstanding in Hq. unfold out_results in Hr. unfold lane_finished in Hf.
  destruct (l_todo (c_lanes st i)); [|discriminate].
  rewrite app_nil_r in Hq, Hr. split; assumption.
Qed.

(* every entry of the wire belongs to a caller's command: nothing arrives that no command asked for *)
Lemma conc_wire_attributed : forall b lanes sched i d q,
  In (i, (d, q)) (c_wire (conc_exec Private b sched (conc_init lanes))) ->
  exists j, In j (nth i lanes []) /\ d = j_dev j /\ In q (sent (run b (j_cmd j))).
Proof.
  intros b lanes sched i d q Hin.
  destruct (conc_request_function_of_command_alone b lanes sched i) as (mq & _ & Hq & _).
  assert (Hp : In (d, q) (all_reqs b (nth i lanes []))).
  { rewrite Hq. apply in_or_app. left. unfold proj_wire.
    apply (in_map snd) in Hin as Hin'. cbn [snd] in Hin'.
    change (d, q) with (snd (i, (d, q))). apply in_map. apply filter_In. split; [exact Hin|].
    cbn [fst]. apply Nat.eqb_refl. }
  unfold all_reqs in Hp. apply in_flat_map in Hp. destruct Hp as (j & Hj & Hdq).
  unfold job_reqs in Hdq. apply in_map_iff in Hdq. destruct Hdq as (q' & E & Hq').
  injection E as <- <-. exists j. repeat split; assumption.
Qed.

(* two callers adding an ROSpec each *)
Definition conc_ro_job (d doc : N) : job :=
  mkJob d (CWrite [mkReq "ROSpec" TObject AMissing AMissing]
                  [mkParam "ROSpec" TObject (VDoc None (Some doc) None)]).
Definition conc_two_lanes : list (list job) := [[conc_ro_job 0 7]; [conc_ro_job 0 9]].
Definition conc_sched_interleaved : list nat := [0; 1; 0; 1; 0; 1; 0; 1]%nat.

(* the Shared mode does not have the property: with the two documents going through one slot,
   caller 0's AddROSpec carries caller 1's document *)
Lemma shared_scratch_refuted :
  let st := conc_exec Shared true conc_sched_interleaved (conc_init conc_two_lanes) in
  conc_finished 2 st = true /\
  all_reqs true (nth 0 conc_two_lanes []) = [(0, AddROSpec 7)] /\
  proj_wire 0 (c_wire st) = [(0, AddROSpec 9)].
Proof. vm_compute. repeat split; reflexivity. Qed.

Lemma private_example :
  let st := conc_exec Private true conc_sched_interleaved (conc_init conc_two_lanes) in
  conc_finished 2 st = true /\
  c_wire st = [(0%nat, (0, AddROSpec 7)); (1%nat, (0, AddROSpec 9))] /\
  l_results (c_lanes st 0) = [false] /\ l_results (c_lanes st 1) = [false].
Proof. vm_compute. repeat split; reflexivity. Qed.

(* ------------------------------------------------------------------ the read timeout as applied to the connection *)
Lemma writes_keep_read_deadline : forall writes d,
  dl_read (fold_left (on_write WriteOnly) writes d) = dl_read d.
Proof. induction writes as [|t ws IH]; intro d; [reflexivity|]. cbn [fold_left]. rewrite IH. reflexivity. Qed.

Lemma silent_reader_bounded : forall d t0 writes,
  dl_read (silent_reader WriteOnly d t0 writes) = t0 + 2 * keep_alive_interval_ms.
Proof. intros. unfold silent_reader. rewrite writes_keep_read_deadline. reflexivity. Qed.

Lemma silent_reader_both_refuted :
  dl_read (silent_reader Both (mkDL 0 0) 0 [50000; 100000; 150000]) = 210000 /\
  2 * keep_alive_interval_ms = 60000.
Proof. vm_compute. split; reflexivity. Qed.

(* ------------------------------------------------------------------ the timeout APPLIED *)
Lemma always_rearmed_survives : forall arrivals t,
  silences_within_timeout t arrivals -> alive Always (t + read_timeout_ms) arrivals = true.
Proof.
  induction arrivals as [|t' rest IH]; intros t H; [reflexivity|].
  cbn [silences_within_timeout] in H. destruct H as (_ & Hle & Hrest).
  cbn [alive rearm]. destruct (N.ltb_spec (t + read_timeout_ms) t') as [Hlt|_]; [lia|].
  apply IH, Hrest.
Qed.

Lemma lazy_rearm_refuted :
  silences_within_timeout 0 [24000; 66000] /\
  alive Lazy (0 + read_timeout_ms) [24000; 66000] = false /\
  alive Always (0 + read_timeout_ms) [24000; 66000] = true.
Proof. split; [|split]; [|vm_compute; reflexivity|vm_compute; reflexivity].
  cbn [silences_within_timeout]. vm_compute. repeat split; discriminate. Qed.
