(* C14 — model of the KeepAliveSpec enforcement in LLRPDevice.TrySend
   (/repo/internal/driver/device.go:218-239) and of the constants it uses
   (device.go:26-34, :106).  No proofs here. *)
From Coq Require Import NArith Bool.
Open Scope N_scope.

(* device.go: keepAliveInterval = 30 s, maxMissedKAs = 2; the llrp.Client read timeout is
   llrp.WithTimeout(keepAliveInterval * maxMissedKAs).  The harness dumps the three values from
   the running code and the check compares them with these. *)
Definition keep_alive_interval_ms : N := 30000.
Definition max_missed_kas : N := 2.
Definition read_timeout_ms : N := keep_alive_interval_ms * max_missed_kas.

(* llrp.KATriggerNull = 0, llrp.KATriggerPeriodic = 1 *)
Definition ka_null : N := 0.
Definition ka_periodic : N := 1.

(* A SetReaderConfig as far as TrySend looks at it: the optional KeepAliveSpec
   (trigger, interval in ms) and "everything else", which TrySend never touches; it is carried
   as an opaque identifier of the decoded document (the harness maps documents to identifiers
   and checks the bytes of the other fields on the wire by its own parser). *)
Record cfg := mkCfg { cfg_ka : option (N * N); cfg_other : N }.

Definition service_ka : N * N := (ka_periodic, keep_alive_interval_ms).

(* TrySend: if the request has a KeepAliveSpec that differs in interval or trigger, overwrite
   both; if it has none, add one; otherwise leave it. *)
Definition enforce_keepalive (c : cfg) : cfg :=
  match cfg_ka c with
  | Some (trig, iv) =>
      if negb (iv =? keep_alive_interval_ms) || negb (trig =? ka_periodic)
      then mkCfg (Some service_ka) (cfg_other c)
      else c
  | None => mkCfg (Some service_ka) (cfg_other c)
  end.
