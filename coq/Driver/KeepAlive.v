(* C14 — model of the KeepAliveSpec enforcement in LLRPDevice.TrySend
   (/repo/internal/driver/device.go:218-239) and of the constants it uses
   (device.go:26-34, :106).  No proofs here. *)
From Coq Require Import NArith Bool.
Open Scope N_scope.

(* device.go: keepAliveInterval = 30 s, maxMissedKAs = 2; the llrp.Client read timeout is
   llrp.WithTimeout(keepAliveInterval * maxMissedKAs).  The harness dumps the three values from
   the running code and the check compares them with these. *)
Definition keep_alive_interval_ms : N := 30000.
Definition max_missed_kas : N := 2.
Definition read_timeout_ms : N := keep_alive_interval_ms * max_missed_kas.

(* llrp.KATriggerNull = 0, llrp.KATriggerPeriodic = 1 *)
Definition ka_null : N := 0.
Definition ka_periodic : N := 1.

(* A SetReaderConfig as far as TrySend looks at it: the optional KeepAliveSpec
   (trigger, interval in ms) and "everything else", which TrySend never touches; it is carried
   as an opaque identifier of the decoded document (the harness maps documents to identifiers
   and checks the bytes of the other fields on the wire by its own parser). *)
Record cfg := mkCfg { cfg_ka : option (N * N); cfg_other : N }.

Definition service_ka : N * N := (ka_periodic, keep_alive_interval_ms).

(* TrySend: if the request has a KeepAliveSpec that differs in interval or trigger, overwrite
   both; if it has none, add one; otherwise leave it. *)
Definition enforce_keepalive (c : cfg) : cfg :=
  match cfg_ka c with
  | Some (trig, iv) =>
      if negb (iv =? keep_alive_interval_ms) || negb (trig =? ka_periodic)
      then mkCfg (Some service_ka) (cfg_other c)
      else c
  | None => mkCfg (Some service_ka) (cfg_other c)
  end.

(* ------------------------------------------------------------------ the read timeout as applied to the connection
   llrp.Client (pkg/llrp/reader.go): readHeader arms the READ deadline (now + timeout) before it waits for the
   next header; handleOutgoing arms a deadline before every message it writes.  [WriteOnly] is the code under
   test (SetWriteDeadline); [Both] is a write loop that calls SetDeadline.  While the reader is silent the read
   side stays parked: the only events are writes. *)
Inductive write_arms := WriteOnly | Both.
Record deadlines := mkDL { dl_read : N; dl_write : N }.
Definition arm_read (now : N) (d : deadlines) : deadlines := mkDL (now + read_timeout_ms) (dl_write d).
Definition on_write (w : write_arms) (d : deadlines) (now : N) : deadlines :=
  match w with
  | WriteOnly => mkDL (dl_read d) (now + read_timeout_ms)
  | Both => mkDL (now + read_timeout_ms) (now + read_timeout_ms)
  end.
(* the read side armed at t0, then the client writes at the given times while nothing arrives *)
Definition silent_reader (w : write_arms) (d : deadlines) (t0 : N) (writes : list N) : deadlines :=
  List.fold_left (on_write w) writes (arm_read t0 d).

(* ------------------------------------------------------------------ the timeout APPLIED: when the read side re-arms
   readHeader is called once per incoming message.  [Always] is the code under test: the read deadline is armed
   (now + timeout) before EVERY header read.  [Lazy] re-arms only when less than half the timeout is left of the
   deadline in force.  [alive p dl arrivals]: the read side holds deadline dl and the reader's next messages arrive
   at the given times; a message arriving after the deadline finds the connection reset. *)
Inductive rearm_policy := Always | Lazy.
Definition rearm (p : rearm_policy) (dl now : N) : N :=
  match p with
  | Always => now + read_timeout_ms
  | Lazy => if dl - now <? read_timeout_ms / 2 then now + read_timeout_ms else dl
  end.
Fixpoint alive (p : rearm_policy) (dl : N) (arrivals : list N) : bool :=
  match arrivals with
  | nil => true
  | cons t rest => if dl <? t then false else alive p (rearm p dl t) rest
  end.
(* successive messages, each at most the read timeout after the one before *)
Fixpoint silences_within_timeout (t : N) (arrivals : list N) : Prop :=
  match arrivals with
  | nil => True
  | cons t' rest => t <= t' /\ t' <= t + read_timeout_ms /\ silences_within_timeout t' rest
  end.
