(* C15 — proofs about Driver/RegistrySplit.v *)
From Coq Require Import List Bool Arith Lia.
From LLRP Require Import Driver.Registry Driver.RegistryProofs Driver.RegistrySplit.
Import ListNotations.

(* the tree: a removal is one critical section, the schedule is a schedule of Registry.v *)
Lemma tree_fold evs : forall s, rm s = None ->
  sbase (fold_left (sstep false) evs s) = fold_left (rstep flags_repaired) (flat_map to_rev evs) (sbase s) /\
  rm (fold_left (sstep false) evs s) = None.
Proof.
  induction evs as [|e evs IH]; intros s H; cbn [fold_left flat_map]; [split; auto|].
  rewrite fold_left_app.
  destruct e as [e| |]; cbn [sstep to_rev fold_left].
  - apply IH. exact H.
  - apply IH. exact H.
  - rewrite H. apply IH. exact H.
Qed.

Lemma tree_removal_atomic evs :
  sbase (srun false evs) = rrun flags_repaired (flat_map to_rev evs) /\ rm (srun false evs) = None.
Proof. apply (tree_fold evs sinit). reflexivity. Qed.

Lemma tree_registered_is_live evs i :
  reg (sbase (srun false evs)) = Some i -> In i (live (sbase (srun false evs))).
Proof.
  destruct (tree_removal_atomic evs) as [E _]. rewrite E.
  apply (inv_reg_live _ (rinv_reachable true (flat_map to_rev evs))).
Qed.

Lemma no_removal_map evs :
  forallb (fun e => negb (is_removal e)) evs = true ->
  Forall (fun e => e <> RRemove) (flat_map to_rev evs).
Proof.
  induction evs as [|e evs IH]; intros H; cbn [flat_map]; [constructor|].
  cbn [forallb] in H. apply andb_true_iff in H as [H1 H2].
  apply Forall_app. split; [|apply IH, H2].
  destruct e as [e| |]; cbn [to_rev]; try constructor; try discriminate; [|constructor].
  destruct e; cbn in H1; try discriminate; intros X; discriminate.
Qed.

Lemma tree_readded_is_supervised evs1 evs2 :
  forallb (fun e => negb (is_removal e)) evs2 = true ->
  length (got (sbase (srun false evs1))) < length (got (sbase (srun false (evs1 ++ evs2)))) ->
  let s := sbase (srun false (evs1 ++ evs2)) in
  exists i, reg s = Some i /\ In i (live s).
Proof.
  intros H L s. unfold s in *. clear s.
  destruct (tree_removal_atomic (evs1 ++ evs2)) as [E _].
  destruct (tree_removal_atomic evs1) as [E1 _].
  rewrite E in *. rewrite E1 in L. rewrite flat_map_app in *. unfold rrun in *. rewrite fold_left_app in *.
  apply readd_fold.
  - apply (rinv_fold true), rinv_init.
  - apply no_removal_map, H.
  - right. exact L.
Qed.
