(* Driver/AddrUpdate.v — "an address change redirects the next attempt to the new address" at the
   level where EdgeX delivers it (C15): Driver.UpdateDevice(name, protocols, adminState) ->
   LLRPDevice.UpdateAddr(ctx, addr).  MODEL ONLY.

   Supervisor.v takes addresses as opaque values compared by identity.  Real addresses have a
   SPELLING (what net.Addr.String() returns and the dialer is asked for: host form, zone, port) and
   an ENDPOINT some spellings share (127.0.0.1 / ::ffff:127.0.0.1; a scoped IPv6 address without
   its zone).  [ep] maps a spelling to its endpoint class; it is a parameter of every theorem.

   driver.go:584-615, device.go:279-292:
     UpdateDevice: getDevice (creates the device with this address if the name is not managed: done);
                   otherwise dev.UpdateAddr(ctx, addr) -- whatever the admin state
     UpdateAddr:   old := l.address; l.address = addr;          -- stored FIRST, unconditionally
                   if sameAddr(old, addr) { return }            -- same spelling: nothing to bounce
                   closeLocked(ctx)                              -- the connection is closed, redial
   Flags name the variants: [same_by_endpoint] (sameAddr compares endpoints instead of spellings),
   [compare_before_store] (UpdateAddr returns before storing an address it considers the same),
   [skip_locked] (UpdateDevice returns early for a managed device whose admin state is Locked).
   The tree: all false. *)
From Coq Require Import NArith Bool.

Record aflags := mkAF { same_by_endpoint : bool; compare_before_store : bool; skip_locked : bool }.
Definition aflags_tree := mkAF false false false.

Record astate := mkAS {
  managed_a : bool;     (* the name has a device *)
  stored : N;           (* l.address (spelling); what the next attempt hands to the dialer (Supervisor.v: every Dial reads cur_addr) *)
  bounces : nat         (* times an update closed the connection *)
}.

Definition same_addr (fl : aflags) (ep : N -> N) (a b : N) : bool :=
  if same_by_endpoint fl then N.eqb (ep a) (ep b) else N.eqb a b.

Definition update_addr (fl : aflags) (ep : N -> N) (s : astate) (a : N) : astate :=
  if compare_before_store fl then
    if same_addr fl ep (stored s) a then s
    else mkAS (managed_a s) a (S (bounces s))
  else
    if same_addr fl ep (stored s) a then mkAS (managed_a s) a (bounces s)
    else mkAS (managed_a s) a (S (bounces s)).

Definition update_device (fl : aflags) (ep : N -> N) (s : astate) (a : N) (locked : bool) : astate :=
  if managed_a s then
    if skip_locked fl && locked then s else update_addr fl ep s a
  else mkAS true a (bounces s).       (* getDevice creates the device with this address *)

(* the address the next attempt dials *)
Definition next_dial (s : astate) : N := stored s.
