(* C13 — proofs about Driver/Publish.v *)
From Coq Require Import NArith List Bool Arith Lia Permutation.
From LLRP Require Import Driver.Publish.
Import ListNotations.

Lemma remove_nth_perm : forall (A : Type) (l : list A) k x,
  nth_error l k = Some x -> Permutation (x :: remove_nth k l) l.
Proof.
  induction l as [|y l IH]; intros k x H.
  - destruct k; discriminate.
  - destruct k as [|k]; cbn in *.
    + injection H as ->. reflexivity.
    + rewrite perm_swap. constructor. apply IH; auto.
Qed.

Lemma step_perm : forall s e,
  Permutation (published (step s e) ++ pending (step s e))
              (published s ++ pending s ++ expected [e]).
Proof.
  intros s e. destruct e as [d t dec cs|k|d|d]; cbn [step expected].
  - destruct (resource_of t) as [r|], dec as [c|]; cbn [published pending];
      rewrite ?app_nil_r; auto.
  - destruct (nth_error (pending s) k) as [x|] eqn:E; cbn [published pending];
      rewrite ?app_nil_r; auto.
    rewrite <- app_assoc. apply Permutation_app_head. cbn [app].
    apply remove_nth_perm; auto.
  - rewrite app_nil_r. reflexivity.
  - rewrite app_nil_r. reflexivity.
Qed.

Lemma expected_app : forall evs1 evs2, expected (evs1 ++ evs2) = expected evs1 ++ expected evs2.
Proof.
  induction evs1 as [|e evs1 IH]; intros; cbn [app expected]; auto.
  destruct e as [d t [c|] cs|k|d|d]; auto.
  destruct (resource_of t); auto. cbn [app]. now rewrite IH.
Qed.

Lemma run_perm : forall evs s,
  Permutation (published (run s evs) ++ pending (run s evs))
              (published s ++ pending s ++ expected evs).
Proof.
  induction evs as [|e evs IH]; intros s; cbn [run fold_left].
  - cbn [expected]. now rewrite app_nil_r.
  - fold (run (step s e) evs). rewrite IH.
    change (e :: evs) with ([e] ++ evs). rewrite expected_app.
    rewrite !app_assoc. apply Permutation_app_tail.
    rewrite <- app_assoc. apply step_perm.
Qed.

Lemma published_multiset_eq_received : forall evs,
  let s := run init evs in
  Permutation (published s ++ pending s) (expected evs) /\
  (pending s = [] -> Permutation (published s) (expected evs)).
Proof.
  intros evs s. pose proof (run_perm evs init) as H. cbn [published pending init app] in H.
  fold s in H. split; auto. intros E. rewrite E, app_nil_r in H. exact H.
Qed.

Lemma run_app : forall evs1 evs2 s, run s (evs1 ++ evs2) = run (run s evs1) evs2.
Proof. intros. unfold run. apply fold_left_app. Qed.

Lemma drain_empties : forall n s, length (pending s) = n ->
  pending (run s (repeat (PublisherRun 0) n)) = [].
Proof.
  induction n as [|n IH]; intros s H; cbn [repeat run fold_left].
  - destruct (pending s); auto; discriminate.
  - fold (run (step s (PublisherRun 0)) (repeat (PublisherRun 0) n)). apply IH.
    cbn [step]. destruct (pending s) as [|x l] eqn:E; try discriminate.
    cbn [nth_error pending remove_nth]. cbn in H. lia.
Qed.

Lemma all_publishers_can_run : forall evs,
  let s := run init (evs ++ drain (run init evs)) in
  pending s = [] /\ Permutation (published s) (expected evs).
Proof.
  intros evs s. unfold s. rewrite run_app.
  assert (P : pending (run (run init evs) (drain (run init evs))) = []).
  { apply drain_empties. reflexivity. }
  split; auto.
  pose proof (run_perm (drain (run init evs)) (run init evs)) as H.
  rewrite P, app_nil_r in H.
  assert (X : expected (drain (run init evs)) = []).
  { unfold drain. induction (length (pending (run init evs))); cbn; auto. }
  rewrite X, app_nil_r in H. rewrite H.
  destruct (published_multiset_eq_received evs) as [H1 _]. exact H1.
Qed.

(* a message whose decoding fails changes nothing: neither its own reading nor anything later *)
Lemma bad_decode_dropped_only : forall evs1 evs2 d t cs,
  run init (evs1 ++ Recv d t None cs :: evs2) = run init (evs1 ++ evs2) /\
  expected (evs1 ++ Recv d t None cs :: evs2) = expected (evs1 ++ evs2).
Proof.
  intros. split.
  - rewrite !run_app. cbn [run fold_left step]. destruct (resource_of t); reflexivity.
  - rewrite !expected_app. reflexivity.
Qed.

(* nothing is attributed to a device or resource other than the receiving ones *)
Lemma published_attribution : forall evs d r c,
  In (d, r, c) (published (run init evs)) ->
  exists t cs, In (Recv d t (Some c) cs) evs /\ resource_of t = Some r.
Proof.
  intros evs d r c H.
  destruct (published_multiset_eq_received evs) as [P _].
  assert (I : In (d, r, c) (expected evs)).
  { eapply Permutation_in; [exact P|]. apply in_or_app. now left. }
  clear -I. induction evs as [|e evs IH]; cbn [expected] in I; [contradiction|].
  destruct e as [d' t' [c'|] cs'|k|d'|d']; try (destruct (IH I) as [t [cs [A B]]]; exists t, cs; split; [now right|auto]).
  destruct (resource_of t') as [r'|] eqn:E.
  - destruct I as [I|I].
    + injection I as -> -> ->. exists t', cs'. split; [now left|auto].
    + destruct (IH I) as [t [cs [A B]]]. exists t, cs. split; [now right|auto].
  - destruct (IH I) as [t [cs [A B]]]. exists t, cs. split; [now right|auto].
Qed.

(* commands, keep-alives and messages of other types never add a reading *)
Lemma others_publish_nothing : forall s e,
  match e with
  | Command _ | KeepAliveAck _ => step s e = s
  | Recv _ t _ _ => resource_of t = None -> step s e = s
  | _ => True
  end.
Proof.
  intros s e. destruct e as [d t dec cs|k|d|d]; auto.
  intros H. cbn [step]. now rewrite H.
Qed.
