(* C13 — proofs about Driver/Publish.v *)
From Coq Require Import NArith List Bool Arith Lia Permutation.
From LLRP Require Import Driver.Publish.
Import ListNotations.

Lemma remove_nth_perm : forall (A : Type) (l : list A) k x,
  nth_error l k = Some x -> Permutation (x :: remove_nth k l) l.
Proof.
  induction l as [|y l IH]; intros k x H.
  - destruct k; discriminate.
  - destruct k as [|k]; cbn in *.
    + injection H as ->. reflexivity.
    + rewrite perm_swap. constructor. apply IH; auto.
Qed.

Lemma remove_nth_length : forall (A : Type) (l : list A) k x,
  nth_error l k = Some x -> S (length (remove_nth k l)) = length l.
Proof.
  intros A l k x H. pose proof (Permutation_length (remove_nth_perm A l k x H)) as P.
  exact P.
Qed.

Lemma remove_nth_In : forall (A : Type) (l : list A) k y, In y (remove_nth k l) -> In y l.
Proof.
  induction l as [|z l IH]; intros k y H; [destruct k; exact H|].
  destruct k as [|k]; cbn in H.
  - now right.
  - destruct H as [H|H]; [now left|right; eapply IH; eauto].
Qed.

(* a permutation of the concatenation with one element moved from the middle list to the end *)
Lemma perm_move : forall (A : Type) (a b c : list A) k x, nth_error b k = Some x ->
  Permutation (a ++ remove_nth k b ++ c ++ [x]) (a ++ b ++ c).
Proof.
  intros A a b c k x H. apply Permutation_app_head.
  rewrite app_assoc. rewrite <- Permutation_cons_append. rewrite <- (remove_nth_perm A b k x H) at 2.
  reflexivity.
Qed.

Section Proofs.
Variable dec : mtype -> list N -> option content.
Variable is_conn : content -> bool.

Notation step := (step dec is_conn).
Notation run := (run dec is_conn).
Notation expected := (expected dec).
Notation drain := (drain).
Notation conn_reading := (conn_reading is_conn).

(* all readings of a state, as one list *)
Definition allr (s : state) : list reading := published s ++ inflight s.

Lemma step_perm : forall s e,
  Permutation (allr (step s e)) (allr s ++ expected [e]).
Proof.
  intros s e. unfold allr, inflight.
  destruct e as [d t bs now|d t got m now|k|k ok|k|d ok|d|d]; cbn [Publish.step Publish.expected].
  - destruct (resource_of t) as [r|], (dec t bs) as [c|]; rewrite ?app_nil_r; auto.
    destruct (conn_reading (d, r, c)); cbn [published starting parked pending].
    + rewrite <- ?app_assoc. do 2 apply Permutation_app_head.
      rewrite (app_assoc (parked s)). apply Permutation_app_comm.
    + rewrite <- ?app_assoc. reflexivity.
  - now rewrite app_nil_r.
  - rewrite app_nil_r.
    destruct (nth_error (starting s) k) as [x|] eqn:E; auto.
    destruct (isup s (fst (fst x))); cbn [published starting parked pending];
      apply Permutation_app_head.
    + rewrite (app_assoc (parked s)).
      apply (perm_move _ [] (starting s) (parked s ++ pending s) k x E).
    + rewrite <- (app_assoc (parked s)).
      rewrite (Permutation_app_comm [x] (pending s)).
      rewrite (app_assoc (parked s)).
      apply (perm_move _ [] (starting s) (parked s ++ pending s) k x E).
  - rewrite app_nil_r.
    destruct (nth_error (parked s) k) as [x|] eqn:E; auto.
    cbn [published starting parked pending]. apply Permutation_app_head.
    apply (perm_move _ (starting s) (parked s) (pending s) k x E).
  - rewrite app_nil_r.
    destruct (nth_error (pending s) k) as [x|] eqn:E; auto.
    cbn [published starting parked pending].
    rewrite <- app_assoc. apply Permutation_app_head. cbn [app].
    rewrite !(app_assoc (starting s)). rewrite Permutation_middle.
    apply Permutation_app_head. apply (remove_nth_perm _ _ _ _ E).
  - now rewrite app_nil_r.
  - now rewrite app_nil_r.
  - now rewrite app_nil_r.
Qed.
Lemma expected_app : forall evs1 evs2, expected (evs1 ++ evs2) = expected evs1 ++ expected evs2.
Proof.
  induction evs1 as [|e evs1 IH]; intros; cbn [app Publish.expected]; auto.
  destruct e as [d t bs now|d t got m now|k|k ok|k|d ok|d|d]; auto.
  destruct (resource_of t), (dec t bs); auto. cbn [app]. now rewrite IH.
Qed.

Lemma run_perm : forall evs s,
  Permutation (allr (run s evs)) (allr s ++ expected evs).
Proof.
  induction evs as [|e evs IH]; intros s; cbn [Publish.run fold_left].
  - cbn [Publish.expected]. now rewrite app_nil_r.
  - fold (run (step s e) evs). rewrite IH.
    change (e :: evs) with ([e] ++ evs). rewrite expected_app.
    rewrite app_assoc. apply Permutation_app_tail. apply step_perm.
Qed.

(* whatever the devices' operating-state flags were at the start and however they change *)
Lemma published_multiset_eq_received : forall up0 evs,
  let s := run (init_up up0) evs in
  Permutation (published s ++ inflight s) (expected evs) /\
  (inflight s = [] -> Permutation (published s) (expected evs)).
Proof.
  intros up0 evs s. pose proof (run_perm evs (init_up up0)) as H.
  unfold allr at 2 in H. cbn [published inflight starting parked pending init_up app] in H.
  fold s in H. split; auto. intros E. unfold allr in H. rewrite E, app_nil_r in H. exact H.
Qed.

Lemma run_app : forall evs1 evs2 s, run s (evs1 ++ evs2) = run (run s evs1) evs2.
Proof. intros. unfold Publish.run. apply fold_left_app. Qed.

Lemma run_cons : forall e evs s, run s (e :: evs) = run (step s e) evs.
Proof. reflexivity. Qed.

(* the three phases of [drain] *)
Lemma phase_start : forall n s, length (starting s) <= n ->
  let s' := run s (repeat (OnConnectStart 0) n) in
  starting s' = [] /\ length (inflight s') = length (inflight s).
Proof.
  induction n as [|n IH]; intros s H; cbn [repeat].
  - cbn. destruct (starting s); cbn in H; [auto|lia].
  - rewrite run_cons. destruct (starting s) as [|x l] eqn:E.
    + assert (S0 : step s (OnConnectStart 0) = s) by (cbn [Publish.step]; now rewrite E).
      rewrite S0. apply IH. rewrite E. cbn. lia.
    + cbn zeta. destruct (IH (step s (OnConnectStart 0))) as [A B].
      { cbn [Publish.step]. rewrite E. cbn [nth_error remove_nth].
        destruct (isup s (fst (fst x))); cbn [starting]; cbn in H; lia. }
      split; [exact A|]. rewrite B. unfold inflight. cbn [Publish.step]. rewrite E.
      cbn [nth_error remove_nth].
      destruct (isup s (fst (fst x))); cbn [starting parked pending]; rewrite !app_length; cbn; lia.
Qed.

Lemma phase_sdk : forall ok n s, starting s = [] -> length (parked s) <= n ->
  let s' := run s (repeat (SdkReturn 0 ok) n) in
  starting s' = [] /\ parked s' = [] /\ length (inflight s') = length (inflight s).
Proof.
  induction n as [|n IH]; intros s S0 H; cbn [repeat].
  - cbn. destruct (parked s); cbn in H; [auto|lia].
  - rewrite run_cons. destruct (parked s) as [|x l] eqn:E.
    + assert (S1 : step s (SdkReturn 0 ok) = s) by (cbn [Publish.step]; now rewrite E).
      rewrite S1. apply IH; auto. rewrite E. cbn. lia.
    + cbn zeta. destruct (IH (step s (SdkReturn 0 ok))) as [A [B C]].
      { cbn [Publish.step]. rewrite E. exact S0. }
      { cbn [Publish.step]. rewrite E. cbn [nth_error remove_nth parked]. cbn in H. lia. }
      split; [exact A|split; [exact B|]]. rewrite C. unfold inflight. cbn [Publish.step]. rewrite E.
      cbn [nth_error remove_nth starting parked pending]. rewrite !app_length. cbn. lia.
Qed.

Lemma phase_publish : forall n s, starting s = [] -> parked s = [] -> length (pending s) <= n ->
  inflight (run s (repeat (PublisherRun 0) n)) = [].
Proof.
  induction n as [|n IH]; intros s S0 P0 H; cbn [repeat].
  - cbn. unfold inflight. rewrite S0, P0. destruct (pending s); cbn in H; [auto|lia].
  - rewrite run_cons. destruct (pending s) as [|x l] eqn:E.
    + assert (S1 : step s (PublisherRun 0) = s) by (cbn [Publish.step]; now rewrite E).
      rewrite S1. apply IH; auto. rewrite E. cbn. lia.
    + apply IH; cbn [Publish.step]; rewrite E; cbn [nth_error remove_nth starting parked pending]; auto.
      cbn in H. lia.
Qed.

Lemma no_recv_expected_nil : forall evs,
  Forall (fun e => match e with Recv _ _ _ _ => False | _ => True end) evs -> expected evs = [].
Proof.
  induction 1 as [|e evs H _ IH]; auto.
  destruct e; cbn [Publish.expected]; auto; contradiction.
Qed.

Lemma drain_no_recv : forall ok s, expected (drain ok s) = [].
Proof.
  intros. apply no_recv_expected_nil. unfold Publish.drain.
  rewrite !Forall_app. repeat split; apply Forall_forall; intros e H; apply repeat_spec in H; now subst.
Qed.

Lemma drain_empties : forall ok s, inflight (run s (drain ok s)) = [].
Proof.
  intros ok s. unfold Publish.drain. set (n := length (inflight s)).
  rewrite !run_app.
  assert (L : length (starting s) <= n) by (unfold n, inflight; rewrite !app_length; lia).
  destruct (phase_start n s L) as [A B]. cbn zeta in A, B.
  set (s1 := run s (repeat (OnConnectStart 0) n)) in *.
  assert (L1 : length (parked s1) <= n).
  { unfold n. rewrite <- B. unfold inflight. rewrite !app_length. lia. }
  destruct (phase_sdk ok n s1 A L1) as [A2 [B2 C2]]. cbn zeta in A2, B2, C2.
  set (s2 := run s1 (repeat (SdkReturn 0 ok) n)) in *.
  apply phase_publish; auto.
  unfold n. rewrite <- B, <- C2. unfold inflight. rewrite !app_length. lia.
Qed.

Lemma all_publishers_can_run : forall up0 ok evs,
  let s := run (init_up up0) (evs ++ drain ok (run (init_up up0) evs)) in
  inflight s = [] /\ Permutation (published s) (expected evs).
Proof.
  intros up0 ok evs s.
  assert (P : inflight s = []) by (unfold s; rewrite run_app; apply drain_empties).
  split; auto.
  destruct (published_multiset_eq_received up0 (evs ++ drain ok (run (init_up up0) evs))) as [_ H].
  fold s in H. rewrite (H P). rewrite expected_app, drain_no_recv, app_nil_r. reflexivity.
Qed.

(* a message whose decoding fails changes nothing: neither its own reading nor anything later *)
Lemma bad_decode_dropped_only : forall s evs1 evs2 d t bs now, dec t bs = None ->
  run s (evs1 ++ Recv d t bs now :: evs2) = run s (evs1 ++ evs2) /\
  expected (evs1 ++ Recv d t bs now :: evs2) = expected (evs1 ++ evs2).
Proof.
  intros s evs1 evs2 d t bs now H. split.
  - rewrite !run_app. rewrite run_cons. cbn [Publish.step]. rewrite H.
    destruct (resource_of t); reflexivity.
  - rewrite !expected_app. cbn [Publish.expected]. rewrite H. destruct (resource_of t); reflexivity.
Qed.

(* a message that was not received completely publishes nothing, whatever the bytes that did
   arrive would decode to *)
Lemma incomplete_message_publishes_nothing : forall s evs1 evs2 d t got missing now,
  run s (evs1 ++ RecvCut d t got missing now :: evs2) = run s (evs1 ++ evs2) /\
  expected (evs1 ++ RecvCut d t got missing now :: evs2) = expected (evs1 ++ evs2).
Proof.
  intros. split.
  - rewrite !run_app. reflexivity.
  - rewrite !expected_app. reflexivity.
Qed.

Lemma expected_In : forall evs d r c, In (d, r, c) (expected evs) ->
  exists t bs now, In (Recv d t bs now) evs /\ resource_of t = Some r /\ dec t bs = Some c.
Proof.
  induction evs as [|e evs IH]; intros d r c I; cbn [Publish.expected] in I; [contradiction|].
  assert (K : In (d, r, c) (expected evs) ->
              exists t bs now, In (Recv d t bs now) (e :: evs) /\ resource_of t = Some r /\ dec t bs = Some c).
  { intros I'. destruct (IH _ _ _ I') as [t [bs [now [A B]]]]. exists t, bs, now. split; [now right|auto]. }
  destruct e as [d' t' bs' now'|d' t' got m now'|k|k ok|k|d' ok|d'|d']; auto.
  destruct (resource_of t') as [r'|] eqn:E; auto.
  destruct (dec t' bs') as [c'|] eqn:E2; auto.
  destruct I as [I|I]; auto.
  injection I as -> -> ->. exists t', bs', now'. split; [now left|auto].
Qed.

(* device, resource and content of every published reading are those of a completely received
   message: the content is the decoding of that message's bytes *)
Lemma published_attribution : forall up0 evs d r c,
  In (d, r, c) (published (run (init_up up0) evs)) ->
  exists t bs now, In (Recv d t bs now) evs /\ resource_of t = Some r /\ dec t bs = Some c.
Proof.
  intros up0 evs d r c H.
  destruct (published_multiset_eq_received up0 evs) as [P _].
  apply expected_In. eapply Permutation_in; [exact P|]. apply in_or_app. now left.
Qed.

(* commands, keep-alives, operating-state changes and messages of other types never add, drop or
   move a reading *)
Definition readings (s : state) := (starting s, parked s, pending s, published s).

Lemma others_publish_nothing : forall s e,
  match e with
  | Command _ | KeepAliveAck _ | RecvCut _ _ _ _ _ => step s e = s
  | MarkDown _ _ => readings (step s e) = readings s
  | Recv _ t _ _ => resource_of t = None -> step s e = s
  | _ => True
  end.
Proof.
  intros s e. destruct e as [d t bs now|d t got m now|k|k ok|k|d ok|d|d]; auto.
  intros H. cbn [Publish.step]. now rewrite H.
Qed.

(* only publishers of connection events are ever held up by the operating state *)
Definition conn_only (s : state) : Prop :=
  Forall (fun x => conn_reading x = true) (starting s ++ parked s).

Lemma step_conn_only : forall s e, conn_only s -> conn_only (step s e).
Proof.
  unfold conn_only. intros s e H.
  destruct e as [d t bs now|d t got m now|k|k ok|k|d ok|d|d]; cbn [Publish.step]; auto.
  - destruct (resource_of t) as [r|], (dec t bs) as [c|]; auto.
    destruct (conn_reading (d, r, c)) eqn:E; cbn [starting parked]; auto.
    rewrite <- app_assoc. rewrite Forall_app in *. destruct H as [H1 H2]. split; auto.
    cbn [app]. constructor; auto.
  - destruct (nth_error (starting s) k) as [x|] eqn:E; auto.
    rewrite Forall_app in H. destruct H as [H1 H2].
    assert (R : Forall (fun x => conn_reading x = true) (remove_nth k (starting s))).
    { rewrite Forall_forall in *. intros y Hy. apply H1. eapply remove_nth_In; eauto. }
    destruct (isup s (fst (fst x))); cbn [starting parked]; rewrite !Forall_app; repeat split; auto.
    constructor; auto. rewrite Forall_forall in H1. apply H1. eapply nth_error_In; eauto.
  - destruct (nth_error (parked s) k) as [x|] eqn:E; auto.
    cbn [starting parked]. rewrite Forall_app in *. destruct H as [H1 H2]. split; auto.
    rewrite Forall_forall in *. intros y Hy. apply H2. eapply remove_nth_In; eauto.
  - destruct (nth_error (pending s) k) as [x|] eqn:E; auto.
Qed.

Lemma run_conn_only : forall evs s, conn_only s -> conn_only (run s evs).
Proof.
  induction evs as [|e evs IH]; intros s H; auto.
  rewrite run_cons. apply IH. now apply step_conn_only.
Qed.

Lemma publish_only : forall n s, length (pending s) <= n ->
  let s' := run s (repeat (PublisherRun 0) n) in
  pending s' = [] /\ starting s' = starting s /\ parked s' = parked s.
Proof.
  induction n as [|n IH]; intros s H; cbn [repeat].
  - cbn. destruct (pending s); cbn in H; [auto|lia].
  - rewrite run_cons. destruct (pending s) as [|x l] eqn:E.
    + assert (S1 : step s (PublisherRun 0) = s) by (cbn [Publish.step]; now rewrite E).
      rewrite S1. apply IH; auto. rewrite E. cbn. lia.
    + cbn zeta. destruct (IH (step s (PublisherRun 0))) as [A [B C]].
      { cbn [Publish.step]. rewrite E. cbn [nth_error remove_nth pending]. cbn in H. lia. }
      split; [exact A|]. rewrite B, C. cbn [Publish.step]. rewrite E. split; reflexivity.
Qed.

(* without any SDK call returning and whatever the flags say, letting the pending publishers
   run publishes everything except connection events: what is left waiting are connection
   events only *)
Lemma reports_published_without_sdk : forall up0 evs,
  let s0 := run (init_up up0) evs in
  let s := run s0 (repeat (PublisherRun 0) (length (pending s0))) in
  pending s = [] /\
  Permutation (published s ++ starting s ++ parked s) (expected evs) /\
  Forall (fun x => conn_reading x = true) (starting s ++ parked s).
Proof.
  intros up0 evs s0 s.
  destruct (publish_only (length (pending s0)) s0 (le_n _)) as [A [B C]]. fold s in A, B, C.
  split; [exact A|]. split.
  - pose proof (run_perm (evs ++ repeat (PublisherRun 0) (length (pending s0))) (init_up up0)) as H.
    rewrite run_app in H. fold s0 in H. fold s in H.
    rewrite expected_app in H.
    rewrite (no_recv_expected_nil (repeat _ _)) in H.
    2:{ apply Forall_forall. intros e He. apply repeat_spec in He. now subst. }
    unfold allr, inflight in H. rewrite A in H. cbn [init_up published starting parked pending app] in H.
    rewrite !app_nil_r in H. exact H.
  - assert (K : conn_only s).
    { unfold s, s0. rewrite <- run_app. apply run_conn_only. unfold conn_only. cbn. constructor. }
    exact K.
Qed.

(* a report or an ordinary reader event goes straight to the channel send, whatever the
   operating-state flags are: its publisher can complete at once *)
Lemma report_not_gated : forall s d t bs now r c,
  resource_of t = Some r -> dec t bs = Some c -> conn_reading (d, r, c) = false ->
  let s1 := step s (Recv d t bs now) in
  pending s1 = pending s ++ [(d, r, c)] /\
  published (step s1 (PublisherRun (length (pending s)))) = published s ++ [(d, r, c)].
Proof.
  intros s d t bs now r c R D C s1. unfold s1. cbn [Publish.step]. rewrite R, D, C.
  cbn [pending]. split; auto.
  rewrite nth_error_app2 by lia. rewrite Nat.sub_diag. reflexivity.
Qed.

(* receiving the same messages at other times changes nothing *)
Lemma step_retime : forall f s e, step s (retime f e) = step s e.
Proof. intros f s e. destruct e; reflexivity. Qed.

Lemma run_retimed : forall f evs s,
  run s (map (retime f) evs) = run s evs /\ expected (map (retime f) evs) = expected evs.
Proof.
  intros f evs. induction evs as [|e evs IH]; intros s; [split; reflexivity|].
  cbn [map]. rewrite !run_cons. rewrite step_retime. destruct (IH (step s e)) as [A B]. split; auto.
  destruct e as [d t bs now|d t got m now|k|k ok|k|d ok|d|d]; cbn [retime Publish.expected]; auto.
  destruct (resource_of t), (dec t bs); auto. now rewrite B.
Qed.

End Proofs.
