(* C15 — connection supervision of internal/driver/device.go (NewLLRPDevice's goroutine,
   onConnect, TrySend, Stop, UpdateAddr, closeLocked), as a labelled transition system.

   MODEL ONLY (no proofs here, so that extraction keeps working when a proof breaks).

   What the Go code does, and how it is written down here
   -------------------------------------------------------
     for ctx.Err() == nil {                                  -- "outer loop"
       retry.Slow.RetryWithCtx(ctx, Forever, func {          -- "slow loop"
         err := retry.Quick.RetryWithCtx(ctx, maxConnAttempts, dialAndServe)   -- "round"
         switch err { case nil: return true,nil; case context.Canceled: ... }  -- (2nd case never matches:
                                                                                   err is an *FError)
         <Down block>: if isUp { isUp=false; if sdk.Update(Down) fails { isUp=true } }
         return true, err                                    -- slow back-off, next round
       })
     }
   dialAndServe: read l.address, dial it, c.Connect(conn) (blocks while the connection lives),
   ErrClientClosed => nil ("closed normally", resets both back-offs), then replace the client.
   A dial error returns before the client is replaced.

   One supervisor "attempt" is atomic in this model except for an established connection, which
   stays until [Drop] (the reader breaks it), [Stop] or an [UpdateAddr] to another address.
   The five outcomes named by the property are all there; [HandshakeThenDropped] is defined as
   [Established] followed by [Drop], [ClosedNormally] as [Established] followed by the device
   closing the connection itself (onConnect's SetReaderConfig is rejected -> resetConn).

   The retry policies are abstracted to what the supervisor's control flow depends on:
   how many calls a retry loop makes ([max_conn_attempts], [max_send_attempts]) and in which
   wait it is sitting when Stop arrives ([round_fails], [in_slow]). Durations are not modelled. *)
From Coq Require Import NArith List Bool Arith.
Import ListNotations.

Definition addr := N.

Inductive opstate := Up | Down.

Inductive outcome :=
| Refused                (* dial error *)
| AcceptedSilent         (* accepted, nothing (valid) arrives: checkInitialMessage fails reading *)
| BadHandshake           (* first message is not a successful connection event *)
| HandshakeThenDropped   (* good handshake, later the connection breaks *)
| ClosedNormally         (* good handshake, later closed from our side *)
| Established.           (* good handshake, connection stays for now *)

(* what l.client is, as far as TrySend / closeLocked can tell *)
Inductive lclient :=
| LNil       (* l.client == nil: closeLocked succeeded, supervisor has not replaced it yet *)
| LFresh     (* a client that has never been connected and is not closed *)
| LClosed    (* a client whose done channel is closed *)
| LConn.     (* connected and negotiated *)

(* what a connected reader does with an ordinary request *)
Inductive reader_reply :=
| ReaderOk            (* the expected response, status Success *)
| ReaderRejects       (* the expected response with a non-success LLRPStatus *)
| ReaderErrorMessage  (* an ERROR_MESSAGE (SendFor wraps its status as *StatusError) *)
| ReaderWrongType     (* a reply of another message type *)
| ReaderGarbage       (* the expected type with a payload that fails to unmarshal *)
| ReaderLate.         (* no reply before the caller's deadline *)

(* how one TrySend ended / what one attempt met *)
Inductive sclass :=
| SOk | SStatus (* reader answered with an error status *) | SCtx (* context expired while waiting *)
| SClosed (* errors.Is(err, ErrClientClosed) *) | SNoClient (* "no client available" *)
| SOther (* any other error of SendFor on an open connection: wrong reply type, undecodable reply *).

Inductive event :=
| Dial (o : outcome)
| Drop                                (* the reader / network breaks an established connection *)
| Stop (force : bool)                 (* force = the context given to Stop is already done *)
| UpdateAddr (a : addr) (force : bool)
| SdkFail (b : bool)                  (* from now on UpdateDeviceOperatingState fails / works *)
| Send (r : reader_reply)             (* TrySend of an ordinary request; r = what a connected reader answers *)
| StopAtEntry (force : bool).         (* Stop whose cancellation is first seen by the outer `for ctx.Err() == nil`
                                         or by Slow.RetryWithCtx's entry check: when the supervisor is about to
                                         dial (no attempt under way, not in a pause) it then ends WITHOUT running
                                         the slow func, hence without Down block. In Go both this and [Stop]
                                         happen there, a few instructions apart; in every other state the two
                                         events coincide. *)

(* append-only history, oldest first *)
Inductive entry :=
| LDial (a : addr)
| LHandshake                          (* reader sent a successful connection event *)
| LFail                               (* the attempt (or the established connection) failed *)
| LNormal                             (* the attempt ended with ErrClientClosed *)
| LReport (o : opstate) (ok : bool)   (* UpdateDeviceOperatingState(name, o) called; ok = it returned nil *)
| LStop
| LSetAddr (a : addr)
| LSend (calls : nat) (sendfor : nat) (c : sclass).   (* calls of the retried func, of Client.SendFor, final class *)

Definition max_conn_attempts : nat := 2.   (* device.go: maxConnAttempts *)
Definition max_send_attempts : nat := 3.   (* device.go: maxSendAttempts *)

Record state := mk {
  isUp : bool;           (* l.isUp *)
  cur_addr : addr;       (* l.address *)
  stopped : bool;        (* ctx cancelled *)
  connected : bool;      (* c.Connect is serving a negotiated connection *)
  round_fails : nat;     (* failed attempts in the current Quick round ("attempt" in RetryWithCtx) *)
  in_slow : bool;        (* waiting in the Slow back-off after an exhausted round *)
  lcl : lclient;         (* l.client; while not connected the supervisor's variable c is the same
                            object unless l.client is nil, in which case c is the closed one *)
  sdk_fails : bool;
  log : list entry
}.

Definition init (up0 : bool) (a0 : addr) : state :=
  mk up0 a0 false false 0 false LFresh false [].

Definition app (s : state) (e : entry) : state :=
  mk (isUp s) (cur_addr s) (stopped s) (connected s) (round_fails s) (in_slow s) (lcl s)
     (sdk_fails s) (log s ++ [e]).
Definition set_isUp (s : state) (b : bool) : state :=
  mk b (cur_addr s) (stopped s) (connected s) (round_fails s) (in_slow s) (lcl s) (sdk_fails s) (log s).
Definition set_addr (s : state) (a : addr) : state :=
  mk (isUp s) a (stopped s) (connected s) (round_fails s) (in_slow s) (lcl s) (sdk_fails s) (log s).
Definition set_stopped (s : state) : state :=
  mk (isUp s) (cur_addr s) true (connected s) (round_fails s) (in_slow s) (lcl s) (sdk_fails s) (log s).
Definition set_conn (s : state) (b : bool) (l : lclient) : state :=
  mk (isUp s) (cur_addr s) (stopped s) b (round_fails s) (in_slow s) l (sdk_fails s) (log s).
Definition set_round (s : state) (n : nat) (slow : bool) : state :=
  mk (isUp s) (cur_addr s) (stopped s) (connected s) n slow (lcl s) (sdk_fails s) (log s).
Definition set_lcl (s : state) (l : lclient) : state :=
  mk (isUp s) (cur_addr s) (stopped s) (connected s) (round_fails s) (in_slow s) l (sdk_fails s) (log s).
Definition set_sdk (s : state) (b : bool) : state :=
  mk (isUp s) (cur_addr s) (stopped s) (connected s) (round_fails s) (in_slow s) (lcl s) b (log s).

Definition st0 (up0 : bool) : opstate := if up0 then Up else Down.
Definition is_up (o : opstate) : bool := match o with Up => true | Down => false end.

(* svc.UpdateDeviceOperatingState(name, o).  Down: isUp=false, call, on error isUp=true again.
   Up: call, on success isUp=true.  Net effect: isUp changes iff the call succeeds. *)
Definition report (s : state) (o : opstate) : state :=
  if sdk_fails s then app s (LReport o false)
  else app (set_isUp s (is_up o)) (LReport o true).

(* device.go:189-204 *)
Definition down_block (s : state) : state := if isUp s then report s Down else s.
(* device.go:463-477 (first half of onConnect) *)
Definition on_connect (s : state) : state := if isUp s then s else report s Up.

(* a failed attempt inside Quick.RetryWithCtx(ctx, maxConnAttempts, ...): either one more attempt
   after the quick back-off, or the round is exhausted: Down block, then the slow back-off *)
Definition fail (s : state) : state :=
  let s := app s LFail in
  if S (round_fails s) <? max_conn_attempts
  then set_round s (S (round_fails s)) false
  else down_block (set_round s 0 true).

(* the attempt returned nil: Quick returns nil, the Slow func returns (true,nil), Slow returns nil,
   the outer loop starts both policies afresh *)
Definition normal_reset (s : state) : state := set_round (app s LNormal) 0 false.

(* c is closed although the supervisor is about to use it for the next connection *)
Definition poisoned (s : state) : bool :=
  match lcl s with LNil | LClosed => true | _ => false end.

(* a successful connection event: the handler starts onConnect; then negotiation, which fails
   with ErrClientClosed when the client had been closed beforehand *)
Definition handshake (s : state) : state :=
  let p := poisoned s in
  let s := on_connect (app s LHandshake) in
  if p then normal_reset (set_conn s false LFresh) else set_conn s true LConn.

(* the established connection breaks: Connect returns an error that is not ErrClientClosed *)
Definition drop (s : state) : state :=
  if connected s then fail (set_conn s false LFresh) else s.

(* our side closes the established connection (Shutdown/Close): Connect returns ErrClientClosed;
   closeLocked's l.client = nil is overwritten by the supervisor's replacement *)
Definition close_conn (s : state) : state := normal_reset (set_conn s false LFresh).

(* closeLocked on a client that is not connected. With a live context Shutdown waits for the
   client to become ready until the context expires (assumed to have a deadline), then Close()s
   it and reports the error, leaving the closed client in place; with a finished context it
   Close()s at once and clears l.client; an already closed client is cleared. *)
Definition close_locked (force : bool) (s : state) : state :=
  match lcl s with
  | LNil => s
  | LFresh => set_lcl s (if force then LNil else LClosed)
  | LClosed => set_lcl s LNil
  | LConn => s
  end.

Definition dial_enabled (s : state) : bool := negb (stopped s) && negb (connected s).

Definition retriable (c : sclass) : bool :=
  match c with SClosed | SNoClient => true | _ => false end.

(* retry.Quick.RetryWithCtx(ctx, maxSendAttempts, f) as used by TrySend, without cancellation:
   res k is what the k-th call of f meets; returns (number of calls, class of the last one) *)
Fixpoint try_send_from (more : nat) (res : nat -> sclass) (k : nat) : nat * sclass :=
  let c := res k in
  match more with
  | 0 => (S k, c)
  | S m => if retriable c then try_send_from m res (S k) else (S k, c)
  end.
Definition try_send (res : nat -> sclass) : nat * sclass :=
  try_send_from (max_send_attempts - 1) res 0.

(* what an attempt meets in a given client state *)
Definition send_class (l : lclient) (r : reader_reply) : sclass :=
  match l with
  | LNil => SNoClient
  | LClosed => SClosed
  | LFresh => SCtx
  | LConn => match r with
             | ReaderOk => SOk
             | ReaderRejects | ReaderErrorMessage => SStatus
             | ReaderWrongType | ReaderGarbage => SOther
             | ReaderLate => SCtx
             end
  end.

Definition step (s : state) (e : event) : state :=
  match e with
  | Dial o =>
    if dial_enabled s then
      let s := app (set_round s (round_fails s) false) (LDial (cur_addr s)) in
      match o with
      | Refused => fail s                                  (* returns before replacing the client *)
      | AcceptedSilent | BadHandshake => fail (set_lcl s LFresh)
      | Established => handshake s
      | HandshakeThenDropped => drop (handshake s)
      | ClosedNormally => let s := handshake s in if connected s then close_conn s else s
      end
    else s
  | Drop => drop s
  | Stop force =>
    if stopped s then close_locked force s
    else
      let s := app (set_stopped s) LStop in
      if connected s then close_conn s
      else
        (* Quick's wait (or its entry check) sees the cancellation and returns an *FError, which
           is neither nil nor == context.Canceled: the Down block runs. In the slow wait the
           loop just ends. *)
        let s := if in_slow s then s else down_block s in
        close_locked force s
  | UpdateAddr a force =>
    let old := cur_addr s in
    let s := app (set_addr s a) (LSetAddr a) in
    if N.eqb a old then s
    else if connected s then close_conn s
    else close_locked force s
  | StopAtEntry force =>
    if stopped s then close_locked force s
    else
      let s := app (set_stopped s) LStop in
      if connected s then close_conn s
      else
        let s := if in_slow s || Nat.eqb (round_fails s) 0 then s else down_block s in
        close_locked force s
  | SdkFail b => set_sdk s b
  | Send r =>
    let c0 := send_class (lcl s) r in
    let '(n, c) := try_send (fun _ => c0) in
    app s (LSend n (match c with SNoClient => 0 | _ => n end) c)
  end.

Definition run (s : state) (evs : list event) : state := fold_left step evs s.

(* ---- functions of the history alone, used to state the properties ---- *)

(* the operating state EdgeX holds: the last successful report, else the initial one *)
Fixpoint last_report (cur : opstate) (l : list entry) : opstate :=
  match l with
  | [] => cur
  | LReport o true :: l' => last_report o l'
  | _ :: l' => last_report cur l'
  end.

Fixpoint reports (l : list entry) : list opstate :=
  match l with
  | [] => []
  | LReport o true :: l' => o :: reports l'
  | _ :: l' => reports l'
  end.

Fixpoint calls (l : list entry) : list (opstate * bool) :=
  match l with
  | [] => []
  | LReport o b :: l' => (o, b) :: calls l'
  | _ :: l' => calls l'
  end.

Fixpoint dials (l : list entry) : list addr :=
  match l with
  | [] => []
  | LDial a :: l' => a :: dials l'
  | _ :: l' => dials l'
  end.

(* failed attempts since the reader last accepted a connection (the break of that connection
   included), counted over the history: acc is the count so far *)
Fixpoint fails_since_hs_acc (acc : nat) (l : list entry) : nat :=
  match l with
  | [] => acc
  | LHandshake :: l' => fails_since_hs_acc 0 l'
  | LFail :: l' => fails_since_hs_acc (S acc) l'
  | _ :: l' => fails_since_hs_acc acc l'
  end.
Definition fails_since_hs (l : list entry) : nat := fails_since_hs_acc 0 l.

(* consecutive failed attempts as EdgeX can count them: failed attempts since it was last told Up
   and since an attempt last ended normally (a handshake alone does not restart the count: a reader
   whose every connection breaks is not reachable) *)
Fixpoint fails_consec_acc (acc : nat) (l : list entry) : nat :=
  match l with
  | [] => acc
  | LReport Up true :: l' => fails_consec_acc 0 l'
  | LNormal :: l' => fails_consec_acc 0 l'
  | LFail :: l' => fails_consec_acc (S acc) l'
  | _ :: l' => fails_consec_acc acc l'
  end.
Definition fails_consec (l : list entry) : nat := fails_consec_acc 0 l.

(* consecutive reports differ, starting from the initial state *)
Fixpoint alternates (cur : opstate) (l : list opstate) : bool :=
  match l with
  | [] => true
  | o :: l' => negb (Bool.eqb (is_up cur) (is_up o)) && alternates o l'
  end.

(* the address in force after a list of events *)
Fixpoint last_addr (a : addr) (evs : list event) : addr :=
  match evs with
  | [] => a
  | UpdateAddr b _ :: evs' => last_addr b evs'
  | _ :: evs' => last_addr a evs'
  end.

Definition is_stop (e : event) : bool := match e with Stop _ | StopAtEntry _ => true | _ => false end.
Definition is_sdkfail (e : event) : bool := match e with SdkFail true => true | _ => false end.
Definition is_established (e : event) : bool := match e with Dial Established => true | _ => false end.
Definition handshake_ok (o : outcome) : bool :=
  match o with HandshakeThenDropped | ClosedNormally | Established => true | _ => false end.

(* state in which the harness may act between two attempts without racing the supervisor:
   connected, stopped, or sitting in a back-off *)
Definition quiescent (s : state) : bool :=
  stopped s || connected s || in_slow s || (0 <? round_fails s).
