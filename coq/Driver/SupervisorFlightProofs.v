(* C15 — proofs about Driver/SupervisorFlight.v (reports in flight, dials in flight) *)
From Coq Require Import NArith List Bool Arith Lia.
From LLRP Require Import Driver.Supervisor Driver.SupervisorProofs Driver.SupervisorFlight.
Import ListNotations.

(* ---------- history functions and append ---------- *)
Lemma ffails_acc_app : forall l1 l2 acc,
  ffails_acc acc (l1 ++ l2) = ffails_acc (ffails_acc acc l1) l2.
Proof.
  induction l1 as [|e l1 IH]; intros; cbn [List.app ffails_acc]; auto.
  destruct e as [| | | | | | |o|o b]; auto. destruct o; auto.
Qed.

Lemma fconns_app : forall l1 l2, fconns (l1 ++ l2) = fconns l1 + fconns l2.
Proof.
  induction l1 as [|e l1 IH]; intros; cbn [List.app fconns]; auto.
  destruct e; auto. cbn [plus]. now rewrite IH.
Qed.

Lemma fdials_app : forall l1 l2, fdials (l1 ++ l2) = fdials l1 + fdials l2.
Proof.
  induction l1 as [|e l1 IH]; intros; cbn [List.app fdials]; auto.
  destruct e; auto. cbn [plus]. now rewrite IH.
Qed.

Lemma proj_log_app : forall a l1 l2, proj_log a (l1 ++ l2) = proj_log a l1 ++ proj_log a l2.
Proof.
  induction l1 as [|e l1 IH]; intros; cbn [List.app proj_log]; auto.
  destruct e; auto; cbn [List.app]; now rewrite IH.
Qed.

Ltac destruct_ors := repeat match goal with H : _ \/ _ |- _ => destruct H end.

Ltac ffields := cbn [f_isUp f_conn f_pending f_fails f_slow f_stopped f_busy f_arm f_flight f_edgex f_log
                     fapp fset_isUp fset_conn fset_pending fset_round fset_stopped fset_arm
                     fset_flight fset_edgex down_waits dial_bound] in *.

Ltac fbrute :=
  unfold fstep, fdial_enabled, faccepted, ffail, fdown_block, fon_connect, issue, returned,
         max_conn_attempts, ffails_since_up in *;
  ffields.

#[export] Hint Rewrite ffails_acc_app fconns_app fdials_app proj_log_app : fhist.
Ltac fhist := autorewrite with fhist in *;
              cbn [ffails_acc fconns fdials proj_log List.app plus] in *.

(* ---------- the invariant of the tree's variant of the Down block (the supervisor waits) ---------- *)
Record FInv (s : fstate) : Prop := {
  fi_busy : f_busy s = true -> f_flight s = Some Down /\ f_conn s = false /\ f_pending s = false;
  fi_down : f_flight s = Some Down -> f_busy s = true /\ f_isUp s = false;
  fi_edge : f_isUp s = true -> f_edgex s = Up;
  fi_none : f_flight s = None -> f_isUp s = is_up (f_edgex s);
  fi_conn : f_conn s = true ->
            (f_isUp s = true \/ f_flight s = Some Up) /\ f_stopped s = false /\ f_pending s = false /\
            ffails_since_up (f_log s) = 0;
  fi_fails : f_fails s <= 1;
  fi_cnt : f_isUp s = true -> ffails_since_up (f_log s) <= f_fails s
}.

Lemma FInv_init : forall up0, FInv (finit up0).
Proof.
  intros. constructor; cbn; auto; try discriminate; try lia.
  - destruct up0; auto; discriminate.
  - destruct up0; reflexivity.
Qed.

Ltac find_var c :=
  match c with
  | negb ?x => find_var x
  | andb ?x _ => find_var x
  | orb ?x _ => find_var x
  | _ => let _ := match goal with _ => is_var c end in c
  end.

(* split only on what the step really looks at *)
Ltac step_cases :=
  repeat (ffields; cbn [negb andb orb Nat.ltb Nat.leb];
          match goal with
          | |- context [if ?c then _ else _] => let v := find_var c in destruct v
          | |- context [match ?x with Some _ => _ | None => _ end] => is_var x; destruct x
          | |- context [match ?x with Up => _ | Down => _ end] => is_var x; destruct x
          end);
  ffields; cbn [negb andb orb Nat.ltb Nat.leb].

Ltac hyps :=
  repeat match goal with
         | H : ?x = ?x -> _ |- _ => specialize (H eq_refl)
         | H : true = false -> _ |- _ => clear H
         | H : false = true -> _ |- _ => clear H
         | H : Some _ = None -> _ |- _ => clear H
         | H : None = Some _ -> _ |- _ => clear H
         | H : Some Up = Some Down -> _ |- _ => clear H
         | H : Some Down = Some Up -> _ |- _ => clear H
         | H : Some ?a = Some ?b |- _ => assert (a = b) by congruence; clear H; subst
         | H : ?P, H' : ?P -> _ |- _ => specialize (H' H)
         | H : _ /\ _ |- _ => destruct H
         | H : ?v = _ |- _ => is_var v; subst v
         | H : _ = ?v |- _ => is_var v; subst v
         end.

Ltac ffin :=
  constructor; unfold ffails_since_up in *; ffields; intros; fhist; hyps;
  try discriminate; try (exfalso; congruence); auto;
  try (repeat split; auto; try discriminate; try congruence; lia);
  try (destruct_ors; hyps; auto; try discriminate; try congruence;
       repeat split; auto; try discriminate; try congruence; lia);
  try (repeat match goal with b : bool |- _ => destruct b end; hyps;
       repeat split; auto; try discriminate; try congruence; lia).

Lemma FInv_step : forall db s e, FInv s -> FInv (fstep (mkFF true db) s e).
Proof.
  intros db s e [A B C D E F G].
  destruct s as [up co pe rf sl st bu ar fli ed lg]. ffields.
  assert (R : rf = 0 \/ rf = 1) by lia. clear F.
  unfold ffails_since_up in *.
  destruct e as [ok| |ok| | | |]; destruct R; subst rf; fbrute.
  all: step_cases; ffin.
Qed.

Lemma FInv_run : forall db evs s, FInv s -> FInv (frun (mkFF true db) s evs).
Proof.
  intros db evs. induction evs as [|e evs IH]; intros; cbn [frun fold_left]; auto.
  apply IH, FInv_step; auto.
Qed.

(* ---------- what EdgeX holds is the call that returned last ---------- *)
Fixpoint flast_done (cur : opstate) (l : list fentry) : opstate :=
  match l with
  | [] => cur
  | FLDone o _ :: l' => flast_done o l'
  | _ :: l' => flast_done cur l'
  end.

Lemma flast_done_app : forall l1 l2 cur,
  flast_done cur (l1 ++ l2) = flast_done (flast_done cur l1) l2.
Proof.
  induction l1 as [|e l1 IH]; intros; cbn [List.app flast_done]; auto.
  destruct e; auto.
Qed.

Lemma edgex_step : forall fl s e cur,
  f_edgex s = flast_done cur (f_log s) ->
  f_edgex (fstep fl s e) = flast_done cur (f_log (fstep fl s e)).
Proof.
  intros [dw db] s e cur H.
  destruct s as [up co pe rf sl st bu ar fli ed lg]. ffields.
  destruct e as [ok| |ok| | | |]; fbrute; step_cases;
    rewrite ?flast_done_app, <- ?H; cbn [flast_done]; auto;
    destruct rf as [|[|rf]]; cbn [Nat.ltb Nat.leb]; step_cases;
    rewrite ?flast_done_app, <- ?H; cbn [flast_done]; auto.
Qed.

Lemma edgex_run : forall fl evs s cur,
  f_edgex s = flast_done cur (f_log s) ->
  f_edgex (frun fl s evs) = flast_done cur (f_log (frun fl s evs)).
Proof.
  intros fl evs. induction evs as [|e evs IH]; intros; cbn [frun fold_left]; auto.
  apply IH, edgex_step; auto.
Qed.

(* ---------- dials in flight: nothing pends while a connection stands or the supervisor is busy ---------- *)
Record PInv (s : fstate) : Prop := {
  pi_pend : f_pending s = true -> f_conn s = false /\ f_busy s = false;
  pi_conn : f_conn s = true -> f_stopped s = false /\ f_busy s = false
}.

Lemma PInv_init : forall up0, PInv (finit up0).
Proof. intros. constructor; cbn; intros; try discriminate. Qed.

Ltac pfin :=
  constructor; ffields; intros; hyps; try discriminate; auto;
  try (repeat split; auto; try discriminate; congruence);
  try (repeat match goal with b : bool |- _ => destruct b end; hyps;
       repeat split; auto; try discriminate; congruence).

Lemma PInv_step : forall fl s e, PInv s -> PInv (fstep fl s e).
Proof.
  intros [dw db] s e [A B].
  destruct s as [up co pe rf sl st bu ar fli ed lg]. ffields.
  destruct e as [ok| |ok| | | |]; fbrute; destruct rf as [|[|rf]]; cbn [Nat.ltb Nat.leb];
    step_cases; pfin.
Qed.

Lemma PInv_run : forall fl evs s, PInv s -> PInv (frun fl s evs).
Proof.
  intros fl evs. induction evs as [|e evs IH]; intros; cbn [frun fold_left]; auto.
  apply IH, PInv_step; auto.
Qed.

Lemma frun_app : forall fl evs1 evs2 s, frun fl s (evs1 ++ evs2) = frun fl (frun fl s evs1) evs2.
Proof. intros. unfold frun. apply fold_left_app. Qed.

(* the dial bound to the context: a stopped device has no dial in flight and no connection *)
Record SInv (s : fstate) : Prop := {
  si_p : PInv s;
  si_stop : f_stopped s = true -> f_pending s = false /\ f_conn s = false
}.

Lemma SInv_init : forall up0, SInv (finit up0).
Proof. intros. constructor; [apply PInv_init|cbn; discriminate]. Qed.

Lemma SInv_step : forall dw s e, SInv s -> SInv (fstep (mkFF dw true) s e).
Proof.
  intros dw s e [P S]. constructor; [apply PInv_step; auto|].
  destruct P as [A B].
  destruct s as [up co pe rf sl st bu ar fli ed lg]. ffields.
  destruct e as [ok| |ok| | | |]; fbrute; destruct rf as [|[|rf]]; cbn [Nat.ltb Nat.leb];
    step_cases; ffields; intros; hyps; try discriminate; auto;
    try (repeat match goal with b : bool |- _ => destruct b end; hyps;
         repeat split; auto; try discriminate; congruence).
Qed.

Lemma SInv_run : forall dw evs s, SInv s -> SInv (frun (mkFF dw true) s evs).
Proof.
  intros dw evs. induction evs as [|e evs IH]; intros; cbn [frun fold_left]; auto.
  apply IH, SInv_step; auto.
Qed.

Lemma stop_ends_dial : forall dw s, SInv s ->
  let s' := fstep (mkFF dw true) s FStop in
  f_stopped s' = true /\ f_pending s' = false /\ f_conn s' = false /\
  fconns (f_log s') = fconns (f_log s) /\ fdials (f_log s') = fdials (f_log s).
Proof.
  intros dw s I s'.
  assert (St : f_stopped s' = true /\ fconns (f_log s') = fconns (f_log s) /\ fdials (f_log s') = fdials (f_log s)).
  { unfold s'. clear. destruct s as [up co pe rf sl st bu ar fli ed lg].
    fbrute. step_cases; fhist; repeat split; auto; lia. }
  destruct St as [S1 [S2 S3]].
  destruct (si_stop _ (SInv_step dw s FStop I) S1) as [K1 K2]. fold s' in K1, K2.
  repeat split; auto.
Qed.

Lemma stopped_quiet : forall fl s e,
  f_stopped s = true -> f_pending s = false -> f_conn s = false ->
  let s' := fstep fl s e in
  f_stopped s' = true /\ f_pending s' = false /\ f_conn s' = false /\
  fconns (f_log s') = fconns (f_log s) /\ fdials (f_log s') = fdials (f_log s).
Proof.
  intros [dw db] s e H1 H2 H3. destruct s as [up co pe rf sl st bu ar fli ed lg]. ffields. subst.
  destruct e as [ok| |ok| | | |]; fbrute; step_cases; fhist; repeat split; auto; lia.
Qed.

Lemma stopped_quiet_run : forall fl evs s,
  f_stopped s = true -> f_pending s = false -> f_conn s = false ->
  fconns (f_log (frun fl s evs)) = fconns (f_log s) /\ fdials (f_log (frun fl s evs)) = fdials (f_log s).
Proof.
  intros fl evs. induction evs as [|e evs IH]; intros s H1 H2 H3; cbn [frun fold_left]; auto.
  destruct (stopped_quiet fl s e H1 H2 H3) as [K1 [K2 [K3 [K4 K5]]]].
  destruct (IH _ K1 K2 K3) as [J1 J2]. unfold frun in *. split; congruence.
Qed.

(* ---------- the theorems of Props/C15.v ---------- *)
Lemma no_attempt_while_down_in_flight : forall db up0 evs,
  let fl := mkFF true db in
  let s := frun fl (finit up0) evs in
  f_flight s = Some Down ->
  f_conn s = false /\ f_pending s = false /\
  (forall ok, fstep fl s (FDial ok) = s) /\ fstep fl s FDialStart = s.
Proof.
  intros db up0 evs fl s H.
  pose proof (FInv_run db evs _ (FInv_init up0)) as I. fold fl in I. fold s in I.
  destruct I as [A B _ _ _ _ _]. destruct (B H) as [B1 _]. destruct (A B1) as [_ [A2 A3]].
  repeat split; auto; intros; cbn [fstep]; unfold fdial_enabled; rewrite B1;
    now rewrite !andb_false_r.
Qed.

Lemma edgex_up_when_connected : forall db up0 evs,
  let s := frun (mkFF true db) (finit up0) evs in
  f_conn s = true -> f_flight s = None -> f_edgex s = Up.
Proof.
  intros db up0 evs s Hc Hf.
  pose proof (FInv_run db evs _ (FInv_init up0)) as I. fold s in I.
  destruct I as [_ _ C _ E _ _]. destruct (E Hc) as [[U|U] _]; auto. congruence.
Qed.

Lemma edgex_down_after_two : forall db up0 evs,
  let s := frun (mkFF true db) (finit up0) evs in
  f_flight s = None -> 2 <= ffails_since_up (f_log s) -> f_edgex s = Down.
Proof.
  intros db up0 evs s Hf H2.
  pose proof (FInv_run db evs _ (FInv_init up0)) as I. fold s in I.
  destruct I as [_ _ _ D _ F G]. specialize (D Hf).
  destruct (f_edgex s); auto. cbn in D. specialize (G D). lia.
Qed.

Lemma isup_is_edgex : forall db up0 evs,
  let s := frun (mkFF true db) (finit up0) evs in
  f_flight s = None -> f_isUp s = is_up (f_edgex s).
Proof.
  intros db up0 evs s Hf.
  apply (fi_none _ (FInv_run db evs _ (FInv_init up0))). exact Hf.
Qed.

Lemma edgex_is_last_returned : forall fl up0 evs,
  let s := frun fl (finit up0) evs in f_edgex s = flast_done (st0 up0) (f_log s).
Proof. intros. apply edgex_run. reflexivity. Qed.

Lemma no_connection_after_stop : forall dw up0 evs1 evs2,
  let fl := mkFF dw true in
  fconns (f_log (frun fl (finit up0) (evs1 ++ FStop :: evs2))) = fconns (f_log (frun fl (finit up0) evs1)) /\
  fdials (f_log (frun fl (finit up0) (evs1 ++ FStop :: evs2))) = fdials (f_log (frun fl (finit up0) evs1)).
Proof.
  intros dw up0 evs1 evs2 fl. rewrite frun_app. cbn [frun fold_left].
  pose proof (SInv_run dw evs1 _ (SInv_init up0)) as P.
  destruct (stop_ends_dial dw _ P) as [K1 [K2 [K3 [K4 K5]]]].
  destruct (stopped_quiet_run fl evs2 _ K1 K2 K3) as [J1 J2].
  unfold frun, fl in *. split; congruence.
Qed.

(* ---------- without slow calls and hanging dials this is Supervisor.v ---------- *)
Record Sim (a0 : addr) (s : state) (f : fstate) : Prop := {
  sm_up : isUp s = f_isUp f;
  sm_st : stopped s = f_stopped f;
  sm_co : connected s = f_conn f;
  sm_rf : round_fails s = f_fails f;
  sm_sl : in_slow s = f_slow f;
  sm_sdk : sdk_fails s = false;
  sm_addr : cur_addr s = a0;
  sm_log : log s = proj_log a0 (f_log f);
  sm_lcl : stopped s = false -> lcl s = if connected s then LConn else LFresh;
  sm_quiet : f_pending f = false /\ f_busy f = false /\ f_arm f = false /\ f_flight f = None
}.

Lemma Sim_step : forall fl a0 s f e, atomic_ev e = true -> Sim a0 s f ->
  Sim a0 (step s (to_base e)) (fstep fl f e).
Proof.
  intros [dw db] a0 s f e He [A B C D E F G H I [J1 [J2 [J3 J4]]]].
  destruct s as [up a st co rf sl lc sf lg].
  destruct f as [fup fco fpe frf fsl fst fbu far ffli fed flg].
  fields. ffields. subst.
  destruct e as [ok| |ok| | | |]; try discriminate; try destruct ok; cbn [to_base];
    destruct fst, fco; try specialize (I eq_refl); subst;
    destruct fup, fsl, frf as [|[|frf]];
    try (destruct lc);
    unfold step, dial_enabled, drop, handshake, close_conn, normal_reset, fail, down_block,
           on_connect, report, close_locked, poisoned, max_conn_attempts;
    fields; fbrute; cbn;
    constructor; fields; ffields; auto; try discriminate;
    rewrite ?proj_log_app; cbn [proj_log List.app]; rewrite <- ?app_assoc; cbn [List.app]; auto;
    try (intros; discriminate).
Qed.

Lemma Sim_init : forall up0 a0, Sim a0 (init up0 a0) (finit up0).
Proof. intros. constructor; cbn; auto. Qed.

Lemma Sim_run : forall fl a0 evs s f, forallb atomic_ev evs = true -> Sim a0 s f ->
  Sim a0 (run s (map to_base evs)) (frun fl f evs).
Proof.
  intros fl a0 evs. induction evs as [|e evs IH]; intros s f H S; cbn [run frun fold_left map]; auto.
  cbn [forallb] in H. apply andb_true_iff in H. destruct H as [H1 H2].
  apply (IH (step s (to_base e)) (fstep fl f e)); auto. apply Sim_step; auto.
Qed.

Lemma flight_refines_supervisor : forall fl up0 a0 evs,
  forallb atomic_ev evs = true ->
  let f := frun fl (finit up0) evs in
  let s := run (init up0 a0) (map to_base evs) in
  log s = proj_log a0 (f_log f) /\ isUp s = f_isUp f /\ stopped s = f_stopped f /\
  connected s = f_conn f /\ f_flight f = None /\ f_pending f = false.
Proof.
  intros fl up0 a0 evs H f s.
  destruct (Sim_run fl a0 evs _ _ H (Sim_init up0 a0)) as [A B C D E F G L I [J1 [J2 [J3 J4]]]].
  repeat split; auto.
Qed.
