(* Soundness of the decidable syntactic equalities of DecFIR/IR.v: eqb = true -> Leibniz equality. *)
From Coq Require Import NArith List Bool.
From LLRP Require Import Codec.Schema EncIR.IR EncIR.EqbSound DecFIR.IR.
Import ListNotations.
Open Scope N_scope.

Ltac neq :=
  repeat match goal with
         | H : (_ =? _) = true |- _ => apply N.eqb_eq in H
         | H : Bool.eqb _ _ = true |- _ => apply Bool.eqb_prop in H
         | H : optN_eqb _ _ = true |- _ => apply optN_eqb_eq in H
         end.

Lemma dexpr_eqb_eq a : forall b, dexpr_eqb a b = true -> a = b.
Proof.
  induction a; intros [] H; cbn in H; try discriminate; split_andb; neq;
    repeat match goal with
           | IH : forall b, dexpr_eqb ?a b = true -> _, H : dexpr_eqb ?a _ = true |- _ => apply IH in H
           end; subst; reflexivity.
Qed.

Lemma lenck_eqb_eq a b : lenck_eqb a b = true -> a = b.
Proof. destruct a, b; cbn; try discriminate; intros H; split_andb; neq; subst; reflexivity. Qed.

Lemma arrmode_eqb_eq a b : arrmode_eqb a b = true -> a = b.
Proof. destruct a, b; cbn; try discriminate; intros H; split_andb; neq; subst; reflexivity. Qed.

Lemma Ns_eqb_eq a : forall b, Ns_eqb a b = true -> a = b.
Proof.
  induction a as [|x a IH]; intros [|y b] H; cbn in H; try discriminate; [reflexivity|].
  split_andb. neq. subst. f_equal. apply IH. assumption.
Qed.

Lemma fstmt_eqb_eq a b : fstmt_eqb a b = true -> a = b.
Proof.
  destruct a, b; cbn [fstmt_eqb]; try discriminate; intros H; split_andb; neq;
    repeat match goal with
           | H : dexpr_eqb _ _ = true |- _ => apply dexpr_eqb_eq in H
           | H : arrmode_eqb _ _ = true |- _ => apply arrmode_eqb_eq in H
           | H : Ns_eqb _ _ = true |- _ => apply Ns_eqb_eq in H; injection H as; subst
           end; subst; reflexivity.
Qed.

Lemma hibound_eqb_eq a b : hibound_eqb a b = true -> a = b.
Proof. destruct a, b; cbn; try discriminate; intros H; neq; subst; reflexivity. Qed.
Lemma callmode_eqb_eq a b : callmode_eqb a b = true -> a = b.
Proof. destruct a, b; cbn; try discriminate; reflexivity. Qed.
Lemma subdec_eqb_eq a b : subdec_eqb a b = true -> a = b.
Proof.
  destruct a, b; cbn; try discriminate; intros H; split_andb; neq;
    repeat match goal with
           | H : callmode_eqb _ _ = true |- _ => apply callmode_eqb_eq in H
           | H : hibound_eqb _ _ = true |- _ => apply hibound_eqb_eq in H
           | H : dexpr_eqb _ _ = true |- _ => apply dexpr_eqb_eq in H
           end; subst; reflexivity.
Qed.
Lemma lencheck_eqb_eq a b : lencheck_eqb a b = true -> a = b.
Proof. destruct a, b; cbn; try discriminate; intros H; split_andb; neq; subst; reflexivity. Qed.
Lemma adv_eqb_eq a b : adv_eqb a b = true -> a = b.
Proof. destruct a, b; cbn; try discriminate; intros H; neq; subst; reflexivity. Qed.
Lemma pcase_eqb_eq a b : pcase_eqb a b = true -> a = b.
Proof.
  destruct a, b. unfold pcase_eqb. cbn. intros H. split_andb. neq.
  apply lencheck_eqb_eq in H2. apply subdec_eqb_eq in H1. apply adv_eqb_eq in H0. subst. reflexivity.
Qed.
Lemma ghdr_eqb_eq a b : ghdr_eqb a b = true -> a = b.
Proof. destruct a, b; cbn; try discriminate; intros H; split_andb; neq; subst; reflexivity. Qed.
Lemma sstmt_eqb_eq a b : sstmt_eqb a b = true -> a = b.
Proof.
  destruct a, b; cbn [sstmt_eqb]; try discriminate; intros H; split_andb; neq;
    repeat match goal with
           | H : pcase_eqb _ _ = true |- _ => apply pcase_eqb_eq in H
           | H : ghdr_eqb _ _ = true |- _ => apply ghdr_eqb_eq in H
           | H : list_eqb pcase_eqb _ _ = true |- _ => apply (list_eqb_eq _ pcase_eqb_eq) in H
           end; subst; reflexivity.
Qed.
Lemma zkind_eqb_eq a b : zkind_eqb a b = true -> a = b.
Proof. destruct a, b; cbn; try discriminate; intros H; neq; subst; reflexivity. Qed.

Lemma dprog_eqb_eq a b : dprog_eqb a b = true -> a = b.
Proof.
  destruct a, b. unfold dprog_eqb. cbn. intros H. split_andb. neq.
  apply (list_eqb_eq _ gtype_eqb_eq) in H.
  apply (list_eqb_eq _ zkind_eqb_eq) in H4. apply lenck_eqb_eq in H3.
  apply (list_eqb_eq _ fstmt_eqb_eq) in H2. apply (list_eqb_eq _ sstmt_eqb_eq) in H1.
  subst. reflexivity.
Qed.
