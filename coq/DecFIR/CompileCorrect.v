(* What is PROVED about the decoder IR (see notes/DecFIR.md for what is not):
     - dprogs_match_parts: a program set accepted by [dprogs_match] consists, container by container, of exactly
       `dcompile t d c` for a struct declaration d that fits the schema (so every statement about dcompile is a
       statement about the translated code);
     - the equality "run ps fuel bs = of_opt (decode t fuel bs) for ALL byte strings" is FALSE of what the LLRP
       schema compiles to (and of Go): three closed counterexamples, by computation;
   the sampled agreement (the IR semantics of this run's translated decoders and the model decoder both return v
   from the encoding of v, for a sample of well-formed v of all 169 containers) is a per-run theorem,
   build/gen/C01/Ob_samples.v.
   NOT proved (the target, stated for the record):
     forall t ps, dec_schema_ok t = true -> dprogs_match t ps = true ->
     forall msg tid bs v fuel, byte_list bs -> decode t fuel msg tid bs = Some v -> wfv t v -> big_enough fuel ->
       run ps fuel msg tid bs = DOk v. *)
From Coq Require Import NArith List Bool.
From LLRP Require Import Codec.Schema Codec.Encode Codec.Decode Codec.Wf Codec.WfBool Codec.SchemaTable
     EncIR.IR EncIR.Compile EncIR.EqbSound DecFIR.IR DecFIR.Compile DecFIR.Sem DecFIR.EqbSound.
Import ListNotations.
Open Scope N_scope.

Lemma dprogs_match_parts t ps : dprogs_match t ps = true ->
  dp_has_le ps = true /\
  forall c, In c t ->
    exists p, dlookup (dp_progs ps) (is_msg_kind (c_kind c)) (c_tid c) = Some p /\
              struct_ok c (d_struct p) (d_inline p) = true /\ p = dcompile t (d_struct p) c.
Proof.
  unfold dprogs_match. intros H. apply andb_true_iff in H as [H Hall]. apply andb_true_iff in H as [Hh _].
  split; [exact Hh|].
  intros c Hin. rewrite forallb_forall in Hall. specialize (Hall c Hin). unfold dcontainer_matches in Hall.
  destruct (dlookup (dp_progs ps) (is_msg_kind (c_kind c)) (c_tid c)) as [p|]; [|discriminate].
  apply andb_true_iff in Hall as [H1 H2]. exists p. repeat split; [exact H1|].
  symmetry. apply dprog_eqb_eq, H2.
Qed.

(* the decoders the LLRP schema compiles to *)
Definition llrp_dec : dprograms := dcanon_programs llrp_table.

Lemma llrp_dec_matches : dprogs_match llrp_table llrp_dec = true.
Proof. vm_compute. reflexivity. Qed.

(* 1. the code accepts what the model rejects: a fixed-size TLV (ReceiveSensitivityTableEntry, 4 body bytes) that
      declares 9 bytes and carries a stray fifth body byte: hasEnoughBytes only demands needed <= got *)
Theorem decoder_equality_refuted_trailing :
  exists bs v, run llrp_dec 16 false 139 bs = DOk v /\ decode llrp_table 16 false 139 bs = None.
Proof.
  exists [0; 139; 0; 9; 0; 1; 0; 2; 255], (VStruct false 139 [VNum 1; VNum 2] []).
  vm_compute. split; reflexivity.
Qed.

(* 2. the code accepts sub-parameters of one loop group in any order: ROAccessReport with a Custom parameter BEFORE
      a TagReportData; the model (and the LLRP grammar) demand TagReportData*, RFSurveyReportData*, Custom* *)
Definition out_of_order_report : bytes :=
  [3; 255; 0; 12; 0; 0; 0; 1; 0; 0; 0; 2] ++ [0; 240; 0; 17; 141; 1; 2; 3; 4; 5; 6; 7; 8; 9; 10; 11; 12].

Theorem decoder_equality_refuted_order :
  (exists v, run llrp_dec 16 true 61 out_of_order_report = DOk v) /\
  decode llrp_table 16 true 61 out_of_order_report = None /\
  (* the same two parameters in grammar order are accepted by both, with the same value *)
  exists v, run llrp_dec 16 true 61 (skipn 12 out_of_order_report ++ firstn 12 out_of_order_report) = DOk v /\
            decode llrp_table 16 true 61 (skipn 12 out_of_order_report ++ firstn 12 out_of_order_report) = Some v.
Proof.
  split; [|split].
  - eexists. vm_compute. reflexivity.
  - vm_compute. reflexivity.
  - eexists. vm_compute. split; reflexivity.
Qed.

(* 3. the model accepts what the code rejects, but only values outside C01's domain: a UHFBandCapabilities without
      any TransmitPowerLevel (a 1-n sub-parameter), and a FrequencyRSSILevelEntry with neither timestamp *)
Theorem decoder_forward_needs_wf_refuted :
  (exists v, decode llrp_table 16 false 144 [0; 144; 0; 13; 0; 146; 0; 5; 0; 1; 72; 0; 4] = Some v /\
             wfvb llrp_table v = false /\
             run llrp_dec 16 false 144 [0; 144; 0; 13; 0; 146; 0; 5; 0; 1; 72; 0; 4] = DErr) /\
  (exists v, decode llrp_table 16 false 243 [0; 243; 0; 14; 0; 0; 0; 0; 0; 0; 0; 0; 0; 0] = Some v /\
             wfvb llrp_table v = false /\
             run llrp_dec 16 false 243 [0; 243; 0; 14; 0; 0; 0; 0; 0; 0; 0; 0; 0; 0] = DErr).
Proof.
  split; eexists; vm_compute; repeat split; reflexivity.
Qed.
