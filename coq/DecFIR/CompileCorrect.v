(* The semantics (DecFIR/Sem.v) of the decoder IR the schema compiles to (DecFIR/Compile.v) follows the model decoder
   Codec/Decode.v: whatever the model decodes to a well-formed value, the IR decodes to the same value; hence so does any
   translated program set accepted by [dprogs_match].

     Theorem dprogs_match_correct t ps : dec_schema_ok t = true -> dprogs_match t ps = true ->
       forall msg tid bs v fuel, byte_list bs -> decode t fuel msg tid bs = Some v -> wfv t v ->
         run ps (if msg then S fuel else fuel) msg tid bs = DOk v.

   (no "big enough fuel" premise: that the model succeeded with [fuel] is enough; a message's decoder calls its
   parameters' decoders with the model's fuel, hence the S.)  Corollary over encodings: dprogs_match_encode.
   Layers: FieldsCorrect.v (d_fields), ModelFacts.v (the model's sub-parameter decoder), SubsCorrect.v (d_subs),
   SizesCorrect.v (minimum sizes), this file (d_len, leftover, zero receiver, recursion over nesting, messages).
   Also here (unchanged): the equality "run = of_opt decode for ALL byte strings" is FALSE of what the LLRP schema
   compiles to (and of Go): three closed counterexamples, by computation. *)
From Coq Require Import NArith ZArith List Bool Arith Lia ZifyN ZifyNat ZifyBool.
From LLRP Require Import Codec.Schema Codec.Encode Codec.Decode Codec.Wf Codec.WfBool Codec.BytesLemmas Codec.RoundTrip Codec.BitSpec Codec.BitSpecProofs
     Codec.SchemaTable
     EncIR.IR EncIR.Compile EncIR.EqbSound EncIR.CompileCorrect DecFIR.IR DecFIR.Compile DecFIR.Sem DecFIR.EqbSound
     DecFIR.FieldsCorrect DecFIR.ModelFacts DecFIR.SubsCorrect DecFIR.SizesCorrect.
Import ListNotations.
Open Scope N_scope.
Ltac Zify.zify_post_hook ::= Z.div_mod_to_equations.

Lemma dprogs_match_parts t ps : dprogs_match t ps = true ->
  dp_has_le ps = true /\
  forall c, In c t ->
    exists p, dlookup (dp_progs ps) (is_msg_kind (c_kind c)) (c_tid c) = Some p /\
              struct_ok c (d_struct p) (d_inline p) = true /\ p = dcompile t (d_struct p) c.
Proof.
  unfold dprogs_match. intros H. apply andb_true_iff in H as [H Hall]. apply andb_true_iff in H as [Hh _].
  split; [exact Hh|].
  intros c Hin. rewrite forallb_forall in Hall. specialize (Hall c Hin). unfold dcontainer_matches in Hall.
  destruct (dlookup (dp_progs ps) (is_msg_kind (c_kind c)) (c_tid c)) as [p|]; [|discriminate].
  apply andb_true_iff in Hall as [H1 H2]. exists p. repeat split; [exact H1|].
  symmetry. apply dprog_eqb_eq, H2.
Qed.

(* the decoders the LLRP schema compiles to *)
Definition llrp_dec : dprograms := dcanon_programs llrp_table.

Lemma llrp_dec_matches : dprogs_match llrp_table llrp_dec = true.
Proof. vm_compute. reflexivity. Qed.

(* 1. the code accepts what the model rejects: a fixed-size TLV (ReceiveSensitivityTableEntry, 4 body bytes) that
      declares 9 bytes and carries a stray fifth body byte: hasEnoughBytes only demands needed <= got *)
Theorem decoder_equality_refuted_trailing :
  exists bs v, run llrp_dec 16 false 139 bs = DOk v /\ decode llrp_table 16 false 139 bs = None.
Proof.
  exists [0; 139; 0; 9; 0; 1; 0; 2; 255], (VStruct false 139 [VNum 1; VNum 2] []).
  vm_compute. split; reflexivity.
Qed.

(* 2. the code accepts sub-parameters of one loop group in any order: ROAccessReport with a Custom parameter BEFORE
      a TagReportData; the model (and the LLRP grammar) demand TagReportData*, RFSurveyReportData*, Custom* *)
Definition out_of_order_report : bytes :=
  [3; 255; 0; 12; 0; 0; 0; 1; 0; 0; 0; 2] ++ [0; 240; 0; 17; 141; 1; 2; 3; 4; 5; 6; 7; 8; 9; 10; 11; 12].

Theorem decoder_equality_refuted_order :
  (exists v, run llrp_dec 16 true 61 out_of_order_report = DOk v) /\
  decode llrp_table 16 true 61 out_of_order_report = None /\
  (* the same two parameters in grammar order are accepted by both, with the same value *)
  exists v, run llrp_dec 16 true 61 (skipn 12 out_of_order_report ++ firstn 12 out_of_order_report) = DOk v /\
            decode llrp_table 16 true 61 (skipn 12 out_of_order_report ++ firstn 12 out_of_order_report) = Some v.
Proof.
  split; [|split].
  - eexists. vm_compute. reflexivity.
  - vm_compute. reflexivity.
  - eexists. vm_compute. split; reflexivity.
Qed.

(* 3. the model accepts what the code rejects, but only values outside C01's domain: a UHFBandCapabilities without
      any TransmitPowerLevel (a 1-n sub-parameter), and a FrequencyRSSILevelEntry with neither timestamp *)
Theorem decoder_forward_needs_wf_refuted :
  (exists v, decode llrp_table 16 false 144 [0; 144; 0; 13; 0; 146; 0; 5; 0; 1; 72; 0; 4] = Some v /\
             wfvb llrp_table v = false /\
             run llrp_dec 16 false 144 [0; 144; 0; 13; 0; 146; 0; 5; 0; 1; 72; 0; 4] = DErr) /\
  (exists v, decode llrp_table 16 false 243 [0; 243; 0; 14; 0; 0; 0; 0; 0; 0; 0; 0; 0; 0] = Some v /\
             wfvb llrp_table v = false /\
             run llrp_dec 16 false 243 [0; 243; 0; 14; 0; 0; 0; 0; 0; 0; 0; 0; 0; 0] = DErr).
Proof.
  split.
  - exists (VStruct false 144 [] [VList []; VStruct false 146 [VNum 0] [VList []; VOpt None];
                                  VStruct false 328 [] [VList []]; VOpt None]).
    repeat split; vm_compute; reflexivity.
  - exists (VStruct false 243 [VNum 0; VNum 0; VNum 0; VNum 0]
                    [VStruct false 128 [VNum 0] []; VStruct false 129 [VNum 0] []]).
    repeat split; vm_compute; reflexivity.
Qed.

(* ================= the refinement theorem ================= *)

(* ---------- what the proof needs of the table (all checked by computation on the LLRP table) ---------- *)
(* an exclusive alternative has at least one value field: its zero value is recognisably absent *)
Definition alt_has_field (t : table) (s : sub) : bool :=
  match s_arity s, s_group s =? 0 with
  | One, false => match find_container t false (s_tid s) with
                  | Some c' => match fields_zero (c_fields c') with [] => false | _ => true end
                  | None => false end
  | _, _ => true
  end.

(* an inline parameter made of a sub-byte field is one bit wide (the parent reads it as `!= 0` when the Go type is a bool) *)
Definition inline_bit_ok (c : container) : bool :=
  negb (inline_of c) || match c_fields c with [FBits b _ _] => Nat.eqb b 1 | _ => true end.

(* without sub-parameters, the field statements leave the slice empty when `len(data) > 0` is tested (the last field
   is variable-size, hence resliced); a fixed-size message has no sub-parameters (`len(data) != k`) *)
Definition tail_ok (t : table) (c : container) : bool :=
  match c_subs c with
  | [] => fxd t c || match c_fields c with [] => true | _ => negb (f_fixed (last (c_fields c) FRest)) end
  | _ => negb (is_msg_kind (c_kind c) && fxd t c)
  end.

Definition dcontainer_ok (t : table) (c : container) : bool :=
  fs_ok (c_fields c) && size_ok t c && forallb (alt_has_field t) (c_subs c) &&
  runs_ok t (length (c_subs c)) (c_subs c) && inline_bit_ok c && tail_ok t c.

Definition dec_schema_ok (t : table) : bool := enc_schema_ok t && forallb (dcontainer_ok t) t.

(* ---------- small facts about the schema functions ---------- *)
Lemma ffs_fixed fs : forall n, fixed_fields_size fs = Some n ->
  fixed_size fs = N.of_nat n /\ forallb f_fixed fs = true.
Proof.
  induction fs as [|f fs IH]; intros n H; cbn [fixed_fields_size] in H.
  - injection H as <-. split; reflexivity.
  - destruct (fixed_fields_size fs) as [m|]; [|discriminate]. destruct (IH m eq_refl) as [E1 E2].
    cbn [fixed_size forallb]. rewrite E1, E2.
    destruct f; try discriminate H; injection H as <-; cbn [f_fixed andb]; split; try reflexivity; try lia.
    destruct partial; lia.
Qed.

Lemma msz_nosubs t c : c_subs c = [] -> msz t c = header_size (c_kind c) + fixed_size (c_fields c).
Proof.
  intros E. unfold msz, sizes_fuel. cbn [min_size]. rewrite E. unfold fields_min.
  destruct (c_kind c); cbn [fold_right group_mins]; lia.
Qed.

Lemma fxd_nosubs t c : c_subs c = [] -> fxd t c = forallb f_fixed (c_fields c).
Proof. intros E. unfold fxd, sizes_fuel. cbn [is_fixed]. rewrite E. cbn [forallb]. apply andb_true_r. Qed.

Lemma fxd_fields t c : fxd t c = true -> forallb f_fixed (c_fields c) = true.
Proof. unfold fxd, sizes_fuel. cbn [is_fixed]. intros H. apply andb_true_iff in H. apply H. Qed.

(* all fields fixed: what is consumed is the fixed size *)
Lemma fixed_exact fs : forall M vs r, forallb f_fixed fs = true -> dec_fields fs M = Some (vs, r) ->
  blen M = fixed_size fs + blen r.
Proof.
  induction fs as [|f fs IH]; intros M vs r Hf H.
  - cbn in H. injection H as _ <-. cbn. lia.
  - cbn [forallb] in Hf. apply andb_true_iff in Hf as [Hf1 Hf].
    rewrite dec_fields_cons in H. destruct (dec1 f M) as [[v1 M1]|] eqn:E1; [|discriminate].
    destruct (dec_fields fs M1) as [[vs' r']|] eqn:E2; [|discriminate]. injection H as _ <-.
    specialize (IH _ _ _ Hf E2). cbn [fixed_size]. unfold blen in *.
    destruct f; try discriminate Hf1; cbn [dec1] in E1.
    + destruct (take_exact size M) as [[e r0]|] eqn:T; [|discriminate]. injection E1 as _ <-.
      destruct (take_exact_spec _ _ _ _ T) as (_ & -> & Hl & _). rewrite skipn_length in IH. lia.
    + destruct M as [|b r0]; [discriminate|]. injection E1 as _ <-. destruct partial; cbn [length] in *; lia.
    + destruct (take_exact size M) as [[e r0]|] eqn:T; [|discriminate]. injection E1 as _ <-.
      destruct (take_exact_spec _ _ _ _ T) as (_ & -> & Hl & _). rewrite skipn_length in IH. lia.
    + destruct (take_exact n M) as [[e r0]|] eqn:T; [|discriminate]. injection E1 as _ <-.
      destruct (take_exact_spec _ _ _ _ T) as (_ & -> & Hl & _). rewrite skipn_length in IH. lia.
Qed.

Lemma has_rest_last fs : fs_ok fs = true -> has_rest fs = true -> fs <> [] /\ last fs FRest = FRest.
Proof.
  induction fs as [|f fs IH]; intros Hok Hr; [discriminate Hr|]. split; [discriminate|].
  unfold has_rest in Hr. cbn [existsb] in Hr.
  destruct f; cbn [fs_ok] in Hok; cbn [orb] in Hr;
    try (destruct (IH Hok Hr) as [Hne Hl]; destruct fs; [contradiction|exact Hl]).
  - apply andb_true_iff in Hok as [_ Hok]. destruct (IH Hok Hr) as [Hne Hl]. destruct fs; [contradiction|exact Hl].
  - destruct fs; [reflexivity|discriminate Hok].
Qed.

Lemma fslots_fields_zero fs : fslots (fields_zero fs) = fzeros fs /\ shaped fs (fields_zero fs).
Proof.
  induction fs as [|f fs [IH1 IH2]]; [split; reflexivity|].
  destruct f; cbn [fields_zero field_zero fzeros flat_map fzero shaped]; unfold fslots in *; cbn [flat_map fslot app];
    try (rewrite IH1; split; [reflexivity|split; [exact I|exact IH2]]).
  split; assumption.
Qed.

Lemma nslots_fslots fs : forall vs, shaped fs vs -> nslots fs = N.of_nat (length (fslots vs)).
Proof.
  induction fs as [|f fs IH]; intros vs H; cbn [shaped nslots] in *.
  - subst vs. reflexivity.
  - destruct f; try (cbn [slots]; rewrite N.add_0_l; apply IH; exact H);
      (destruct vs as [|v vs]; [contradiction|]; destruct H as [H1 H2];
       destruct v; try contradiction; unfold fslots; cbn [flat_map fslot slots]; rewrite app_length;
       fold (fslots vs); rewrite (IH vs H2); cbn [length]; lia).
Qed.

Lemma wf_fields_nil fs : wf_fields fs [] -> fields_zero fs = [].
Proof.
  induction fs as [|f fs IH]; intros H; [reflexivity|]. cbn [wf_fields] in H.
  destruct f; try contradiction. cbn [fields_zero field_zero]. apply IH, H.
Qed.

Lemma dcompile_parts t d c :
  d_struct (dcompile t d c) = d /\
  d_shape (dcompile t d c) = shape_of c /\ d_len (dcompile t d c) = compile_lenck t c /\
  (exists kn0,
     d_fields (dcompile t d c) =
     fst (if inline_of c
          then ([DStore 0 (match c_fields c with f :: _ => value_of f (gnth d 0) 0 | [] => XByte 0 end)], kn0)
          else compile_dfields d (c_fields c) (match c_subs c with [] => false | _ => true end) 0 0 kn0)) /\
  (exists kn, d_subs (dcompile t d c) = compile_dsubs t d (length (c_subs c)) (c_subs c) (nslots (c_fields c)) kn) /\
  d_leftover (dcompile t d c) = match compile_lenck t c with LMsgEmpty => false | _ => leftover_of t c end.
Proof.
  unfold dcompile.
  match goal with |- context [if inline_of c then (?a, ?k) else ?b] =>
    destruct (if inline_of c then (a, k) else b) as [fl kn1] eqn:E; set (k0 := k) in * end.
  cbn [d_struct d_shape d_len d_fields d_subs d_leftover].
  repeat split; eauto. exists k0. subst k0. rewrite E. reflexivity.
Qed.

Lemma dec_subs_length t d z subs : forall data ch vs r,
  dec_subs t d z subs data ch = Some (vs, r) -> length vs = length subs.
Proof.
  induction subs as [|s subs IH]; intros data ch vs r H; cbn [dec_subs] in H.
  - injection H as <- _. reflexivity.
  - destruct (s_arity s).
    + destruct (s_group s =? 0).
      * destruct (d (s_tid s) data) as [[v r0]|]; [|discriminate].
        destruct (dec_subs t d z subs r0 ch) as [[vs' r']|] eqn:E; [|discriminate]. injection H as <- _.
        cbn [length]. f_equal. eapply IH; eauto.
      * destruct (negb (ch =? s_group s) && announces t data (s_tid s)).
        -- destruct (d (s_tid s) data) as [[v r0]|]; [|discriminate].
           destruct (dec_subs t d z subs r0 (s_group s)) as [[vs' r']|] eqn:E; [|discriminate]. injection H as <- _.
           cbn [length]. f_equal. eapply IH; eauto.
        -- destruct (dec_subs t d z subs data ch) as [[vs' r']|] eqn:E; [|discriminate]. injection H as <- _.
           cbn [length]. f_equal. eapply IH; eauto.
    + destruct (announces t data (s_tid s)).
      * destruct (d (s_tid s) data) as [[v r0]|]; [|discriminate].
        destruct (dec_subs t d z subs r0 ch) as [[vs' r']|] eqn:E; [|discriminate]. injection H as <- _.
        cbn [length]. f_equal. eapply IH; eauto.
      * destruct (dec_subs t d z subs data ch) as [[vs' r']|] eqn:E; [|discriminate]. injection H as <- _.
        cbn [length]. f_equal. eapply IH; eauto.
    + destruct (dec_many t (d (s_tid s)) (s_tid s) (length data) data) as [[l r0]|]; [|discriminate].
      destruct (dec_subs t d z subs r0 ch) as [[vs' r']|] eqn:E; [|discriminate]. injection H as <- _.
      cbn [length]. f_equal. eapply IH; eauto.
Qed.

Section Main.
  Variable t : table.
  Variable ps : dprograms.
  Hypothesis Hwf : wf_schema t = true.
  Hypothesis Hextra : forall c, In c t -> container_extra_ok t c = true.
  Hypothesis Hdok : forall c, In c t -> dcontainer_ok t c = true.
  Hypothesis Hle : dp_has_le ps = true.
  Hypothesis Hprogs : forall c, In c t ->
    exists p, dlookup (dp_progs ps) (is_msg_kind (c_kind c)) (c_tid c) = Some p /\
              struct_ok c (d_struct p) (d_inline p) = true /\ p = dcompile t (d_struct p) c.

  Lemma lookup_prog msg tid c : find_container t msg tid = Some c ->
    In c t /\ is_msg_kind (c_kind c) = msg /\ c_tid c = tid /\
    exists p, dlookup (dp_progs ps) msg tid = Some p /\ struct_ok c (d_struct p) (d_inline p) = true /\
              p = dcompile t (d_struct p) c.
  Proof.
    intros F. destruct (find_container_spec _ _ _ _ F) as (Hin & Hm & Ht). repeat split; try assumption.
    destruct (Hprogs c Hin) as (p & Hl & Hs & Hp). rewrite Hm, Ht in Hl. eauto.
  Qed.

  Lemma dok_parts c : In c t ->
    fs_ok (c_fields c) = true /\ size_ok t c = true /\ forallb (alt_has_field t) (c_subs c) = true /\
    runs_ok t (length (c_subs c)) (c_subs c) = true /\ inline_bit_ok c = true /\ tail_ok t c = true.
  Proof.
    intros Hin. pose proof (Hdok c Hin) as H. unfold dcontainer_ok in H.
    repeat (apply andb_true_iff in H as [H ?]). repeat split; assumption.
  Qed.

  Lemma wf_parts c : In c t ->
    wf_sub_order (c_subs c) = true /\ forallb (wf_sub t) (c_subs c) = true /\
    (has_rest (c_fields c) = false \/ c_subs c = []) /\ kind_ok c /\
    (c_kind c = KTV -> c_subs c = [] /\ exists n, fixed_fields_size (c_fields c) = Some n) /\
    groups_ok (c_subs c) = true.
  Proof.
    intros Hin. assert (Hc : wf_container t c = true).
    { unfold wf_schema in Hwf. rewrite forallb_forall in Hwf. apply Hwf, Hin. }
    destruct (container_parts t c Hc) as (_ & Hrest & Hord & Hsubs & Hk & Htv).
    repeat split; try assumption; try (apply Htv; assumption).
    pose proof (Hextra c Hin) as Hx. unfold container_extra_ok in Hx.
    apply andb_true_iff in Hx as [Hx _]. apply andb_true_iff in Hx as [Hx _]. exact Hx.
  Qed.

  Lemma sub_has_container c s : In c t -> In s (c_subs c) -> exists c', find_container t false (s_tid s) = Some c'.
  Proof.
    intros Hin Hs. destruct (wf_parts c Hin) as (_ & Hsubs & _). rewrite forallb_forall in Hsubs.
    specialize (Hsubs s Hs). unfold wf_sub in Hsubs.
    destruct (find_container t false (s_tid s)) as [c'|]; [eauto|discriminate].
  Qed.

  (* ---- the zero receiver ---- *)
  Lemma zero_slots_eq k p c : d_shape p = shape_of c ->
    zero_slots ps k p = fzeros (c_fields c) ++ map (zslot (zero_val ps k)) (c_subs c).
  Proof.
    intros E. unfold zero_slots. rewrite E. unfold shape_of. rewrite map_app, fzeros_shape, map_map. f_equal.
    apply map_ext. intros s. unfold zslot. destruct (s_arity s); reflexivity.
  Qed.

  Lemma assemble_shape c fvs svs : shaped (c_fields c) fvs -> length svs = length (c_subs c) ->
    assemble (shape_of c) (fslots fvs ++ svs) = Some (fvs, svs).
  Proof.
    intros Hs Hl. unfold shape_of. apply assemble_fields; [| |exact Hs].
    - intros zk Hz. apply in_map_iff in Hz as (s & <- & _). destruct (s_arity s); exact I.
    - rewrite map_length. symmetry. exact Hl.
  Qed.

  Lemma zero_val_eq : forall k tid c, find_container t false tid = Some c -> zero_val ps k tid = zero_param t k tid.
  Proof.
    induction k as [|k IH]; intros tid c F; [reflexivity|].
    destruct (lookup_prog _ _ _ F) as (Hin & Hm & Ht & p & Hl & Hso & Hp).
    cbn [zero_val zero_param]. rewrite Hl, F.
    destruct (dcompile_parts t (d_struct p) c) as (_ & Hsh & _). rewrite <- Hp in Hsh.
    fold (zero_slots ps k p). rewrite (zero_slots_eq k p c Hsh), Hsh.
    destruct (fslots_fields_zero (c_fields c)) as [E1 E2]. rewrite <- E1.
    rewrite (assemble_shape c _ _ E2) by (rewrite map_length; reflexivity).
    f_equal. apply map_ext_in. intros s Hs. unfold zslot. destruct (s_arity s); try reflexivity.
    destruct (sub_has_container c s Hin Hs) as (c' & F'). apply (IH _ _ F').
  Qed.

  Lemma zslot_eq k c : In c t -> map (zslot (zero_val ps k)) (c_subs c) = map (zslot (zero_param t k)) (c_subs c).
  Proof.
    intros Hin. apply map_ext_in. intros s Hs. unfold zslot. destruct (s_arity s); try reflexivity.
    destruct (sub_has_container c s Hin Hs) as (c' & F'). apply (zero_val_eq _ _ _ F').
  Qed.

  (* ---- side conditions in the form the sub-parameter layer wants them ---- *)
  Lemma inl_ok : inl_spec t.
  Proof.
    intros tid c' F Hi f Ef. destruct (find_container_spec _ _ _ _ F) as (Hin & _).
    destruct (dok_parts c' Hin) as (Hfs & _ & _ & _ & Hib & _).
    unfold inline_bit_ok in Hib. rewrite Hi, Ef in Hib. cbn [negb orb] in Hib. rewrite Ef in Hfs.
    unfold inline_of in Hi. rewrite Ef in Hi. apply andb_true_iff in Hi as [_ Hi].
    destruct f; try discriminate Hi; cbn [fs_ok fbits_ok] in *.
    - split; [reflexivity|exact I].
    - apply andb_true_iff in Hfs as [Hfs _]. apply andb_true_iff in Hfs as [Hfs _].
      split; [exact Hfs|apply Nat.eqb_eq, Hib].
  Qed.

  Lemma zalt_of k c : In c t -> zalt_ok (zero_param t k) (wfv t) (c_subs c).
  Proof.
    intros Hin s Hs Ar G. destruct (dok_parts c Hin) as (_ & _ & Halt & _).
    rewrite forallb_forall in Halt. specialize (Halt s Hs). unfold alt_has_field in Halt. rewrite Ar, G in Halt.
    destruct (find_container t false (s_tid s)) as [c'|] eqn:F; [|discriminate].
    destruct (fields_zero (c_fields c')) as [|v0 vs0] eqn:Fz; [discriminate|].
    destruct k as [|k].
    - right. cbn [zero_param wfv]. rewrite F. intros (Hf & _). apply wf_fields_nil in Hf. congruence.
    - left. cbn [zero_param]. rewrite F. cbn [alt_nonzero]. rewrite Fz. cbn [forallb].
      assert (Hz0 : field_nonzero v0 = false).
      { clear - Fz. induction (c_fields c') as [|f fs IH]; [discriminate|]. cbn [fields_zero] in Fz.
        destruct f; cbn [field_zero] in Fz; try (injection Fz as <- _; reflexivity). apply IH, Fz. }
      rewrite Hz0. reflexivity.
  Qed.

  (* ---- what remains after the fields is a suffix of the input ---- *)
  Lemma dec_fields_suffix fs : forall M vs r, dec_fields fs M = Some (vs, r) -> exists n, r = skipn n M.
  Proof.
    induction fs as [|f fs IH]; intros M vs r H.
    - cbn in H. injection H as _ <-. exists 0%nat. reflexivity.
    - rewrite dec_fields_cons in H. destruct (dec1 f M) as [[v1 M1]|] eqn:E1; [|discriminate].
      destruct (dec_fields fs M1) as [[vs' r']|] eqn:E2; [|discriminate]. injection H as _ <-.
      destruct (IH _ _ _ E2) as (n & ->).
      assert (Hs : exists m, M1 = skipn m M).
      { destruct f; cbn [dec1] in E1.
        - destruct (take_exact size M) as [[e r0]|] eqn:T; [|discriminate]. injection E1 as _ <-.
          destruct (take_exact_spec _ _ _ _ T) as (_ & -> & _). eauto.
        - destruct M as [|b r0]; [discriminate|]. injection E1 as _ <-. destruct partial; [exists 0%nat|exists 1%nat]; reflexivity.
        - destruct (take_exact size M) as [[e r0]|] eqn:T; [|discriminate]. injection E1 as _ <-.
          destruct (take_exact_spec _ _ _ _ T) as (_ & -> & _). eauto.
        - destruct (take_exact n0 M) as [[e r0]|] eqn:T; [|discriminate]. injection E1 as _ <-.
          destruct (take_exact_spec _ _ _ _ T) as (_ & -> & _). eauto.
        - unfold take_u16 in E1. destruct M as [|a [|b r0]]; try discriminate.
          destruct (take_nums (N.to_nat (a * 256 + b)) esize r0) as [[ns r1]|] eqn:T; [|discriminate]. injection E1 as _ <-.
          destruct (read_elems_ok esize r0 _ 0 ns r1 ltac:(lia) T) as (_ & _ & ->).
          exists (2 + N.to_nat (0 + N.of_nat (N.to_nat (a * 256 + b)) * N.of_nat esize))%nat. reflexivity.
        - unfold take_u16 in E1. destruct M as [|a [|b r0]]; try discriminate.
          destruct (take_exact (N.to_nat (a * 256 + b)) r0) as [[e r1]|] eqn:T; [|discriminate]. injection E1 as _ <-.
          destruct (take_exact_spec _ _ _ _ T) as (_ & -> & _). exists (2 + N.to_nat (a * 256 + b))%nat. reflexivity.
        - unfold take_u16 in E1. destruct M as [|a [|b r0]]; try discriminate.
          destruct (take_exact (N.to_nat (bitarr_nbytes (a * 256 + b))) r0) as [[e r1]|] eqn:T; [|discriminate]. injection E1 as _ <-.
          destruct (take_exact_spec _ _ _ _ T) as (_ & -> & _). exists (2 + N.to_nat (bitarr_nbytes (a * 256 + b)))%nat. reflexivity.
        - injection E1 as _ <-. exists (length M). symmetry. apply skipn_all. }
      destruct Hs as (m & ->). exists (m + n)%nat. apply skipn_skipn'.
  Qed.

  Lemma inline_body c d0 z0 body v : inline_of c = true -> dec_body t d0 z0 c false body = Some v ->
    exists f x, c_fields c = [f] /\ v = VStruct false (c_tid c) [VNum x] [] /\ dec_fields [f] body = Some ([VNum x], []).
  Proof.
    unfold inline_of, dec_body. intros Hi H. apply andb_true_iff in Hi as [_ Hi].
    destruct (c_fields c) as [|f [|f2 fr]]; try discriminate Hi; [|destruct f; discriminate Hi].
    destruct (c_subs c); [|destruct f; discriminate Hi].
    destruct (dec_fields [f] body) as [[fvs r]|] eqn:Ef; [|discriminate]. cbn [dec_subs] in H.
    destruct r; [|discriminate]. injection H as <-. exists f. pose proof Ef as Ef0.
    assert (Hx : exists x, fvs = [VNum x]).
    { destruct f; try discriminate Hi; cbn [dec_fields] in Ef.
      - destruct (take_exact size body) as [[e r0]|]; [|discriminate]. injection Ef as <- _. eauto.
      - destruct body as [|b r0]; [discriminate|]. injection Ef as <- _. eauto. }
    destruct Hx as (x & ->). exists x. repeat split. exact Ef0.
  Qed.

  Definition body_ok (k : nat) : Prop :=
    forall msg tid c body v, find_container t msg tid = Some c ->
      dec_body t (dec_param t k) (zero_param t k) c msg body = Some v -> wfv t v -> byte_list body ->
      run_prog ps (S k) msg tid body = DOk v /\ msz t c <= header_size (c_kind c) + blen body.

  Lemma dspec_0 : dspec t (dec_param t 0) (wfv t) (run_prog ps 0 false).
  Proof. intros tid data v r H. discriminate H. Qed.

  Lemma byte_list_app_inv (a b : bytes) : byte_list (a ++ b) -> byte_list a /\ byte_list b.
  Proof. unfold byte_list. intros H. apply Forall_app in H. exact H. Qed.

  (* a parameter = its header + its body *)
  Lemma dspec_step k : body_ok k -> dspec t (dec_param t (S k)) (wfv t) (run_prog ps (S k) false).
  Proof.
    intros Hbk tid data v r H. cbn [dec_param] in H.
    destruct (find_container t false tid) as [c|] eqn:F; [|discriminate].
    destruct (lookup_prog _ _ _ F) as (Hin & Hm & Ht & _).
    destruct (wf_parts c Hin) as (_ & _ & _ & Hk & Htv & _). unfold kind_ok in Hk.
    exists c. destruct (c_kind c) eqn:K; [discriminate| |].
    - (* TLV *)
      destruct data as [|b0 [|b1 [|l0 [|l1 r0]]]]; try discriminate.
      destruct ((b0 * 256 + b1 =? tid) && (4 <=? l0 * 256 + l1)) eqn:C; [|discriminate].
      apply andb_true_iff in C as [C1 C2]. apply N.eqb_eq in C1. apply N.leb_le in C2.
      destruct (take_exact (N.to_nat (l0 * 256 + l1 - 4)) r0) as [[body rest]|] eqn:T; [|discriminate].
      destruct (dec_body t (dec_param t k) (zero_param t k) c false body) as [v0|] eqn:B; [|discriminate].
      injection H as <- <-. destruct (take_exact_spec _ _ _ _ T) as (E1 & E2 & Hl & Hn).
      assert (Er : r0 = body ++ rest) by (rewrite E1, E2; symmetry; apply firstn_skipn).
      exists body. split; [reflexivity|]. split; [|split; [|split]].
      + unfold pframe. rewrite K. rewrite Ht in Hk. destruct Hk as [Hk1 Hk2]. repeat split; try assumption.
        exists b0, b1, l0, l1. rewrite Er. repeat split; [exact C1|]. unfold blen. lia.
      + intros X; discriminate X.
      + intros Hi. destruct (inline_body c _ _ body v0 Hi B) as (f & x & Ef & Ev & Ed). rewrite Ht in Ev. eauto.
      + intros Hw Hb. rewrite <- K. apply (Hbk false tid c body v0 F B Hw).
        rewrite Er in Hb. change (b0 :: b1 :: l0 :: l1 :: body ++ rest) with ([b0; b1; l0; l1] ++ body ++ rest) in Hb.
        apply byte_list_app_inv in Hb as [_ Hb]. apply byte_list_app_inv in Hb as [Hb _]. exact Hb.
    - (* TV *)
      destruct (Htv eq_refl) as (Hns & n & Hn). rewrite Hn in H.
      destruct data as [|b0 r0]; [discriminate|].
      destruct (b0 =? tid + 128) eqn:C; [|discriminate]. apply N.eqb_eq in C.
      destruct (take_exact n r0) as [[body rest]|] eqn:T; [|discriminate].
      destruct (dec_body t (dec_param t k) (zero_param t k) c false body) as [v0|] eqn:B; [|discriminate].
      injection H as <- <-. destruct (take_exact_spec _ _ _ _ T) as (E1 & E2 & Hl & Hlen).
      assert (Er : r0 = body ++ rest) by (rewrite E1, E2; symmetry; apply firstn_skipn).
      exists body. split; [reflexivity|]. split; [|split; [|split]].
      + unfold pframe. rewrite K. rewrite Ht in Hk. split; [exact Hk|]. rewrite C, Er. reflexivity.
      + intros _. destruct (ffs_fixed _ _ Hn) as [Ef Eff]. split.
        * rewrite (msz_nosubs t c Hns), K, Ef. cbn [header_size]. unfold blen. lia.
        * rewrite (fxd_nosubs t c Hns). exact Eff.
      + intros Hi. destruct (inline_body c _ _ body v0 Hi B) as (f & x & Ef & Ev & Ed). rewrite Ht in Ev. eauto.
      + intros Hw Hb. rewrite <- K. apply (Hbk false tid c body v0 F B Hw).
        rewrite Er in Hb. change (b0 :: body ++ rest) with ([b0] ++ body ++ rest) in Hb.
        apply byte_list_app_inv in Hb as [_ Hb]. apply byte_list_app_inv in Hb as [Hb _]. exact Hb.
  Qed.

  (* ---- the minimum size of a container is a lower bound ---- *)
  Lemma size_bound k c body fvs r svs :
    dspec t (dec_param t k) (wfv t) (run_prog ps k false) -> In c t ->
    dec_fields (c_fields c) body = Some (fvs, r) ->
    dec_subs t (dec_param t k) (zero_param t k) (c_subs c) r 0 = Some (svs, []) ->
    wf_subs t (wfv t) (c_subs c) svs 0 0 -> byte_list body ->
    msz t c <= header_size (c_kind c) + blen body.
  Proof.
    intros Hd Hin Ef Es Hws Hb.
    destruct (dok_parts c Hin) as (_ & Hsize & _). destruct (wf_parts c Hin) as (_ & _ & _ & _ & _ & Hgo).
    pose proof (dec_fields_len _ _ _ _ Ef) as L1. rewrite rest_min_fixed in L1.
    destruct (dec_fields_suffix _ _ _ _ Ef) as (n & Er).
    assert (Hbr : byte_list r) by (rewrite Er; apply byte_list_skipn, Hb).
    assert (Hfsz : forall tid data v r0, dec_param t k tid data = Some (v, r0) ->
              exists c' body0, find_container t false tid = Some c' /\ pframe c' tid body0 data r0 /\
                (wfv t v -> byte_list data -> msz t c' <= header_size (c_kind c') + blen body0)).
    { intros tid data v r0 H. destruct (Hd _ _ _ _ H) as (c' & body0 & F' & P & _ & _ & Hc).
      exists c', body0. repeat split; try assumption. intros Hw' Hb'. apply (Hc Hw' Hb'). }
    pose proof (lb_sound t (dec_param t k) (zero_param t k) (wfv t) Hfsz (length (c_subs c)) (c_subs c) r 0 svs
                  (Nat.le_refl _) Hgo (zalt_of k c Hin) (or_introl eq_refl) Es Hws Hbr) as L2.
    unfold size_ok in Hsize. apply N.leb_le in Hsize. lia.
  Qed.

  (* an inline parameter's own decoder is the field statement of its only field *)
  Lemma fields_prog c d0 kn0 : fs_ok (c_fields c) = true ->
    fst (if inline_of c
         then ([DStore 0 (match c_fields c with f :: _ => value_of f (gnth d0 0) 0 | [] => XByte 0 end)], kn0)
         else compile_dfields d0 (c_fields c) (match c_subs c with [] => false | _ => true end) 0 0 kn0) =
    fst (compile_dfields d0 (c_fields c) (match c_subs c with [] => false | _ => true end) 0 0 kn0).
  Proof.
    intros Hfs. destruct (inline_of c) eqn:Hi; [|reflexivity].
    unfold inline_of in Hi. apply andb_true_iff in Hi as [_ Hi].
    destruct (c_fields c) as [|f [|f2 fr]]; try discriminate Hi; [|destruct f; discriminate Hi].
    destruct (c_subs c); [|destruct f; discriminate Hi].
    destruct f; try discriminate Hi; cbn [fs_ok] in Hfs.
    - reflexivity.
    - destruct partial; [apply andb_true_iff in Hfs as [Hfs _]; apply andb_true_iff in Hfs as [_ Hfs]; discriminate Hfs|].
      reflexivity.
  Qed.

  Lemma finish_ok p c msg tid fvs svs : d_shape p = shape_of c -> shaped (c_fields c) fvs ->
    length svs = length (c_subs c) -> finish p msg tid (fslots fvs ++ svs) = DOk (VStruct msg tid fvs svs).
  Proof. intros Hsh Hs Hl. unfold finish. rewrite Hsh, (assemble_shape c fvs svs Hs Hl). reflexivity. Qed.

  (* ---- one container, given its parameters' decoders ---- *)
  Lemma body_step k : dspec t (dec_param t k) (wfv t) (run_prog ps k false) -> body_ok k.
  Proof.
    intros Hd msg tid c body v F Hbody Hw Hb.
    destruct (lookup_prog _ _ _ F) as (Hin & Hm & Ht & p & Hl & Hso & Hp).
    destruct (dok_parts c Hin) as (Hfs & Hsize & Halt & Hruns & Hib & Htail).
    destruct (wf_parts c Hin) as (Hord & Hwsubs & Hrest & Hk & Htv & Hgo).
    unfold dec_body in Hbody.
    destruct (dec_fields (c_fields c) body) as [[fvs r]|] eqn:Ef; [|discriminate].
    destruct (dec_subs t (dec_param t k) (zero_param t k) (c_subs c) r 0) as [[svs r']|] eqn:Es; [|discriminate].
    destruct r' as [|]; [|discriminate]. injection Hbody as <-.
    cbn [wfv] in Hw. rewrite Ht, F in Hw. destruct Hw as (Hwf_f & Hwf_s & _).
    assert (Hsz : msz t c <= header_size (c_kind c) + blen body) by (eapply size_bound; eauto).
    split; [|exact Hsz]. rewrite Ht.
    pose proof (dec_fields_shaped _ _ _ _ Ef) as Hshaped.
    pose proof (dec_subs_length _ _ _ _ _ _ _ _ Es) as Hlen_s.
    destruct (dcompile_parts t (d_struct p) c) as (_ & Hsh & Hlk & (kn0 & Hfl) & (kn & Hsb) & Hlo).
    rewrite <- Hp in Hsh, Hlk, Hfl, Hsb, Hlo. rewrite (fields_prog c _ kn0 Hfs) in Hfl.
    assert (Hfo : exists d', fields_ok (c_fields c) (d_struct p) = Some d').
    { unfold struct_ok in Hso. apply andb_true_iff in Hso as [_ Hso].
      destruct (fields_ok (c_fields c) (d_struct p)) as [d'|]; [eauto|discriminate]. }
    destruct Hfo as (d' & Hfo).
    set (hs := match c_subs c with [] => false | _ => true end) in *.
    set (S0 := map (zslot (zero_param t k)) (c_subs c)).
    assert (Hz0 : zero_slots ps k p = fzeros (c_fields c) ++ S0).
    { rewrite (zero_slots_eq k p c Hsh), (zslot_eq k c Hin). reflexivity. }
    destruct (fields_sim (d_struct p) hs S0 (c_fields c) (d_struct p) d' [] 0 0 kn0 body [] fvs r
                eq_refl eq_refl eq_refl Hfo Hfs ltac:(lia) Hb Ef) as (fl & Hex & Hend).
    cbn [app] in Hex, Hend.
    (* the statements after the length check *)
    assert (Hrun : dbind (exec_fs (d_fields p) body (zero_slots ps k p)) (fun fl =>
                   match fl with
                   | Done sl => finish p msg tid sl
                   | Next d0 sl =>
                     dbind (exec_ss (dp_has_le ps) (run_prog ps k false) (d_subs p) d0 sl) (fun fl2 =>
                     match fl2 with
                     | Done sl2 => finish p msg tid sl2
                     | Next d2 sl2 => if d_leftover p && negb (blen d2 =? 0) then DErr else finish p msg tid sl2
                     end)
                   end) = DOk (VStruct msg tid fvs svs)).
    { rewrite Hfl, Hz0, Hex. cbn [dbind].
      destruct fl as [D' sl|sl]; cbn [fend] in Hend.
      - destruct Hend as (-> & HbD & Hcase).
        assert (Hcs : c_subs c = [] \/ c_subs c <> []) by (destruct (c_subs c); [now left|right; discriminate]).
        destruct Hcs as [Esubs|Esubs].
        + (* no sub-parameters *)
          assert (ES0 : S0 = []) by (unfold S0; rewrite Esubs; reflexivity).
          rewrite Esubs in Es. cbn [dec_subs] in Es. injection Es as <- ->. rewrite ES0.
          rewrite Hsb, Esubs. cbn [length compile_dsubs exec_ss dbind].
          assert (Hlo' : d_leftover p && negb (blen D' =? 0) = false).
          { rewrite Hlo. destruct (compile_lenck t c) eqn:Elk; try reflexivity;
              (unfold tail_ok in Htail; rewrite Esubs in Htail; unfold leftover_of; rewrite Esubs;
               destruct (fxd t c); [reflexivity|]; cbn [orb] in Htail;
               destruct (c_fields c) as [|f0 fs0] eqn:Efs; [reflexivity|]; rewrite <- Efs in *;
               destruct Hcase as [[Hr _]|[Hp0 Hr]];
               [destruct (has_rest_last _ Hfs Hr) as [_ ->]; reflexivity|];
               apply negb_true_iff in Htail;
               rewrite (fpos_var (c_fields c) hs 0 ltac:(rewrite Efs; discriminate) Htail) in Hr; cbn [N.to_nat skipn] in Hr;
               subst D'; rewrite andb_false_r; reflexivity). }
          rewrite Hlo'.
          apply (finish_ok p c); [exact Hsh|exact Hshaped|rewrite Esubs; reflexivity].
        + (* sub-parameters *)
          assert (Hhs : hs = true) by (unfold hs; destruct (c_subs c); [contradiction|reflexivity]).
          assert (Hr : r = D').
          { destruct Hcase as [[Hr _]|[_ Hr]].
            - destruct Hrest as [X|X]; [congruence|contradiction].
            - assert (Hp0 : fpos (c_fields c) hs 0 = 0).
              { rewrite Hhs. destruct (c_fields c) as [|f0 fs0] eqn:Efs; [reflexivity|].
                apply fpos_subs. discriminate. }
              rewrite Hp0 in Hr. exact Hr. }
          subst D'. rewrite Hsb, Hle.
          destruct (subs_sim t (dec_param t k) (zero_param t k) (wfv t) (run_prog ps k false) (d_struct p) Hd inl_ok
                      true eq_refl (length (c_subs c)) (c_subs c) (nslots (c_fields c)) kn r 0 svs (fslots fvs)
                      (Nat.le_refl _) Hord Hgo (fun s Hs => sub_has_container c s Hin Hs) (zalt_of k c Hin) Hruns
                      (or_introl eq_refl) Es Hwf_s HbD (nslots_fslots _ _ Hshaped)) as (fl2 & Hex2 & Hfin).
          fold S0 in Hex2. rewrite Hex2. cbn [dbind].
          destruct Hfin as [-> | ->].
          * apply (finish_ok p c); assumption.
          * change (blen [] =? 0) with true. cbn [negb]. rewrite andb_false_r. apply (finish_ok p c); assumption.
      - destruct Hend as (-> & Hr & ->).
        destruct Hrest as [X|X]; [congruence|]. unfold S0. rewrite X in *. cbn [dec_subs] in Es. injection Es as <-.
        cbn [map]. apply (finish_ok p c); [exact Hsh|exact Hshaped|rewrite X; reflexivity]. }
    (* the length check that opens the decoder *)
    cbn [run_prog]. rewrite Hl. cbv zeta. rewrite Hrun, Hlk. unfold compile_lenck.
    destruct (c_kind c) eqn:K; cbn [is_msg_kind] in Hm.
    - (* message *)
      destruct (is_empty c) eqn:Eem.
      + unfold is_empty in Eem. destruct (c_fields c) eqn:Efs; [|discriminate Eem].
        destruct (c_subs c) eqn:Esubs; [|discriminate Eem].
        cbn [dec_fields] in Ef. injection Ef as <- <-. cbn [dec_subs] in Es. injection Es as <- ->.
        change (0 <? blen []) with false. cbv iota. rewrite Hz0, ?Efs. unfold S0. rewrite ?Esubs. cbn [map fzeros flat_map app].
        change (@nil value) with (fslots [] ++ []) at 1.
        apply (finish_ok p c); [exact Hsh|rewrite ?Efs; reflexivity|rewrite ?Esubs; reflexivity].
      + destruct (fxd t c) eqn:Efx.
        * (* fixed-size message: no sub-parameters, the size is exact *)
          unfold tail_ok in Htail. rewrite ?K, ?Efx in Htail. cbn [is_msg_kind andb negb] in Htail.
          destruct (c_subs c) eqn:Esubs; [|discriminate Htail].
          cbn [dec_subs] in Es. injection Es as _ ->.
          pose proof (fixed_exact _ _ _ _ (fxd_fields t c Efx) Ef) as Ex.
          rewrite (msz_nosubs t c Esubs), ?K. cbn [header_size].
          replace (blen body =? 0 + fixed_size (c_fields c)) with true
            by (symmetry; apply N.eqb_eq; unfold blen in *; cbn [length] in Ex; lia).
          reflexivity.
        * rewrite ?K in Hsz. cbn [header_size] in Hsz.
          replace (blen body <? msz t c) with false by (symmetry; apply N.ltb_ge; lia). reflexivity.
    - (* TLV parameter *)
      rewrite ?K in Hsz.
      destruct ((msz t c - header_size KTLV =? 0) && negb (is_empty c)); [reflexivity|].
      unfold has_enough. rewrite Hle.
      replace (msz t c - header_size KTLV <=? blen body) with true by (symmetry; apply N.leb_le; lia). reflexivity.
    - (* TV parameter *)
      rewrite ?K in Hsz.
      destruct ((msz t c - header_size KTV =? 0) && negb (is_empty c)); [reflexivity|].
      unfold has_enough. rewrite Hle.
      replace (msz t c - header_size KTV <=? blen body) with true by (symmetry; apply N.leb_le; lia). reflexivity.
  Qed.

  (* ---- the recursion over nesting depth ---- *)
  Lemma all_levels : forall k, dspec t (dec_param t k) (wfv t) (run_prog ps k false) /\ body_ok k.
  Proof.
    induction k as [|k [IHd IHb]].
    - split; [apply dspec_0|apply body_step, dspec_0].
    - pose proof (dspec_step k IHb) as Hd. split; [exact Hd|apply body_step, Hd].
  Qed.

  Lemma frame_body_ok c' tid body data : pframe c' tid body data [] -> frame_body tid data = Some body.
  Proof.
    unfold pframe, frame_body. destruct (c_kind c'); [contradiction| |].
    - intros (H1 & H2 & b0 & b1 & l0 & l1 & -> & Et & El). rewrite app_nil_r.
      replace (tid <? 128) with false by (symmetry; apply N.ltb_ge; lia).
      rewrite Et, N.eqb_refl, El.
      replace (4 <=? 4 + blen body) with true by (symmetry; apply N.leb_le; lia).
      replace (4 + blen body =? blen (b0 :: b1 :: l0 :: l1 :: body)) with true
        by (symmetry; apply N.eqb_eq; unfold blen; cbn [length]; lia).
      reflexivity.
    - intros (H1 & ->). rewrite app_nil_r.
      replace (tid <? 128) with true by (symmetry; apply N.ltb_lt; lia). rewrite N.eqb_refl. reflexivity.
  Qed.

  (* what the harness observes: whatever the model decodes to a well-formed value, the code decodes to that value *)
  Theorem run_decodes msg tid bs v fuel :
    byte_list bs -> decode t fuel msg tid bs = Some v -> wfv t v ->
    run ps (if msg then S fuel else fuel) msg tid bs = DOk v.
  Proof.
    intros Hb H Hw. unfold decode in H. destruct msg.
    - unfold dec_msg in H. destruct (find_container t true tid) as [c|] eqn:F; [|discriminate].
      unfold run. apply (proj2 (all_levels fuel) true tid c bs v F H Hw Hb).
    - destruct (dec_param t fuel tid bs) as [[v0 r]|] eqn:E; [|discriminate]. destruct r; [|discriminate].
      injection H as ->.
      destruct (proj1 (all_levels fuel) _ _ _ _ E) as (c' & body & F & P & _ & _ & Hc).
      destruct (Hc Hw Hb) as [Hrun _]. unfold run. rewrite (frame_body_ok c' tid body bs P). exact Hrun.
  Qed.
End Main.

(* ---------- from the decidable checks to the hypotheses of the section ---------- *)
Lemma dec_schema_ok_parts t : dec_schema_ok t = true ->
  wf_schema t = true /\ (forall c, In c t -> container_extra_ok t c = true) /\
  (forall c, In c t -> dcontainer_ok t c = true).
Proof.
  unfold dec_schema_ok. intros H. apply andb_true_iff in H as [H1 H2].
  destruct (enc_schema_ok_parts t H1) as [Hwf Hx]. repeat split; try assumption.
  intros c Hin. rewrite forallb_forall in H2. apply H2, Hin.
Qed.

(* the generic theorem: a translated program set accepted by dprogs_match decodes what the model decodes *)
Theorem dprogs_match_correct t ps :
  dec_schema_ok t = true -> dprogs_match t ps = true ->
  forall msg tid bs v fuel, byte_list bs -> decode t fuel msg tid bs = Some v -> wfv t v ->
    run ps (if msg then S fuel else fuel) msg tid bs = DOk v.
Proof.
  intros Hs Hm msg tid bs v fuel Hb Hdec Hw.
  destruct (dec_schema_ok_parts t Hs) as (Hwf & Hx & Hdk). destruct (dprogs_match_parts t ps Hm) as [Hle Hp].
  exact (run_decodes t ps Hwf Hx Hdk Hle Hp msg tid bs v fuel Hb Hdec Hw).
Qed.

(* over encodings: the code decodes the encoding of every well-formed value to that value *)
Corollary dprogs_match_encode t ps :
  dec_schema_ok t = true -> dprogs_match t ps = true ->
  forall msg tid fs ss bs fuel, wfv t (VStruct msg tid fs ss) -> (depth (VStruct msg tid fs ss) <= fuel)%nat ->
    encode t (VStruct msg tid fs ss) = Some bs ->
    run ps (if msg then S fuel else fuel) msg tid bs = DOk (VStruct msg tid fs ss).
Proof.
  intros Hs Hm msg tid fs ss bs fuel Hw Hd He.
  destruct (dec_schema_ok_parts t Hs) as (Hwf & _).
  destruct (encode_matches_layout t _ bs Hwf Hw He) as [_ Hb].
  apply (dprogs_match_correct t ps Hs Hm msg tid bs _ fuel Hb); [|exact Hw].
  apply (decode_encode t msg tid fs ss bs fuel Hwf Hw Hd He).
Qed.

(* the pinned LLRP table satisfies the side conditions *)
Lemma llrp_dec_schema_ok : dec_schema_ok llrp_table = true.
Proof. vm_compute. reflexivity. Qed.

Theorem dprogs_match_correct_llrp ps :
  dprogs_match llrp_table ps = true ->
  forall msg tid bs v fuel, byte_list bs -> decode llrp_table fuel msg tid bs = Some v -> wfv llrp_table v ->
    run ps (if msg then S fuel else fuel) msg tid bs = DOk v.
Proof. exact (dprogs_match_correct llrp_table ps llrp_dec_schema_ok). Qed.

Theorem dprogs_match_encode_llrp ps :
  dprogs_match llrp_table ps = true ->
  forall msg tid fs ss bs fuel, wfv llrp_table (VStruct msg tid fs ss) -> (depth (VStruct msg tid fs ss) <= fuel)%nat ->
    encode llrp_table (VStruct msg tid fs ss) = Some bs ->
    run ps (if msg then S fuel else fuel) msg tid bs = DOk (VStruct msg tid fs ss).
Proof. exact (dprogs_match_encode llrp_table ps llrp_dec_schema_ok). Qed.

(* The text between the markers is pasted by checks/dec_fir.py into the per-run obligation file
   build/gen/C01/Ob_decoder.v, after `decoder_code_matches_schema : dprogs_match llrp_table dec_all = true`
   (dec_all = the decoders translated from THIS run's generated_unmarshal.go). *)
(* PER-RUN CONSEQUENCE
Theorem C01_run_decoder_code_refines_model : forall msg tid bs v fuel,
  byte_list bs -> decode llrp_table fuel msg tid bs = Some v -> wfv llrp_table v ->
  run dec_all (if msg then S fuel else fuel) msg tid bs = DOk v.
Proof. exact (dprogs_match_correct_llrp dec_all decoder_code_matches_schema). Qed.
Print Assumptions C01_run_decoder_code_refines_model.
Theorem C01_run_decoder_code_decodes_encodings : forall msg tid fs ss bs fuel,
  wfv llrp_table (VStruct msg tid fs ss) -> (depth (VStruct msg tid fs ss) <= fuel)%nat ->
  encode llrp_table (VStruct msg tid fs ss) = Some bs ->
  run dec_all (if msg then S fuel else fuel) msg tid bs = DOk (VStruct msg tid fs ss).
Proof. exact (dprogs_match_encode_llrp dec_all decoder_code_matches_schema). Qed.
Print Assumptions C01_run_decoder_code_decodes_encodings.
END PER-RUN CONSEQUENCE *)
