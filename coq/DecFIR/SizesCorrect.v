(* The minimum sizes the generator computes (DecFIR/Compile.min_size: the constants of hasEnoughBytes, of
   `len(data) < k`, of the TV cases) are lower bounds of what the model decoder consumes for a well-formed value.
   The generator's sum over groups (group_mins) is not analysed: the boolean check [size_ok] compares every container's
   constant with a lower bound [lb_subs] that follows the runs of compile_dsubs, and [lb_sound] proves that bound. *)
From Coq Require Import NArith ZArith List Bool Arith Lia ZifyN ZifyNat ZifyBool.
From LLRP Require Import Codec.Schema Codec.Encode Codec.Decode Codec.Wf Codec.BytesLemmas
     EncIR.IR EncIR.Compile EncIR.CompileCorrect DecFIR.IR DecFIR.Sem DecFIR.Compile DecFIR.FieldsCorrect DecFIR.ModelFacts
     DecFIR.SubsCorrect.
Import ListNotations.
Open Scope N_scope.
Ltac Zify.zify_post_hook ::= Z.div_mod_to_equations.

Definition smin (t : table) (s : sub) : N :=
  match find_container t false (s_tid s) with Some c' => msz t c' | None => 0 end.

Definition contrib (t : table) (s : sub) : N :=
  match s_arity s with One => smin t s | Opt => 0 | Many => if s_req s then smin t s else 0 end.

Definition sum_contrib (t : table) (run : list sub) : N := fold_right (fun x a => contrib t x + a) 0 run.

Definition run_lb (t : table) (s : sub) (run : list sub) : N :=
  match s_arity s with
  | One => if s_group s =? 0 then sum_contrib t run else minimum (map (smin t) run)
  | _ => sum_contrib t run
  end.

Fixpoint lb_subs (t : table) (fuel : nat) (subs : list sub) : N :=
  match fuel, subs with
  | S fk, s :: r => let '(run0, rest) := take_run s r in run_lb t s (s :: run0) + lb_subs t fk rest
  | _, _ => 0
  end.

Definition size_ok (t : table) (c : container) : bool :=
  msz t c <=? header_size (c_kind c) + fixed_size (c_fields c) + lb_subs t (length (c_subs c)) (c_subs c).

Lemma minimum_le x : forall l, In x l -> minimum l <= x.
Proof.
  induction l as [|y l IH]; intros H; [contradiction|].
  destruct l as [|y' l']; cbn [minimum].
  - destruct H as [->|[]]. lia.
  - destruct H as [->|H]; [lia|]. specialize (IH H). cbn [minimum] in IH. lia.
Qed.

Lemma rest_min_fixed fs : rest_min fs = fixed_size fs.
Proof.
  induction fs as [|f fs IH]; [reflexivity|]. cbn [rest_min fixed_size]. rewrite IH.
  destruct f; cbn [f_partial f_min]; try reflexivity; destruct partial; reflexivity.
Qed.

Section Sizes.
  Variable t : table.
  Variable d : N -> bytes -> option (value * bytes).
  Variable z : N -> value.
  Variable w : value -> Prop.

  Hypothesis Hfsz : forall tid data v r, d tid data = Some (v, r) ->
    exists c' body, find_container t false tid = Some c' /\ pframe c' tid body data r /\
      (w v -> byte_list data -> msz t c' <= header_size (c_kind c') + blen body).

  Lemma Hframe : forall tid data v r, d tid data = Some (v, r) ->
    exists c' body, find_container t false tid = Some c' /\ pframe c' tid body data r.
  Proof. intros tid data v r H. destruct (Hfsz _ _ _ _ H) as (c' & body & F & P & _). eauto. Qed.

  Lemma d_consumes s data v r : d (s_tid s) data = Some (v, r) -> w v -> byte_list data ->
    smin t s + blen r <= blen data.
  Proof.
    intros Hd Hw Hb. destruct (Hfsz _ _ _ _ Hd) as (c' & body & F & P & Hs).
    pose proof (Hs Hw Hb) as Hm. destruct (pframe_len _ _ _ _ _ P) as [L _].
    unfold smin. rewrite F. clear - Hm L. lia.
  Qed.

  Lemma d_le tid data v r : d tid data = Some (v, r) -> blen r <= blen data.
  Proof. intros Hd. pose proof (d_shorter t d Hframe _ _ _ _ Hd) as H. unfold blen. clear - H. lia. Qed.

  Lemma dec_many_len tid : forall n data l r1, dec_many t (d tid) tid n data = Some (l, r1) -> blen r1 <= blen data.
  Proof.
    induction n as [|n IH]; intros data l r1 H; cbn [dec_many] in H.
    - destruct (announces t data tid); [discriminate|]. injection H as _ <-. apply N.le_refl.
    - destruct (announces t data tid); [|injection H as _ <-; apply N.le_refl].
      destruct (d tid data) as [[v r]|] eqn:Ed; [|discriminate].
      destruct (dec_many t (d tid) tid n r) as [[l' r']|] eqn:Em; [|discriminate]. injection H as _ <-.
      pose proof (IH _ _ _ Em) as H1. pose proof (d_le _ _ _ _ Ed) as H2. clear - H1 H2. lia.
  Qed.

  Lemma dec_many_bytes tid : forall n0 data l r1,
    dec_many t (d tid) tid n0 data = Some (l, r1) -> byte_list data -> byte_list r1.
  Proof.
    induction n0 as [|n0 IHn]; intros data l r1 Em Hb; cbn [dec_many] in Em.
    - destruct (announces t data tid); [discriminate|]. injection Em as _ <-. exact Hb.
    - destruct (announces t data tid); [|injection Em as _ <-; exact Hb].
      destruct (d tid data) as [[v r]|] eqn:Ed; [|discriminate].
      destruct (dec_many t (d tid) tid n0 r) as [[l' r'']|] eqn:Em'; [|discriminate].
      injection Em as _ <-. eapply IHn; eauto. eapply d_rest_bytes; eauto using Hframe.
  Qed.

  (* a run without exclusive alternatives, member by member *)
  Lemma plain_run rest : forall run data chosen vs,
    (forall s, In s run -> s_arity s = One -> (s_group s =? 0) = true) ->
    dec_subs t d z (run ++ rest) data chosen = Some (vs, []) -> wf_subs t w (run ++ rest) vs chosen 0 ->
    byte_list data ->
    exists data' vs2, dec_subs t d z rest data' chosen = Some (vs2, []) /\ wf_subs t w rest vs2 chosen 0 /\
      byte_list data' /\ sum_contrib t run + blen data' <= blen data.
  Proof.
    induction run as [|s run IH]; intros data chosen vs Hrun H Hw Hb; cbn [app] in *.
    - exists data, vs. split; [exact H|split; [exact Hw|split; [exact Hb|cbn; lia]]].
    - assert (Hrun' : forall s0, In s0 run -> s_arity s0 = One -> (s_group s0 =? 0) = true)
        by (intros s0 H0; apply Hrun; now right).
      cbn [dec_subs] in H. cbn [sum_contrib fold_right]. fold (sum_contrib t run). unfold contrib at 1.
      destruct (s_arity s) eqn:Ar.
      + rewrite (Hrun s (or_introl eq_refl) Ar) in H.
        destruct (d (s_tid s) data) as [[v r]|] eqn:Ed; [|discriminate].
        destruct (dec_subs t d z (run ++ rest) r chosen) as [[vs' r']|] eqn:E; [|discriminate]. injection H as <- ->.
        cbn [wf_subs] in Hw. rewrite Ar, (Hrun s (or_introl eq_refl) Ar) in Hw.
        destruct v as [| | | |vm vt vf vss| |]; try contradiction. destruct Hw as (_ & _ & Hwv & Hw).
        destruct (IH r chosen vs' Hrun' E Hw (d_rest_bytes t d Hframe _ _ _ _ Ed Hb)) as (data' & vs2 & H2 & Hw2 & Hb2 & L).
        exists data', vs2. split; [exact H2|split; [exact Hw2|split; [exact Hb2|]]].
        pose proof (d_consumes s data _ r Ed Hwv Hb) as C. clear - L C. lia.
      + destruct (announces t data (s_tid s)).
        * destruct (d (s_tid s) data) as [[v r]|] eqn:Ed; [|discriminate].
          destruct (dec_subs t d z (run ++ rest) r chosen) as [[vs' r']|] eqn:E; [|discriminate]. injection H as <- ->.
          cbn [wf_subs] in Hw. rewrite Ar in Hw. destruct Hw as (_ & _ & _ & Hw).
          destruct (IH r chosen vs' Hrun' E Hw (d_rest_bytes t d Hframe _ _ _ _ Ed Hb)) as (data' & vs2 & H2 & Hw2 & Hb2 & L).
          exists data', vs2. split; [exact H2|split; [exact Hw2|split; [exact Hb2|]]].
          pose proof (d_le _ _ _ _ Ed) as C. clear - L C. lia.
        * destruct (dec_subs t d z (run ++ rest) data chosen) as [[vs' r']|] eqn:E; [|discriminate]. injection H as <- ->.
          cbn [wf_subs] in Hw. rewrite Ar in Hw. destruct Hw as (_ & Hw).
          destruct (IH data chosen vs' Hrun' E Hw Hb) as (data' & vs2 & H2 & Hw2 & Hb2 & L).
          exists data', vs2. split; [exact H2|split; [exact Hw2|split; [exact Hb2|]]]. clear - L. lia.
      + destruct (dec_many t (d (s_tid s)) (s_tid s) (length data) data) as [[l r1]|] eqn:Em; [|discriminate].
        destruct (dec_subs t d z (run ++ rest) r1 chosen) as [[vs' r']|] eqn:E; [|discriminate]. injection H as <- ->.
        cbn [wf_subs] in Hw. rewrite Ar in Hw. destruct Hw as (_ & Hreq & Hwm & Hw).
        pose proof (dec_many_bytes _ _ _ _ _ Em Hb) as Hb1.
        destruct (IH r1 chosen vs' Hrun' E Hw Hb1) as (data' & vs2 & H2 & Hw2 & Hb2 & L).
        exists data', vs2. split; [exact H2|split; [exact Hw2|split; [exact Hb2|]]].
        destruct (s_req s).
        * (* at least one element *)
          destruct data as [|x data0] eqn:Edata.
          { cbn [length dec_many] in Em. rewrite announces_nil' in Em. injection Em as <- _. exfalso. apply (Hreq eq_refl). reflexivity. }
          rewrite <- Edata in *. assert (Hlen : length data = S (length data0)) by (rewrite Edata; reflexivity).
          rewrite Hlen in Em. cbn [dec_many] in Em.
          destruct (announces t data (s_tid s)).
          -- destruct (d (s_tid s) data) as [[v r]|] eqn:Ed; [|discriminate].
             destruct (dec_many t (d (s_tid s)) (s_tid s) (length data0) r) as [[l' r'']|] eqn:Em'; [|discriminate].
             injection Em as <- <-. cbn [wf_many] in Hwm. destruct Hwm as (_ & Hwv & _).
             pose proof (d_consumes s data v r Ed Hwv Hb) as C. pose proof (dec_many_len _ _ _ _ _ Em') as C2.
             clear - L C C2. lia.
          -- injection Em as <- _. exfalso. apply (Hreq eq_refl). reflexivity.
        * pose proof (dec_many_len _ _ _ _ _ Em) as C. clear - L C. lia.
  Qed.

  Theorem lb_sound : forall fuel subs data chosen vs,
    (length subs <= fuel)%nat -> groups_ok subs = true -> zalt_ok z w subs -> cl chosen subs ->
    dec_subs t d z subs data chosen = Some (vs, []) -> wf_subs t w subs vs chosen 0 -> byte_list data ->
    lb_subs t fuel subs <= blen data.
  Proof.
    induction fuel as [|fk IH]; intros subs data chosen vs Hlen Hgo Hz Hcl H Hw Hb; [cbn; lia|].
    destruct subs as [|s r0]; [cbn; lia|]. cbn [lb_subs].
    destruct (take_run s r0) as [run0 rest] eqn:Ht.
    destruct (take_run_spec s r0 run0 rest Ht) as (-> & Hkey & Hmax).
    change (s :: run0 ++ rest) with ((s :: run0) ++ rest) in *. set (run := s :: run0) in *.
    assert (Hin_run : forall s', In s' run -> s' = s \/ same_key s s' = true).
    { intros s' [<-|Hs']; [now left|right; apply Hkey, Hs']. }
    assert (Hlen' : (length rest <= fk)%nat).
    { rewrite app_length in Hlen. unfold run in Hlen. cbn [length] in Hlen. lia. }
    assert (Hrest : forall data' chosen' vs2, cl chosen' rest ->
              dec_subs t d z rest data' chosen' = Some (vs2, []) -> wf_subs t w rest vs2 chosen' 0 -> byte_list data' ->
              lb_subs t fk rest <= blen data').
    { intros data' chosen' vs2 Hcl' H' Hw' Hb'. apply (IH rest data' chosen' vs2); try assumption.
      - apply (groups_app_r run), Hgo.
      - apply (zalt_app_r z w run), Hz. }
    assert (Hplain : (forall s', In s' run -> s_arity s' = One -> (s_group s' =? 0) = true) ->
                     sum_contrib t run + lb_subs t fk rest <= blen data).
    { intros Hp. destruct (plain_run rest run data chosen vs Hp H Hw Hb) as (data' & vs2 & H2 & Hw2 & Hb2 & L).
      pose proof (Hrest data' chosen vs2 (cl_app_r _ _ _ Hcl) H2 Hw2 Hb2) as L2. clear - L L2. lia. }
    unfold run_lb. destruct (s_arity s) eqn:Ar.
    - destruct (s_group s =? 0) eqn:G.
      + apply Hplain. intros s' Hs' _. destruct (Hin_run s' Hs') as [->|Hk]; [exact G|].
        destruct (key_arity _ _ Hk) as [_ E2]. rewrite (E2 Ar). exact G.
      + (* exclusive group: the member that is present pays *)
        assert (Hg : s_group s <> 0) by (apply N.eqb_neq; exact G).
        assert (Hrun1 : forall s', In s' run -> s_arity s' = One /\ s_group s' = s_group s).
        { intros s' Hs'. destruct (Hin_run s' Hs') as [->|Hk]; [split; [exact Ar|reflexivity]|].
          destruct (key_arity _ _ Hk) as [E1 E2]. split; [congruence|apply E2, Ar]. }
        pose proof (not_in_group_after s rest (s_group s) Ar eq_refl Hmax) as Hr.
        assert (Hc : chosen <> s_group s).
        { pose proof (cl_not_group _ _ _ Hcl Ar G) as X. apply N.eqb_neq, X. }
        assert (Hzr : zalt_ok z w run) by (intros s0 H0; apply Hz; apply in_or_app; now left).
        destruct (excl_run t d z w (s_group s) rest Hg Hr chosen Hc run data vs 0 Hrun1 Hzr H Hw)
          as (a & s1 & b & v & data' & vs2 & E1 & E2 & E3 & E4 & E5 & E6); [intros X; discriminate X|].
        assert (Hcl' : cl (s_group s) rest).
        { apply (closed_after (s_group s) run rest); try assumption. discriminate. }
        pose proof (Hrest data' (s_group s) vs2 Hcl' E5 E6 (d_rest_bytes t d Hframe _ _ _ _ E2 Hb)) as L2.
        pose proof (d_consumes s1 data v data' E2 E3 Hb) as C.
        assert (Hmin : minimum (map (smin t) run) <= smin t s1).
        { apply minimum_le. apply in_map. rewrite E1. apply in_or_app. right. now left. }
        clear - L2 C Hmin. lia.
    - apply Hplain. intros s' Hs' X. destruct (Hin_run s' Hs') as [->|Hk]; [congruence|].
      destruct (key_arity _ _ Hk) as [E1 _]. congruence.
    - apply Hplain. intros s' Hs' X. destruct (Hin_run s' Hs') as [->|Hk]; [congruence|].
      destruct (key_arity _ _ Hk) as [E1 _]. congruence.
  Qed.
End Sizes.
