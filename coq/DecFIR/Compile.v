(* What the generator (pkg/llrp/generate_param_code.py: set_param_sizes, set_msg_sizes, write_unmarshal_body,
   FieldSpec.write_unmarshal / write_unmarshal_arr / value, unmarshal_tv, unmarshal_tlv, write_cases,
   write_unmarshal_sub, sublen_check, header_len_check, should_check_leftover) emits for the UnmarshalBinary of a
   container of the layout table, written from the SCHEMA (Codec/Schema.v) and the Go struct declaration, as
   decoder IR.  [dprogs_match] is the decidable check "the IR translated from generated_unmarshal.go of this run
   is, container by container, exactly what the schema compiles to"; evaluated by vm_compute in the per-run
   obligation build/gen/C01/Ob_decoder.v.  No proofs in this file. *)
From Coq Require Import NArith ZArith List Bool.
From LLRP Require Import Codec.Schema Codec.Encode EncIR.IR EncIR.Compile DecFIR.IR.
Import ListNotations.
Open Scope N_scope.

(* ---- sizes (set_param_sizes / set_msg_sizes) ---- *)
Definition f_fixed (f : fkind) : bool :=
  match f with FNum _ | FBits _ _ _ | FPad _ | FFixed _ => true | _ => false end.

(* min_size of one field; a sub-byte field counts its whole byte here (the partial ones are subtracted in sums) *)
Definition f_min (f : fkind) : N :=
  match f with
  | FNum s => N.of_nat s
  | FBits _ _ _ => 1
  | FPad n | FFixed n => N.of_nat n
  | FCounted _ | FString | FBitArr => 2
  | FRest => 0
  end.

Definition f_partial (f : fkind) : bool := match f with FBits _ _ p => p | _ => false end.

(* sum of min_size over the non-partial fields = EncIR.Compile.fixed_size *)
Definition fields_min (fs : list fkind) : N := fixed_size fs.

Definition s_optional (s : sub) : bool :=
  match s_arity s with Opt => true | One => false | Many => negb (s_req s) end.
Definition s_repeat (s : sub) : bool := match s_arity s with Many => true | _ => false end.
Definition s_exactly_one (s : sub) : bool := match s_arity s with One => s_group s =? 0 | _ => false end.

(* sum over the runs of consecutive subs with equal (optional, group): min of the run if it is not optional *)
Fixpoint group_mins (smin : sub -> N) (subs : list sub) (cur : option (bool * N * N)) : N :=
  let flush c := match c with Some (o, _, m) => if o : bool then 0 else m | None => 0 end in
  match subs with
  | [] => flush cur
  | s :: r =>
    match cur with
    | Some (o, g, m) =>
      if Bool.eqb o (s_optional s) && (g =? s_group s)
      then group_mins smin r (Some (o, g, N.min m (smin s)))
      else flush cur + group_mins smin r (Some (s_optional s, s_group s, smin s))
    | None => group_mins smin r (Some (s_optional s, s_group s, smin s))
    end
  end.

Fixpoint min_size (t : table) (fuel : nat) (c : container) : N :=
  match fuel with
  | O => header_size (c_kind c)
  | S k =>
    let smin s := match find_container t false (s_tid s) with Some c' => min_size t k c' | None => 0 end in
    header_size (c_kind c) + fields_min (c_fields c) +
    match c_kind c with
    | KMsg => fold_right (fun s a => (if s_optional s then 0 else smin s) + a) 0 (c_subs c)
    | _ => group_mins smin (c_subs c) None
    end
  end.

Fixpoint is_fixed (t : table) (fuel : nat) (c : container) : bool :=
  match fuel with
  | O => false
  | S k =>
    forallb f_fixed (c_fields c) &&
    forallb (fun s => s_exactly_one s &&
                      match find_container t false (s_tid s) with Some c' => is_fixed t k c' | None => false end)
            (c_subs c)
  end.

Definition sizes_fuel (t : table) : nat := S (length t).
Definition msz (t : table) (c : container) : N := min_size t (sizes_fuel t) c.
Definition fxd (t : table) (c : container) : bool := is_fixed t (sizes_fuel t) c.
Definition is_empty (c : container) : bool :=
  match c_fields c, c_subs c with [], [] => true | _, _ => false end.

(* ---- the opening length check ---- *)
Definition compile_lenck (t : table) (c : container) : lenck :=
  match c_kind c with
  | KMsg =>
    if is_empty c then LMsgEmpty
    else if fxd t c then LMsgNe (msz t c) else LMsgLt (msz t c)
  | k =>
    let sz := msz t c - header_size k in
    if (sz =? 0) && negb (is_empty c) then LNone else LHas (c_tid c) sz (fxd t c)
  end.

(* ---- FieldSpec.value ---- *)
Definition is_bool_elem (g : gtype) : bool := match snd g with EBool _ => true | _ => false end.

Definition value_of (f : fkind) (g : gtype) (begin : N) : dexpr :=
  match f with
  | FNum s => match s with 1%nat => XByte begin | _ => XBE (N.of_nat s) begin end
  | FBits bits bit _ =>
    let down := N.of_nat (8 - (bit + bits)) in
    let e0 := XByte begin in
    let e1 := if down =? 0 then e0 else XShr e0 down in
    let e2 := match bit with O => e1 | _ => XAnd e1 (2 ^ (N.of_nat bits - 1)) end in
    if is_bool_elem g then XNeZero e2 else e2
  | _ => XByte begin
  end.

(* ---- fields ---- *)
Definition arr_mode (g : gtype) (e : nat) : arrmode :=
  match snd g with
  | EU8 => ACopy
  | _ => match e with 1%nat => ALoop1 | _ => ALoopN (N.of_nat e) (N.of_nat e) end
  end.

(* the statements of one field, given [pos] and whether the slice is advanced afterwards *)
Definition field_stmts (f : fkind) (g : gtype) (i pos : N) (reslice : bool) : list fstmt :=
  match f with
  | FPad n => if reslice then [DReslice (pos + N.of_nat n)] else []
  | FNum _ | FBits _ _ _ =>
      DStore i (value_of f g pos) :: (if reslice then [DReslice (pos + f_min f)] else [])
  | FFixed n => DFixedCopy i (N.of_nat n) pos :: (if reslice then [DReslice (pos + N.of_nat n)] else [])
  | FString => [DStr i pos (pos + 2) (pos + 2) (pos + 2) (pos + 2) (pos + 2)]
  | FCounted e =>
      let m := match e with 1%nat => 1 | _ => N.of_nat e end in
      [DArr i (arr_mode g e) pos m (pos + 2) (pos + 2) m (pos + 2) (pos + 2)]
  | FBitArr => [DBitArr i (i + 1) pos 1 1 3 (pos + 2) (pos + 2) (pos + 2) (pos + 2)]
  | FRest => [DRest i pos pos pos (if reslice then Some pos else None)]
  end.

Fixpoint rest_min (fs : list fkind) : N :=
  match fs with [] => 0 | f :: r => (if f_partial f then 0 else f_min f) + rest_min r end.

(* -> (statements, known_data_len at the end) *)
Fixpoint compile_dfields (d : list gtype) (fs : list fkind) (has_subs : bool) (i pos : N) (known : Z)
  : list fstmt * Z :=
  match fs with
  | [] => ([], known)
  | f :: r =>
    let last := match r with [] => true | _ => false end in
    let reslice := negb (f_fixed f) || (last && has_subs) in
    let st := field_stmts f (gnth d i) i pos reslice in
    let pos' := if reslice then 0 else if f_partial f then pos else pos + f_min f in
    let rest := rest_min r in
    let guard := negb (f_fixed f) && (0 <? rest) && match f with FRest => false | _ => true end in
    let known' := if f_fixed f then (if f_partial f then known else (known - Z.of_N (f_min f))%Z)
                  else if guard then Z.of_N rest else 0%Z in
    let '(tl, kn) := compile_dfields d r has_subs (i + slots f) pos' known' in
    (st ++ (if guard then [DGuardLt rest] else []) ++ tl, kn)
  end.

(* ---- sub-parameters ---- *)
Record subinfo := { si_tid : N; si_tv : bool; si_min : N; si_fixed : bool; si_inline : bool; si_field : option fkind }.

Definition sub_info (t : table) (s : sub) : subinfo :=
  match find_container t false (s_tid s) with
  | Some c' => {| si_tid := s_tid s; si_tv := match c_kind c' with KTV => true | _ => false end;
                  si_min := msz t c'; si_fixed := fxd t c'; si_inline := inline_of c';
                  si_field := match c_fields c' with f :: _ => Some f | [] => None end |}
  | None => {| si_tid := s_tid s; si_tv := false; si_min := 0; si_fixed := false; si_inline := false; si_field := None |}
  end.

Definition si_hdr (x : subinfo) : N := if si_tv x then 1 else 4.

(* write_unmarshal_sub *)
Definition sub_dec (s : sub) (x : subinfo) (g : gtype) (i : N) (sl : bool) : subdec :=
  let alloc := s_optional s && negb (s_repeat s) in
  let hi := if sl then HiSubLen else if si_fixed x then HiConst (si_min x) else HiNone in
  if s_repeat s then SDCall i MAppend (si_tid x) (si_hdr x) hi
  else if si_inline x then
    SDInline i alloc (si_tid x) (match si_field x with Some f => value_of f g (si_hdr x) | None => XByte 0 end)
  else SDCall i (if alloc then MNew else MAssign) (si_tid x) (si_hdr x) hi.

Definition tlv_need (x : subinfo) : N := if si_inline x then si_min x else 4.

(* one case of a group (write_cases) *)
Definition group_case (t : table) (d : list gtype) (has_sub_len : bool) (s : sub) (i : N) : pcase :=
  let x := sub_info t s in
  let chk := if has_sub_len then (if si_inline x then LCMin (si_min x) else LCNone)
             else if si_tv x then LCTv (si_tid x) (si_min x) else LCTlv (tlv_need x) in
  let sl := if has_sub_len then true else negb (si_tv x) in
  {| pc_type := si_tid x; pc_check := chk; pc_dec := sub_dec s x (gnth d i) i sl;
     pc_adv := if has_sub_len then AdvNone else if si_tv x then AdvConst (si_min x) else AdvSubLen |}.

(* unmarshal_tv / unmarshal_tlv of the simple path *)
Definition single_stmts (t : table) (d : list gtype) (s : sub) (i : N) : list sstmt :=
  let x := sub_info t s in
  let opt := s_optional s in
  if si_tv x then
    [SSingleTv opt 127
       {| pc_type := si_tid x; pc_check := if opt then LCTv (si_tid x) (si_min x) else LCNone;
          pc_dec := sub_dec s x (gnth d i) i false; pc_adv := AdvConst (si_min x) |}]
  else
    (if opt then [SGuard (si_tid x) 4] else []) ++
    [SSingleTlv opt
       {| pc_type := si_tid x; pc_check := LCTlv (tlv_need x);
          pc_dec := sub_dec s x (gnth d i) i true; pc_adv := AdvSubLen |}].

(* header_len_check *)
Definition hdr_len_check (x : subinfo) (known : Z) : list sstmt * Z :=
  if si_fixed x && (known <? Z.of_N (si_min x))%Z then ([SGuard (si_tid x) (si_min x)], Z.of_N (si_min x))
  else if (known <? Z.of_N (si_hdr x))%Z then ([SGuard (si_tid x) (si_hdr x)], Z.of_N (si_hdr x))
  else ([], known).

(* the run of consecutive subs with the key (optional, repeatable, group) of [s]; returns (run, rest) *)
Definition same_key (a b : sub) : bool :=
  Bool.eqb (s_optional a) (s_optional b) && Bool.eqb (s_repeat a) (s_repeat b) && (s_group a =? s_group b).

Fixpoint take_run (s : sub) (subs : list sub) : list sub * list sub :=
  match subs with
  | s' :: r => if same_key s s' then let '(a, b) := take_run s r in (s' :: a, b) else ([], subs)
  | [] => ([], [])
  end.

Fixpoint cases_of (t : table) (d : list gtype) (hsl : bool) (run : list sub) (i : N) : list pcase :=
  match run with [] => [] | s :: r => group_case t d hsl s i :: cases_of t d hsl r (i + 1) end.

Fixpoint singles_of (t : table) (d : list gtype) (run : list sub) (i : N) (known : Z) : list sstmt * Z :=
  match run with
  | [] => ([], known)
  | s :: r =>
    let x := sub_info t s in
    let '(g, k1) := if s_optional s then ([], known) else hdr_len_check x known in
    let k2 := if s_optional s then k1 else if si_fixed x then (k1 - Z.of_N (si_min x))%Z else 0%Z in
    let '(tl, k3) := singles_of t d r (i + 1) k2 in
    (g ++ single_stmts t d s i ++ tl, k3)
  end.

Fixpoint minimum (l : list N) : N := match l with [] => 0 | [x] => x | x :: r => N.min x (minimum r) end.

(* [fuel] bounds the number of groups (structural recursion on the sub list is hidden by take_run) *)
Fixpoint compile_dsubs (t : table) (d : list gtype) (fuel : nat) (subs : list sub) (i : N) (known : Z) : list sstmt :=
  match fuel, subs with
  | S fk, s :: r =>
    let '(run0, rest) := take_run s r in
    let run := s :: run0 in
    let n := N.of_nat (length run) in
    let optional := s_optional s in
    let repeatable := s_repeat s in
    let pre := if optional && negb (existsb (fun s' => negb (s_optional s')) rest) then [SRetIfEmpty] else [] in
    let infos := map (sub_info t) run in
    let req_len := if optional then 0 else minimum (map si_min infos) in
    if negb repeatable && ((length run =? 1)%nat || ((s_group s =? 0) && negb optional)) then
      let '(st, k') := singles_of t d run i known in
      pre ++ st ++ compile_dsubs t d fk rest (i + n) k'
    else
      let mut_excl := negb (optional || repeatable) in
      let any_tv := existsb si_tv infos in
      let any_tlv := existsb (fun x => negb (si_tv x)) infos in
      let hsl := negb any_tv && negb mut_excl in
      let h := if any_tv && any_tlv then HMixed 128 127 4
               else if any_tv then HTv 127
               else if hsl then HTlvLen 4 else HTlv in
      let loop := if mut_excl then None else Some (if any_tv then 1 else 4) in
      let k' := if mut_excl || (any_tv && negb any_tlv) then (known - Z.of_N req_len)%Z
                else if hsl then 0%Z else known in
      pre ++ [SGroup loop h (cases_of t d hsl run i) hsl] ++ compile_dsubs t d fk rest (i + n) k'
  | _, _ => []
  end.

(* ---- how the struct is read back as a tree ---- *)
Fixpoint shape_fields (fs : list fkind) : list zkind :=
  match fs with
  | [] => []
  | f :: r =>
    (match f with
     | FNum _ | FBits _ _ _ => [ZNum]
     | FPad _ => []
     | FFixed _ | FString | FRest => [ZBytes]
     | FCounted _ => [ZNums]
     | FBitArr => [ZBitLen; ZBitBytes]
     end) ++ shape_fields r
  end.

Definition shape_of (c : container) : list zkind :=
  shape_fields (c_fields c) ++
  map (fun s => match s_arity s with One => ZOne (s_tid s) | Opt => ZOpt (s_tid s) | Many => ZMany (s_tid s) end) (c_subs c).

(* should_check_leftover *)
Definition leftover_of (t : table) (c : container) : bool :=
  if fxd t c then false
  else match c_subs c with
       | [] => match c_fields c with
               | [] => false
               | _ => match last (c_fields c) FRest with FRest => false | _ => true end
               end
       | _ => true
       end.

Definition dcompile (t : table) (d : list gtype) (c : container) : dec_prog :=
  let lk := compile_lenck t c in
  let known0 := match c_kind c with
                | KMsg => if is_empty c then 0%Z else Z.of_N (msz t c)
                | k => Z.of_N (msz t c - header_size k)
                end in
  let has_subs := match c_subs c with [] => false | _ => true end in
  let '(fst_, known1) :=
      if inline_of c then
        ([DStore 0 (match c_fields c with f :: _ => value_of f (gnth d 0) 0 | [] => XByte 0 end)], known0)
      else compile_dfields d (c_fields c) has_subs 0 0 known0 in
  {| d_struct := d; d_inline := inline_of c; d_shape := shape_of c; d_len := lk;
     d_fields := fst_;
     d_subs := compile_dsubs t d (length (c_subs c)) (c_subs c) (nslots (c_fields c)) known1;
     d_leftover := match lk with LMsgEmpty => false | _ => leftover_of t c end |}.

Definition dcontainer_matches (t : table) (ps : list (container_id * dec_prog)) (c : container) : bool :=
  match dlookup ps (is_msg_kind (c_kind c)) (c_tid c) with
  | Some p => struct_ok c (d_struct p) (d_inline p) && dprog_eqb (dcompile t (d_struct p) c) p
  | None => false
  end.

Definition dprogs_match (t : table) (ps : dprograms) : bool :=
  dp_has_le ps &&
  (N.of_nat (length (dp_progs ps)) =? N.of_nat (length t)) &&
  forallb (dcontainer_matches t (dp_progs ps)) t.

(* ---- diagnostics ---- *)
Definition dmismatches (t : table) (ps : dprograms) : list container_id :=
  map (fun c => (is_msg_kind (c_kind c), c_tid c))
      (filter (fun c => negb (dcontainer_matches t (dp_progs ps) c)) t).

Definition dstrays (t : table) (ps : dprograms) : list container_id :=
  map fst (filter (fun kp => match find_container t (fst (fst kp)) (snd (fst kp)) with
                             | Some _ => false | None => true end) (dp_progs ps)).

Definition dexpected_prog (t : table) (ps : dprograms) (msg : bool) (tid : N) : option dec_prog :=
  match find_container t msg tid with
  | Some c => Some (dcompile t (match dlookup (dp_progs ps) msg tid with
                                | Some p => d_struct p | None => [] end) c)
  | None => None
  end.

Definition dstruct_verdict (t : table) (ps : dprograms) (msg : bool) (tid : N) : option bool :=
  match find_container t msg tid, dlookup (dp_progs ps) msg tid with
  | Some c, Some p => Some (struct_ok c (d_struct p) (d_inline p))
  | _, _ => None
  end.

Definition dcanon_programs (t : table) : dprograms :=
  {| dp_has_le := true;
     dp_progs := map (fun c => ((is_msg_kind (c_kind c), c_tid c), dcompile t (canon_struct c) c)) t |}.
