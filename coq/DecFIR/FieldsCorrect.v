(* The field statements of a decoder, as compiled from the schema (DecFIR/Compile.compile_dfields), executed by the
   IR semantics (DecFIR/Sem.exec_fs) on a zero receiver, store what the model decoder Codec/Decode.dec_fields
   returns and leave the slice where the model leaves it.
   Invariant: the IR's [data] is a slice D of which [pos] bytes are already consumed by fixed-size fields that were
   not resliced: the model's remaining input is always  skipn pos D. *)
From Coq Require Import NArith ZArith List Bool Arith Lia ZifyN ZifyNat ZifyBool.
From LLRP Require Import Codec.Schema Codec.Encode Codec.Decode Codec.Wf Codec.BytesLemmas
     EncIR.IR EncIR.Compile DecFIR.IR DecFIR.Sem DecFIR.Compile.
Import ListNotations.
Open Scope N_scope.
Ltac Zify.zify_post_hook ::= Z.div_mod_to_equations.

(* ---------- lists ---------- *)
Lemma skipn_skipn' {A} (a b : nat) (l : list A) : skipn a (skipn b l) = skipn (b + a) l.
Proof.
  revert l. induction b as [|b IH]; intros l; [reflexivity|].
  destruct l as [|x l]; [cbn; now rewrite skipn_nil|]. cbn [skipn Nat.add]. apply IH.
Qed.

Lemma take_exact_spec {A} n : forall (l a b : list A), take_exact n l = Some (a, b) ->
  a = firstn n l /\ b = skipn n l /\ (n <= length l)%nat /\ length a = n.
Proof.
  induction n as [|n IH]; intros l a b H; cbn [take_exact] in H.
  - injection H as <- <-. repeat split. cbn. lia.
  - destruct l as [|x l]; [discriminate|]. destruct (take_exact n l) as [[a' b']|] eqn:E; [|discriminate].
    injection H as <- <-. destruct (IH _ _ _ E) as (-> & -> & Hl & Hn). cbn [firstn skipn length].
    repeat split; try lia.
Qed.

Lemma take_exact_ok {A} n (l : list A) : (n <= length l)%nat -> take_exact n l = Some (firstn n l, skipn n l).
Proof.
  revert l. induction n as [|n IH]; intros l H; [reflexivity|].
  destruct l as [|x l]; [cbn in H; lia|]. cbn [take_exact firstn skipn]. rewrite IH by (cbn in H; lia). reflexivity.
Qed.

Lemma byte_list_skipn n (D : bytes) : byte_list D -> byte_list (skipn n D).
Proof.
  unfold byte_list. revert D. induction n as [|n IH]; intros D H; [exact H|].
  destruct D as [|x D]; [exact H|]. cbn [skipn]. apply IH. inversion H; assumption.
Qed.

Lemma byte_list_firstn n (D : bytes) : byte_list D -> byte_list (firstn n D).
Proof.
  unfold byte_list. revert D. induction n as [|n IH]; intros D H; [constructor|].
  destruct D as [|x D]; [constructor|]. cbn [firstn]. inversion H; subst. constructor; [assumption|apply IH; assumption].
Qed.

Lemma blen_skipn (D : bytes) n : blen (skipn n D) = blen D - N.of_nat n.
Proof. unfold blen. rewrite skipn_length. lia. Qed.

Lemma blen_app (a b : bytes) : blen (a ++ b) = blen a + blen b.
Proof. unfold blen. rewrite app_length. lia. Qed.

Lemma set_slot_at (pre : list value) x rest v :
  set_slot (pre ++ x :: rest) (length pre) v = pre ++ v :: rest.
Proof. induction pre as [|y pre IH]; cbn [set_slot app length]; [reflexivity|now rewrite IH]. Qed.

Lemma setN_at (pre : list value) x rest v i :
  i = N.of_nat (length pre) -> setN (pre ++ x :: rest) i v = pre ++ v :: rest.
Proof. intros ->. unfold setN. rewrite Nat2N.id. apply set_slot_at. Qed.

Lemma gnth_at' (dpre : list gtype) g rest i :
  i = N.of_nat (length dpre) -> gnth (dpre ++ g :: rest) i = g.
Proof.
  intros ->. unfold gnth. rewrite Nat2N.id, app_nth2 by lia. rewrite Nat.sub_diag. reflexivity.
Qed.

(* ---------- reads ---------- *)
Lemma drop_ok k D : k <= blen D -> drop k D = DOk (skipn (N.to_nat k) D).
Proof. intros H. unfold drop. apply N.leb_le in H. rewrite H. reflexivity. Qed.

Lemma after_len_ok p D : p <= blen D -> after_len p D = DOk (blen D - p).
Proof. intros H. unfold after_len. apply N.leb_le in H. rewrite H. reflexivity. Qed.

Lemma slice_ok lo hi D : lo <= hi -> hi <= blen D ->
  slice lo hi D = DOk (firstn (N.to_nat (hi - lo)) (skipn (N.to_nat lo) D)).
Proof.
  intros H1 H2. unfold slice. apply N.leb_le in H1, H2. rewrite H1, H2. reflexivity.
Qed.

Lemma read_be_take size pos D e r : pos <= blen D ->
  take_exact size (skipn (N.to_nat pos) D) = Some (e, r) ->
  read_be (N.of_nat size) pos D = DOk (from_be e 0) /\ pos + N.of_nat size <= blen D /\
  r = skipn (N.to_nat (pos + N.of_nat size)) D.
Proof.
  intros Hp H. destruct (take_exact_spec _ _ _ _ H) as (-> & -> & Hl & _).
  rewrite skipn_length in Hl. unfold blen in *.
  assert (Hle : pos + N.of_nat size <= N.of_nat (length D)) by lia.
  split; [|split; [exact Hle|]].
  - unfold read_be, blen. apply N.leb_le in Hle. rewrite Hle, Nat2N.id. reflexivity.
  - rewrite skipn_skipn'. f_equal. lia.
Qed.

Lemma read_u16 pos D cnt r : pos <= blen D ->
  take_u16 (skipn (N.to_nat pos) D) = Some (cnt, r) ->
  read_be 2 pos D = DOk cnt /\ pos + 2 <= blen D /\ r = skipn (N.to_nat (pos + 2)) D.
Proof.
  intros Hp H. unfold take_u16 in H.
  destruct (skipn (N.to_nat pos) D) as [|a [|b r']] eqn:E; try discriminate. injection H as <- <-.
  assert (T : take_exact 2 (skipn (N.to_nat pos) D) = Some ([a; b], r')) by (rewrite E; reflexivity).
  destruct (read_be_take 2 pos D _ _ Hp T) as (R & L & S). change (N.of_nat 2) with 2 in *.
  split; [|split; assumption]. rewrite R. cbn [from_be]. f_equal; lia.
Qed.

Lemma from_be_1 b : from_be [b] 0 = b.
Proof. cbn [from_be]. lia. Qed.

(* ---------- FieldSpec.value ---------- *)
Lemma value_of_num s g pos D e r : pos <= blen D ->
  take_exact s (skipn (N.to_nat pos) D) = Some (e, r) ->
  eval_x D (value_of (FNum s) g pos) = DOk (from_be e 0).
Proof.
  intros Hp H. destruct (read_be_take s pos D e r Hp H) as (R & _ & _).
  cbn [value_of]. destruct s as [|[|s]]; cbn [eval_x]; try exact R.
Qed.

(* the generator's mask is `1 << bit_size - 1` = 2^(bits-1) (Python precedence): right only for a field that
   starts its byte (no mask is written) or is one bit wide *)
Definition bits_fit (bits bit : nat) : bool :=
  Nat.leb 1 bits && Nat.leb (bit + bits) 8 && (Nat.eqb bit 0 || Nat.eqb bits 1).

Lemma shr_small b (bits : nat) : b < 256 -> (bits <= 8)%nat ->
  N.shiftr b (N.of_nat (8 - bits)) < 2 ^ N.of_nat bits.
Proof.
  intros Hb H8. rewrite N.shiftr_div_pow2.
  assert (E : 2 ^ N.of_nat (8 - bits) * 2 ^ N.of_nat bits = 256).
  { rewrite <- N.pow_add_r. replace (N.of_nat (8 - bits) + N.of_nat bits) with 8 by lia. reflexivity. }
  assert (Hnz : 2 ^ N.of_nat (8 - bits) <> 0) by (apply N.pow_nonzero; discriminate).
  apply N.div_lt_upper_bound; [exact Hnz|]. rewrite E. exact Hb.
Qed.

Lemma value_of_bits bits bit p g pos D b r' : pos <= blen D ->
  skipn (N.to_nat pos) D = b :: r' -> b < 256 -> bits_fit bits bit = true ->
  (is_bool_elem g = true -> bits = 1%nat) ->
  eval_x D (value_of (FBits bits bit p) g pos) =
  DOk (N.shiftr b (N.of_nat (8 - bits - bit)) mod 2 ^ N.of_nat bits).
Proof.
  intros Hp E Hb Hf Hbool. unfold bits_fit in Hf.
  apply andb_true_iff in Hf as [Hf H3]. apply andb_true_iff in Hf as [H1 H2].
  apply Nat.leb_le in H1, H2.
  assert (T : take_exact 1 (skipn (N.to_nat pos) D) = Some ([b], r')) by (rewrite E; reflexivity).
  destruct (read_be_take 1 pos D _ _ Hp T) as (R & _ & _). change (N.of_nat 1) with 1 in R. rewrite from_be_1 in R.
  set (down := N.of_nat (8 - (bit + bits))).
  replace (N.of_nat (8 - bits - bit)) with down by (unfold down; lia).
  set (x := N.shiftr b down).
  assert (E1 : eval_x D (if down =? 0 then XByte pos else XShr (XByte pos) down) = DOk x).
  { destruct (N.eqb_spec down 0) as [Hz|Hz]; cbn [eval_x]; rewrite R; cbn [dbind]; [|reflexivity].
    unfold x. rewrite Hz, N.shiftr_0_r. reflexivity. }
  assert (E2 : eval_x D (match bit with O => if down =? 0 then XByte pos else XShr (XByte pos) down
                         | S _ => XAnd (if down =? 0 then XByte pos else XShr (XByte pos) down) (2 ^ (N.of_nat bits - 1)) end)
               = DOk (x mod 2 ^ N.of_nat bits)).
  { destruct bit as [|bit'].
    - rewrite E1. f_equal. symmetry. apply N.mod_small. unfold x, down.
      replace (8 - (0 + bits))%nat with (8 - bits)%nat by lia. apply shr_small; [exact Hb|lia].
    - cbn [Nat.eqb orb] in H3. apply Nat.eqb_eq in H3. subst bits. cbn [eval_x]. rewrite E1. cbn [dbind].
      change (2 ^ (N.of_nat 1 - 1)) with (N.ones 1). rewrite N.land_ones. reflexivity. }
  cbn [value_of]. fold down.
  destruct (is_bool_elem g) eqn:Bg; [|exact E2].
  specialize (Hbool eq_refl). subst bits. cbn [eval_x]. rewrite E2. cbn [dbind]. f_equal.
  change (2 ^ N.of_nat 1) with 2.
  assert (Hx : x mod 2 < 2) by (apply N.mod_lt; discriminate).
  destruct (N.eqb_spec (x mod 2) 0) as [->|Hn]; [reflexivity|]. lia.
Qed.

(* ---------- one field of the model decoder ---------- *)
Definition dec1 (f : fkind) (M : bytes) : option (list value * bytes) :=
  match f with
  | FNum size => match take_exact size M with Some (e, r) => Some ([VNum (from_be e 0)], r) | None => None end
  | FBits bits bit partial =>
      match M with
      | [] => None
      | b :: r => Some ([VNum ((N.shiftr b (N.of_nat (8 - bits - bit))) mod 2 ^ N.of_nat bits)], if partial then M else r)
      end
  | FPad n => match take_exact n M with Some (_, r) => Some ([], r) | None => None end
  | FFixed n => match take_exact n M with Some (e, r) => Some ([VBytes e], r) | None => None end
  | FCounted esize =>
      match take_u16 M with
      | Some (cnt, r) => match take_nums (N.to_nat cnt) esize r with Some (ns, r1) => Some ([VNums ns], r1) | None => None end
      | None => None
      end
  | FString =>
      match take_u16 M with
      | Some (cnt, r) => match take_exact (N.to_nat cnt) r with Some (e, r1) => Some ([VBytes e], r1) | None => None end
      | None => None
      end
  | FBitArr =>
      match take_u16 M with
      | Some (nbits, r) =>
        match take_exact (N.to_nat (bitarr_nbytes nbits)) r with Some (e, r1) => Some ([VBitArr nbits e], r1) | None => None end
      | None => None
      end
  | FRest => Some ([VBytes M], [])
  end.

Lemma dec_fields_cons f fs M :
  dec_fields (f :: fs) M =
  match dec1 f M with
  | Some (v1, M1) => match dec_fields fs M1 with Some (vs, r) => Some (v1 ++ vs, r) | None => None end
  | None => None
  end.
Proof.
  destruct f; cbn [dec_fields dec1].
  - destruct (take_exact size M) as [[e r]|]; [|reflexivity]. destruct (dec_fields fs r) as [[vs r']|]; reflexivity.
  - destruct M as [|b r]; [reflexivity|]. destruct (dec_fields fs (if partial then b :: r else r)) as [[vs r']|]; reflexivity.
  - destruct (take_exact size M) as [[e r]|]; [|reflexivity]. destruct (dec_fields fs r) as [[vs r']|]; reflexivity.
  - destruct (take_exact n M) as [[e r]|]; [|reflexivity]. destruct (dec_fields fs r) as [[vs r']|]; reflexivity.
  - destruct (take_u16 M) as [[cnt r]|]; [|reflexivity].
    destruct (take_nums (N.to_nat cnt) esize r) as [[ns r1]|]; [|reflexivity].
    destruct (dec_fields fs r1) as [[vs r']|]; reflexivity.
  - destruct (take_u16 M) as [[cnt r]|]; [|reflexivity].
    destruct (take_exact (N.to_nat cnt) r) as [[e r1]|]; [|reflexivity].
    destruct (dec_fields fs r1) as [[vs r']|]; reflexivity.
  - destruct (take_u16 M) as [[cnt r]|]; [|reflexivity].
    destruct (take_exact (N.to_nat (bitarr_nbytes cnt)) r) as [[e r1]|]; [|reflexivity].
    destruct (dec_fields fs r1) as [[vs r']|]; reflexivity.
  - destruct (dec_fields fs []) as [[vs r']|]; reflexivity.
Qed.

(* ---------- arrays ---------- *)
Lemma read_elems_ok e D : forall cnt pos ns r1, pos <= blen D ->
  take_nums cnt e (skipn (N.to_nat pos) D) = Some (ns, r1) ->
  read_elems cnt (N.of_nat e) pos (N.of_nat e) D = DOk ns /\
  pos + N.of_nat cnt * N.of_nat e <= blen D /\
  r1 = skipn (N.to_nat (pos + N.of_nat cnt * N.of_nat e)) D.
Proof.
  induction cnt as [|cnt IH]; intros pos ns r1 Hp H; cbn [take_nums read_elems] in *.
  - injection H as <- <-. repeat split; [lia|]. f_equal. lia.
  - destruct (take_exact e (skipn (N.to_nat pos) D)) as [[x r]|] eqn:T; [|discriminate].
    destruct (read_be_take e pos D x r Hp T) as (R & L & ->).
    destruct (take_nums cnt e (skipn (N.to_nat (pos + N.of_nat e)) D)) as [[ns' r']|] eqn:T2; [|discriminate].
    injection H as <- <-. destruct (IH _ _ _ L T2) as (R2 & L2 & ->).
    rewrite R. cbn [dbind]. rewrite R2. cbn [dbind]. repeat split; [lia|]. f_equal. lia.
Qed.

Lemma take_nums_1 : forall cnt l ns r, take_nums cnt 1 l = Some (ns, r) -> ns = firstn cnt l.
Proof.
  induction cnt as [|cnt IH]; intros l ns r H; cbn [take_nums] in H.
  - injection H as <- _. reflexivity.
  - destruct l as [|b l]; [discriminate|]. cbn [take_exact] in H.
    destruct (take_nums cnt 1 l) as [[ns' r']|] eqn:T; [|discriminate]. injection H as <- _.
    try rewrite from_be_1. cbn [firstn]. f_equal. eapply IH; eauto.
Qed.

Lemma copy_n_enough n (src : bytes) : (n <= length src)%nat -> copy_n n src = firstn n src.
Proof.
  intros H. unfold copy_n. rewrite firstn_length_le by exact H. rewrite Nat.sub_diag. cbn [repeat]. apply app_nil_r.
Qed.

Lemma nbytes_Z n :
  (Z.of_N 1 + Z.shiftr (Z.of_N n - Z.of_N 1) (Z.of_N 3))%Z = Z.of_N (bitarr_nbytes n).
Proof.
  unfold bitarr_nbytes. destruct (N.eqb_spec n 0) as [->|Hn]; [reflexivity|].
  change (Z.of_N 3) with 3%Z. change (Z.of_N 1) with 1%Z.
  rewrite Z.shiftr_div_pow2 by lia. change (2 ^ 3)%Z with 8%Z.
  rewrite N2Z.inj_add, N2Z.inj_div, N2Z.inj_sub by lia. change (Z.of_N 8) with 8%Z. change (Z.of_N 1) with 1%Z. lia.
Qed.

(* ---------- slots ---------- *)
Definition fslot (v : value) : list value := match v with VBitArr n bs => [VNum n; VBytes bs] | _ => [v] end.
Definition fslots (vs : list value) : list value := flat_map fslot vs.

Definition fzero (f : fkind) : list value :=
  match f with
  | FNum _ | FBits _ _ _ => [VNum 0]
  | FPad _ => []
  | FFixed _ | FString | FRest => [VBytes []]
  | FCounted _ => [VNums []]
  | FBitArr => [VNum 0; VBytes []]
  end.
Definition fzeros (fs : list fkind) : list value := flat_map fzero fs.

(* what the proof needs of a field list (follows from wf_fspecs and the mask condition) *)
Fixpoint fs_ok (fs : list fkind) : bool :=
  match fs with
  | [] => true
  | FBits b bit p :: r => bits_fit b bit && (negb p || match r with [] => false | _ => true end) && fs_ok r
  | FRest :: r => match r with [] => true | _ => false end
  | _ :: r => fs_ok r
  end.

(* what the proof needs of the Go type of a field *)
Definition fdecl_ok (f : fkind) (g : gtype) : Prop :=
  match f with
  | FBits b _ _ => is_bool_elem g = true -> b = 1%nat
  | FCounted e => snd g = EU8 -> e = 1%nat
  | _ => True
  end.

Lemma field_ok_decl f g : field_ok f g = true -> fdecl_ok f g.
Proof.
  destruct f; cbn [fdecl_ok]; try exact (fun _ => I).
  - destruct g as [[] []]; cbn; try discriminate; try (intros _ H; discriminate H).
    destruct ptid; [discriminate|]. intros H _. apply Nat.eqb_eq, H.
  - destruct g as [[] []]; cbn; try discriminate; try (intros _ H; discriminate H).
    intros H _. apply Nat.eqb_eq, H.
Qed.

(* the position inside the slice at the end of the field statements *)
Fixpoint fpos (fs : list fkind) (hs : bool) (pos : N) : N :=
  match fs with
  | [] => pos
  | f :: r =>
    let last := match r with [] => true | _ => false end in
    let reslice := negb (f_fixed f) || (last && hs) in
    fpos r hs (if reslice then 0 else if f_partial f then pos else pos + f_min f)
  end.

Lemma exec_fs_app a : forall b D sl,
  exec_fs (a ++ b) D sl =
  dbind (exec_fs a D sl) (fun fl => match fl with Next d s => exec_fs b d s | Done s => DOk (Done s) end).
Proof.
  induction a as [|x a IH]; intros b D sl; cbn [exec_fs app dbind]; [reflexivity|].
  destruct (exec_f x D sl) as [[d s|s]| | |]; cbn [dbind]; try reflexivity. apply IH.
Qed.

Lemma compile_dfields_cons d f r hs i pos known :
  exists known',
  fst (compile_dfields d (f :: r) hs i pos known) =
  field_stmts f (gnth d i) i pos (negb (f_fixed f) || (match r with [] => true | _ => false end && hs)) ++
  (if negb (f_fixed f) && (0 <? rest_min r) && match f with FRest => false | _ => true end
   then [DGuardLt (rest_min r)] else []) ++
  fst (compile_dfields d r hs (i + slots f)
         (if negb (f_fixed f) || (match r with [] => true | _ => false end && hs) then 0
          else if f_partial f then pos else pos + f_min f) known').
Proof.
  cbn [compile_dfields].
  match goal with |- context [compile_dfields d r hs ?a ?b ?c] =>
    exists c; destruct (compile_dfields d r hs a b c) as [tl kn] end.
  reflexivity.
Qed.

Lemma dec_fields_len fs : forall M vs r, dec_fields fs M = Some (vs, r) -> rest_min fs + blen r <= blen M.
Proof.
  induction fs as [|f fs IH]; intros M vs r H.
  - cbn in H. injection H as _ <-. cbn [rest_min]. lia.
  - rewrite dec_fields_cons in H. destruct (dec1 f M) as [[v1 M1]|] eqn:E1; [|discriminate].
    destruct (dec_fields fs M1) as [[vs' r']|] eqn:E2; [|discriminate]. injection H as _ <-.
    specialize (IH _ _ _ E2). cbn [rest_min]. unfold blen in *.
    destruct f; cbn [dec1 f_partial f_min] in *.
    + destruct (take_exact size M) as [[e r0]|] eqn:T; [|discriminate]. injection E1 as _ <-.
      destruct (take_exact_spec _ _ _ _ T) as (_ & -> & Hl & _). rewrite skipn_length in IH. lia.
    + destruct M as [|b r0]; [discriminate|]. injection E1 as _ <-. destruct partial; cbn [length] in *; lia.
    + destruct (take_exact size M) as [[e r0]|] eqn:T; [|discriminate]. injection E1 as _ <-.
      destruct (take_exact_spec _ _ _ _ T) as (_ & -> & Hl & _). rewrite skipn_length in IH. lia.
    + destruct (take_exact n M) as [[e r0]|] eqn:T; [|discriminate]. injection E1 as _ <-.
      destruct (take_exact_spec _ _ _ _ T) as (_ & -> & Hl & _). rewrite skipn_length in IH. lia.
    + unfold take_u16 in E1. destruct M as [|a [|b r0]]; try discriminate.
      destruct (take_nums (N.to_nat (a * 256 + b)) esize r0) as [[ns r1]|] eqn:T; [|discriminate]. injection E1 as _ <-.
      assert (Hp : 0 <= blen r0) by lia.
      destruct (read_elems_ok esize r0 _ 0 ns r1 Hp T) as (_ & L & ->). unfold blen in L.
      rewrite skipn_length in IH. cbn [length]. lia.
    + unfold take_u16 in E1. destruct M as [|a [|b r0]]; try discriminate.
      destruct (take_exact (N.to_nat (a * 256 + b)) r0) as [[e r1]|] eqn:T; [|discriminate]. injection E1 as _ <-.
      destruct (take_exact_spec _ _ _ _ T) as (_ & -> & Hl & _). rewrite skipn_length in IH. cbn [length]. lia.
    + unfold take_u16 in E1. destruct M as [|a [|b r0]]; try discriminate.
      destruct (take_exact (N.to_nat (bitarr_nbytes (a * 256 + b))) r0) as [[e r1]|] eqn:T; [|discriminate]. injection E1 as _ <-.
      destruct (take_exact_spec _ _ _ _ T) as (_ & -> & Hl & _). rewrite skipn_length in IH. cbn [length]. lia.
    + injection E1 as _ <-. cbn [length] in IH. lia.
Qed.
