(* The field statements of a decoder, as compiled from the schema (DecFIR/Compile.compile_dfields), executed by the
   IR semantics (DecFIR/Sem.exec_fs) on a zero receiver, store what the model decoder Codec/Decode.dec_fields
   returns and leave the slice where the model leaves it.
   Invariant: the IR's [data] is a slice D of which [pos] bytes are already consumed by fixed-size fields that were
   not resliced: the model's remaining input is always  skipn pos D. *)
From Coq Require Import NArith ZArith List Bool Arith Lia ZifyN ZifyNat ZifyBool.
From LLRP Require Import Codec.Schema Codec.Encode Codec.Decode Codec.Wf Codec.BytesLemmas
     EncIR.IR EncIR.Compile DecFIR.IR DecFIR.Sem DecFIR.Compile.
Import ListNotations.
Open Scope N_scope.
Ltac Zify.zify_post_hook ::= Z.div_mod_to_equations.

(* ---------- lists ---------- *)
Lemma skipn_skipn' {A} (a b : nat) (l : list A) : skipn a (skipn b l) = skipn (b + a) l.
Proof.
  revert l. induction b as [|b IH]; intros l; [reflexivity|].
  destruct l as [|x l]; [cbn; now rewrite skipn_nil|]. cbn [skipn Nat.add]. apply IH.
Qed.

Lemma take_exact_spec {A} n : forall (l a b : list A), take_exact n l = Some (a, b) ->
  a = firstn n l /\ b = skipn n l /\ (n <= length l)%nat /\ length a = n.
Proof.
  induction n as [|n IH]; intros l a b H; cbn [take_exact] in H.
  - injection H as <- <-. repeat split. cbn. lia.
  - destruct l as [|x l]; [discriminate|]. destruct (take_exact n l) as [[a' b']|] eqn:E; [|discriminate].
    injection H as <- <-. destruct (IH _ _ _ E) as (-> & -> & Hl & Hn). cbn [firstn skipn length].
    repeat split; try lia.
Qed.

Lemma take_exact_ok {A} n (l : list A) : (n <= length l)%nat -> take_exact n l = Some (firstn n l, skipn n l).
Proof.
  revert l. induction n as [|n IH]; intros l H; [reflexivity|].
  destruct l as [|x l]; [cbn in H; lia|]. cbn [take_exact firstn skipn]. rewrite IH by (cbn in H; lia). reflexivity.
Qed.

Lemma byte_list_skipn n (D : bytes) : byte_list D -> byte_list (skipn n D).
Proof.
  unfold byte_list. revert D. induction n as [|n IH]; intros D H; [exact H|].
  destruct D as [|x D]; [exact H|]. cbn [skipn]. apply IH. inversion H; assumption.
Qed.

Lemma byte_list_firstn n (D : bytes) : byte_list D -> byte_list (firstn n D).
Proof.
  unfold byte_list. revert D. induction n as [|n IH]; intros D H; [constructor|].
  destruct D as [|x D]; [constructor|]. cbn [firstn]. inversion H; subst. constructor; [assumption|apply IH; assumption].
Qed.

Lemma blen_skipn (D : bytes) n : blen (skipn n D) = blen D - N.of_nat n.
Proof. unfold blen. rewrite skipn_length. lia. Qed.

Lemma blen_app (a b : bytes) : blen (a ++ b) = blen a + blen b.
Proof. unfold blen. rewrite app_length. lia. Qed.

Lemma set_slot_at (pre : list value) x rest v :
  set_slot (pre ++ x :: rest) (length pre) v = pre ++ v :: rest.
Proof. induction pre as [|y pre IH]; cbn [set_slot app length]; [reflexivity|now rewrite IH]. Qed.

Lemma setN_at (pre : list value) x rest v i :
  i = N.of_nat (length pre) -> setN (pre ++ x :: rest) i v = pre ++ v :: rest.
Proof. intros ->. unfold setN. rewrite Nat2N.id. apply set_slot_at. Qed.

Lemma gnth_at' (dpre : list gtype) g rest i :
  i = N.of_nat (length dpre) -> gnth (dpre ++ g :: rest) i = g.
Proof.
  intros ->. unfold gnth. rewrite Nat2N.id, app_nth2 by lia. rewrite Nat.sub_diag. reflexivity.
Qed.

(* ---------- reads ---------- *)
Lemma drop_ok k D : k <= blen D -> drop k D = DOk (skipn (N.to_nat k) D).
Proof. intros H. unfold drop. apply N.leb_le in H. rewrite H. reflexivity. Qed.

Lemma after_len_ok p D : p <= blen D -> after_len p D = DOk (blen D - p).
Proof. intros H. unfold after_len. apply N.leb_le in H. rewrite H. reflexivity. Qed.

Lemma slice_ok lo hi D : lo <= hi -> hi <= blen D ->
  slice lo hi D = DOk (firstn (N.to_nat (hi - lo)) (skipn (N.to_nat lo) D)).
Proof.
  intros H1 H2. unfold slice. apply N.leb_le in H1, H2. rewrite H1, H2. reflexivity.
Qed.

Lemma read_be_take size pos D e r : pos <= blen D ->
  take_exact size (skipn (N.to_nat pos) D) = Some (e, r) ->
  read_be (N.of_nat size) pos D = DOk (from_be e 0) /\ pos + N.of_nat size <= blen D /\
  r = skipn (N.to_nat (pos + N.of_nat size)) D.
Proof.
  intros Hp H. destruct (take_exact_spec _ _ _ _ H) as (-> & -> & Hl & _).
  rewrite skipn_length in Hl. unfold blen in *.
  assert (Hle : pos + N.of_nat size <= N.of_nat (length D)) by lia.
  split; [|split; [exact Hle|]].
  - unfold read_be, blen. apply N.leb_le in Hle. rewrite Hle, Nat2N.id. reflexivity.
  - rewrite skipn_skipn'. f_equal. lia.
Qed.

Lemma read_u16 pos D cnt r : pos <= blen D ->
  take_u16 (skipn (N.to_nat pos) D) = Some (cnt, r) ->
  read_be 2 pos D = DOk cnt /\ pos + 2 <= blen D /\ r = skipn (N.to_nat (pos + 2)) D.
Proof.
  intros Hp H. unfold take_u16 in H.
  destruct (skipn (N.to_nat pos) D) as [|a [|b r']] eqn:E; try discriminate. injection H as <- <-.
  assert (T : take_exact 2 (skipn (N.to_nat pos) D) = Some ([a; b], r')) by (rewrite E; reflexivity).
  destruct (read_be_take 2 pos D _ _ Hp T) as (R & L & S). change (N.of_nat 2) with 2 in *.
  split; [|split; assumption]. rewrite R. cbn [from_be]. f_equal; lia.
Qed.

Lemma from_be_1 b : from_be [b] 0 = b.
Proof. cbn [from_be]. lia. Qed.

(* ---------- FieldSpec.value ---------- *)
Lemma value_of_num s g pos D e r : pos <= blen D ->
  take_exact s (skipn (N.to_nat pos) D) = Some (e, r) ->
  eval_x D (value_of (FNum s) g pos) = DOk (from_be e 0).
Proof.
  intros Hp H. destruct (read_be_take s pos D e r Hp H) as (R & _ & _).
  cbn [value_of]. destruct s as [|[|s]]; cbn [eval_x]; try exact R.
Qed.

(* the generator's mask is `1 << bit_size - 1` = 2^(bits-1) (Python precedence): right only for a field that
   starts its byte (no mask is written) or is one bit wide *)
Definition bits_fit (bits bit : nat) : bool :=
  Nat.leb 1 bits && Nat.leb (bit + bits) 8 && (Nat.eqb bit 0 || Nat.eqb bits 1).

Lemma shr_small b (bits : nat) : b < 256 -> (bits <= 8)%nat ->
  N.shiftr b (N.of_nat (8 - bits)) < 2 ^ N.of_nat bits.
Proof.
  intros Hb H8. rewrite N.shiftr_div_pow2.
  assert (E : 2 ^ N.of_nat (8 - bits) * 2 ^ N.of_nat bits = 256).
  { rewrite <- N.pow_add_r. replace (N.of_nat (8 - bits) + N.of_nat bits) with 8 by lia. reflexivity. }
  assert (Hnz : 2 ^ N.of_nat (8 - bits) <> 0) by (apply N.pow_nonzero; discriminate).
  apply N.div_lt_upper_bound; [exact Hnz|]. rewrite E. exact Hb.
Qed.

Lemma value_of_bits bits bit p g pos D b r' : pos <= blen D ->
  skipn (N.to_nat pos) D = b :: r' -> b < 256 -> bits_fit bits bit = true ->
  (is_bool_elem g = true -> bits = 1%nat) ->
  eval_x D (value_of (FBits bits bit p) g pos) =
  DOk (N.shiftr b (N.of_nat (8 - bits - bit)) mod 2 ^ N.of_nat bits).
Proof.
  intros Hp E Hb Hf Hbool. unfold bits_fit in Hf.
  apply andb_true_iff in Hf as [Hf H3]. apply andb_true_iff in Hf as [H1 H2].
  apply Nat.leb_le in H1, H2.
  assert (T : take_exact 1 (skipn (N.to_nat pos) D) = Some ([b], r')) by (rewrite E; reflexivity).
  destruct (read_be_take 1 pos D _ _ Hp T) as (R & _ & _). change (N.of_nat 1) with 1 in R. rewrite from_be_1 in R.
  set (down := N.of_nat (8 - (bit + bits))).
  replace (N.of_nat (8 - bits - bit)) with down by (unfold down; lia).
  set (x := N.shiftr b down).
  assert (E1 : eval_x D (if down =? 0 then XByte pos else XShr (XByte pos) down) = DOk x).
  { destruct (N.eqb_spec down 0) as [Hz|Hz]; cbn [eval_x]; rewrite R; cbn [dbind]; [|reflexivity].
    unfold x. rewrite Hz, N.shiftr_0_r. reflexivity. }
  assert (E2 : eval_x D (match bit with O => if down =? 0 then XByte pos else XShr (XByte pos) down
                         | S _ => XAnd (if down =? 0 then XByte pos else XShr (XByte pos) down) (2 ^ (N.of_nat bits - 1)) end)
               = DOk (x mod 2 ^ N.of_nat bits)).
  { destruct bit as [|bit'].
    - rewrite E1. f_equal. symmetry. apply N.mod_small. unfold x, down.
      replace (8 - (0 + bits))%nat with (8 - bits)%nat by lia. apply shr_small; [exact Hb|lia].
    - cbn [Nat.eqb orb] in H3. apply Nat.eqb_eq in H3. subst bits. cbn [eval_x]. rewrite E1. cbn [dbind].
      change (2 ^ (N.of_nat 1 - 1)) with (N.ones 1). rewrite N.land_ones. reflexivity. }
  cbn [value_of]. fold down.
  destruct (is_bool_elem g) eqn:Bg; [|exact E2].
  specialize (Hbool eq_refl). subst bits. cbn [eval_x]. rewrite E2. cbn [dbind]. f_equal.
  change (2 ^ N.of_nat 1) with 2.
  assert (Hx : x mod 2 < 2) by (apply N.mod_lt; discriminate).
  destruct (N.eqb_spec (x mod 2) 0) as [->|Hn]; [reflexivity|]. lia.
Qed.

(* ---------- one field of the model decoder ---------- *)
Definition dec1 (f : fkind) (M : bytes) : option (list value * bytes) :=
  match f with
  | FNum size => match take_exact size M with Some (e, r) => Some ([VNum (from_be e 0)], r) | None => None end
  | FBits bits bit partial =>
      match M with
      | [] => None
      | b :: r => Some ([VNum ((N.shiftr b (N.of_nat (8 - bits - bit))) mod 2 ^ N.of_nat bits)], if partial then M else r)
      end
  | FPad n => match take_exact n M with Some (_, r) => Some ([], r) | None => None end
  | FFixed n => match take_exact n M with Some (e, r) => Some ([VBytes e], r) | None => None end
  | FCounted esize =>
      match take_u16 M with
      | Some (cnt, r) => match take_nums (N.to_nat cnt) esize r with Some (ns, r1) => Some ([VNums ns], r1) | None => None end
      | None => None
      end
  | FString =>
      match take_u16 M with
      | Some (cnt, r) => match take_exact (N.to_nat cnt) r with Some (e, r1) => Some ([VBytes e], r1) | None => None end
      | None => None
      end
  | FBitArr =>
      match take_u16 M with
      | Some (nbits, r) =>
        match take_exact (N.to_nat (bitarr_nbytes nbits)) r with Some (e, r1) => Some ([VBitArr nbits e], r1) | None => None end
      | None => None
      end
  | FRest => Some ([VBytes M], [])
  end.

Lemma dec_fields_cons f fs M :
  dec_fields (f :: fs) M =
  match dec1 f M with
  | Some (v1, M1) => match dec_fields fs M1 with Some (vs, r) => Some (v1 ++ vs, r) | None => None end
  | None => None
  end.
Proof.
  destruct f; cbn [dec_fields dec1].
  - destruct (take_exact size M) as [[e r]|]; [|reflexivity]. destruct (dec_fields fs r) as [[vs r']|]; reflexivity.
  - destruct M as [|b r]; [reflexivity|]. destruct (dec_fields fs (if partial then b :: r else r)) as [[vs r']|]; reflexivity.
  - destruct (take_exact size M) as [[e r]|]; [|reflexivity]. destruct (dec_fields fs r) as [[vs r']|]; reflexivity.
  - destruct (take_exact n M) as [[e r]|]; [|reflexivity]. destruct (dec_fields fs r) as [[vs r']|]; reflexivity.
  - destruct (take_u16 M) as [[cnt r]|]; [|reflexivity].
    destruct (take_nums (N.to_nat cnt) esize r) as [[ns r1]|]; [|reflexivity].
    destruct (dec_fields fs r1) as [[vs r']|]; reflexivity.
  - destruct (take_u16 M) as [[cnt r]|]; [|reflexivity].
    destruct (take_exact (N.to_nat cnt) r) as [[e r1]|]; [|reflexivity].
    destruct (dec_fields fs r1) as [[vs r']|]; reflexivity.
  - destruct (take_u16 M) as [[cnt r]|]; [|reflexivity].
    destruct (take_exact (N.to_nat (bitarr_nbytes cnt)) r) as [[e r1]|]; [|reflexivity].
    destruct (dec_fields fs r1) as [[vs r']|]; reflexivity.
  - destruct (dec_fields fs []) as [[vs r']|]; reflexivity.
Qed.

(* ---------- arrays ---------- *)
Lemma read_elems_ok e D : forall cnt pos ns r1, pos <= blen D ->
  take_nums cnt e (skipn (N.to_nat pos) D) = Some (ns, r1) ->
  read_elems cnt (N.of_nat e) pos (N.of_nat e) D = DOk ns /\
  pos + N.of_nat cnt * N.of_nat e <= blen D /\
  r1 = skipn (N.to_nat (pos + N.of_nat cnt * N.of_nat e)) D.
Proof.
  induction cnt as [|cnt IH]; intros pos ns r1 Hp H; cbn [take_nums read_elems] in *.
  - injection H as <- <-. repeat split; [lia|]. f_equal. lia.
  - destruct (take_exact e (skipn (N.to_nat pos) D)) as [[x r]|] eqn:T; [|discriminate].
    destruct (read_be_take e pos D x r Hp T) as (R & L & ->).
    destruct (take_nums cnt e (skipn (N.to_nat (pos + N.of_nat e)) D)) as [[ns' r']|] eqn:T2; [|discriminate].
    injection H as <- <-. destruct (IH _ _ _ L T2) as (R2 & L2 & ->).
    rewrite R. cbn [dbind]. rewrite R2. cbn [dbind]. repeat split; [lia|]. f_equal. lia.
Qed.

Lemma take_nums_1 : forall cnt l ns r, take_nums cnt 1 l = Some (ns, r) -> ns = firstn cnt l.
Proof.
  induction cnt as [|cnt IH]; intros l ns r H; cbn [take_nums] in H.
  - injection H as <- _. reflexivity.
  - destruct l as [|b l]; [discriminate|]. cbn [take_exact] in H.
    destruct (take_nums cnt 1 l) as [[ns' r']|] eqn:T; [|discriminate]. injection H as <- _.
    try rewrite from_be_1. cbn [firstn]. f_equal. eapply IH; eauto.
Qed.

Lemma copy_n_enough n (src : bytes) : (n <= length src)%nat -> copy_n n src = firstn n src.
Proof.
  intros H. unfold copy_n. rewrite firstn_length_le by exact H. rewrite Nat.sub_diag. cbn [repeat]. apply app_nil_r.
Qed.

Lemma nbytes_Z n :
  (Z.of_N 1 + Z.shiftr (Z.of_N n - Z.of_N 1) (Z.of_N 3))%Z = Z.of_N (bitarr_nbytes n).
Proof.
  unfold bitarr_nbytes. destruct (N.eqb_spec n 0) as [->|Hn]; [reflexivity|].
  change (Z.of_N 3) with 3%Z. change (Z.of_N 1) with 1%Z.
  rewrite Z.shiftr_div_pow2 by lia. change (2 ^ 3)%Z with 8%Z.
  rewrite N2Z.inj_add, N2Z.inj_div, N2Z.inj_sub by lia. change (Z.of_N 8) with 8%Z. change (Z.of_N 1) with 1%Z. lia.
Qed.

(* ---------- slots ---------- *)
Definition fslot (v : value) : list value := match v with VBitArr n bs => [VNum n; VBytes bs] | _ => [v] end.
Definition fslots (vs : list value) : list value := flat_map fslot vs.

Definition fzero (f : fkind) : list value :=
  match f with
  | FNum _ | FBits _ _ _ => [VNum 0]
  | FPad _ => []
  | FFixed _ | FString | FRest => [VBytes []]
  | FCounted _ => [VNums []]
  | FBitArr => [VNum 0; VBytes []]
  end.
Definition fzeros (fs : list fkind) : list value := flat_map fzero fs.

(* what the proof needs of a field list (follows from wf_fspecs and the mask condition) *)
Fixpoint fs_ok (fs : list fkind) : bool :=
  match fs with
  | [] => true
  | FBits b bit p :: r => bits_fit b bit && (negb p || match r with [] => false | _ => true end) && fs_ok r
  | FRest :: r => match r with [] => true | _ => false end
  | _ :: r => fs_ok r
  end.

(* what the proof needs of the Go type of a field *)
Definition fdecl_ok (f : fkind) (g : gtype) : Prop :=
  match f with
  | FBits b _ _ => is_bool_elem g = true -> b = 1%nat
  | FCounted e => snd g = EU8 -> e = 1%nat
  | _ => True
  end.

Lemma field_ok_decl f g : field_ok f g = true -> fdecl_ok f g.
Proof.
  destruct f; cbn [fdecl_ok]; try exact (fun _ => I).
  - destruct g as [[] []]; cbn; try discriminate; try (intros _ H; discriminate H).
    destruct ptid; [discriminate|]. intros H _. apply Nat.eqb_eq, H.
  - destruct g as [[] []]; cbn; try discriminate; try (intros _ H; discriminate H).
    intros H _. apply Nat.eqb_eq, H.
Qed.

(* the position inside the slice at the end of the field statements *)
Fixpoint fpos (fs : list fkind) (hs : bool) (pos : N) : N :=
  match fs with
  | [] => pos
  | f :: r =>
    let last := match r with [] => true | _ => false end in
    let reslice := negb (f_fixed f) || (last && hs) in
    fpos r hs (if reslice then 0 else if f_partial f then pos else pos + f_min f)
  end.

Lemma exec_fs_app a : forall b D sl,
  exec_fs (a ++ b) D sl =
  dbind (exec_fs a D sl) (fun fl => match fl with Next d s => exec_fs b d s | Done s => DOk (Done s) end).
Proof.
  induction a as [|x a IH]; intros b D sl; cbn [exec_fs app dbind]; [reflexivity|].
  destruct (exec_f x D sl) as [[d s|s]| | |]; cbn [dbind]; try reflexivity. apply IH.
Qed.

Lemma compile_dfields_cons d f r hs i pos known :
  exists known',
  fst (compile_dfields d (f :: r) hs i pos known) =
  field_stmts f (gnth d i) i pos (negb (f_fixed f) || (match r with [] => true | _ => false end && hs)) ++
  (if negb (f_fixed f) && (0 <? rest_min r) && match f with FRest => false | _ => true end
   then [DGuardLt (rest_min r)] else []) ++
  fst (compile_dfields d r hs (i + slots f)
         (if negb (f_fixed f) || (match r with [] => true | _ => false end && hs) then 0
          else if f_partial f then pos else pos + f_min f) known').
Proof.
  cbn [compile_dfields].
  match goal with |- context [compile_dfields d r hs ?a ?b ?c] =>
    exists c; destruct (compile_dfields d r hs a b c) as [tl kn] end.
  reflexivity.
Qed.

Lemma dec_fields_len fs : forall M vs r, dec_fields fs M = Some (vs, r) -> rest_min fs + blen r <= blen M.
Proof.
  induction fs as [|f fs IH]; intros M vs r H.
  - cbn in H. injection H as _ <-. cbn [rest_min]. lia.
  - rewrite dec_fields_cons in H. destruct (dec1 f M) as [[v1 M1]|] eqn:E1; [|discriminate].
    destruct (dec_fields fs M1) as [[vs' r']|] eqn:E2; [|discriminate]. injection H as _ <-.
    specialize (IH _ _ _ E2). cbn [rest_min]. unfold blen in *.
    destruct f; cbn [dec1 f_partial f_min] in *.
    + destruct (take_exact size M) as [[e r0]|] eqn:T; [|discriminate]. injection E1 as _ <-.
      destruct (take_exact_spec _ _ _ _ T) as (_ & -> & Hl & _). rewrite skipn_length in IH. lia.
    + destruct M as [|b r0]; [discriminate|]. injection E1 as _ <-. destruct partial; cbn [length] in *; lia.
    + destruct (take_exact size M) as [[e r0]|] eqn:T; [|discriminate]. injection E1 as _ <-.
      destruct (take_exact_spec _ _ _ _ T) as (_ & -> & Hl & _). rewrite skipn_length in IH. lia.
    + destruct (take_exact n M) as [[e r0]|] eqn:T; [|discriminate]. injection E1 as _ <-.
      destruct (take_exact_spec _ _ _ _ T) as (_ & -> & Hl & _). rewrite skipn_length in IH. lia.
    + unfold take_u16 in E1. destruct M as [|a [|b r0]]; try discriminate.
      destruct (take_nums (N.to_nat (a * 256 + b)) esize r0) as [[ns r1]|] eqn:T; [|discriminate]. injection E1 as _ <-.
      assert (Hp : 0 <= blen r0) by lia.
      destruct (read_elems_ok esize r0 _ 0 ns r1 Hp T) as (_ & L & ->). unfold blen in L.
      rewrite skipn_length in IH. cbn [length]. lia.
    + unfold take_u16 in E1. destruct M as [|a [|b r0]]; try discriminate.
      destruct (take_exact (N.to_nat (a * 256 + b)) r0) as [[e r1]|] eqn:T; [|discriminate]. injection E1 as _ <-.
      destruct (take_exact_spec _ _ _ _ T) as (_ & -> & Hl & _). rewrite skipn_length in IH. cbn [length]. lia.
    + unfold take_u16 in E1. destruct M as [|a [|b r0]]; try discriminate.
      destruct (take_exact (N.to_nat (bitarr_nbytes (a * 256 + b))) r0) as [[e r1]|] eqn:T; [|discriminate]. injection E1 as _ <-.
      destruct (take_exact_spec _ _ _ _ T) as (_ & -> & Hl & _). rewrite skipn_length in IH. cbn [length]. lia.
    + injection E1 as _ <-. cbn [length] in IH. lia.
Qed.

(* ---------- one field of the compiled decoder ---------- *)
Lemma reslice_ok (reslice : bool) np D sl : np <= blen D -> byte_list D ->
  exec_fs (if reslice then [DReslice np] else []) D sl =
    DOk (Next (if reslice then skipn (N.to_nat np) D else D) sl) /\
  (if reslice then 0 else np) <= blen (if reslice then skipn (N.to_nat np) D else D) /\
  skipn (N.to_nat (if reslice then 0 else np)) (if reslice then skipn (N.to_nat np) D else D) = skipn (N.to_nat np) D /\
  byte_list (if reslice then skipn (N.to_nat np) D else D).
Proof.
  intros H HD. destruct reslice.
  - cbn [exec_fs exec_f]. rewrite (drop_ok _ _ H). cbn [dbind]. repeat split; [lia|apply byte_list_skipn, HD].
  - repeat split; assumption.
Qed.

Lemma guard_ok gl D1 sl :
  gl = [] \/ (exists k, gl = [DGuardLt k] /\ k <= blen D1) -> exec_fs gl D1 sl = DOk (Next D1 sl).
Proof.
  intros [->|(k & -> & Hk)]; [reflexivity|]. cbn [exec_fs exec_f].
  replace (blen D1 <? k) with false by (symmetry; apply N.ltb_ge; exact Hk). reflexivity.
Qed.

Definition fbits_ok (f : fkind) : bool := match f with FBits b bit _ => bits_fit b bit | _ => true end.

Section Step.
  Variables (g : gtype) (i pos : N) (D : bytes) (pre Z : list value).
  Hypothesis Hi : i = N.of_nat (length pre).
  Hypothesis Hp : pos <= blen D.
  Hypothesis HD : byte_list D.

  Let M := skipn (N.to_nat pos) D.

  (* a store followed by the optional reslice *)
  Lemma store_reslice st (reslice : bool) np zero v :
    exec_f st D (pre ++ zero :: Z) = DOk (Next D (pre ++ v :: Z)) -> np <= blen D ->
    exec_fs ((st :: (if reslice then [DReslice np] else [])) ++ []) D (pre ++ zero :: Z) =
      DOk (Next (if reslice then skipn (N.to_nat np) D else D) (pre ++ v :: Z)).
  Proof.
    intros E Hn. rewrite app_nil_r. cbn [exec_fs]. rewrite E. cbn [dbind].
    destruct (reslice_ok reslice np D (pre ++ v :: Z) Hn HD) as (R & _). exact R.
  Qed.

  Lemma field_step f (reslice : bool) gl v1 M1 :
    f <> FRest -> dec1 f M = Some (v1, M1) -> fbits_ok f = true -> fdecl_ok f g ->
    (f_fixed f = false -> reslice = true) -> (f_partial f = true -> reslice = false) ->
    (gl = [] \/ (f_fixed f = false /\ exists k, gl = [DGuardLt k] /\ k <= blen M1)) ->
    exists D1, exec_fs (field_stmts f g i pos reslice ++ gl) D (pre ++ fzero f ++ Z) = DOk (Next D1 (pre ++ fslots v1 ++ Z)) /\
      (if reslice then 0 else if f_partial f then pos else pos + f_min f) <= blen D1 /\
      M1 = skipn (N.to_nat (if reslice then 0 else if f_partial f then pos else pos + f_min f)) D1 /\ byte_list D1.
  Proof.
    intros Hnr E Hb Hd Hvar Hpart Hgl. unfold M in *.
    destruct f as [size|bits bit partial|size|n|esize| | |]; cbn [dec1 f_fixed f_partial f_min fzero field_stmts] in *;
      try (destruct Hgl as [->|(Hc & _)]; [|discriminate Hc]).
    - (* FNum *)
      destruct (take_exact size (skipn (N.to_nat pos) D)) as [[e r]|] eqn:T; [|discriminate]. injection E as <- <-.
      destruct (read_be_take size pos D e r Hp T) as (_ & L & ->).
      destruct (reslice_ok reslice (pos + N.of_nat size) D (pre ++ VNum (from_be e 0) :: Z) L HD) as (_ & A & B & C).
      eexists. split; [|split; [exact A|split; [symmetry; exact B|exact C]]].
      cbn [app fslots flat_map fslot]. apply store_reslice; [|exact L].
      cbn [exec_f]. rewrite (value_of_num size g pos D e _ Hp T). cbn [dbind]. rewrite (setN_at _ _ _ _ _ Hi). reflexivity.
    - (* FBits *)
      destruct (skipn (N.to_nat pos) D) as [|b r'] eqn:EM; [discriminate|]. injection E as <- <-.
      assert (Hb256 : b < 256).
      { pose proof (byte_list_skipn (N.to_nat pos) D HD) as HM. rewrite EM in HM. inversion HM; assumption. }
      assert (L : pos + 1 <= blen D).
      { pose proof (blen_skipn D (N.to_nat pos)) as X. rewrite EM in X. unfold blen in *. cbn [length] in X. lia. }
      assert (Er : r' = skipn (N.to_nat (pos + 1)) D).
      { replace (N.to_nat (pos + 1)) with (N.to_nat pos + 1)%nat by lia. rewrite <- skipn_skipn', EM. reflexivity. }
      assert (St : exec_f (DStore i (value_of (FBits bits bit partial) g pos)) D (pre ++ VNum 0 :: Z) =
                   DOk (Next D (pre ++ VNum (N.shiftr b (N.of_nat (8 - bits - bit)) mod 2 ^ N.of_nat bits) :: Z))).
      { cbn [exec_f]. rewrite (value_of_bits bits bit partial g pos D b r' Hp EM Hb256 Hb Hd). cbn [dbind].
        rewrite (setN_at _ _ _ _ _ Hi). reflexivity. }
      destruct partial.
      + rewrite (Hpart eq_refl). eexists. split; [|split; [exact Hp|split; [symmetry; exact EM|exact HD]]].
        cbn [app fslots flat_map fslot exec_fs]. rewrite St. reflexivity.
      + destruct (reslice_ok reslice (pos + 1) D (pre ++ VNum 0 :: Z) L HD) as (_ & A & B & C).
        cbv iota. eexists. split; [|split; [exact A|split; [exact (eq_trans Er (eq_sym B))|exact C]]].
        cbn [app fslots flat_map fslot]. apply store_reslice; [exact St|exact L].
    - (* FPad *)
      destruct (take_exact size (skipn (N.to_nat pos) D)) as [[e r]|] eqn:T; [|discriminate]. injection E as <- <-.
      destruct (read_be_take size pos D e r Hp T) as (_ & L & ->).
      destruct (reslice_ok reslice (pos + N.of_nat size) D (pre ++ Z) L HD) as (R & A & B & C).
      eexists. split; [|split; [exact A|split; [symmetry; exact B|exact C]]].
      rewrite app_nil_r. cbn [app fslots flat_map]. exact R.
    - (* FFixed *)
      destruct (take_exact n (skipn (N.to_nat pos) D)) as [[e r]|] eqn:T; [|discriminate]. injection E as <- <-.
      destruct (read_be_take n pos D e r Hp T) as (_ & L & ->).
      destruct (take_exact_spec _ _ _ _ T) as (-> & _ & Hl & _).
      destruct (reslice_ok reslice (pos + N.of_nat n) D (pre ++ VBytes [] :: Z) L HD) as (_ & A & B & C).
      eexists. split; [|split; [exact A|split; [symmetry; exact B|exact C]]].
      cbn [app fslots flat_map fslot]. apply store_reslice; [|exact L].
      cbn [exec_f]. rewrite (drop_ok _ _ Hp). cbn [dbind]. rewrite Nat2N.id, (copy_n_enough _ _ Hl).
      rewrite (setN_at _ _ _ _ _ Hi). reflexivity.
    - (* FCounted *)
      rewrite (Hvar eq_refl).
      destruct (take_u16 (skipn (N.to_nat pos) D)) as [[cnt r]|] eqn:U; [|discriminate].
      destruct (take_nums (N.to_nat cnt) esize r) as [[ns r1]|] eqn:T; [|discriminate]. injection E as <- <-.
      destruct (read_u16 pos D cnt r Hp U) as (R & L & ->).
      destruct (read_elems_ok esize D _ _ _ _ L T) as (RE & L2 & Er1). rewrite N2Nat.id in L2, Er1. subst r1.
      set (m := match esize with 1%nat => 1 | _ => N.of_nat esize end).
      assert (Hm : m = N.of_nat esize) by (unfold m; destruct esize as [|[|]]; reflexivity).
      exists (skipn (N.to_nat (pos + 2 + cnt * N.of_nat esize)) D).
      split; [|split; [lia|split; [reflexivity|apply byte_list_skipn, HD]]].
      rewrite exec_fs_app. cbn [exec_fs exec_f]. rewrite R. cbn [dbind]. rewrite (after_len_ok _ _ L). cbn [dbind].
      replace (blen D - (pos + 2) <? cnt * m) with false by (symmetry; apply N.ltb_ge; lia).
      assert (G : exec_fs gl (skipn (N.to_nat (pos + 2 + cnt * N.of_nat esize)) D) (pre ++ fslots [VNums ns] ++ Z)
                  = DOk (Next (skipn (N.to_nat (pos + 2 + cnt * N.of_nat esize)) D) (pre ++ fslots [VNums ns] ++ Z))).
      { apply guard_ok. destruct Hgl as [->|(_ & k & -> & Hk)]; [now left|right; eauto]. }
      destruct (N.eqb_spec cnt 0) as [->|Hc]; cbn [negb].
      + (* no elements: the slot keeps its zero value *)
        change (N.to_nat 0) with 0%nat in T. cbn [take_nums] in T. injection T as <- _.
        rewrite (drop_ok _ _ L). cbn [dbind].
        replace (pos + 2 + 0 * N.of_nat esize) with (pos + 2) in * by lia. exact G.
      + assert (RX : (match arr_mode g esize with
                      | ACopy => dbind (drop (pos + 2) D) (fun src => DOk (copy_n (N.to_nat cnt) src))
                      | ALoop1 => read_elems (N.to_nat cnt) 1 (pos + 2) 1 D
                      | ALoopN esz step => read_elems (N.to_nat cnt) esz (pos + 2) step D
                      end) = DOk ns).
        { unfold arr_mode. destruct (snd g) eqn:Sg.
          - (* []byte: copy *)
            cbn [fdecl_ok] in Hd. specialize (Hd Sg). subst esize. rewrite (drop_ok _ _ L). cbn [dbind]. f_equal.
            rewrite (take_nums_1 _ _ _ _ T). apply copy_n_enough. rewrite skipn_length. unfold blen in L2. lia.
          - destruct esize as [|[|e']]; exact RE.
          - destruct esize as [|[|e']]; exact RE.
          - destruct esize as [|[|e']]; exact RE.
          - destruct esize as [|[|e']]; exact RE. }
        rewrite RX. cbn [dbind]. rewrite drop_ok by lia. cbn [dbind].
        cbn [app]. rewrite (setN_at _ _ _ _ _ Hi).
        replace (cnt * m + (pos + 2)) with (pos + 2 + cnt * N.of_nat esize) by lia. exact G.
    - (* FString *)
      rewrite (Hvar eq_refl).
      destruct (take_u16 (skipn (N.to_nat pos) D)) as [[cnt r]|] eqn:U; [|discriminate].
      destruct (take_exact (N.to_nat cnt) r) as [[e r1]|] eqn:T; [|discriminate]. injection E as <- <-.
      destruct (read_u16 pos D cnt r Hp U) as (R & L & ->).
      destruct (read_be_take _ _ _ _ _ L T) as (_ & L2 & ->). rewrite N2Nat.id in L2.
      destruct (take_exact_spec _ _ _ _ T) as (-> & _ & Hl & _).
      exists (skipn (N.to_nat (pos + 2 + cnt)) D).
      split; [|split; [lia|split; [rewrite N2Nat.id; reflexivity|apply byte_list_skipn, HD]]].
      rewrite exec_fs_app. cbn [exec_fs exec_f]. rewrite R. cbn [dbind]. rewrite (after_len_ok _ _ L). cbn [dbind].
      replace (blen D - (pos + 2) <? cnt) with false by (symmetry; apply N.ltb_ge; lia).
      assert (G : forall sl, exec_fs gl (skipn (N.to_nat (pos + 2 + cnt)) D) sl = DOk (Next (skipn (N.to_nat (pos + 2 + cnt)) D) sl)).
      { intros sl. apply guard_ok. destruct Hgl as [->|(_ & k & -> & Hk)]; [now left|right]. rewrite N2Nat.id in Hk. eauto. }
      destruct (N.eqb_spec cnt 0) as [->|Hc]; cbn [negb].
      + rewrite (drop_ok _ _ L). cbn [dbind]. change (N.to_nat 0) with 0%nat. cbn [firstn fslots flat_map fslot app].
        replace (pos + 2 + 0) with (pos + 2) in * by lia. apply G.
      + rewrite slice_ok by lia. cbn [dbind]. rewrite drop_ok by lia. cbn [dbind].
        cbn [app]. rewrite (setN_at _ _ _ _ _ Hi).
        replace (cnt + (pos + 2) - (pos + 2)) with cnt by lia.
        replace (cnt + (pos + 2)) with (pos + 2 + cnt) by lia. apply G.
    - (* FBitArr *)
      rewrite (Hvar eq_refl).
      destruct (take_u16 (skipn (N.to_nat pos) D)) as [[nbits r]|] eqn:U; [|discriminate].
      destruct (take_exact (N.to_nat (bitarr_nbytes nbits)) r) as [[e r1]|] eqn:T; [|discriminate]. injection E as <- <-.
      destruct (read_u16 pos D nbits r Hp U) as (R & L & ->).
      destruct (read_be_take _ _ _ _ _ L T) as (_ & L2 & ->). rewrite N2Nat.id in L2.
      destruct (take_exact_spec _ _ _ _ T) as (-> & _ & Hl & _).
      set (nb := bitarr_nbytes nbits) in *.
      exists (skipn (N.to_nat (pos + 2 + nb)) D).
      split; [|split; [lia|split; [rewrite N2Nat.id; reflexivity|apply byte_list_skipn, HD]]].
      rewrite exec_fs_app. cbn [exec_fs exec_f]. rewrite R. cbn [dbind]. rewrite (after_len_ok _ _ L). cbn [dbind].
      rewrite nbytes_Z. fold nb.
      replace (Z.of_N (blen D - (pos + 2)) <? Z.of_N nb)%Z with false by (symmetry; apply Z.ltb_ge; lia).
      assert (G : forall sl, exec_fs gl (skipn (N.to_nat (pos + 2 + nb)) D) sl = DOk (Next (skipn (N.to_nat (pos + 2 + nb)) D) sl)).
      { intros sl. apply guard_ok. destruct Hgl as [->|(_ & k & -> & Hk)]; [now left|right]. rewrite N2Nat.id in Hk. eauto. }
      assert (Hi1 : i + 1 = N.of_nat (length (pre ++ [VNum nbits]))) by (rewrite app_length; cbn [length]; lia).
      assert (S1 : setN (pre ++ [VNum 0; VBytes []] ++ Z) i (VNum nbits) = (pre ++ [VNum nbits]) ++ VBytes [] :: Z).
      { cbn [app]. rewrite (setN_at _ _ _ _ _ Hi), <- app_assoc. reflexivity. }
      rewrite S1.
      destruct (Z.eqb_spec (Z.of_N nb) 0) as [Hz|Hz]; cbn [negb].
      + assert (Hz' : nb = 0) by lia. rewrite Hz' in *. rewrite (drop_ok _ _ L). cbn [dbind].
        change (N.to_nat 0) with 0%nat. cbn [firstn fslots flat_map fslot app]. rewrite <- app_assoc. cbn [app].
        replace (pos + 2 + 0) with (pos + 2) in * by lia. apply G.
      + replace (Z.of_N nb <? 0)%Z with false by (symmetry; apply Z.ltb_ge; lia).
        rewrite (drop_ok _ _ L). cbn [dbind]. rewrite N2Z.id. rewrite drop_ok by lia. cbn [dbind].
        rewrite (setN_at _ _ _ _ _ Hi1). rewrite <- Z_N_nat, N2Z.id.
        rewrite copy_n_enough by exact Hl.
        cbn [fslots flat_map fslot app]. rewrite <- app_assoc. cbn [app].
        replace (nb + (pos + 2)) with (pos + 2 + nb) by lia. apply G.
    - (* FRest *) contradiction Hnr; reflexivity.
  Qed.
End Step.

(* ---------- the Go struct declaration along the fields ---------- *)
Lemma fields_ok_cons f r dd dd' dpre : fields_ok (f :: r) dd = Some dd' ->
  fdecl_ok f (gnth (dpre ++ dd) (N.of_nat (length dpre))) /\
  exists gs dd1, dd = gs ++ dd1 /\ N.of_nat (length gs) = slots f /\ fields_ok r dd1 = Some dd'.
Proof.
  intros H.
  assert (Gen : forall g d', dd = g :: d' -> field_ok f g = true -> fields_ok r d' = Some dd' -> slots f = 1 ->
                fdecl_ok f (gnth (dpre ++ dd) (N.of_nat (length dpre))) /\
                exists gs dd1, dd = gs ++ dd1 /\ N.of_nat (length gs) = slots f /\ fields_ok r dd1 = Some dd').
  { intros g d' -> Hf Hr Hs. split.
    - rewrite (gnth_at' dpre g d' _ eq_refl). apply field_ok_decl, Hf.
    - exists [g], d'. rewrite Hs. repeat split. exact Hr. }
  destruct f; cbn [fields_ok] in H;
    try (destruct dd as [|g d']; [discriminate|]; destruct (field_ok _ g) eqn:Hf; [|discriminate];
         apply (Gen g d' eq_refl Hf H eq_refl)).
  - (* FPad *) split; [exact I|]. exists [], dd. repeat split. exact H.
  - (* FBitArr *) split; [exact I|].
    destruct dd as [|g1 [|g2 d']]; try discriminate H;
      repeat (match type of H with context [match ?x with _ => _ end] => destruct x end; try discriminate H).
    eexists [_; _], _. repeat split. exact H.
Qed.

Lemma dec1_slots f M v1 M1 : dec1 f M = Some (v1, M1) -> N.of_nat (length (fslots v1)) = slots f.
Proof.
  destruct f; cbn [dec1 slots]; intros H;
    repeat (match type of H with context [match ?x with _ => _ end] => destruct x end; try discriminate H);
    injection H as <- _; reflexivity.
Qed.

Lemma fzero_slots f : N.of_nat (length (fzero f)) = slots f.
Proof. destruct f; reflexivity. Qed.

Lemma fslots_app a b : fslots (a ++ b) = fslots a ++ fslots b.
Proof. unfold fslots. apply flat_map_app. Qed.

(* ---------- all fields ---------- *)
Section Fields.
  Variable d : list gtype.
  Variable hs : bool.
  Variable S : list value.   (* the slots of the sub-parameters *)

  Definition fend (fs : list fkind) (pos : N) (r : bytes) (final : list value) (fl : flow) : Prop :=
    match fl with
    | Done sl => sl = final /\ has_rest fs = true /\ r = []
    | Next D' sl => sl = final /\ byte_list D' /\
        ((has_rest fs = true /\ r = []) \/
         (fpos fs hs pos <= blen D' /\ r = skipn (N.to_nat (fpos fs hs pos)) D'))
    end.

  Lemma fields_sim : forall fs dd dd' dpre i pos known D pre vs r,
    d = dpre ++ dd -> i = N.of_nat (length dpre) -> i = N.of_nat (length pre) ->
    fields_ok fs dd = Some dd' -> fs_ok fs = true ->
    pos <= blen D -> byte_list D ->
    dec_fields fs (skipn (N.to_nat pos) D) = Some (vs, r) ->
    exists fl, exec_fs (fst (compile_dfields d fs hs i pos known)) D (pre ++ fzeros fs ++ S) = DOk fl /\
               fend fs pos r (pre ++ fslots vs ++ S) fl.
  Proof.
    induction fs as [|f fs IH]; intros dd dd' dpre i pos known D pre vs r Hd Hi Hi' Hfo Hok Hp HD H.
    - cbn in H. injection H as <- <-. exists (Next D (pre ++ S)). split; [reflexivity|].
      cbn [fend fpos fslots flat_map app]. repeat split; try assumption. right. split; [assumption|reflexivity].
    - rewrite dec_fields_cons in H.
      destruct (dec1 f (skipn (N.to_nat pos) D)) as [[v1 M1]|] eqn:E1; [|discriminate].
      destruct (dec_fields fs M1) as [[vs' r']|] eqn:E2; [|discriminate]. injection H as <- <-.
      destruct (compile_dfields_cons d f fs hs i pos known) as (known' & ->).
      destruct (fields_ok_cons f fs dd dd' dpre Hfo) as (Hdecl & gs & dd1 & -> & Hgs & Hfo').
      rewrite <- Hd, <- Hi in Hdecl.
      assert (Hfr : {f = FRest} + {f <> FRest}) by (destruct f; (now left) || (right; discriminate)).
      destruct Hfr as [->|Hnr].
      + (* FRest: last *)
        cbn [fs_ok] in Hok. destruct fs; [|discriminate]. cbn [dec1] in E1. injection E1 as <- <-.
        cbn in E2. injection E2 as <- <-.
        cbn [f_fixed negb orb andb field_stmts compile_dfields fst app fzeros fzero flat_map fslots fslot].
        cbn [exec_fs exec_f].
        assert (Hlen : length (skipn (N.to_nat pos) D) = N.to_nat (blen D - pos)).
        { rewrite skipn_length. unfold blen. lia. }
        destruct (Z.eqb_spec (Z.of_N (blen D) - Z.of_N pos) 0) as [Hz|Hz].
        * exists (Done (pre ++ VBytes [] :: S)). split; [reflexivity|]. cbn [fend has_rest existsb orb].
          assert (E0 : skipn (N.to_nat pos) D = []) by (apply length_zero_iff_nil; lia).
          rewrite E0. repeat split.
        * replace (blen D <? pos) with false by (symmetry; apply N.ltb_ge; lia).
          rewrite (drop_ok _ _ Hp). cbn [dbind]. rewrite (setN_at _ _ _ _ _ Hi').
          rewrite copy_n_enough by lia. rewrite <- Hlen, firstn_all.
          eexists. split; [reflexivity|]. cbn [fend has_rest existsb orb].
          repeat split; [apply byte_list_skipn, HD|]. left. split; reflexivity.
      + (* any other field, then the rest *)
        assert (Hparts : fbits_ok f = true /\ (f_partial f = true -> fs <> []) /\ fs_ok fs = true).
        { destruct f; cbn [fs_ok fbits_ok f_partial] in *; try (repeat split; [discriminate|exact Hok]).
          - apply andb_true_iff in Hok as [Hok H3]. apply andb_true_iff in Hok as [H1 H2].
            repeat split; try assumption. intros -> ->. discriminate H2.
          - contradiction Hnr; reflexivity. }
        destruct Hparts as (Hb & Hpart & Hok').
        set (reslice := negb (f_fixed f) || (match fs with [] => true | _ => false end && hs)) in *.
        set (gl := if negb (f_fixed f) && (0 <? rest_min fs) && match f with FRest => false | _ => true end
                   then [DGuardLt (rest_min fs)] else []).
        assert (Hgl : gl = [] \/ (f_fixed f = false /\ exists k, gl = [DGuardLt k] /\ k <= blen M1)).
        { unfold gl. destruct (negb (f_fixed f) && (0 <? rest_min fs) && match f with FRest => false | _ => true end) eqn:G;
            [right|now left].
          apply andb_true_iff in G as [G _]. apply andb_true_iff in G as [G _]. apply negb_true_iff in G.
          split; [exact G|]. eexists. split; [reflexivity|].
          pose proof (dec_fields_len _ _ _ _ E2). lia. }
        destruct (field_step (gnth d i) i pos D pre (fzeros fs ++ S) Hi' Hp HD f reslice gl v1 M1 Hnr E1 Hb Hdecl)
          as (D1 & Hex & Hp1 & HM1 & HD1); [| |exact Hgl|].
        { intros Hf. unfold reslice. rewrite Hf. reflexivity. }
        { intros Hf. unfold reslice. assert (Hfx : f_fixed f = true) by (destruct f; try discriminate Hf; reflexivity).
          rewrite Hfx. specialize (Hpart Hf). destruct fs; [contradiction|reflexivity]. }
        set (pos1 := if reslice then 0 else if f_partial f then pos else pos + f_min f) in *.
        pose proof (dec1_slots _ _ _ _ E1) as Hsl.
        destruct (IH dd1 dd' (dpre ++ gs) (i + slots f) pos1 known' D1 (pre ++ fslots v1) vs' r') as (fl & Hfl & Hend);
          try assumption.
        { rewrite Hd, <- app_assoc. reflexivity. }
        { rewrite app_length. lia. }
        { rewrite app_length. lia. }
        { rewrite <- HM1. exact E2. }
        exists fl. split.
        * rewrite app_assoc, exec_fs_app.
          change (fzeros (f :: fs)) with (fzero f ++ fzeros fs). rewrite <- (app_assoc (fzero f)).
          rewrite Hex. cbn [dbind]. rewrite <- app_assoc in Hfl. exact Hfl.
        * assert (Hhr : has_rest (f :: fs) = has_rest fs).
          { unfold has_rest. cbn [existsb]. destruct f; try reflexivity. contradiction Hnr; reflexivity. }
          assert (Hfp : fpos (f :: fs) hs pos = fpos fs hs pos1) by reflexivity.
          rewrite fslots_app, <- app_assoc. rewrite <- app_assoc in Hend.
          destruct fl as [D' sl|sl]; cbn [fend] in *; [rewrite Hhr, Hfp|rewrite Hhr]; exact Hend.
  Qed.
End Fields.

(* the position at the end is 0 whenever the last field is resliced *)
Lemma fpos_subs fs : forall pos, fs <> [] -> fpos fs true pos = 0.
Proof.
  induction fs as [|f fs IH]; intros pos H; [contradiction|]. cbn [fpos].
  destruct fs as [|f' fs']; [cbn [fpos]; rewrite andb_true_r, orb_true_r; reflexivity|].
  apply IH. discriminate.
Qed.

Lemma fpos_var fs hs : forall pos, fs <> [] -> f_fixed (last fs FRest) = false -> fpos fs hs pos = 0.
Proof.
  induction fs as [|f fs IH]; intros pos H Hl; [contradiction|]. cbn [fpos].
  destruct fs as [|f' fs'].
  - cbn [last] in Hl. rewrite Hl. reflexivity.
  - apply IH; [discriminate|exact Hl].
Qed.

(* the zero receiver: the field slots *)
Lemma fzeros_shape (F : N -> value) fs :
  map (fun z => match z with
                | ZNum | ZBitLen => VNum 0 | ZBytes | ZBitBytes => VBytes [] | ZNums => VNums []
                | ZOne t => F t | ZOpt _ => VOpt None | ZMany _ => VList [] end) (shape_fields fs) = fzeros fs.
Proof.
  induction fs as [|f fs IH]; [reflexivity|]. cbn [shape_fields]. rewrite map_app, IH.
  destruct f; reflexivity.
Qed.

(* reading the slots back as a tree *)
Definition shaped1 (f : fkind) (v : value) : Prop :=
  match f, v with
  | FNum _, VNum _ | FBits _ _ _, VNum _ | FFixed _, VBytes _ | FCounted _, VNums _
  | FString, VBytes _ | FBitArr, VBitArr _ _ | FRest, VBytes _ => True
  | _, _ => False
  end.

Fixpoint shaped (fs : list fkind) (vs : list value) : Prop :=
  match fs with
  | [] => vs = []
  | FPad _ :: r => shaped r vs
  | f :: r => match vs with [] => False | v :: vs' => shaped1 f v /\ shaped r vs' end
  end.

Lemma dec_fields_shaped fs : forall M vs r, dec_fields fs M = Some (vs, r) -> shaped fs vs.
Proof.
  induction fs as [|f fs IH]; intros M vs r H.
  - cbn in H. injection H as <- _. reflexivity.
  - rewrite dec_fields_cons in H. destruct (dec1 f M) as [[v1 M1]|] eqn:E1; [|discriminate].
    destruct (dec_fields fs M1) as [[vs' r']|] eqn:E2; [|discriminate]. injection H as <- _.
    specialize (IH _ _ _ E2).
    destruct f; cbn [dec1] in E1;
      repeat (match type of E1 with context [match ?x with _ => _ end] => destruct x end; try discriminate E1);
      injection E1 as <- _; cbn [shaped shaped1 app]; auto.
Qed.

Lemma assemble_fields (sub_shape : list zkind) (ss : list value) :
  (forall z, In z sub_shape -> match z with ZOne _ | ZOpt _ | ZMany _ => True | _ => False end) ->
  length sub_shape = length ss ->
  forall fs vs, shaped fs vs ->
  assemble (shape_fields fs ++ sub_shape) (fslots vs ++ ss) = Some (vs, ss).
Proof.
  intros Hz Hl. induction fs as [|f fs IH]; intros vs Hs; cbn [shaped] in Hs.
  - subst vs. cbn [shape_fields fslots flat_map app].
    revert ss Hl. induction sub_shape as [|z sh IHs]; intros ss Hl; destruct ss as [|v ss]; try discriminate Hl; [reflexivity|].
    pose proof (Hz z (or_introl eq_refl)) as Hzz.
    assert (Hrec : assemble sh ss = Some ([], ss)).
    { apply IHs; [intros z' Hin; apply Hz; now right|]. cbn in Hl. lia. }
    destruct z; try contradiction; cbn [assemble]; rewrite Hrec; reflexivity.
  - destruct f; cbn [shape_fields app]; try (apply IH; exact Hs);
      (destruct vs as [|v vs]; [contradiction|]; destruct Hs as [H1 Hs]; destruct v; try contradiction;
       cbn [fslots flat_map fslot app assemble]; fold (fslots vs); rewrite (IH vs Hs); reflexivity).
Qed.
