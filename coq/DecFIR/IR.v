(* Value-producing decoder IR for C01 ("Way 1" tie of coq/Codec/Decode.v to pkg/llrp/generated_unmarshal.go).
   Programs are produced on every run by tools/go-dec-ir into build/gen/C01/DecPrograms.v.
   One node = one statement template of the generator (pkg/llrp/generate_param_code.py:
   write_unmarshal_body, FieldSpec.write_unmarshal / write_unmarshal_arr / value, unmarshal_tv,
   unmarshal_tlv, write_cases, write_unmarshal_sub, sublen_check, len_adv); every constant (offset, size, shift,
   mask, type code, minimum length, slice bound) is copied from the Go AST.  Field references are positions in
   the Go struct of the receiver ( *p of an inline type `type T uintN` is position 0).  Conversions between
   integer types of the same size (`T(e)`) are transparent (the translator checks the sizes).  All numbers are N. *)
From Coq Require Import NArith List Bool.
From LLRP Require Import EncIR.IR.
Import ListNotations.
Open Scope N_scope.

(* ---- values read from data ---- *)
Inductive dexpr :=
| XByte (off : N)                  (* data[off] *)
| XBE (size off : N)               (* binary.BigEndian.Uint{8*size}(data[off:])   (data when off = 0) *)
| XShr (e : dexpr) (k : N)         (* e >> k *)
| XAnd (e : dexpr) (m : N)         (* e & m *)
| XNeZero (e : dexpr).             (* e != 0 *)

(* ---- the length check that opens a decoder ---- *)
Inductive lenck :=
| LNone                            (* no check (only a comment: "ParamX can be empty") *)
| LHas (ptype need : N) (exact : bool)   (* if err := hasEnoughBytes(ParamX, need, len(data), exact); err != nil { return err } *)
| LMsgEmpty                        (* if len(data) > 0 { return err }; return nil   (header-only message) *)
| LMsgNe (k : N)                   (* if len(data) != k { return err } *)
| LMsgLt (k : N).                  (* if len(data) < k { return err } *)

(* ---- field statements ---- *)
Inductive arrmode :=
| ACopy                            (* copy(p.X, data[p2:]) *)
| ALoop1                           (* for i := 0; i < arrLen; i++ { p.X[i] = T(data[i+p2]) } *)
| ALoopN (esz step : N).           (* for i, pos := 0, p2; i < arrLen; i, pos = i+1, pos+step { p.X[i] = [T](UintN(data[pos:])) } *)

Inductive fstmt :=
| DStore (f : N) (e : dexpr)       (* p.X = [T](e)   /   *p = T(e) *)
| DReslice (k : N)                 (* data = data[k:] *)
| DGuardLt (k : N)                 (* if len(data) < k { return err } *)
| DFixedCopy (f n pos : N)         (* p.X = make([]byte, n); copy(p.X, data[pos:]) *)
| DStr (f p0 p1 p2 p3 p4 p5 : N)
    (* if strLen := int(Uint16(data[p0:])); strLen > len(data[p1:]) { err }
       else if strLen != 0 { p.X = string(data[p2 : strLen+p3]); data = data[strLen+p4:] } else { data = data[p5:] } *)
| DArr (f : N) (mode : arrmode) (p0 mul p1 p2 mul2 p3 p4 : N)
    (* if arrLen := int(Uint16(data[p0:])); int64(arrLen)*mul > int64(len(data[p1:])) { err }   (arrLen > len(..) when mul = 1)
       else if arrLen != 0 { p.X = make([]T, arrLen); <mode at p2>; data = data[arrLen*mul2+p3:] } else { data = data[p4:] } *)
| DBitArr (fn fb p0 a b c p1 p2 p3 p4 : N)
    (* p.XNumBits = Uint16(data[p0:]); if nBytes := a + ((int(p.XNumBits) - b) >> c); nBytes > len(data[p1:]) { err }
       else if nBytes != 0 { p.X = make([]byte, nBytes); copy(p.X, data[p2:]); data = data[nBytes+p3:] } else { data = data[p4:] } *)
| DRest (f q0 q1 q2 : N) (q3 : option N).
    (* if len(data)-q0 == 0 { return nil }; p.X = make([]byte, len(data)-q1); copy(p.X, data[q2:]); [data = data[q3:]] *)

(* ---- sub-parameters ---- *)
Inductive hibound := HiSubLen | HiConst (k : N) | HiNone.     (* data[lo:subLen] / data[lo:k] / data[lo:] *)
Inductive callmode :=
| MAssign                          (* if err := p.X.UnmarshalBinary(data[lo:hi]); err != nil { return err } *)
| MNew                             (* p.X = new(T); then as MAssign *)
| MAppend.                         (* var tmp T; if err := tmp.UnmarshalBinary(data[lo:hi]); ...; p.X = append(p.X, tmp) *)

Inductive subdec :=
| SDCall (f : N) (mode : callmode) (tid : N) (lo : N) (hi : hibound)
| SDInline (f : N) (alloc : bool) (tid : N) (e : dexpr).   (* [p.X = new(T);] [*]p.X = T(e) *)

Inductive lencheck :=
| LCNone
| LCTv (ptype k : N)               (* hasEnoughBytes(ParamX, k, len(data), false) *)
| LCTlv (need : N)                 (* subLen := Uint16(data[2:]); if int(subLen) > len(data) { err }; if subLen < need { err } *)
| LCMin (need : N).                (* if subLen < need { err }   (subLen read by the group header) *)

Inductive adv := AdvNone | AdvConst (k : N) | AdvSubLen.      (* data = data[k:] / data = data[subLen:] *)

Record pcase := { pc_type : N; pc_check : lencheck; pc_dec : subdec; pc_adv : adv }.

Inductive ghdr :=
| HMixed (m80 m7f lt : N)
    (* var pt ParamType; if data[0]&m80 != 0 { pt = ParamType(data[0] & m7f) } else if len(data) < lt { err } else { pt = ParamType(Uint16(data)) } *)
| HTv (m7f : N)                    (* pt := ParamType(data[0] & m7f) *)
| HTlv                             (* pt := ParamType(Uint16(data)) *)
| HTlvLen (need : N).              (* HTlv; subLen := Uint16(data[2:]); if int(subLen) > len(data) { err }; if subLen < need { err } *)

Inductive sstmt :=
| SRetIfEmpty                      (* if len(data) == 0 { return nil } *)
| SGuard (ptype need : N)          (* hasEnoughBytes(ParamX, need, len(data), false) *)
| SSingleTv (opt : bool) (m7f : N) (c : pcase)
    (* opt:  if subType := ParamType(data[0]&m7f); subType == ParamX { check; dec; adv }
       else: if subType := ...; subType != ParamX { err } else { check; dec; adv } *)
| SSingleTlv (opt : bool) (c : pcase)
    (* the same with subType := ParamType(Uint16(data)) *)
| SGroup (loopmin : option N) (h : ghdr) (cases : list pcase) (advsub : bool).
    (* Some k: paramGroupN: for len(data) >= k { h; switch pt { cases; default: break paramGroupN }; [data = data[subLen:]] }
       None:   { h; switch pt { cases; default: return err } } *)

(* how the Go struct's slots are read back as a value tree (what each slot is stored by) *)
Inductive zkind := ZNum | ZBytes | ZNums | ZBitLen | ZBitBytes | ZOne (tid : N) | ZOpt (tid : N) | ZMany (tid : N).

Record dec_prog := {
  d_struct : list gtype;           (* the Go struct's fields in declaration order *)
  d_inline : bool;
  d_shape : list zkind;            (* one per struct slot *)
  d_len : lenck;
  d_fields : list fstmt;
  d_subs : list sstmt;
  d_leftover : bool }.             (* if len(data) > 0 { return err } before the final return nil *)

Record dprograms := { dp_has_le : bool;   (* hasEnoughBytes accepts iff needed <= got *)
                      dp_progs : list (container_id * dec_prog) }.

Fixpoint dlookup (ps : list (container_id * dec_prog)) (msg : bool) (tid : N) : option dec_prog :=
  match ps with
  | [] => None
  | ((m, t), p) :: r => if Bool.eqb m msg && (t =? tid) then Some p else dlookup r msg tid
  end.

(* ---- decidable syntactic equality ---- *)
Fixpoint dexpr_eqb (a b : dexpr) : bool :=
  match a, b with
  | XByte o, XByte o' => o =? o'
  | XBE s o, XBE s' o' => (s =? s') && (o =? o')
  | XShr e k, XShr e' k' => dexpr_eqb e e' && (k =? k')
  | XAnd e k, XAnd e' k' => dexpr_eqb e e' && (k =? k')
  | XNeZero e, XNeZero e' => dexpr_eqb e e'
  | _, _ => false
  end.

Definition lenck_eqb (a b : lenck) : bool :=
  match a, b with
  | LNone, LNone | LMsgEmpty, LMsgEmpty => true
  | LHas p n e, LHas p' n' e' => (p =? p') && (n =? n') && Bool.eqb e e'
  | LMsgNe k, LMsgNe k' | LMsgLt k, LMsgLt k' => k =? k'
  | _, _ => false
  end.

Definition arrmode_eqb (a b : arrmode) : bool :=
  match a, b with
  | ACopy, ACopy | ALoop1, ALoop1 => true
  | ALoopN e s, ALoopN e' s' => (e =? e') && (s =? s')
  | _, _ => false
  end.

Fixpoint Ns_eqb (a b : list N) : bool :=
  match a, b with
  | [], [] => true
  | x :: a', y :: b' => (x =? y) && Ns_eqb a' b'
  | _, _ => false
  end.

Definition fstmt_eqb (a b : fstmt) : bool :=
  match a, b with
  | DStore f e, DStore f' e' => (f =? f') && dexpr_eqb e e'
  | DReslice k, DReslice k' | DGuardLt k, DGuardLt k' => k =? k'
  | DFixedCopy f n p, DFixedCopy f' n' p' => Ns_eqb [f; n; p] [f'; n'; p']
  | DStr f p0 p1 p2 p3 p4 p5, DStr f' q0 q1 q2 q3 q4 q5 => Ns_eqb [f; p0; p1; p2; p3; p4; p5] [f'; q0; q1; q2; q3; q4; q5]
  | DArr f m p0 mu p1 p2 mu2 p3 p4, DArr f' m' q0 nu q1 q2 nu2 q3 q4 =>
      arrmode_eqb m m' && Ns_eqb [f; p0; mu; p1; p2; mu2; p3; p4] [f'; q0; nu; q1; q2; nu2; q3; q4]
  | DBitArr fn fb p0 a b c p1 p2 p3 p4, DBitArr fn' fb' q0 a' b' c' q1 q2 q3 q4 =>
      Ns_eqb [fn; fb; p0; a; b; c; p1; p2; p3; p4] [fn'; fb'; q0; a'; b'; c'; q1; q2; q3; q4]
  | DRest f q0 q1 q2 q3, DRest f' r0 r1 r2 r3 => Ns_eqb [f; q0; q1; q2] [f'; r0; r1; r2] && optN_eqb q3 r3
  | _, _ => false
  end.

Definition hibound_eqb (a b : hibound) : bool :=
  match a, b with
  | HiSubLen, HiSubLen | HiNone, HiNone => true
  | HiConst k, HiConst k' => k =? k'
  | _, _ => false
  end.
Definition callmode_eqb (a b : callmode) : bool :=
  match a, b with MAssign, MAssign | MNew, MNew | MAppend, MAppend => true | _, _ => false end.
Definition subdec_eqb (a b : subdec) : bool :=
  match a, b with
  | SDCall f m t lo hi, SDCall f' m' t' lo' hi' =>
      (f =? f') && callmode_eqb m m' && (t =? t') && (lo =? lo') && hibound_eqb hi hi'
  | SDInline f al t e, SDInline f' al' t' e' => (f =? f') && Bool.eqb al al' && (t =? t') && dexpr_eqb e e'
  | _, _ => false
  end.
Definition lencheck_eqb (a b : lencheck) : bool :=
  match a, b with
  | LCNone, LCNone => true
  | LCTv p k, LCTv p' k' => (p =? p') && (k =? k')
  | LCTlv n, LCTlv n' | LCMin n, LCMin n' => n =? n'
  | _, _ => false
  end.
Definition adv_eqb (a b : adv) : bool :=
  match a, b with
  | AdvNone, AdvNone | AdvSubLen, AdvSubLen => true
  | AdvConst k, AdvConst k' => k =? k'
  | _, _ => false
  end.
Definition pcase_eqb (a b : pcase) : bool :=
  (pc_type a =? pc_type b) && lencheck_eqb (pc_check a) (pc_check b) &&
  subdec_eqb (pc_dec a) (pc_dec b) && adv_eqb (pc_adv a) (pc_adv b).
Definition ghdr_eqb (a b : ghdr) : bool :=
  match a, b with
  | HMixed x y z, HMixed x' y' z' => (x =? x') && (y =? y') && (z =? z')
  | HTv m, HTv m' => m =? m'
  | HTlv, HTlv => true
  | HTlvLen n, HTlvLen n' => n =? n'
  | _, _ => false
  end.
Definition sstmt_eqb (a b : sstmt) : bool :=
  match a, b with
  | SRetIfEmpty, SRetIfEmpty => true
  | SGuard p n, SGuard p' n' => (p =? p') && (n =? n')
  | SSingleTv o m c, SSingleTv o' m' c' => Bool.eqb o o' && (m =? m') && pcase_eqb c c'
  | SSingleTlv o c, SSingleTlv o' c' => Bool.eqb o o' && pcase_eqb c c'
  | SGroup l h cs a, SGroup l' h' cs' a' =>
      optN_eqb l l' && ghdr_eqb h h' && list_eqb pcase_eqb cs cs' && Bool.eqb a a'
  | _, _ => false
  end.
Definition zkind_eqb (a b : zkind) : bool :=
  match a, b with
  | ZNum, ZNum | ZBytes, ZBytes | ZNums, ZNums | ZBitLen, ZBitLen | ZBitBytes, ZBitBytes => true
  | ZOne t, ZOne t' | ZOpt t, ZOpt t' | ZMany t, ZMany t' => t =? t'
  | _, _ => false
  end.

Definition dprog_eqb (a b : dec_prog) : bool :=
  list_eqb gtype_eqb (d_struct a) (d_struct b) && Bool.eqb (d_inline a) (d_inline b) &&
  list_eqb zkind_eqb (d_shape a) (d_shape b) && lenck_eqb (d_len a) (d_len b) &&
  list_eqb fstmt_eqb (d_fields a) (d_fields b) && list_eqb sstmt_eqb (d_subs a) (d_subs b) &&
  Bool.eqb (d_leftover a) (d_leftover b).
