(* The sub-parameter statements of a decoder, as compiled from the schema (DecFIR/Compile.compile_dsubs), executed by
   the IR semantics (DecFIR/Sem.exec_ss), follow the model decoder Codec/Decode.dec_subs: whenever the model decodes
   the rest of the input completely into a well-formed list of sub-values, the statements end (by `return nil` or at
   the end with an empty slice) with exactly those values in the slots.
   Abstract in the decoder of one parameter: [d] (model) and [call] (IR) are tied by hypothesis [Hd]; the recursion
   over nesting depth is closed in CompileCorrect.v. *)
From Coq Require Import NArith ZArith List Bool Arith Lia ZifyN ZifyNat ZifyBool.
From LLRP Require Import Codec.Schema Codec.Encode Codec.Decode Codec.Wf Codec.BytesLemmas
     EncIR.IR EncIR.Compile EncIR.CompileCorrect DecFIR.IR DecFIR.Sem DecFIR.Compile DecFIR.FieldsCorrect DecFIR.ModelFacts.
Import ListNotations.
Open Scope N_scope.
Ltac Zify.zify_post_hook ::= Z.div_mod_to_equations.

(* ---------- the first byte of a parameter ---------- *)
Lemma byte_cases (P : N -> bool) :
  forallb P (map N.of_nat (seq 0 256)) = true -> forall x, x < 256 -> P x = true.
Proof.
  intros H x Hx. rewrite forallb_forall in H. apply H. apply in_map_iff.
  exists (N.to_nat x). split; [lia|]. apply in_seq. lia.
Qed.

Definition tvbits (x : N) : bool :=
  if x <? 128 then (N.land x 128 =? 0) && (N.land x 127 =? x)
  else negb (N.land x 128 =? 0) && (N.land x 127 =? x - 128).

Lemma tvbits_ok x : x < 256 -> tvbits x = true.
Proof. apply byte_cases. vm_compute. reflexivity. Qed.

Lemma tv_byte tid : tid < 128 -> (N.land (tid + 128) 128 =? 0) = false /\ N.land (tid + 128) 127 = tid.
Proof.
  intros H. pose proof (tvbits_ok (tid + 128) ltac:(lia)) as T. unfold tvbits in T.
  replace (tid + 128 <? 128) with false in T by (symmetry; apply N.ltb_ge; lia).
  apply andb_true_iff in T as [T1 T2]. apply negb_true_iff in T1. apply N.eqb_eq in T2. split; [exact T1|lia].
Qed.

Lemma tlv_byte b0 : b0 < 128 -> (N.land b0 128 =? 0) = true /\ N.land b0 127 = b0.
Proof.
  intros H. pose proof (tvbits_ok b0 ltac:(lia)) as T. unfold tvbits in T.
  replace (b0 <? 128) with true in T by (symmetry; apply N.ltb_lt; lia).
  apply andb_true_iff in T as [T1 T2]. apply N.eqb_eq in T2. split; assumption.
Qed.

(* ---------- what the IR reads from a framed parameter ---------- *)
Lemma read_be_1_0 b (r : bytes) : read_be 1 0 (b :: r) = DOk b.
Proof. unfold read_be, blen. cbn [length]. replace (0 + 1 <=? N.of_nat (S (length r))) with true by (symmetry; apply N.leb_le; lia).
  cbn. f_equal; lia. Qed.

Lemma read_be_2_0 a b (r : bytes) : read_be 2 0 (a :: b :: r) = DOk (a * 256 + b).
Proof. unfold read_be, blen. cbn [length]. replace (0 + 2 <=? N.of_nat (S (S (length r)))) with true by (symmetry; apply N.leb_le; lia).
  cbn. f_equal; lia. Qed.

Lemma read_be_2_2 a b c e (r : bytes) : read_be 2 2 (a :: b :: c :: e :: r) = DOk (c * 256 + e).
Proof. unfold read_be, blen. cbn [length]. replace (2 + 2 <=? N.of_nat (S (S (S (S (length r)))))) with true by (symmetry; apply N.leb_le; lia).
  cbn. f_equal; lia. Qed.

Definition is_tlv (c' : container) : Prop := c_kind c' = KTLV.

Lemma pframe_tv c' tid body data r : pframe c' tid body data r -> c_kind c' = KTV ->
  tid < 128 /\ data = (tid + 128) :: body ++ r.
Proof. unfold pframe. intros P K. rewrite K in P. exact P. Qed.

Lemma pframe_tlv c' tid body data r : pframe c' tid body data r -> c_kind c' = KTLV -> byte_list data ->
  exists b0 b1 l0 l1, data = b0 :: b1 :: l0 :: l1 :: body ++ r /\ b0 * 256 + b1 = tid /\
                      l0 * 256 + l1 = 4 + blen body /\ b0 < 4 /\ b0 = tid / 256 /\ 128 <= tid.
Proof.
  unfold pframe. intros P K Hb. rewrite K in P. destruct P as (H1 & H2 & b0 & b1 & l0 & l1 & -> & Et & El).
  assert (Hb1 : b1 < 256) by (inversion Hb as [|? ? _ Hb']; inversion Hb'; assumption).
  exists b0, b1, l0, l1. repeat split; try assumption; lia.
Qed.

Lemma kind_cases c' tid body data r : pframe c' tid body data r -> c_kind c' = KTV \/ c_kind c' = KTLV.
Proof. unfold pframe. destruct (c_kind c'); [contradiction|now right|now left]. Qed.

Lemma skipn_app_exact {A} (a b : list A) n : n = length a -> skipn n (a ++ b) = b.
Proof. intros ->. rewrite skipn_app, Nat.sub_diag, skipn_all. reflexivity. Qed.

Lemma firstn_app_exact {A} (a b : list A) n : n = length a -> firstn n (a ++ b) = a.
Proof. intros ->. rewrite firstn_app, Nat.sub_diag, firstn_all. cbn [firstn]. apply app_nil_r. Qed.

(* data[hdr : hdr + len body] = body,  data[hdr + len body :] = r *)
Lemma frame_slice (hd body r : bytes) :
  slice (blen hd) (blen hd + blen body) (hd ++ body ++ r) = DOk body /\
  drop (blen hd + blen body) (hd ++ body ++ r) = DOk r.
Proof.
  split.
  - rewrite slice_ok; [|lia|rewrite !blen_app; lia]. f_equal.
    rewrite skipn_app_exact by (unfold blen; lia). apply firstn_app_exact. unfold blen. lia.
  - rewrite drop_ok by (rewrite !blen_app; lia). f_equal.
    rewrite app_assoc. apply skipn_app_exact. rewrite app_length. unfold blen. lia.
Qed.

Section IRSubs.
  Variable t : table.
  Variable d : N -> bytes -> option (value * bytes).
  Variable z : N -> value.
  Variable w : value -> Prop.
  Variable call : N -> bytes -> dres value.
  Variable sd : list gtype.

  (* what ties the model's parameter decoder to the IR's call *)
  Definition dspec : Prop := forall tid data v r, d tid data = Some (v, r) ->
    exists c' body, find_container t false tid = Some c' /\ pframe c' tid body data r /\
      (c_kind c' = KTV -> msz t c' = 1 + blen body /\ fxd t c' = true) /\
      (inline_of c' = true -> exists f x, c_fields c' = [f] /\ v = VStruct false tid [VNum x] [] /\
                                          dec_fields [f] body = Some ([VNum x], [])) /\
      (w v -> byte_list data -> call tid body = DOk v /\ msz t c' <= header_size (c_kind c') + blen body).

  (* an inline parameter is a number or a single bit *)
  Definition inl_spec : Prop := forall tid c', find_container t false tid = Some c' -> inline_of c' = true ->
    forall f, c_fields c' = [f] -> fbits_ok f = true /\ match f with FBits b _ _ => b = 1%nat | FNum _ => True | _ => False end.

  Hypothesis Hd : dspec.
  Hypothesis Hinl : inl_spec.

  Lemma Hframe : forall tid data v r, d tid data = Some (v, r) ->
    exists c' body, find_container t false tid = Some c' /\ pframe c' tid body data r.
  Proof. intros tid data v r H. destruct (Hd _ _ _ _ H) as (c' & body & F & P & _). eauto. Qed.

  Lemma sub_info_eq s c' : find_container t false (s_tid s) = Some c' ->
    sub_info t s = {| si_tid := s_tid s; si_tv := is_tv_kind (c_kind c'); si_min := msz t c'; si_fixed := fxd t c';
                      si_inline := inline_of c'; si_field := match c_fields c' with f :: _ => Some f | [] => None end |}.
  Proof. intros F. unfold sub_info. rewrite F. reflexivity. Qed.

  Lemma si_tid_eq s : si_tid (sub_info t s) = s_tid s.
  Proof. unfold sub_info. destruct (find_container t false (s_tid s)); reflexivity. Qed.

  (* the value an inline parameter is read as *)
  Lemma inline_value c' tid f x body hd r g : find_container t false tid = Some c' -> inline_of c' = true ->
    c_fields c' = [f] -> dec_fields [f] body = Some ([VNum x], []) -> byte_list (hd ++ body ++ r) ->
    eval_x (hd ++ body ++ r) (value_of f g (blen hd)) = DOk x.
  Proof.
    intros F I Ef Hdec Hb. destruct (Hinl _ _ F I f Ef) as [Hfb Hk].
    set (D := hd ++ body ++ r) in *.
    assert (Hp : blen hd <= blen D) by (unfold D; rewrite !blen_app; lia).
    assert (Es : skipn (N.to_nat (blen hd)) D = body ++ r).
    { unfold D. apply skipn_app_exact. unfold blen. lia. }
    destruct f as [s|bits bit p| | | | | |]; try contradiction.
    - cbn [dec_fields] in Hdec. destruct (take_exact s body) as [[e r0]|] eqn:T; [|discriminate].
      injection Hdec as <- ->. destruct (take_exact_spec _ _ _ _ T) as (E1 & E2 & Hl & Hn).
      assert (Eb : body = e).
      { rewrite <- (firstn_skipn s body), <- E1, <- E2. apply app_nil_r. }
      subst body. apply (value_of_num s g (blen hd) D e r Hp). rewrite Es. apply take_exact_app_n. exact Hn.
    - subst bits. cbn [dec_fields] in Hdec. destruct body as [|b r']; [discriminate|].
      injection Hdec as <- _.
      assert (Hb256 : b < 256).
      { unfold byte_list in Hb. unfold D in Hb. apply Forall_app in Hb as [_ Hb]. inversion Hb; assumption. }
      cbn [fbits_ok] in Hfb.
      apply (value_of_bits 1 bit p g (blen hd) D b (r' ++ r) Hp Es Hb256 Hfb). intros _. reflexivity.
  Qed.

  (* ---- the slot of a sub-parameter after one more decoded value ---- *)
  Definition upd (s : sub) (v old : value) : value :=
    match s_arity s with
    | One => v
    | Opt => VOpt (Some v)
    | Many => match old with VList l => VList (l ++ [v]) | _ => old end
    end.

  Definition frame_hd (c' : container) (data body r : bytes) (hd : bytes) : Prop :=
    data = hd ++ body ++ r /\ blen hd = header_size (c_kind c').

  Lemma pframe_hd c' tid body data r : pframe c' tid body data r -> exists hd, frame_hd c' data body r hd.
  Proof.
    unfold pframe, frame_hd. destruct (c_kind c'); [contradiction| |].
    - intros (_ & _ & b0 & b1 & l0 & l1 & -> & _). exists [b0; b1; l0; l1]. split; reflexivity.
    - intros (_ & ->). exists [tid + 128]. split; reflexivity.
  Qed.

  (* write_unmarshal_sub *)
  Lemma exec_dec_ok s p (sl : bool) sublen g data v r c' body A old B :
    d (s_tid s) data = Some (v, r) -> find_container t false (s_tid s) = Some c' -> pframe c' (s_tid s) body data r ->
    (c_kind c' = KTV -> msz t c' = 1 + blen body /\ fxd t c' = true) ->
    (inline_of c' = true -> exists f x, c_fields c' = [f] /\ v = VStruct false (s_tid s) [VNum x] [] /\
                                        dec_fields [f] body = Some ([VNum x], [])) ->
    call (s_tid s) body = DOk v -> byte_list data ->
    p = N.of_nat (length A) -> (s_arity s = Many -> exists l, old = VList l) ->
    (sl = true -> c_kind c' = KTLV /\ sublen = Some (4 + blen body)) -> (sl = false -> c_kind c' = KTV) ->
    exec_dec call (sub_dec s (sub_info t s) g p sl) sublen data (A ++ old :: B) = DOk (A ++ upd s v old :: B).
  Proof.
    intros Hdv F P Htv Hi Hc Hb Hp Hold Hsl1 Hsl0.
    destruct (pframe_hd _ _ _ _ _ P) as (hd & -> & Hhd).
    rewrite (sub_info_eq s c' F). unfold sub_dec. cbn [si_tid si_tv si_min si_fixed si_inline si_field].
    unfold si_hdr. cbn [si_tv].
    assert (Ehdr : (if is_tv_kind (c_kind c') then 1 else 4) = blen hd).
    { rewrite Hhd. destruct (c_kind c') eqn:K; try reflexivity. unfold pframe in P. rewrite K in P. contradiction. }
    rewrite Ehdr.
    destruct (frame_slice hd body r) as [Sl _].
    (* the bound of the slice handed to the callee *)
    assert (Hhi : forall (k : N -> dres (list value)),
       dbind (match (if sl then HiSubLen else if fxd t c' then HiConst (msz t c') else HiNone) with
              | HiSubLen => match sublen with Some x => DOk x | None => DPanic end
              | HiConst k0 => DOk k0
              | HiNone => DOk (blen (hd ++ body ++ r)) end) k = k (blen hd + blen body)).
    { intros k. destruct sl.
      - destruct (Hsl1 eq_refl) as [K ->]. cbn [dbind]. f_equal. rewrite Hhd, K. reflexivity.
      - destruct (Htv (Hsl0 eq_refl)) as [Em ->]. cbn [dbind]. f_equal. rewrite Em, Hhd, (Hsl0 eq_refl). reflexivity. }
    assert (Call : forall (mode : callmode),
       exec_dec call (SDCall p mode (s_tid s) (blen hd)
                        (if sl then HiSubLen else if fxd t c' then HiConst (msz t c') else HiNone))
                sublen (hd ++ body ++ r) (A ++ old :: B) =
       match mode with
       | MAssign => DOk (setN (A ++ old :: B) p v)
       | MNew => DOk (setN (A ++ old :: B) p (VOpt (Some v)))
       | MAppend => match nth_error (A ++ old :: B) (N.to_nat p) with
                    | Some (VList l) => DOk (setN (A ++ old :: B) p (VList (l ++ [v])))
                    | _ => DPanic end
       end).
    { intros mode. cbn [exec_dec]. rewrite Hhi, Sl. cbn [dbind]. rewrite Hc. cbn [dbind]. reflexivity. }
    unfold upd, s_repeat, s_optional.
    destruct (s_arity s) eqn:Ar; cbn [negb andb].
    - (* exactly one *)
      destruct (inline_of c') eqn:I.
      + destruct (Hi eq_refl) as (f & x & Ef & -> & Hdec). rewrite Ef. cbn [exec_dec].
        rewrite (inline_value c' (s_tid s) f x body hd r g F I Ef Hdec Hb). cbn [dbind].
        rewrite (setN_at _ _ _ _ _ Hp). reflexivity.
      + rewrite Call, (setN_at _ _ _ _ _ Hp). reflexivity.
    - (* optional: allocated *)
      destruct (inline_of c') eqn:I.
      + destruct (Hi eq_refl) as (f & x & Ef & -> & Hdec). rewrite Ef. cbn [exec_dec].
        rewrite (inline_value c' (s_tid s) f x body hd r g F I Ef Hdec Hb). cbn [dbind].
        rewrite (setN_at _ _ _ _ _ Hp). reflexivity.
      + rewrite Call, (setN_at _ _ _ _ _ Hp). reflexivity.
    - (* repeated: appended *)
      destruct (Hold eq_refl) as (l & ->). rewrite Call.
      rewrite Hp, Nat2N.id, nth_error_app2, Nat.sub_diag by lia. cbn [nth_error].
      rewrite <- Hp, (setN_at _ _ _ _ _ Hp). reflexivity.
  Qed.

  (* ---- one decoded parameter, as the statements see it ---- *)
  Variable has_le : bool.
  Hypothesis Hle : has_le = true.

  Lemma has_enough_ok need data : need <= blen data -> has_enough has_le need data = DOk tt.
  Proof. intros H. unfold has_enough. rewrite Hle. apply N.leb_le in H. rewrite H. reflexivity. Qed.

  Definition decoded (s : sub) (data : bytes) (v : value) (r : bytes) : Prop :=
    d (s_tid s) data = Some (v, r) /\ w v /\ byte_list data.

  Lemma hdr_reads_tv tid data v r c' body : d tid data = Some (v, r) ->
    find_container t false tid = Some c' -> pframe c' tid body data r -> c_kind c' = KTV ->
    read_be 1 0 data = DOk (tid + 128) /\ (N.land (tid + 128) 128 =? 0) = false /\ N.land (tid + 128) 127 = tid /\
    1 <= blen data.
  Proof.
    intros _ F P K. destruct (pframe_tv _ _ _ _ _ P K) as (Ht & ->). destruct (tv_byte tid Ht) as [B1 B2].
    repeat split; try assumption; [apply read_be_1_0|]. unfold blen. cbn [length]. lia.
  Qed.

  Lemma hdr_reads_tlv tid data v r c' body : d tid data = Some (v, r) -> byte_list data ->
    find_container t false tid = Some c' -> pframe c' tid body data r -> c_kind c' = KTLV ->
    exists b0, read_be 1 0 data = DOk b0 /\ b0 = tid / 256 /\ (N.land b0 128 =? 0) = true /\ N.land b0 127 = b0 /\
      4 <= blen data /\ read_be 2 0 data = DOk tid /\ read_be 2 2 data = DOk (4 + blen body) /\
      4 + blen body <= blen data /\ 128 <= tid.
  Proof.
    intros _ Hb F P K. destruct (pframe_tlv _ _ _ _ _ P K Hb) as (b0 & b1 & l0 & l1 & -> & Et & El & H4 & Eb & Ht).
    destruct (tlv_byte b0 ltac:(lia)) as [B1 B2]. exists b0.
    repeat split; try assumption.
    - apply read_be_1_0.
    - unfold blen. cbn [length]. lia.
    - rewrite read_be_2_0, Et. reflexivity.
    - rewrite read_be_2_2, El. reflexivity.
    - unfold blen. cbn [length]. rewrite app_length. lia.
  Qed.

  (* a case that checks, decodes and advances by itself (single statements, cases of a group without subLen) *)
  Lemma case_self s p g chk data v r A old B :
    decoded s data v r -> p = N.of_nat (length A) -> (s_arity s = Many -> exists l, old = VList l) ->
    (chk = LCNone \/ chk = LCTv (s_tid s) (si_min (sub_info t s))) ->
    exec_case has_le call
      {| pc_type := s_tid s;
         pc_check := if si_tv (sub_info t s) then chk else LCTlv (tlv_need (sub_info t s));
         pc_dec := sub_dec s (sub_info t s) g p (negb (si_tv (sub_info t s)));
         pc_adv := if si_tv (sub_info t s) then AdvConst (si_min (sub_info t s)) else AdvSubLen |}
      None data (A ++ old :: B) = DOk (r, A ++ upd s v old :: B).
  Proof.
    intros (Hdv & Hw & Hb) Hp Hold Hchk.
    destruct (Hd _ _ _ _ Hdv) as (c' & body & F & P & Htv & Hi & Hcall). destruct (Hcall Hw Hb) as [Hc Hm].
    unfold exec_case. cbn [pc_check pc_dec pc_adv].
    pose proof (exec_dec_ok s p (negb (si_tv (sub_info t s)))) as Hex.
    rewrite (sub_info_eq s c' F) in *. cbn [si_tv si_min si_inline tlv_need] in *.
    destruct (kind_cases _ _ _ _ _ P) as [K|K]; rewrite K in Hex, Hm |- *; cbn [is_tv_kind negb header_size] in Hex, Hm |- *.
    - (* TV *)
      destruct (Htv K) as [Em Hfx].
      destruct (pframe_tv _ _ _ _ _ P K) as (Ht & Edata).
      assert (Hlen : msz t c' <= blen data).
      { rewrite Em, Edata. unfold blen. cbn [length]. rewrite app_length. lia. }
      assert (Hck : exec_check has_le chk None data = DOk None).
      { destruct Hchk as [->| ->]; [reflexivity|]. cbn [exec_check]. rewrite (has_enough_ok _ _ Hlen). reflexivity. }
      rewrite Hck. cbn [dbind].
      rewrite (Hex None g data v r c' body A old B Hdv F P Htv Hi Hc Hb Hp Hold); [|discriminate|intros _; exact K].
      cbn [dbind exec_adv].
      destruct (frame_slice [s_tid s + 128] body r) as [_ Dr]. change (blen [s_tid s + 128]) with 1 in Dr.
      rewrite Em, Edata. change ((s_tid s + 128) :: body ++ r) with ([s_tid s + 128] ++ body ++ r). rewrite Dr. reflexivity.
    - (* TLV *)
      destruct (hdr_reads_tlv _ _ _ _ _ _ Hdv Hb F P K) as (b0 & _ & _ & _ & _ & _ & _ & R22 & Hl & _).
      cbn [exec_check]. rewrite R22. cbn [dbind]. unfold tlv_need. cbn [si_inline si_min].
      replace (blen data <? 4 + blen body) with false by (symmetry; apply N.ltb_ge; exact Hl).
      replace (4 + blen body <? (if inline_of c' then msz t c' else 4)) with false
        by (symmetry; apply N.ltb_ge; destruct (inline_of c'); lia).
      cbn [dbind].
      rewrite (Hex (Some (4 + blen body)) g data v r c' body A old B Hdv F P Htv Hi Hc Hb Hp Hold);
        [|intros _; split; [exact K|reflexivity]|discriminate].
      cbn [dbind exec_adv].
      destruct (pframe_tlv _ _ _ _ _ P K Hb) as (c0 & c1 & l0 & l1 & Edata & _).
      destruct (frame_slice [c0; c1; l0; l1] body r) as [_ Dr]. change (blen [c0; c1; l0; l1]) with 4 in Dr.
      rewrite Edata. change (c0 :: c1 :: l0 :: l1 :: body ++ r) with ([c0; c1; l0; l1] ++ body ++ r). rewrite Dr. reflexivity.
  Qed.

  (* ---- cases of a group ---- *)
  Lemma pc_type_group hsl s p : pc_type (group_case t sd hsl s p) = s_tid s.
  Proof. unfold group_case. cbn [pc_type]. apply si_tid_eq. Qed.

  Lemma find_case_run hsl s todo : forall done i, (forall s1, In s1 done -> s_tid s1 <> s_tid s) ->
    find_case (cases_of t sd hsl (done ++ s :: todo) i) (s_tid s) =
    Some (group_case t sd hsl s (i + N.of_nat (length done))).
  Proof.
    induction done as [|s1 done IH]; intros i Hne; cbn [app cases_of find_case length].
    - rewrite pc_type_group, N.eqb_refl. f_equal. f_equal. lia.
    - rewrite pc_type_group. replace (s_tid s1 =? s_tid s) with false
        by (symmetry; apply N.eqb_neq; apply Hne; now left).
      rewrite IH by (intros; apply Hne; now right). f_equal. f_equal. lia.
  Qed.

  Lemma find_case_none hsl pt : forall run i, (forall s1, In s1 run -> s_tid s1 <> pt) ->
    find_case (cases_of t sd hsl run i) pt = None.
  Proof.
    induction run as [|s1 run IH]; intros i Hne; cbn [cases_of find_case]; [reflexivity|].
    rewrite pc_type_group. replace (s_tid s1 =? pt) with false by (symmetry; apply N.eqb_neq; apply Hne; now left).
    apply IH. intros; apply Hne; now right.
  Qed.

  Definition is_tv_sub (s : sub) : bool := si_tv (sub_info t s).

  Lemma existsb_map {A B} (f : A -> B) (p : B -> bool) l : existsb p (map f l) = existsb (fun x => p (f x)) l.
  Proof. induction l as [|x l IH]; cbn [map existsb]; [reflexivity|now rewrite IH]. Qed.

  Definition any_tv (run : list sub) : bool := existsb is_tv_sub run.
  Definition any_tlv (run : list sub) : bool := existsb (fun s => negb (is_tv_sub s)) run.

  Lemma any_tv_eq run : existsb si_tv (map (sub_info t) run) = any_tv run.
  Proof. unfold any_tv, is_tv_sub. apply existsb_map. Qed.
  Lemma any_tlv_eq run : existsb (fun x => negb (si_tv x)) (map (sub_info t) run) = any_tlv run.
  Proof. unfold any_tlv, is_tv_sub. apply (existsb_map (sub_info t) (fun x => negb (si_tv x))). Qed.

  Lemma is_tv_sub_kind s c' : find_container t false (s_tid s) = Some c' -> is_tv_sub s = is_tv_kind (c_kind c').
  Proof. intros F. unfold is_tv_sub. rewrite (sub_info_eq s c' F). reflexivity. Qed.

  Definition run_hdr (run : list sub) (mut_excl : bool) : ghdr :=
    if any_tv run && any_tlv run then HMixed 128 127 4
    else if any_tv run then HTv 127
    else if negb (any_tv run) && negb mut_excl then HTlvLen 4 else HTlv.
  Definition run_hsl (run : list sub) (mut_excl : bool) : bool := negb (any_tv run) && negb mut_excl.

  Definition group_body {X} (h : ghdr) (cases : list pcase) (advsub : bool) (data : bytes) (slots : list value)
             (none : dres X) (F : bytes -> list value -> dres X) : dres X :=
    dbind (exec_hdr h data) (fun ps =>
    match find_case cases (fst ps) with
    | None => none
    | Some c =>
      dbind (exec_case has_le call c (snd ps) data slots) (fun ds =>
      dbind (if advsub then match snd ps with Some sl => drop sl (fst ds) | None => DPanic end
             else DOk (fst ds)) (fun d' => F d' (snd ds)))
    end).

  Lemma exec_loop_S n k h cases advsub data slots :
    exec_loop has_le call (S n) k h cases advsub data slots =
    if blen data <? k then DOk (data, slots)
    else group_body h cases advsub data slots (DOk (data, slots)) (exec_loop has_le call n k h cases advsub).
  Proof. reflexivity. Qed.

  (* header, switch, case, advance: one parameter of the run *)
  Lemma group_step {X} run done s todo mut_excl i data v r A old B (none : dres X) F :
    run = done ++ s :: todo -> (forall s1, In s1 done -> s_tid s1 <> s_tid s) ->
    decoded s data v r -> N.of_nat (length A) = i + N.of_nat (length done) ->
    (s_arity s = Many -> exists l, old = VList l) ->
    group_body (run_hdr run mut_excl) (cases_of t sd (run_hsl run mut_excl) run i) (run_hsl run mut_excl)
               data (A ++ old :: B) none F = F r (A ++ upd s v old :: B) /\
    (if any_tv run then 1 else 4) <= blen data.
  Proof.
    intros Hrun Hne Hdec HA Hold. pose proof Hdec as (Hdv & Hw & Hb).
    destruct (Hd _ _ _ _ Hdv) as (c' & body & F' & P & Htv & Hi & Hcall). destruct (Hcall Hw Hb) as [Hc Hm].
    assert (Hin : In s run) by (rewrite Hrun; apply in_or_app; right; now left).
    pose proof (is_tv_sub_kind s c' F') as Hk.
    assert (Hfc : forall hsl, find_case (cases_of t sd hsl run i) (s_tid s) =
                              Some (group_case t sd hsl s (i + N.of_nat (length done)))).
    { intros hsl. rewrite Hrun. apply find_case_run, Hne. }
    unfold group_body.
    set (p := i + N.of_nat (length done)) in *. symmetry in HA.
    pose proof (case_self s p (gnth sd p) (LCTv (s_tid s) (si_min (sub_info t s))) data v r A old B Hdec HA Hold
                  (or_intror eq_refl)) as Hself.
    destruct (kind_cases _ _ _ _ _ P) as [K|K]; rewrite K in Hk; cbn [is_tv_kind] in Hk.
    - (* the parameter is a TV *)
      assert (Hat : any_tv run = true) by (apply existsb_exists; exists s; split; assumption).
      destruct (hdr_reads_tv _ _ _ _ _ _ Hdv F' P K) as (R1 & L1 & L2 & Hl).
      unfold run_hdr, run_hsl. rewrite Hat. cbn [negb andb]. split; [|exact Hl].
      assert (Egc : group_case t sd false s p =
                    {| pc_type := s_tid s;
                       pc_check := if si_tv (sub_info t s) then LCTv (s_tid s) (si_min (sub_info t s)) else LCTlv (tlv_need (sub_info t s));
                       pc_dec := sub_dec s (sub_info t s) (gnth sd p) p (negb (si_tv (sub_info t s)));
                       pc_adv := if si_tv (sub_info t s) then AdvConst (si_min (sub_info t s)) else AdvSubLen |}).
      { unfold group_case. rewrite si_tid_eq. fold (is_tv_sub s). rewrite Hk. reflexivity. }
      destruct (any_tlv run); cbn [exec_hdr].
      + rewrite R1. cbn [dbind]. rewrite L1. cbn [negb]. rewrite L2. cbn [dbind fst snd]. rewrite Hfc, Egc, Hself. reflexivity.
      + rewrite R1. cbn [dbind]. rewrite L2. cbn [dbind fst snd]. rewrite Hfc, Egc, Hself. reflexivity.
    - (* the parameter is a TLV *)
      assert (Hal : any_tlv run = true).
      { apply existsb_exists. exists s. split; [exact Hin|]. rewrite Hk. reflexivity. }
      destruct (hdr_reads_tlv _ _ _ _ _ _ Hdv Hb F' P K) as (b0 & R1 & _ & L1 & _ & H4 & R20 & R22 & Hl & _).
      split; [|destruct (any_tv run); lia].
      assert (Egc : group_case t sd false s p =
                    {| pc_type := s_tid s;
                       pc_check := if si_tv (sub_info t s) then LCTv (s_tid s) (si_min (sub_info t s)) else LCTlv (tlv_need (sub_info t s));
                       pc_dec := sub_dec s (sub_info t s) (gnth sd p) p (negb (si_tv (sub_info t s)));
                       pc_adv := if si_tv (sub_info t s) then AdvConst (si_min (sub_info t s)) else AdvSubLen |}).
      { unfold group_case. rewrite si_tid_eq. fold (is_tv_sub s). rewrite Hk. reflexivity. }
      unfold run_hdr, run_hsl. rewrite Hal.
      destruct (any_tv run); cbn [negb andb exec_hdr].
      + rewrite R1. cbn [dbind]. rewrite L1. cbn [negb].
        replace (blen data <? 4) with false by (symmetry; apply N.ltb_ge; exact H4).
        rewrite R20. cbn [dbind fst snd]. rewrite Hfc, Egc, Hself. reflexivity.
      + destruct mut_excl; cbn [negb exec_hdr].
        * rewrite R20. cbn [dbind fst snd]. rewrite Hfc, Egc, Hself. reflexivity.
        * (* subLen is read by the header of the loop *)
          rewrite R20. cbn [dbind]. rewrite R22. cbn [dbind].
          replace (blen data <? 4 + blen body) with false by (symmetry; apply N.ltb_ge; exact Hl).
          replace (4 + blen body <? 4) with false by (symmetry; apply N.ltb_ge; lia).
          cbn [dbind fst snd]. rewrite Hfc. unfold exec_case, group_case. cbn [pc_check pc_dec pc_adv].
          assert (Hck : exec_check has_le (if si_inline (sub_info t s) then LCMin (si_min (sub_info t s)) else LCNone)
                          (Some (4 + blen body)) data = DOk (Some (4 + blen body))).
          { rewrite (sub_info_eq s c' F'). cbn [si_inline si_min]. destruct (inline_of c'); [|reflexivity].
            cbn [exec_check]. rewrite K in Hm. cbn [header_size] in Hm.
            replace (4 + blen body <? msz t c') with false by (symmetry; apply N.ltb_ge; lia). reflexivity. }
          rewrite Hck. cbn [dbind].
          rewrite (exec_dec_ok s p true (Some (4 + blen body)) (gnth sd p) data v r c' body A old B
                     Hdv F' P Htv Hi Hc Hb HA Hold); [|intros _; split; [exact K|reflexivity]|discriminate].
          cbn [dbind exec_adv fst snd].
          destruct (pframe_tlv _ _ _ _ _ P K Hb) as (c0 & c1 & l0 & l1 & Edata & _).
          destruct (frame_slice [c0; c1; l0; l1] body r) as [_ Dr]. change (blen [c0; c1; l0; l1]) with 4 in Dr.
          rewrite Edata. change (c0 :: c1 :: l0 :: l1 :: body ++ r) with ([c0; c1; l0; l1] ++ body ++ r).
          rewrite Dr. reflexivity.
  Qed.

  (* ---- a parameter that belongs to a later sub-parameter: the switch of a loop falls to `default` ---- *)
  Definition hdr_ok (run rest : list sub) : bool :=
    if any_tv run && any_tlv run then true
    else if any_tv run
         then forallb (fun s' => is_tv_sub s' || negb (existsb (fun s => s_tid s =? s_tid s' / 256) run)) rest
         else forallb (fun s' => negb (is_tv_sub s')) rest.

  Lemma group_break {X} run rest i data slots (brk : dres X) F s' v r :
    In s' rest -> d (s_tid s') data = Some (v, r) -> byte_list data ->
    (forall s1, In s1 run -> s_tid s1 <> s_tid s') -> hdr_ok run rest = true ->
    (if any_tv run then 1 else 4) <= blen data ->
    group_body (run_hdr run false) (cases_of t sd (run_hsl run false) run i) (run_hsl run false) data slots brk F = brk.
  Proof.
    intros Hin Hdv Hb Hne Hok Hlen.
    destruct (Hd _ _ _ _ Hdv) as (c' & body & F' & P & _).
    pose proof (is_tv_sub_kind s' c' F') as Hk.
    pose proof (fun hsl => find_case_none hsl (s_tid s') run i Hne) as Hnone.
    unfold group_body, run_hdr, run_hsl, hdr_ok in *.
    destruct (kind_cases _ _ _ _ _ P) as [K|K]; rewrite K in Hk; cbn [is_tv_kind] in Hk.
    - destruct (hdr_reads_tv _ _ _ _ _ _ Hdv F' P K) as (R1 & L1 & L2 & _).
      destruct (any_tv run) eqn:At; cbn [andb negb] in *.
      + destruct (any_tlv run); cbn [exec_hdr]; rewrite R1; cbn [dbind]; [rewrite L1; cbn [negb]|];
          rewrite L2; cbn [dbind fst snd]; rewrite Hnone; reflexivity.
      + rewrite forallb_forall in Hok. specialize (Hok s' Hin). rewrite Hk in Hok. discriminate Hok.
    - destruct (hdr_reads_tlv _ _ _ _ _ _ Hdv Hb F' P K) as (b0 & R1 & Eb & L1 & L2 & H4 & R20 & R22 & Hl & _).
      destruct (any_tv run) eqn:At; cbn [andb negb] in *.
      + destruct (any_tlv run); cbn [exec_hdr]; rewrite R1; cbn [dbind].
        * rewrite L1. cbn [negb]. replace (blen data <? 4) with false by (symmetry; apply N.ltb_ge; exact H4).
          rewrite R20. cbn [dbind fst snd]. rewrite Hnone. reflexivity.
        * rewrite L2. cbn [dbind fst snd]. rewrite forallb_forall in Hok. specialize (Hok s' Hin).
          rewrite Hk in Hok. cbn [orb] in Hok. apply negb_true_iff in Hok.
          rewrite find_case_none; [reflexivity|]. intros s1 H1 E1.
          assert (Hex : existsb (fun s => s_tid s =? s_tid s' / 256) run = true).
          { apply existsb_exists. exists s1. split; [exact H1|]. apply N.eqb_eq. congruence. }
          congruence.
      + cbn [exec_hdr]. rewrite R20. cbn [dbind]. rewrite R22. cbn [dbind].
        replace (blen data <? 4 + blen body) with false by (symmetry; apply N.ltb_ge; exact Hl).
        replace (4 + blen body <? 4) with false by (symmetry; apply N.ltb_ge; lia).
        cbn [dbind fst snd]. rewrite Hnone. reflexivity.
  Qed.

  Lemma loop_break run rest i n data slots :
    (data = [] \/ exists s' v r, In s' rest /\ d (s_tid s') data = Some (v, r)) -> byte_list data ->
    (forall s1 s', In s1 run -> In s' rest -> s_tid s1 <> s_tid s') -> hdr_ok run rest = true ->
    exec_loop has_le call (S n) (if any_tv run then 1 else 4) (run_hdr run false)
              (cases_of t sd (run_hsl run false) run i) (run_hsl run false) data slots = DOk (data, slots).
  Proof.
    intros Hnext Hb Hne Hok. rewrite exec_loop_S.
    destruct (blen data <? (if any_tv run then 1 else 4)) eqn:L; [reflexivity|]. apply N.ltb_ge in L.
    destruct Hnext as [->|(s' & v & r & Hin & Hdv)].
    - exfalso. unfold blen in L. cbn [length] in L. destruct (any_tv run); lia.
    - eapply group_break; eauto.
  Qed.

  (* ---- statement lists ---- *)
  Lemma exec_ss_app a : forall b data sl,
    exec_ss has_le call (a ++ b) data sl =
    dbind (exec_ss has_le call a data sl)
          (fun fl => match fl with Next d' s' => exec_ss has_le call b d' s' | Done s' => DOk (Done s') end).
  Proof.
    induction a as [|x a IH]; intros b data sl; cbn [exec_ss app dbind]; [reflexivity|].
    destruct (exec_s has_le call x data sl) as [[d' s'|s']| | |]; cbn [dbind]; try reflexivity. apply IH.
  Qed.

  Definition flow_ok (fl : flow) (final : list value) : Prop := fl = Done final \/ fl = Next [] final.

  Definition sim (stmts : list sstmt) (data : bytes) (slots final : list value) : Prop :=
    exists fl, exec_ss has_le call stmts data slots = DOk fl /\ flow_ok fl final.

  (* header_len_check: the guards in front of a mandatory single parameter pass *)
  Lemma guards_ok s known data v r tl slots : decoded s data v r ->
    exec_ss has_le call (fst (hdr_len_check (sub_info t s) known) ++ tl) data slots = exec_ss has_le call tl data slots.
  Proof.
    intros (Hdv & Hw & Hb). destruct (Hd _ _ _ _ Hdv) as (c' & body & F & P & _ & _ & Hcall).
    destruct (Hcall Hw Hb) as [_ Hm]. destruct (pframe_len _ _ _ _ _ P) as [Hl H1].
    rewrite (sub_info_eq s c' F). unfold hdr_len_check, si_hdr. cbn [si_fixed si_min si_tv si_tid].
    assert (Eh : (if is_tv_kind (c_kind c') then 1 else 4) = header_size (c_kind c')).
    { destruct (c_kind c') eqn:K; try reflexivity. unfold pframe in P. rewrite K in P. contradiction. }
    rewrite Eh.
    destruct (fxd t c' && (known <? Z.of_N (msz t c'))%Z).
    - cbn [fst app exec_ss exec_s]. rewrite has_enough_ok by lia. reflexivity.
    - destruct (known <? Z.of_N (header_size (c_kind c')))%Z; [|reflexivity].
      cbn [fst app exec_ss exec_s]. rewrite has_enough_ok by lia. reflexivity.
  Qed.

  (* unmarshal_tv / unmarshal_tlv of the simple path, parameter present *)
  Lemma single_taken s i data v r A old B tl :
    decoded s data v r -> i = N.of_nat (length A) -> (s_arity s = Many -> exists l, old = VList l) ->
    exec_ss has_le call (single_stmts t sd s i ++ tl) data (A ++ old :: B) =
    exec_ss has_le call tl r (A ++ upd s v old :: B).
  Proof.
    intros Hdec Hi Hold. pose proof Hdec as (Hdv & Hw & Hb).
    destruct (Hd _ _ _ _ Hdv) as (c' & body & F & P & _).
    pose proof (is_tv_sub_kind s c' F) as Hk. unfold is_tv_sub in Hk.
    unfold single_stmts. rewrite si_tid_eq.
    destruct (kind_cases _ _ _ _ _ P) as [K|K]; rewrite K in Hk; cbn [is_tv_kind] in Hk; rewrite Hk.
    - destruct (hdr_reads_tv _ _ _ _ _ _ Hdv F P K) as (R1 & _ & L2 & _).
      pose proof (case_self s i (gnth sd i) (if s_optional s then LCTv (s_tid s) (si_min (sub_info t s)) else LCNone)
                    data v r A old B Hdec Hi Hold) as Hself.
      rewrite Hk in Hself. cbn [negb] in Hself.
      cbn [app exec_ss exec_s pc_type]. rewrite R1. cbn [dbind]. rewrite L2, N.eqb_refl.
      rewrite Hself by (destruct (s_optional s); [now right|now left]). reflexivity.
    - destruct (hdr_reads_tlv _ _ _ _ _ _ Hdv Hb F P K) as (b0 & _ & _ & _ & _ & H4 & R20 & _).
      pose proof (case_self s i (gnth sd i) LCNone data v r A old B Hdec Hi Hold (or_introl eq_refl)) as Hself.
      rewrite Hk in Hself. cbn [negb] in Hself.
      rewrite <- app_assoc, exec_ss_app.
      assert (G : exec_ss has_le call (if s_optional s then [SGuard (s_tid s) 4] else []) data (A ++ old :: B)
                  = DOk (Next data (A ++ old :: B))).
      { destruct (s_optional s); [|reflexivity]. cbn [exec_ss exec_s]. rewrite (has_enough_ok _ _ H4). reflexivity. }
      rewrite G. cbn [dbind app exec_ss exec_s pc_type]. rewrite R20. cbn [dbind]. rewrite N.eqb_refl.
      rewrite Hself. reflexivity.
  Qed.

  (* ... and an optional one that is absent because another parameter comes next *)
  Lemma single_skipped s i data slots tl rest s' v r :
    s_optional s = true -> In s' rest -> d (s_tid s') data = Some (v, r) -> byte_list data ->
    s_tid s <> s_tid s' -> hdr_ok [s] rest = true ->
    (exists c', find_container t false (s_tid s) = Some c') ->
    exec_ss has_le call (single_stmts t sd s i ++ tl) data slots = exec_ss has_le call tl data slots.
  Proof.
    intros Ho Hin Hdv Hb Hne Hok (c & Fc).
    destruct (Hd _ _ _ _ Hdv) as (c' & body & F' & P & _).
    pose proof (is_tv_sub_kind s' c' F') as Hk'.
    unfold single_stmts. rewrite si_tid_eq, Ho.
    unfold hdr_ok, any_tv, any_tlv in Hok. cbn [existsb] in Hok. rewrite !orb_false_r in Hok.
    fold (is_tv_sub s).
    destruct (is_tv_sub s) eqn:Ks; cbn [negb andb] in Hok.
    - (* s is a TV: the test looks at one byte *)
      rewrite forallb_forall in Hok. specialize (Hok s' Hin).
      cbn [app exec_ss exec_s pc_type].
      destruct (kind_cases _ _ _ _ _ P) as [K|K]; rewrite K in Hk'; cbn [is_tv_kind] in Hk'.
      + destruct (hdr_reads_tv _ _ _ _ _ _ Hdv F' P K) as (R1 & _ & L2 & _).
        rewrite R1. cbn [dbind]. rewrite L2.
        replace (s_tid s' =? s_tid s) with false by (symmetry; apply N.eqb_neq; congruence). reflexivity.
      + destruct (hdr_reads_tlv _ _ _ _ _ _ Hdv Hb F' P K) as (b0 & R1 & Eb & _ & L2 & _).
        rewrite R1. cbn [dbind]. rewrite L2. rewrite Hk' in Hok. cbn [orb existsb] in Hok.
        rewrite orb_false_r in Hok. apply negb_true_iff in Hok. rewrite N.eqb_sym, <- Eb in Hok. rewrite Hok. reflexivity.
    - (* s is a TLV: everything that can follow is a TLV *)
      rewrite forallb_forall in Hok. specialize (Hok s' Hin). apply negb_true_iff in Hok. rewrite Hok in Hk'.
      destruct (kind_cases _ _ _ _ _ P) as [K|K]; rewrite K in Hk'; [discriminate Hk'|].
      destruct (hdr_reads_tlv _ _ _ _ _ _ Hdv Hb F' P K) as (b0 & _ & _ & _ & _ & H4 & R20 & _).
      cbn [app exec_ss exec_s pc_type]. rewrite (has_enough_ok _ _ H4). cbn [dbind]. rewrite R20. cbn [dbind].
      replace (s_tid s' =? s_tid s) with false by (symmetry; apply N.eqb_neq; congruence). reflexivity.
  Qed.

  (* ---- a loop group: optional or repeatable members, any interleaving; the model's order is one of them ---- *)
  Definition comb (hc v : value) : value :=
    match hc, v with VList l0, VList l1 => VList (l0 ++ l1) | _, _ => v end.

  Definition cur_slots (hc : value) (todo : list sub) : list value :=
    match todo with [] => [] | _ :: todo' => hc :: map (zslot z) todo' end.

  Definition fin (hc : value) (vs1 : list value) : list value :=
    match vs1 with [] => [] | v1 :: vs1' => comb hc v1 :: vs1' end.

  Definition fresh (todo : list sub) : value :=
    match todo with s :: _ => zslot z s | [] => VOpt None end.

  Lemma cur_slots_fresh todo : cur_slots (fresh todo) todo = map (zslot z) todo.
  Proof. destruct todo; reflexivity. Qed.

  Lemma comb_nil v : comb (VList []) v = v.
  Proof. destruct v; reflexivity. Qed.

  Lemma dec_many_rest_bytes tid : forall n0 data l1 r1,
    dec_many t (d tid) tid n0 data = Some (l1, r1) -> byte_list data -> byte_list r1.
  Proof.
    induction n0 as [|n0 IHn]; intros data l1 r1 Em Hb; cbn [dec_many] in Em.
    - destruct (announces t data tid); [discriminate|]. injection Em as _ <-. exact Hb.
    - destruct (announces t data tid); [|injection Em as _ <-; exact Hb].
      destruct (d tid data) as [[v r]|] eqn:Ed; [|discriminate].
      destruct (dec_many t (d tid) tid n0 r) as [[l' r'']|] eqn:Em'; [|discriminate].
      injection Em as _ <-. eapply IHn; eauto. eapply d_rest_bytes; eauto using Hframe.
  Qed.

  Section Loop.
    Variables (run rest : list sub) (i : N).
    Hypothesis Hmem : forall s, In s run -> s_arity s = Opt \/ s_arity s = Many.
    Hypothesis Hdist : forall done s todo, run = done ++ s :: todo -> forall s1, In s1 done -> s_tid s1 <> s_tid s.
    Hypothesis Hdr : forall s1 s', In s1 run -> In s' rest -> s_tid s1 <> s_tid s'.
    Hypothesis Hok : hdr_ok run rest = true.

    Let LOOP n data slots :=
      exec_loop has_le call n (if any_tv run then 1 else 4) (run_hdr run false)
                (cases_of t sd (run_hsl run false) run i) (run_hsl run false) data slots.

    Lemma fin_fresh todo vs1 : (forall s, In s todo -> s_arity s = Opt \/ s_arity s = Many) ->
      fin (fresh todo) vs1 = vs1.
    Proof.
      intros H. destruct vs1 as [|v1 vs1]; [reflexivity|]. cbn [fin]. f_equal.
      destruct todo as [|s todo]; [reflexivity|]. cbn [fresh]. unfold zslot.
      destruct (H s (or_introl eq_refl)) as [-> | ->]; [reflexivity|apply comb_nil].
    Qed.

    Lemma loop_step done s todo data v r A old B n :
      run = done ++ s :: todo -> decoded s data v r -> N.of_nat (length A) = i + N.of_nat (length done) ->
      (s_arity s = Many -> exists l, old = VList l) -> (length data < S n)%nat ->
      LOOP (S n) data (A ++ old :: B) = LOOP n r (A ++ upd s v old :: B) /\ (length r < n)%nat.
    Proof.
      intros Hrun Hdec HA Hold Hn. unfold LOOP. rewrite exec_loop_S.
      destruct (group_step run done s todo false i data v r A old B (DOk (data, A ++ old :: B))
                  (exec_loop has_le call n (if any_tv run then 1 else 4) (run_hdr run false)
                             (cases_of t sd (run_hsl run false) run i) (run_hsl run false))
                  Hrun (Hdist _ _ _ Hrun) Hdec HA Hold) as [E L].
      replace (blen data <? (if any_tv run then 1 else 4)) with false by (symmetry; apply N.ltb_ge; exact L).
      split; [exact E|]. destruct Hdec as (Hdv & _). pose proof (d_shorter t d Hframe _ _ _ _ Hdv). lia.
    Qed.

    (* the elements of one repeatable member *)
    Lemma many_iter done s todo A B' (R : dres (bytes * list value)) :
      run = done ++ s :: todo -> s_arity s = Many -> N.of_nat (length A) = i + N.of_nat (length done) ->
      forall n0 data l0 l1 r1 n,
      dec_many t (d (s_tid s)) (s_tid s) n0 data = Some (l1, r1) -> wf_many w (s_tid s) l1 -> byte_list data ->
      (length data < n)%nat ->
      (forall n', (length r1 < n')%nat -> LOOP n' r1 (A ++ VList (l0 ++ l1) :: B') = R) ->
      LOOP n data (A ++ VList l0 :: B') = R.
    Proof.
      intros Hrun Ar HA. induction n0 as [|n0 IH]; intros data l0 l1 r1 n H Hw Hb Hn K; cbn [dec_many] in H.
      - destruct (announces t data (s_tid s)); [discriminate|]. injection H as <- <-.
        rewrite app_nil_r in K. apply K, Hn.
      - destruct (announces t data (s_tid s)).
        + destruct (d (s_tid s) data) as [[v r]|] eqn:Ed; [|discriminate].
          destruct (dec_many t (d (s_tid s)) (s_tid s) n0 r) as [[l' r']|] eqn:Em; [|discriminate].
          injection H as <- <-. cbn [wf_many] in Hw. destruct Hw as (_ & Hwv & Hwl).
          destruct n as [|n]; [lia|].
          destruct (loop_step done s todo data v r A (VList l0) B' n Hrun (conj Ed (conj Hwv Hb)) HA
                      (fun _ => ex_intro _ l0 eq_refl) Hn) as [E L].
          rewrite E. unfold upd. rewrite Ar.
          apply (IH r (l0 ++ [v]) l' r' n Em Hwl (d_rest_bytes t d Hframe _ _ _ _ Ed Hb) L).
          intros n' Hn'. rewrite <- app_assoc. cbn [app]. apply K, Hn'.
        + injection H as <- <-. rewrite app_nil_r in K. apply K, Hn.
    Qed.

    Lemma loop_sim chosen B : forall todo done hc data vs A,
      run = done ++ todo -> N.of_nat (length A) = i + N.of_nat (length done) ->
      dec_subs t d z (todo ++ rest) data chosen = Some (vs, []) -> wf_subs t w (todo ++ rest) vs chosen 0 ->
      byte_list data ->
      match todo with
      | s :: _ => (s_arity s = Many -> exists l0, hc = VList l0) /\ (s_arity s = Opt -> hc = VOpt None)
      | [] => True end ->
      exists data' vs1 vs2, vs = vs1 ++ vs2 /\ dec_subs t d z rest data' chosen = Some (vs2, []) /\
        wf_subs t w rest vs2 chosen 0 /\ byte_list data' /\ length vs1 = length todo /\
        forall n, (length data < n)%nat ->
          LOOP n data (A ++ cur_slots hc todo ++ B) = DOk (data', A ++ fin hc vs1 ++ B).
    Proof.
      induction todo as [|s todo IH]; intros done hc data vs A Hrun HA H Hw Hb Hhc; cbn [app] in *.
      - exists data, [], vs. repeat split; try assumption.
        intros n Hn. destruct n as [|n]; [lia|]. cbn [cur_slots fin app]. unfold LOOP.
        apply (loop_break run rest); try assumption. eapply dec_subs_head; eauto.
      - assert (Hin : In s run) by (rewrite Hrun; apply in_or_app; right; now left).
        assert (Hmem' : forall s0, In s0 todo -> s_arity s0 = Opt \/ s_arity s0 = Many).
        { intros s0 H0. apply Hmem. rewrite Hrun. apply in_or_app. right. now right. }
        assert (Hrun' : run = (done ++ [s]) ++ todo) by (rewrite <- app_assoc; exact Hrun).
        assert (HA' : forall x, N.of_nat (length (A ++ [x])) = i + N.of_nat (length (done ++ [s]))).
        { intros x. rewrite !app_length. cbn [length]. lia. }
        assert (Hhc' : match todo with
                       | s0 :: _ => (s_arity s0 = Many -> exists l0, fresh todo = VList l0) /\
                                    (s_arity s0 = Opt -> fresh todo = VOpt None)
                       | [] => True end).
        { destruct todo as [|s0 todo0]; [exact I|]. cbn [fresh]. unfold zslot.
          split; intros ->; [exists []|]; reflexivity. }
        cbn [dec_subs] in H. destruct Hhc as [HhM HhO].
        destruct (Hmem s Hin) as [Ar|Ar]; rewrite Ar in H.
        + (* optional member *)
          rewrite (HhO Ar) in *. clear HhM HhO.
          destruct (announces t data (s_tid s)).
          * destruct (d (s_tid s) data) as [[v r]|] eqn:Ed; [|discriminate].
            destruct (dec_subs t d z (todo ++ rest) r chosen) as [[vs' r']|] eqn:E; [|discriminate].
            injection H as <- ->. cbn [wf_subs] in Hw. rewrite Ar in Hw. destruct Hw as (_ & _ & Hwv & Hw).
            destruct (IH (done ++ [s]) (fresh todo) r vs' (A ++ [VOpt (Some v)]) Hrun' (HA' _) E Hw
                         (d_rest_bytes t d Hframe _ _ _ _ Ed Hb) Hhc')
              as (data' & vs1 & vs2 & -> & H2 & Hw2 & Hb2 & Hl & Hloop).
            exists data', (VOpt (Some v) :: vs1), vs2. cbn [app length]. repeat split; try assumption; [lia|].
            intros n Hn. destruct n as [|n]; [lia|]. cbn [cur_slots fin comb app].
            destruct (loop_step done s todo data v r A (VOpt None) (map (zslot z) todo ++ B) n Hrun
                        (conj Ed (conj Hwv Hb)) HA (fun X => ltac:(rewrite Ar in X; discriminate X)) Hn) as [E1 L].
            rewrite E1. unfold upd. rewrite Ar.
            specialize (Hloop n L). rewrite cur_slots_fresh, (fin_fresh todo vs1 Hmem'), <- !app_assoc in Hloop.
            exact Hloop.
          * destruct (dec_subs t d z (todo ++ rest) data chosen) as [[vs' r']|] eqn:E; [|discriminate].
            injection H as <- ->. cbn [wf_subs] in Hw. rewrite Ar in Hw. destruct Hw as (_ & Hw).
            destruct (IH (done ++ [s]) (fresh todo) data vs' (A ++ [VOpt None]) Hrun' (HA' _) E Hw Hb Hhc')
              as (data' & vs1 & vs2 & -> & H2 & Hw2 & Hb2 & Hl & Hloop).
            exists data', (VOpt None :: vs1), vs2. cbn [app length]. repeat split; try assumption; [lia|].
            intros n Hn. cbn [cur_slots fin comb app].
            specialize (Hloop n Hn). rewrite cur_slots_fresh, (fin_fresh todo vs1 Hmem'), <- !app_assoc in Hloop.
            exact Hloop.
        + (* repeatable member *)
          destruct (HhM Ar) as (l0 & ->). clear HhM HhO.
          destruct (dec_many t (d (s_tid s)) (s_tid s) (length data) data) as [[l1 r1]|] eqn:Em; [|discriminate].
          destruct (dec_subs t d z (todo ++ rest) r1 chosen) as [[vs' r']|] eqn:E; [|discriminate].
          injection H as <- ->. cbn [wf_subs] in Hw. rewrite Ar in Hw. destruct Hw as (_ & _ & Hwm & Hw).
          pose proof (dec_many_rest_bytes _ _ _ _ _ Em Hb) as Hb1.
          destruct (IH (done ++ [s]) (fresh todo) r1 vs' (A ++ [VList (l0 ++ l1)]) Hrun' (HA' _) E Hw Hb1 Hhc')
            as (data' & vs1 & vs2 & -> & H2 & Hw2 & Hb2 & Hl & Hloop).
          exists data', (VList l1 :: vs1), vs2. cbn [app length]. repeat split; try assumption; [lia|].
          intros n Hn. cbn [cur_slots fin comb app].
          apply (many_iter done s todo A (map (zslot z) todo ++ B) _ Hrun Ar HA (length data) data l0 l1 r1 n Em Hwm Hb Hn).
          intros n' Hn'. specialize (Hloop n' Hn').
          rewrite cur_slots_fresh, (fin_fresh todo vs1 Hmem'), <- !app_assoc in Hloop. exact Hloop.
    Qed.
  End Loop.

  (* ---- the statement list of compile_dsubs ---- *)
  Lemma singles_of_cons s r i known :
    exists k2, fst (singles_of t sd (s :: r) i known) =
      fst (if s_optional s then ([], known) else hdr_len_check (sub_info t s) known) ++
      single_stmts t sd s i ++ fst (singles_of t sd r (i + 1) k2).
  Proof.
    cbn [singles_of]. destruct (if s_optional s then ([], known) else hdr_len_check (sub_info t s) known) as [g k1].
    match goal with |- context [singles_of t sd r (i + 1) ?k] =>
      exists k; destruct (singles_of t sd r (i + 1) k) as [tl k3] end.
    reflexivity.
  Qed.

  Definition is_single_run (s : sub) (run : list sub) : bool :=
    negb (s_repeat s) && ((length run =? 1)%nat || ((s_group s =? 0) && negb (s_optional s))).

  Definition pre_cond (s : sub) (rest : list sub) : bool :=
    s_optional s && negb (existsb (fun s' => negb (s_optional s')) rest).

  Lemma compile_dsubs_cons fk s r i known run0 rest :
    take_run s r = (run0, rest) ->
    exists k',
      compile_dsubs t sd (S fk) (s :: r) i known =
      (if pre_cond s rest then [SRetIfEmpty] else []) ++
      (if is_single_run s (s :: run0) then fst (singles_of t sd (s :: run0) i known)
       else [SGroup (if negb (s_optional s || s_repeat s) then None else Some (if any_tv (s :: run0) then 1 else 4))
                    (run_hdr (s :: run0) (negb (s_optional s || s_repeat s)))
                    (cases_of t sd (run_hsl (s :: run0) (negb (s_optional s || s_repeat s))) (s :: run0) i)
                    (run_hsl (s :: run0) (negb (s_optional s || s_repeat s)))]) ++
      compile_dsubs t sd fk rest (i + N.of_nat (length (s :: run0))) k'.
  Proof.
    intros Ht. cbn [compile_dsubs]. rewrite Ht. fold (pre_cond s rest). fold (is_single_run s (s :: run0)).
    rewrite !any_tv_eq, !any_tlv_eq.
    destruct (is_single_run s (s :: run0)).
    - destruct (singles_of t sd (s :: run0) i known) as [st k']. exists k'. reflexivity.
    - unfold run_hdr, run_hsl.
      destruct (negb (s_optional s || s_repeat s)); eexists; reflexivity.
  Qed.

  (* ---- the schema facts about a list of sub-parameters ---- *)
  Lemma order_app_r a : forall b, wf_sub_order (a ++ b) = true -> wf_sub_order b = true.
  Proof.
    induction a as [|x a IH]; intros b H; [exact H|]. cbn [app wf_sub_order] in H.
    apply andb_true_iff in H as [_ H]. apply IH, H.
  Qed.

  Lemma order_later s subs : wf_sub_order (s :: subs) = true ->
    (s_arity s = One -> (s_group s =? 0) = false) -> forall s', In s' subs -> s_tid s' <> s_tid s.
  Proof.
    cbn [wf_sub_order]. intros H Hc s' Hin Heq. apply andb_true_iff in H as [H _].
    assert (X : negb (existsb (fun s'0 => s_tid s'0 =? s_tid s) subs) = true).
    { destruct (s_arity s) eqn:A; [|exact H|exact H]. rewrite (Hc eq_refl) in H. exact H. }
    apply negb_true_iff in X. assert (Y : existsb (fun s'0 => s_tid s'0 =? s_tid s) subs = true).
    { apply existsb_exists. exists s'. split; [exact Hin|]. apply N.eqb_eq, Heq. }
    congruence.
  Qed.

  Definition ll1 (s : sub) : Prop := s_arity s = One -> (s_group s =? 0) = false.

  (* within a run and between a run and what follows, type codes differ *)
  Lemma order_run run rest : wf_sub_order (run ++ rest) = true -> (forall s, In s run -> ll1 s) ->
    (forall done s todo, run = done ++ s :: todo -> forall s1, In s1 done -> s_tid s1 <> s_tid s) /\
    (forall s1 s', In s1 run -> In s' rest -> s_tid s1 <> s_tid s').
  Proof.
    intros Ho Hll. split.
    - intros done s todo -> s1 H1. apply in_split in H1 as (a & b & ->).
      rewrite <- !app_assoc in Ho. cbn [app] in Ho. apply order_app_r in Ho.
      assert (L : ll1 s1) by (apply Hll; apply in_or_app; left; apply in_or_app; right; now left).
      assert (I : In s (b ++ s :: todo ++ rest)) by (apply in_or_app; right; now left).
      intros E. exact (order_later s1 _ Ho L s I (eq_sym E)).
    - intros s1 s' H1 H'. apply in_split in H1 as (a & b & ->).
      rewrite <- !app_assoc in Ho. cbn [app] in Ho. apply order_app_r in Ho.
      assert (L : ll1 s1) by (apply Hll; apply in_or_app; right; now left).
      assert (I : In s' (b ++ rest)) by (apply in_or_app; right; exact H').
      intros E. exact (order_later s1 _ Ho L s' I (eq_sym E)).
  Qed.

  Lemma groups_app_r a : forall b, groups_ok (a ++ b) = true -> groups_ok b = true.
  Proof.
    induction a as [|x a IH]; intros b H; [exact H|]. cbn [app groups_ok] in H.
    apply andb_true_iff in H as [_ H]. apply IH, H.
  Qed.

  (* after a maximal run of alternatives of group g, the group is closed *)
  Lemma closed_after g : forall run rest, run <> [] -> (forall s, In s run -> s_arity s = One /\ s_group s = g) -> g <> 0 ->
    groups_ok (run ++ rest) = true ->
    match rest with s' :: _ => in_group g s' = false | [] => True end -> cl g rest.
  Proof.
    induction run as [|s run IH]; intros rest Hne Hin Hg Hgo Hr; [contradiction|].
    destruct run as [|s2 run'].
    - cbn [app] in Hgo. destruct (Hin s (or_introl eq_refl)) as [Ar Gs].
      assert (G0 : (s_group s =? 0) = false) by (rewrite Gs; apply N.eqb_neq; exact Hg).
      destruct (after_group s rest Hgo Ar G0) as [Hinv _]. rewrite Gs in Hinv.
      destruct Hinv as [H|[(s0 & r0 & -> & H)|H]]; [contradiction| |right; exact H].
      rewrite H in Hr. discriminate Hr.
    - apply IH; try assumption; [discriminate|intros s0 H0; apply Hin; now right|].
      cbn [app groups_ok] in Hgo. apply andb_true_iff in Hgo as [_ Hgo]. exact Hgo.
  Qed.

  Definition Kont (rest : list sub) (j : N) (tl : list sstmt) : Prop :=
    forall data' chosen' vs2 pre', cl chosen' rest ->
      dec_subs t d z rest data' chosen' = Some (vs2, []) -> wf_subs t w rest vs2 chosen' 0 -> byte_list data' ->
      j = N.of_nat (length pre') ->
      sim tl data' (pre' ++ map (zslot z) rest) (pre' ++ vs2).

  (* a mandatory parameter of the simple path *)
  Lemma mand_single s i known data v r A old B tl :
    s_optional s = false -> decoded s data v r -> i = N.of_nat (length A) ->
    (s_arity s = Many -> exists l, old = VList l) ->
    exec_ss has_le call (fst (if s_optional s then ([], known) else hdr_len_check (sub_info t s) known) ++
                         single_stmts t sd s i ++ tl) data (A ++ old :: B) =
    exec_ss has_le call tl r (A ++ upd s v old :: B).
  Proof.
    intros Ho Hdec Hi Hold. rewrite Ho. rewrite (guards_ok s known data v r _ _ Hdec).
    apply single_taken; assumption.
  Qed.

  (* runs of mandatory parameters (exactly one, no group) *)
  Lemma singles_one0 rest tl : forall run i known data chosen vs pre,
    (forall s, In s run -> s_arity s = One /\ (s_group s =? 0) = true) ->
    Kont rest (i + N.of_nat (length run)) tl -> cl chosen (run ++ rest) ->
    dec_subs t d z (run ++ rest) data chosen = Some (vs, []) -> wf_subs t w (run ++ rest) vs chosen 0 ->
    byte_list data -> i = N.of_nat (length pre) ->
    sim (fst (singles_of t sd run i known) ++ tl) data (pre ++ map (zslot z) (run ++ rest)) (pre ++ vs).
  Proof.
    induction run as [|s run IH]; intros i known data chosen vs pre Hrun K Hcl H Hw Hb Hi; cbn [app] in *.
    - cbn [singles_of fst app]. apply (K data chosen vs pre Hcl H Hw Hb). cbn [length]. lia.
    - destruct (Hrun s (or_introl eq_refl)) as [Ar G].
      destruct (singles_of_cons s run i known) as (k2 & ->).
      cbn [dec_subs] in H. rewrite Ar, G in H.
      destruct (d (s_tid s) data) as [[v r]|] eqn:Ed; [|discriminate].
      destruct (dec_subs t d z (run ++ rest) r chosen) as [[vs' r']|] eqn:E; [|discriminate]. injection H as <- ->.
      cbn [wf_subs] in Hw. rewrite Ar, G in Hw. destruct v as [| | | |vm vt vf vss| |]; try contradiction.
      destruct Hw as (_ & _ & Hwv & Hw).
      assert (Ho : s_optional s = false) by (unfold s_optional; rewrite Ar; reflexivity).
      assert (Hdec : decoded s data (VStruct vm vt vf vss) r) by (repeat split; assumption).
      unfold sim. rewrite <- !app_assoc. cbn [map].
      rewrite (mand_single s i known data _ r pre (zslot z s) _ _ Ho Hdec Hi)
        by (intros X; rewrite Ar in X; discriminate X).
      unfold upd. rewrite Ar.
      replace (pre ++ VStruct vm vt vf vss :: map (zslot z) (run ++ rest))
        with ((pre ++ [VStruct vm vt vf vss]) ++ map (zslot z) (run ++ rest)) by (rewrite <- app_assoc; reflexivity).
      replace (pre ++ VStruct vm vt vf vss :: vs') with ((pre ++ [VStruct vm vt vf vss]) ++ vs')
        by (rewrite <- app_assoc; reflexivity).
      apply (IH (i + 1) k2 r chosen vs' (pre ++ [VStruct vm vt vf vss])); try assumption.
      + intros s0 H0. apply Hrun. now right.
      + replace (i + 1 + N.of_nat (length run)) with (i + N.of_nat (length (s :: run))) by (cbn [length]; lia). exact K.
      + eapply cl_tail; eauto.
      + eapply d_rest_bytes; eauto using Hframe.
      + rewrite app_length. cbn [length]. lia.
  Qed.

  (* `if len(data) == 0 { return nil }` *)
  Lemma pre_stmt (P : bool) X data slots final :
    (P = true -> data = [] -> slots = final) ->
    ((P = true -> data <> []) -> sim X data slots final) ->
    sim ((if P then [SRetIfEmpty] else []) ++ X) data slots final.
  Proof.
    destruct P; cbn [app].
    - destruct data as [|x data].
      + intros H1 _. exists (Done slots). split; [reflexivity|]. left. f_equal. apply H1; reflexivity.
      + intros _ H2. unfold sim. cbn [exec_ss exec_s dbind]. apply H2. discriminate.
    - intros _ H2. apply H2. discriminate.
  Qed.

  Lemma app_cons_assoc {A} (a : list A) x b : a ++ x :: b = (a ++ [x]) ++ b.
  Proof. rewrite <- app_assoc. reflexivity. Qed.

  (* an optional parameter of the simple path *)
  Lemma single_opt rest tl s i known data chosen vs pre :
    s_arity s = Opt -> Kont rest (i + 1) tl -> cl chosen (s :: rest) -> zalt_ok z w (s :: rest) ->
    hdr_ok [s] rest = true -> (forall s', In s' rest -> s_tid s <> s_tid s') ->
    (exists c', find_container t false (s_tid s) = Some c') ->
    dec_subs t d z (s :: rest) data chosen = Some (vs, []) -> wf_subs t w (s :: rest) vs chosen 0 ->
    byte_list data -> i = N.of_nat (length pre) ->
    (data = [] -> forallb s_optional (s :: rest) = true -> False) ->
    sim (fst (singles_of t sd [s] i known) ++ tl) data (pre ++ zslot z s :: map (zslot z) rest) (pre ++ vs).
  Proof.
    intros Ar K Hcl Hz Hok Hne Hc H Hw Hb Hi Hnot.
    assert (Ho : s_optional s = true) by (unfold s_optional; rewrite Ar; reflexivity).
    assert (Zs : zslot z s = VOpt None) by (unfold zslot; rewrite Ar; reflexivity).
    destruct (singles_of_cons s [] i known) as (k2 & ->). rewrite Ho. cbn [fst singles_of app]. rewrite app_nil_r, Zs.
    assert (HK : forall v' data' vs', dec_subs t d z rest data' chosen = Some (vs', []) ->
                 wf_subs t w rest vs' chosen 0 -> byte_list data' ->
                 sim tl data' (pre ++ v' :: map (zslot z) rest) (pre ++ v' :: vs')).
    { intros v' data' vs' H' Hw' Hb'. rewrite (app_cons_assoc pre v' (map (zslot z) rest)), (app_cons_assoc pre v' vs').
      apply (K data' chosen vs' (pre ++ [v']) (cl_tail _ _ _ Hcl) H' Hw' Hb').
      rewrite app_length. cbn [length]. lia. }
    destruct (dec_subs_next t d z w Hframe _ _ _ _ _ Hcl Hz H Hw) as [(s' & v' & r' & Hin & Hdv)|(-> & _ & Hall)];
      [|exfalso; apply Hnot; [reflexivity|exact Hall]].
    pose proof (d_announces t d Hframe _ _ _ _ (s_tid s) Hdv Hb) as Han.
    cbn [dec_subs] in H. rewrite Ar, Han in H.
    destruct Hin as [<-|Hin].
    - rewrite N.eqb_refl, Hdv in H.
      destruct (dec_subs t d z rest r' chosen) as [[vs' r'']|] eqn:E; [|discriminate]. injection H as <- ->.
      cbn [wf_subs] in Hw. rewrite Ar in Hw. destruct Hw as (_ & _ & Hwv & Hw).
      unfold sim.
      rewrite (single_taken s i data v' r' pre (VOpt None) (map (zslot z) rest) tl (conj Hdv (conj Hwv Hb)) Hi)
        by (intros X; rewrite Ar in X; discriminate X).
      unfold upd. rewrite Ar. apply HK; try assumption. eapply d_rest_bytes; eauto using Hframe.
    - replace (s_tid s =? s_tid s') with false in H by (symmetry; apply N.eqb_neq; apply Hne; exact Hin).
      destruct (dec_subs t d z rest data chosen) as [[vs' r'']|] eqn:E; [|discriminate]. injection H as <- ->.
      cbn [wf_subs] in Hw. rewrite Ar in Hw. destruct Hw as (_ & Hw).
      unfold sim. rewrite (single_skipped s i data _ tl rest s' v' r' Ho Hin Hdv Hb (Hne _ Hin) Hok Hc).
      apply HK; assumption.
  Qed.

  Lemma not_in_group_after s rest g : s_arity s = One -> s_group s = g ->
    match rest with s' :: _ => same_key s s' = false | [] => True end ->
    match rest with s' :: _ => in_group g s' = false | [] => True end.
  Proof.
    intros Ar Gs. destruct rest as [|s' rest']; [auto|]. intros Hk. unfold in_group.
    destruct (s_arity s') eqn:Ar'; try reflexivity.
    destruct (N.eqb_spec (s_group s') g) as [E|]; [|reflexivity]. exfalso.
    unfold same_key, s_optional, s_repeat in Hk. rewrite Ar, Ar', Gs, E, N.eqb_refl in Hk. discriminate Hk.
  Qed.

  (* an exclusive group: single member (simple path) or a switch *)
  Lemma excl_decoded run rest data chosen vs g :
    run <> [] -> (forall s, In s run -> s_arity s = One /\ s_group s = g) -> g <> 0 ->
    cl chosen (run ++ rest) -> zalt_ok z w (run ++ rest) -> groups_ok (run ++ rest) = true ->
    match rest with s' :: _ => in_group g s' = false | [] => True end ->
    dec_subs t d z (run ++ rest) data chosen = Some (vs, []) -> wf_subs t w (run ++ rest) vs chosen 0 ->
    exists a s b v data' vs2, run = a ++ s :: b /\ d (s_tid s) data = Some (v, data') /\ w v /\
      vs = map (zslot z) a ++ v :: map (zslot z) b ++ vs2 /\
      dec_subs t d z rest data' g = Some (vs2, []) /\ wf_subs t w rest vs2 g 0 /\ cl g rest.
  Proof.
    intros Hne Hin Hg Hcl Hz Hgo Hr H Hw.
    assert (Hc : chosen <> g).
    { destruct run as [|s run']; [contradiction|]. destruct (Hin s (or_introl eq_refl)) as [Ar Gs].
      assert (G0 : (s_group s =? 0) = false) by (rewrite Gs; apply N.eqb_neq; exact Hg).
      pose proof (cl_not_group _ _ _ Hcl Ar G0) as X. rewrite Gs in X. apply N.eqb_neq, X. }
    assert (Hzr : zalt_ok z w run) by (intros s0 H0; apply Hz; apply in_or_app; now left).
    destruct (excl_run t d z w g rest Hg Hr chosen Hc run data vs 0 Hin Hzr H Hw) as (a & s & b & v & data' & vs2 & E);
      [intros ->; contradiction|].
    exists a, s, b, v, data', vs2. destruct E as (E1 & E2 & E3 & E4 & E5 & E6). repeat split; try assumption.
    apply (closed_after g run rest); assumption.
  Qed.

  Lemma single_alt rest tl s i known data chosen vs pre :
    s_arity s = One -> (s_group s =? 0) = false -> Kont rest (i + 1) tl ->
    cl chosen (s :: rest) -> zalt_ok z w (s :: rest) -> groups_ok (s :: rest) = true ->
    match rest with s' :: _ => in_group (s_group s) s' = false | [] => True end ->
    dec_subs t d z (s :: rest) data chosen = Some (vs, []) -> wf_subs t w (s :: rest) vs chosen 0 ->
    byte_list data -> i = N.of_nat (length pre) ->
    sim (fst (singles_of t sd [s] i known) ++ tl) data (pre ++ zslot z s :: map (zslot z) rest) (pre ++ vs).
  Proof.
    intros Ar G K Hcl Hz Hgo Hr H Hw Hb Hi.
    assert (Ho : s_optional s = false) by (unfold s_optional; rewrite Ar; reflexivity).
    destruct (excl_decoded [s] rest data chosen vs (s_group s)) as (a & s0 & b & v & data' & vs2 & E1 & E2 & E3 & -> & E5 & E6 & E7);
      try assumption; [discriminate|intros s0 [<-|[]]; split; [exact Ar|reflexivity]|apply N.eqb_neq; exact G|].
    destruct a as [|x a]; [|destruct a; discriminate E1]. cbn [app] in E1. injection E1 as <- <-.
    cbn [map app].
    destruct (singles_of_cons s [] i known) as (k2 & ->). cbn [fst singles_of]. rewrite app_nil_r, <- app_assoc.
    unfold sim. rewrite (mand_single s i known data v data' pre (zslot z s) _ _ Ho (conj E2 (conj E3 Hb)) Hi)
      by (intros X; rewrite Ar in X; discriminate X).
    unfold upd. rewrite Ar. rewrite (app_cons_assoc pre v (map (zslot z) rest)), (app_cons_assoc pre v vs2).
    apply (K data' (s_group s) vs2 (pre ++ [v]) E7 E5 E6 (d_rest_bytes t d Hframe _ _ _ _ E2 Hb)).
    rewrite app_length. cbn [length]. lia.
  Qed.

  Lemma group_excl run rest tl i data chosen vs pre g :
    run <> [] -> (forall s, In s run -> s_arity s = One /\ s_group s = g) -> g <> 0 ->
    Kont rest (i + N.of_nat (length run)) tl ->
    cl chosen (run ++ rest) -> zalt_ok z w (run ++ rest) -> groups_ok (run ++ rest) = true ->
    wf_sub_order (run ++ rest) = true ->
    match rest with s' :: _ => in_group g s' = false | [] => True end ->
    dec_subs t d z (run ++ rest) data chosen = Some (vs, []) -> wf_subs t w (run ++ rest) vs chosen 0 ->
    byte_list data -> i = N.of_nat (length pre) ->
    sim (SGroup None (run_hdr run true) (cases_of t sd (run_hsl run true) run i) (run_hsl run true) :: tl)
        data (pre ++ map (zslot z) (run ++ rest)) (pre ++ vs).
  Proof.
    intros Hne Hin Hg K Hcl Hz Hgo Ho Hr H Hw Hb Hi.
    destruct (excl_decoded run rest data chosen vs g Hne Hin Hg Hcl Hz Hgo Hr H Hw)
      as (a & s & b & v & data' & vs2 & E1 & E2 & E3 & -> & E5 & E6 & E7).
    assert (Hll : forall s0, In s0 run -> ll1 s0).
    { intros s0 H0 _. destruct (Hin s0 H0) as [_ ->]. apply N.eqb_neq; exact Hg. }
    destruct (order_run run rest Ho Hll) as [Hdist _].
    assert (Ar : s_arity s = One) by (apply Hin; rewrite E1; apply in_or_app; right; now left).
    unfold sim. cbn [exec_ss exec_s].
    change (dbind (exec_hdr (run_hdr run true) data) _) with
      (group_body (run_hdr run true) (cases_of t sd (run_hsl run true) run i) (run_hsl run true) data
                  (pre ++ map (zslot z) (run ++ rest)) DErr (fun d' sl => DOk (Next d' sl))).
    assert (Es : pre ++ map (zslot z) (run ++ rest) =
                 (pre ++ map (zslot z) a) ++ zslot z s :: map (zslot z) b ++ map (zslot z) rest).
    { rewrite E1, !map_app. cbn [map]. rewrite <- !app_assoc. cbn [app]. reflexivity. }
    rewrite Es.
    destruct (group_step run a s b true i data v data' (pre ++ map (zslot z) a) (zslot z s)
                (map (zslot z) b ++ map (zslot z) rest) DErr (fun d' sl => DOk (Next d' sl))
                E1 (Hdist _ _ _ E1) (conj E2 (conj E3 Hb))) as [Eg _].
    { rewrite app_length, map_length. lia. }
    { intros X; rewrite Ar in X; discriminate X. }
    rewrite Eg. cbn [dbind]. unfold upd. rewrite Ar.
    replace ((pre ++ map (zslot z) a) ++ v :: map (zslot z) b ++ map (zslot z) rest)
      with ((pre ++ map (zslot z) a ++ v :: map (zslot z) b) ++ map (zslot z) rest)
      by (rewrite <- !app_assoc; cbn [app]; reflexivity).
    replace (pre ++ map (zslot z) a ++ v :: map (zslot z) b ++ vs2)
      with ((pre ++ map (zslot z) a ++ v :: map (zslot z) b) ++ vs2)
      by (rewrite <- !app_assoc; cbn [app]; reflexivity).
    apply (K data' g vs2 _ E7 E5 E6 (d_rest_bytes t d Hframe _ _ _ _ E2 Hb)).
    rewrite E1. repeat (first [rewrite app_length | rewrite map_length | progress cbn [length]]). lia.
  Qed.

  (* a loop group *)
  Lemma group_loop run rest tl i data chosen vs pre :
    run <> [] -> (forall s, In s run -> s_arity s = Opt \/ s_arity s = Many) ->
    Kont rest (i + N.of_nat (length run)) tl -> cl chosen (run ++ rest) ->
    wf_sub_order (run ++ rest) = true -> hdr_ok run rest = true ->
    dec_subs t d z (run ++ rest) data chosen = Some (vs, []) -> wf_subs t w (run ++ rest) vs chosen 0 ->
    byte_list data -> i = N.of_nat (length pre) ->
    sim (SGroup (Some (if any_tv run then 1 else 4)) (run_hdr run false)
                (cases_of t sd (run_hsl run false) run i) (run_hsl run false) :: tl)
        data (pre ++ map (zslot z) (run ++ rest)) (pre ++ vs).
  Proof.
    intros Hne Hmem K Hcl Ho Hok H Hw Hb Hi.
    assert (Hll : forall s0, In s0 run -> ll1 s0).
    { intros s0 H0 X. destruct (Hmem s0 H0) as [Y|Y]; rewrite Y in X; discriminate X. }
    destruct (order_run run rest Ho Hll) as [Hdist Hdr].
    assert (Hhc : match run with
                  | s0 :: _ => (s_arity s0 = Many -> exists l0, fresh run = VList l0) /\
                               (s_arity s0 = Opt -> fresh run = VOpt None)
                  | [] => True end).
    { destruct run as [|s0 run0]; [exact I|]. cbn [fresh]. unfold zslot.
      split; intros ->; [exists []|]; reflexivity. }
    destruct (loop_sim run rest i Hmem Hdist Hdr Hok chosen (map (zslot z) rest) run [] (fresh run) data vs pre
                eq_refl ltac:(cbn [length]; lia) H Hw Hb Hhc)
      as (data' & vs1 & vs2 & -> & H2 & Hw2 & Hb2 & Hl & Hloop).
    specialize (Hloop (S (length data)) (Nat.lt_succ_diag_r _)).
    rewrite cur_slots_fresh, (fin_fresh run vs1 Hmem) in Hloop.
    unfold sim. cbn [exec_ss exec_s]. rewrite map_app, Hloop. cbn [dbind fst snd].
    rewrite !app_assoc.
    apply (K data' chosen vs2 (pre ++ vs1) (cl_app_r _ _ _ Hcl) H2 Hw2 Hb2).
    rewrite app_length. lia.
  Qed.

  (* ---- all sub-parameters of a container ---- *)
  Fixpoint runs_ok (fuel : nat) (subs : list sub) : bool :=
    match fuel, subs with
    | S fk, s :: r =>
      let '(run0, rest) := take_run s r in
      (if s_optional s || s_repeat s then hdr_ok (s :: run0) rest else true) && runs_ok fk rest
    | _, _ => true
    end.

  Lemma key_arity s s' : same_key s s' = true ->
    s_arity s' = s_arity s /\ (s_arity s = One -> s_group s' = s_group s).
  Proof.
    intros H. destruct (same_key_parts _ _ H) as (H1 & H2 & H3). unfold s_optional, s_repeat in *.
    split; [|intros _; symmetry; exact H3].
    destruct (s_arity s), (s_arity s'); try reflexivity; try discriminate; cbn in *;
      try (destruct (s_req s); discriminate); try (destruct (s_req s'); discriminate).
  Qed.

  Lemma all_optional s run0 rest : pre_cond s rest = true -> (forall s', In s' run0 -> same_key s s' = true) ->
    forallb s_optional (s :: run0 ++ rest) = true.
  Proof.
    unfold pre_cond. intros H Hk. apply andb_true_iff in H as [H1 H2]. apply negb_true_iff in H2.
    cbn [forallb]. rewrite H1. cbn [andb]. rewrite forallb_app. apply andb_true_iff. split.
    - apply forallb_forall. intros s' Hs'. destruct (same_key_parts _ _ (Hk s' Hs')) as (E & _). rewrite <- E. exact H1.
    - apply forallb_forall. intros s' Hs'. destruct (s_optional s') eqn:O; [reflexivity|].
      assert (X : existsb (fun s'0 => negb (s_optional s'0)) rest = true).
      { apply existsb_exists. exists s'. split; [exact Hs'|]. rewrite O. reflexivity. }
      congruence.
  Qed.

  Theorem subs_sim : forall fuel subs i known data chosen vs pre,
    (length subs <= fuel)%nat -> wf_sub_order subs = true -> groups_ok subs = true ->
    (forall s, In s subs -> exists c', find_container t false (s_tid s) = Some c') -> zalt_ok z w subs ->
    runs_ok fuel subs = true -> cl chosen subs ->
    dec_subs t d z subs data chosen = Some (vs, []) -> wf_subs t w subs vs chosen 0 -> byte_list data ->
    i = N.of_nat (length pre) ->
    sim (compile_dsubs t sd fuel subs i known) data (pre ++ map (zslot z) subs) (pre ++ vs).
  Proof.
    induction fuel as [|fk IH]; intros subs i known data chosen vs pre Hlen Ho Hgo Hc Hz Hrk Hcl H Hw Hb Hi.
    - destruct subs; [|cbn in Hlen; lia]. cbn in H. injection H as <- ->.
      exists (Next [] (pre ++ [])). split; [reflexivity|]. right. reflexivity.
    - destruct subs as [|s r0].
      { cbn in H. injection H as <- ->. exists (Next [] (pre ++ [])). split; [reflexivity|]. right. reflexivity. }
      destruct (take_run s r0) as [run0 rest] eqn:Ht.
      destruct (take_run_spec s r0 run0 rest Ht) as (-> & Hkey & Hmax).
      destruct (compile_dsubs_cons fk s (run0 ++ rest) i known run0 rest Ht) as (k' & ->).
      cbn [runs_ok] in Hrk. rewrite Ht in Hrk. apply andb_true_iff in Hrk as [Hhdr Hrk].
      change (s :: run0 ++ rest) with ((s :: run0) ++ rest) in *.
      set (run := s :: run0) in *.
      assert (Hin_run : forall s', In s' run -> s' = s \/ same_key s s' = true).
      { intros s' [<-|Hs']; [now left|right; apply Hkey, Hs']. }
      (* the continuation: the induction hypothesis on what follows the run *)
      assert (K : Kont rest (i + N.of_nat (length run)) (compile_dsubs t sd fk rest (i + N.of_nat (length run)) k')).
      { intros data' chosen' vs2 pre' Hcl' H' Hw' Hb' Hi'. apply (IH rest _ _ data' chosen' vs2 pre'); try assumption.
        - rewrite app_length in Hlen. unfold run in Hlen. cbn [length] in Hlen. lia.
        - apply (order_app_r run), Ho.
        - apply (groups_app_r run), Hgo.
        - intros s0 H0. apply Hc. apply in_or_app. now right.
        - apply (zalt_app_r z w run), Hz. }
      apply pre_stmt.
      { (* `return nil` on an empty slice: everything that remains is optional *)
        intros HP -> . f_equal.
        destruct (dec_subs_empty t d z (run ++ rest) (all_optional s run0 rest HP Hkey) _ _ _ H) as [-> _]. reflexivity. }
      intros Hne0.
      assert (Hne_run : run <> []) by discriminate.
      destruct (s_arity s) eqn:Ar.
      + (* exactly one *)
        assert (Hrun1 : forall s', In s' run -> s_arity s' = One /\ s_group s' = s_group s).
        { intros s' Hs'. destruct (Hin_run s' Hs') as [->|Hk]; [split; [exact Ar|reflexivity]|].
          destruct (key_arity _ _ Hk) as [E1 E2]. split; [congruence|apply E2, Ar]. }
        unfold is_single_run, s_repeat, s_optional. rewrite Ar. cbn [negb andb orb].
        destruct (s_group s =? 0) eqn:G; [rewrite orb_true_r|rewrite orb_false_r].
        * apply (singles_one0 rest _ run i known data chosen vs pre); try assumption.
          intros s' Hs'. destruct (Hrun1 s' Hs') as [E1 E2]. split; [exact E1|]. rewrite E2. exact G.
        * assert (Hg : s_group s <> 0) by (apply N.eqb_neq; exact G).
          pose proof (not_in_group_after s rest (s_group s) Ar eq_refl Hmax) as Hr.
          destruct (length run =? 1)%nat eqn:L1.
          -- assert (E0 : run0 = []).
             { unfold run in L1. cbn [length] in L1. apply Nat.eqb_eq in L1. destruct run0; [reflexivity|cbn in L1; lia]. }
             unfold run in *. rewrite E0 in *. cbn [app] in *.
             apply (single_alt rest _ s i known data chosen vs pre); try assumption.
          -- apply (group_excl run rest _ i data chosen vs pre (s_group s)); try assumption.
      + (* optional *)
        assert (Hrun1 : forall s', In s' run -> s_arity s' = Opt \/ s_arity s' = Many).
        { intros s' Hs'. left. destruct (Hin_run s' Hs') as [->|Hk]; [exact Ar|].
          destruct (key_arity _ _ Hk) as [E1 _]. congruence. }
        unfold is_single_run, s_repeat, s_optional in *. rewrite Ar in *. cbn [negb andb orb] in *.
        rewrite andb_false_r, orb_false_r.
        destruct (length run =? 1)%nat eqn:L1.
        * assert (E0 : run0 = []).
          { unfold run in L1. cbn [length] in L1. apply Nat.eqb_eq in L1. destruct run0; [reflexivity|cbn in L1; lia]. }
          unfold run in *. rewrite E0 in *. cbn [app] in *.
          assert (Hll : forall s0, In s0 [s] -> ll1 s0).
          { intros s0 [<-|[]] X. rewrite Ar in X. discriminate X. }
          destruct (order_run [s] rest Ho Hll) as [_ Hdr].
          apply (single_opt rest _ s i known data chosen vs pre); try assumption.
          -- intros s' Hs'. apply Hdr; [now left|exact Hs'].
          -- apply Hc. now left.
          -- intros -> Hall. apply Hne0; [|reflexivity]. unfold pre_cond.
             assert (Os : s_optional s = true) by (unfold s_optional; rewrite Ar; reflexivity). rewrite Os. cbn [andb].
             cbn [forallb] in Hall. apply andb_true_iff in Hall as [_ Hall]. apply negb_true_iff.
             destruct (existsb (fun s' => negb (s_optional s')) rest) eqn:X; [|reflexivity].
             apply existsb_exists in X as (s' & Hs' & Hn). rewrite forallb_forall in Hall.
             rewrite (Hall s' Hs') in Hn. discriminate Hn.
        * apply (group_loop run rest _ i data chosen vs pre); try assumption.
      + (* repeatable *)
        assert (Hrun1 : forall s', In s' run -> s_arity s' = Opt \/ s_arity s' = Many).
        { intros s' Hs'. right. destruct (Hin_run s' Hs') as [->|Hk]; [exact Ar|].
          destruct (key_arity _ _ Hk) as [E1 _]. congruence. }
        unfold is_single_run, s_repeat, s_optional in *. rewrite Ar in *. cbn [negb andb orb] in *.
        rewrite orb_true_r in *. cbn [negb].
        apply (group_loop run rest _ i data chosen vs pre); try assumption.
  Qed.
End IRSubs.
