(* Semantics of the decoder IR (DecFIR/IR.v) over the value trees of Codec/Schema.v.

   State of a running UnmarshalBinary: the slice [data] and the receiver's Go struct as a list of slots (one
   value per Go field; a bit array is two slots).  Reading of Go (trusted, see notes/DecFIR.md):
     data[k] / data[lo:hi] / binary.BigEndian.UintN(data[k:]) panic when out of range (cap = len: the harness passes
     exact-capacity slices)                                                        -> [DPanic];
     `return fmt.Errorf(...)` / `return err`                                        -> [DErr];
     copy(dst, src) copies min(len dst, len src) elements, make zero-fills;
     a decoder is run on a zero receiver (var tmp T / new(T) / a field of a zero struct);
     conversions between integer types of equal size keep the bit pattern; bool = 0/1; nil = empty.
   Loops `for len(data) >= k` get S (length data) iterations of fuel, nested calls get [fuel]; exhaustion of either is
   the distinct outcome [DFuel].  No proofs in this file. *)
From Coq Require Import NArith ZArith List Bool.
From LLRP Require Import Codec.Schema EncIR.IR DecFIR.IR.
Import ListNotations.
Open Scope N_scope.

Inductive dres (A : Type) := DOk (a : A) | DErr | DPanic | DFuel.
Arguments DOk {A} a.
Arguments DErr {A}.
Arguments DPanic {A}.
Arguments DFuel {A}.

Definition dbind {A B} (r : dres A) (f : A -> dres B) : dres B :=
  match r with DOk a => f a | DErr => DErr | DPanic => DPanic | DFuel => DFuel end.

Definition of_opt {A} (o : option A) : dres A := match o with Some a => DOk a | None => DErr end.
Definition or_panic {A} (o : option A) : dres A := match o with Some a => DOk a | None => DPanic end.

Definition blen (l : bytes) : N := N.of_nat (length l).

(* data[k:] *)
Definition drop (k : N) (data : bytes) : dres bytes :=
  if k <=? blen data then DOk (skipn (N.to_nat k) data) else DPanic.

(* data[lo:hi] *)
Definition slice (lo hi : N) (data : bytes) : dres bytes :=
  if (lo <=? hi) && (hi <=? blen data) then DOk (firstn (N.to_nat (hi - lo)) (skipn (N.to_nat lo) data)) else DPanic.

(* binary.BigEndian.Uint{8*size}(data[off:]) ; size = 1: data[off] *)
Definition read_be (size off : N) (data : bytes) : dres N :=
  if off + size <=? blen data
  then DOk (from_be (firstn (N.to_nat size) (skipn (N.to_nat off) data)) 0)
  else DPanic.

Fixpoint eval_x (data : bytes) (e : dexpr) : dres N :=
  match e with
  | XByte off => read_be 1 off data
  | XBE size off => read_be size off data
  | XShr e k => dbind (eval_x data e) (fun x => DOk (N.shiftr x k))
  | XAnd e m => dbind (eval_x data e) (fun x => DOk (N.land x m))
  | XNeZero e => dbind (eval_x data e) (fun x => DOk (if x =? 0 then 0 else 1))
  end.

(* dst := make([]T, n); copy(dst, src) *)
Definition copy_n (n : nat) (src : bytes) : bytes :=
  firstn n src ++ repeat 0 (n - length (firstn n src)).

Fixpoint set_slot (slots : list value) (f : nat) (v : value) : list value :=
  match slots, f with
  | [], _ => []
  | _ :: r, O => v :: r
  | x :: r, S k => x :: set_slot r k v
  end.
Definition setN (slots : list value) (f : N) (v : value) := set_slot slots (N.to_nat f) v.

Inductive flow := Next (data : bytes) (slots : list value) | Done (slots : list value).

(* elements of an array read by a loop *)
Fixpoint read_elems (cnt : nat) (esz pos step : N) (data : bytes) : dres (list N) :=
  match cnt with
  | O => DOk []
  | S k => dbind (read_be esz pos data) (fun x =>
           dbind (read_elems k esz (pos + step) step data) (fun xs => DOk (x :: xs)))
  end.

Definition after_len (p : N) (data : bytes) : dres N :=      (* len(data[p:]) *)
  if p <=? blen data then DOk (blen data - p) else DPanic.

Definition exec_f (s : fstmt) (data : bytes) (slots : list value) : dres flow :=
  match s with
  | DStore f e => dbind (eval_x data e) (fun x => DOk (Next data (setN slots f (VNum x))))
  | DReslice k => dbind (drop k data) (fun d => DOk (Next d slots))
  | DGuardLt k => if blen data <? k then DErr else DOk (Next data slots)
  | DFixedCopy f n pos =>
      dbind (drop pos data) (fun src => DOk (Next data (setN slots f (VBytes (copy_n (N.to_nat n) src)))))
  | DStr f p0 p1 p2 p3 p4 p5 =>
      dbind (read_be 2 p0 data) (fun cnt =>
      dbind (after_len p1 data) (fun avail =>
      if avail <? cnt then DErr
      else if negb (cnt =? 0) then
        dbind (slice p2 (cnt + p3) data) (fun s =>
        dbind (drop (cnt + p4) data) (fun d => DOk (Next d (setN slots f (VBytes s)))))
      else dbind (drop p5 data) (fun d => DOk (Next d slots))))
  | DArr f mode p0 mul p1 p2 mul2 p3 p4 =>
      dbind (read_be 2 p0 data) (fun cnt =>
      dbind (after_len p1 data) (fun avail =>
      if avail <? cnt * mul then DErr
      else if negb (cnt =? 0) then
        dbind (match mode with
               | ACopy => dbind (drop p2 data) (fun src => DOk (copy_n (N.to_nat cnt) src))
               | ALoop1 => read_elems (N.to_nat cnt) 1 p2 1 data
               | ALoopN esz step => read_elems (N.to_nat cnt) esz p2 step data
               end) (fun xs =>
        dbind (drop (cnt * mul2 + p3) data) (fun d => DOk (Next d (setN slots f (VNums xs)))))
      else dbind (drop p4 data) (fun d => DOk (Next d slots))))
  | DBitArr fn fb p0 a b c p1 p2 p3 p4 =>
      dbind (read_be 2 p0 data) (fun nbits =>
      let slots1 := setN slots fn (VNum nbits) in
      (* nBytes := a + ((int(nbits) - b) >> c)  on Go ints, arithmetic shift *)
      let nb := (Z.of_N a + Z.shiftr (Z.of_N nbits - Z.of_N b) (Z.of_N c))%Z in
      dbind (after_len p1 data) (fun avail =>
      if (Z.of_N avail <? nb)%Z then DErr
      else if negb (nb =? 0)%Z then
        if (nb <? 0)%Z then DPanic       (* make with a negative length *)
        else
          dbind (drop p2 data) (fun src =>
          dbind (drop (Z.to_N nb + p3) data) (fun d =>
          DOk (Next d (setN slots1 fb (VBytes (copy_n (Z.to_nat nb) src))))))
      else dbind (drop p4 data) (fun d => DOk (Next d slots1))))
  | DRest f q0 q1 q2 q3 =>
      if Z.eqb (Z.of_N (blen data) - Z.of_N q0) 0 then DOk (Done slots)
      else if blen data <? q1 then DPanic
      else
        dbind (drop q2 data) (fun src =>
        let slots1 := setN slots f (VBytes (copy_n (N.to_nat (blen data - q1)) src)) in
        match q3 with
        | Some k => dbind (drop k data) (fun d => DOk (Next d slots1))
        | None => DOk (Next data slots1)
        end)
  end.

Fixpoint exec_fs (ss : list fstmt) (data : bytes) (slots : list value) : dres flow :=
  match ss with
  | [] => DOk (Next data slots)
  | s :: r => dbind (exec_f s data slots) (fun fl =>
              match fl with Next d sl => exec_fs r d sl | Done sl => DOk (Done sl) end)
  end.

(* ---- sub-parameters ---- *)
Section Subs.
  Variable has_le : bool.                              (* hasEnoughBytes(_, needed, got, _) = nil iff needed <= got *)
  Variable call : N -> bytes -> dres value.            (* a fresh T's UnmarshalBinary, T the type with ParamType tid *)

  Definition has_enough (need : N) (data : bytes) : dres unit :=
    if has_le then (if need <=? blen data then DOk tt else DErr) else DPanic.

  (* -> the subLen in scope afterwards *)
  Definition exec_check (c : lencheck) (sublen : option N) (data : bytes) : dres (option N) :=
    match c with
    | LCNone => DOk sublen
    | LCTv _ k => dbind (has_enough k data) (fun _ => DOk sublen)
    | LCTlv need =>
        dbind (read_be 2 2 data) (fun sl =>
        if blen data <? sl then DErr else if sl <? need then DErr else DOk (Some sl))
    | LCMin need =>
        match sublen with
        | Some sl => if sl <? need then DErr else DOk sublen
        | None => DPanic
        end
    end.

  Definition exec_dec (sd : subdec) (sublen : option N) (data : bytes) (slots : list value) : dres (list value) :=
    match sd with
    | SDCall f mode tid lo hi =>
        dbind (match hi with
               | HiSubLen => match sublen with Some sl => DOk sl | None => DPanic end
               | HiConst k => DOk k
               | HiNone => DOk (blen data)
               end) (fun h =>
        dbind (slice lo h data) (fun body =>
        dbind (call tid body) (fun v =>
        match mode with
        | MAssign => DOk (setN slots f v)
        | MNew => DOk (setN slots f (VOpt (Some v)))
        | MAppend => match nth_error slots (N.to_nat f) with
                     | Some (VList l) => DOk (setN slots f (VList (l ++ [v])))
                     | _ => DPanic end
        end)))
    | SDInline f alloc tid e =>
        dbind (eval_x data e) (fun x =>
        let v := VStruct false tid [VNum x] [] in
        DOk (setN slots f (if alloc then VOpt (Some v) else v)))
    end.

  Definition exec_adv (a : adv) (sublen : option N) (data : bytes) : dres bytes :=
    match a with
    | AdvNone => DOk data
    | AdvConst k => drop k data
    | AdvSubLen => match sublen with Some sl => drop sl data | None => DPanic end
    end.

  Definition exec_case (c : pcase) (sublen : option N) (data : bytes) (slots : list value) : dres (bytes * list value) :=
    dbind (exec_check (pc_check c) sublen data) (fun sl =>
    dbind (exec_dec (pc_dec c) sl data slots) (fun slots' =>
    dbind (exec_adv (pc_adv c) sl data) (fun d => DOk (d, slots')))).

  (* -> (pt, subLen) *)
  Definition exec_hdr (h : ghdr) (data : bytes) : dres (N * option N) :=
    match h with
    | HMixed m80 m7f lt =>
        dbind (read_be 1 0 data) (fun b0 =>
        if negb (N.land b0 m80 =? 0) then DOk (N.land b0 m7f, None)
        else if blen data <? lt then DErr
        else dbind (read_be 2 0 data) (fun pt => DOk (pt, None)))
    | HTv m7f => dbind (read_be 1 0 data) (fun b0 => DOk (N.land b0 m7f, None))
    | HTlv => dbind (read_be 2 0 data) (fun pt => DOk (pt, None))
    | HTlvLen need =>
        dbind (read_be 2 0 data) (fun pt =>
        dbind (read_be 2 2 data) (fun sl =>
        if blen data <? sl then DErr else if sl <? need then DErr else DOk (pt, Some sl)))
    end.

  Fixpoint find_case (cases : list pcase) (pt : N) : option pcase :=
    match cases with
    | [] => None
    | c :: r => if pc_type c =? pt then Some c else find_case r pt
    end.

  (* paramGroupN: for len(data) >= k { ... } *)
  Fixpoint exec_loop (n : nat) (k : N) (h : ghdr) (cases : list pcase) (advsub : bool)
           (data : bytes) (slots : list value) : dres (bytes * list value) :=
    match n with
    | O => DFuel
    | S n' =>
      if blen data <? k then DOk (data, slots)
      else
        dbind (exec_hdr h data) (fun ps =>
        match find_case cases (fst ps) with
        | None => DOk (data, slots)                                  (* default: break paramGroupN *)
        | Some c =>
          dbind (exec_case c (snd ps) data slots) (fun ds =>
          dbind (if advsub then match snd ps with Some sl => drop sl (fst ds) | None => DPanic end
                 else DOk (fst ds)) (fun d =>
          exec_loop n' k h cases advsub d (snd ds)))
        end)
    end.

  Definition exec_s (s : sstmt) (data : bytes) (slots : list value) : dres flow :=
    match s with
    | SRetIfEmpty => match data with [] => DOk (Done slots) | _ => DOk (Next data slots) end
    | SGuard _ need => dbind (has_enough need data) (fun _ => DOk (Next data slots))
    | SSingleTv opt m7f c =>
        dbind (read_be 1 0 data) (fun b0 =>
        if N.land b0 m7f =? pc_type c
        then dbind (exec_case c None data slots) (fun ds => DOk (Next (fst ds) (snd ds)))
        else if opt then DOk (Next data slots) else DErr)
    | SSingleTlv opt c =>
        dbind (read_be 2 0 data) (fun pt =>
        if pt =? pc_type c
        then dbind (exec_case c None data slots) (fun ds => DOk (Next (fst ds) (snd ds)))
        else if opt then DOk (Next data slots) else DErr)
    | SGroup (Some k) h cases advsub =>
        dbind (exec_loop (S (length data)) k h cases advsub data slots) (fun ds => DOk (Next (fst ds) (snd ds)))
    | SGroup None h cases advsub =>
        dbind (exec_hdr h data) (fun ps =>
        match find_case cases (fst ps) with
        | None => DErr                                               (* default: return err *)
        | Some c =>
          dbind (exec_case c (snd ps) data slots) (fun ds =>
          dbind (if advsub then match snd ps with Some sl => drop sl (fst ds) | None => DPanic end
                 else DOk (fst ds)) (fun d => DOk (Next d (snd ds))))
        end)
    end.

  Fixpoint exec_ss (ss : list sstmt) (data : bytes) (slots : list value) : dres flow :=
    match ss with
    | [] => DOk (Next data slots)
    | s :: r => dbind (exec_s s data slots) (fun fl =>
                match fl with Next d sl => exec_ss r d sl | Done sl => DOk (Done sl) end)
    end.
End Subs.

(* ---- the struct as a tree ---- *)
(* slots -> (field values, sub values) following the shape *)
Fixpoint assemble (shape : list zkind) (slots : list value) : option (list value * list value) :=
  match shape, slots with
  | [], [] => Some ([], [])
  | ZBitLen :: ZBitBytes :: sh, VNum n :: VBytes bs :: r =>
      match assemble sh r with Some (fs, ss) => Some (VBitArr n bs :: fs, ss) | None => None end
  | (ZNum | ZBytes | ZNums) :: sh, v :: r =>
      match assemble sh r with Some (fs, ss) => Some (v :: fs, ss) | None => None end
  | (ZOne _ | ZOpt _ | ZMany _) :: sh, v :: r =>
      match assemble sh r with Some (fs, ss) => Some (fs, v :: ss) | None => None end
  | _, _ => None
  end.

Section Run.
  Variable ps : dprograms.

  (* the zero value of Go type T (ParamType tid), as slots / as a tree *)
  Fixpoint zero_val (fuel : nat) (tid : N) : value :=
    match fuel with
    | O => VStruct false tid [] []
    | S k =>
      match dlookup (dp_progs ps) false tid with
      | Some p =>
        let slots := map (fun z => match z with
                                   | ZNum | ZBitLen => VNum 0
                                   | ZBytes | ZBitBytes => VBytes []
                                   | ZNums => VNums []
                                   | ZOne t => zero_val k t
                                   | ZOpt _ => VOpt None
                                   | ZMany _ => VList []
                                   end) (d_shape p) in
        match assemble (d_shape p) slots with
        | Some (fs, ss) => VStruct false tid fs ss
        | None => VStruct false tid [] []
        end
      | None => VStruct false tid [] []
      end
    end.

  Definition zero_slots (fuel : nat) (p : dec_prog) : list value :=
    map (fun z => match z with
                  | ZNum | ZBitLen => VNum 0
                  | ZBytes | ZBitBytes => VBytes []
                  | ZNums => VNums []
                  | ZOne t => zero_val fuel t
                  | ZOpt _ => VOpt None
                  | ZMany _ => VList []
                  end) (d_shape p).

  Definition finish (p : dec_prog) (msg : bool) (tid : N) (slots : list value) : dres value :=
    match assemble (d_shape p) slots with
    | Some (fs, ss) => DOk (VStruct msg tid fs ss)
    | None => DPanic
    end.

  (* (new T).UnmarshalBinary(data) and the value of the receiver afterwards *)
  Fixpoint run_prog (fuel : nat) (msg : bool) (tid : N) (data : bytes) : dres value :=
    match fuel with
    | O => DFuel
    | S k =>
      match dlookup (dp_progs ps) msg tid with
      | None => DPanic
      | Some p =>
        let slots0 := zero_slots k p in
        let body :=
          dbind (exec_fs (d_fields p) data slots0) (fun fl =>
          match fl with
          | Done sl => finish p msg tid sl
          | Next d sl =>
            dbind (exec_ss (dp_has_le ps) (run_prog k false) (d_subs p) d sl) (fun fl2 =>
            match fl2 with
            | Done sl2 => finish p msg tid sl2
            | Next d2 sl2 =>
              if d_leftover p && negb (blen d2 =? 0) then DErr else finish p msg tid sl2
            end)
          end) in
        match d_len p with
        | LNone => body
        | LHas _ need _ => dbind (has_enough (dp_has_le ps) need data) (fun _ => body)
        | LMsgEmpty => if 0 <? blen data then DErr else finish p msg tid slots0
        | LMsgNe k' => if blen data =? k' then body else DErr
        | LMsgLt k' => if blen data <? k' then DErr else body
        end
      end
    end.

  (* what the harness does with a parameter: it strips the TLV / TV header itself (own code), then UnmarshalBinary(body) *)
  Definition frame_body (tid : N) (data : bytes) : option bytes :=
    if tid <? 128 then
      match data with b0 :: r => if b0 =? tid + 128 then Some r else None | [] => None end
    else
      match data with
      | b0 :: b1 :: l0 :: l1 :: r =>
        if (b0 * 256 + b1 =? tid) && (4 <=? l0 * 256 + l1) && (l0 * 256 + l1 =? blen data) then Some r else None
      | _ => None
      end.

  Definition run (fuel : nat) (msg : bool) (tid : N) (data : bytes) : dres value :=
    if msg then run_prog fuel true tid data
    else match frame_body tid data with
         | Some body => run_prog fuel false tid body
         | None => DErr
         end.
End Run.

(* ---- decidable equality of value trees (for closed sample checks) ---- *)
Fixpoint Nl_eqb (a b : list N) : bool :=
  match a, b with [], [] => true | x :: a', y :: b' => (x =? y) && Nl_eqb a' b' | _, _ => false end.

Fixpoint value_eqb (a b : value) {struct a} : bool :=
  let fix all (l m : list value) : bool :=
      match l, m with
      | [], [] => true
      | x :: l', y :: m' => value_eqb x y && all l' m'
      | _, _ => false
      end in
  match a, b with
  | VNum x, VNum y => x =? y
  | VBytes x, VBytes y => Nl_eqb x y
  | VBitArr n x, VBitArr m y => (n =? m) && Nl_eqb x y
  | VNums x, VNums y => Nl_eqb x y
  | VStruct m t fs ss, VStruct m' t' fs' ss' => Bool.eqb m m' && (t =? t') && all fs fs' && all ss ss'
  | VOpt None, VOpt None => true
  | VOpt (Some x), VOpt (Some y) => value_eqb x y
  | VList l, VList m => all l m
  | _, _ => false
  end.

Definition dres_is (r : dres value) (v : value) : bool :=
  match r with DOk w => value_eqb w v | _ => false end.
