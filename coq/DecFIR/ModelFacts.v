(* Facts about the MODEL decoder of sub-parameters (Codec/Decode.dec_subs) on a well-formed result (Codec/Wf.wf_subs),
   stated over an abstract parameter decoder [d] that only has to frame what it accepts: what the first bytes of the
   input look like when a sub-parameter is decoded, which sub-parameter comes next, and what an exclusive group does.
   No IR here. *)
From Coq Require Import NArith ZArith List Bool Arith Lia ZifyN ZifyNat ZifyBool.
From LLRP Require Import Codec.Schema Codec.Encode Codec.Decode Codec.Wf Codec.BytesLemmas
     EncIR.IR EncIR.Compile EncIR.CompileCorrect DecFIR.IR DecFIR.Sem DecFIR.Compile DecFIR.FieldsCorrect.
Import ListNotations.
Open Scope N_scope.
Ltac Zify.zify_post_hook ::= Z.div_mod_to_equations.

(* ---------- runs of compile_dsubs ---------- *)
Lemma take_run_spec s : forall subs run0 rest, take_run s subs = (run0, rest) ->
  subs = run0 ++ rest /\ (forall s', In s' run0 -> same_key s s' = true) /\
  match rest with s' :: _ => same_key s s' = false | [] => True end.
Proof.
  induction subs as [|s' subs IH]; intros run0 rest H; cbn [take_run] in H.
  - injection H as <- <-. repeat split. intros ? [].
  - destruct (same_key s s') eqn:K.
    + destruct (take_run s subs) as [a b] eqn:E. injection H as <- <-.
      destruct (IH a b eq_refl) as (-> & Hall & Hr). repeat split; [|exact Hr].
      intros x [<-|Hx]; [exact K|apply Hall, Hx].
    + injection H as <- <-. repeat split; [intros ? []|exact K].
Qed.

Lemma same_key_parts a b : same_key a b = true ->
  s_optional a = s_optional b /\ s_repeat a = s_repeat b /\ s_group a = s_group b.
Proof.
  unfold same_key. intros H. apply andb_true_iff in H as [H H3]. apply andb_true_iff in H as [H1 H2].
  apply Bool.eqb_prop in H1, H2. apply N.eqb_eq in H3. auto.
Qed.

(* ---------- what an accepted parameter looks like ---------- *)
Definition pframe (c' : container) (tid : N) (body data r : bytes) : Prop :=
  match c_kind c' with
  | KTV => tid < 128 /\ data = (tid + 128) :: body ++ r
  | KTLV => 128 <= tid /\ tid < 1024 /\
            exists b0 b1 l0 l1, data = b0 :: b1 :: l0 :: l1 :: body ++ r /\
                                b0 * 256 + b1 = tid /\ l0 * 256 + l1 = 4 + blen body
  | KMsg => False
  end.

Lemma pframe_len c' tid body data r : pframe c' tid body data r ->
  blen data = header_size (c_kind c') + blen body + blen r /\ 1 <= header_size (c_kind c').
Proof.
  unfold pframe. destruct (c_kind c'); [contradiction| |].
  - intros (_ & _ & b0 & b1 & l0 & l1 & -> & _). unfold blen. cbn [length header_size]. rewrite app_length. lia.
  - intros (_ & ->). unfold blen. cbn [length header_size]. rewrite app_length. lia.
Qed.

Lemma pframe_next c' tid body data r :
  pframe c' tid body data r -> byte_list data ->
  next_type data = Some (is_tv_kind (c_kind c'), tid).
Proof.
  unfold pframe. destruct (c_kind c'); [contradiction| |].
  - intros (H1 & H2 & b0 & b1 & l0 & l1 & -> & Et & _) Hb.
    assert (Hb1 : b1 < 256) by (inversion Hb as [|? ? _ Hb']; inversion Hb'; assumption).
    cbn [next_type is_tv_kind]. replace (128 <=? b0) with false by (symmetry; apply N.leb_gt; lia).
    rewrite Et. reflexivity.
  - intros (H1 & ->) _. cbn [next_type is_tv_kind].
    replace (128 <=? tid + 128) with true by (symmetry; apply N.leb_le; lia). f_equal. f_equal. lia.
Qed.

Lemma pframe_announces t c' tid body data r tid' :
  find_container t false tid = Some c' -> pframe c' tid body data r -> byte_list data ->
  announces t data tid' = (tid' =? tid).
Proof.
  intros F P Hb. unfold announces. rewrite (pframe_next _ _ _ _ _ P Hb).
  destruct (N.eqb_spec tid' tid) as [->|Hne].
  - rewrite F, Bool.eqb_reflx, N.eqb_refl. reflexivity.
  - destruct (find_container t false tid'); [|reflexivity].
    replace (tid =? tid') with false by (symmetry; apply N.eqb_neq; congruence). apply andb_false_r.
Qed.

Lemma announces_nil' t tid : announces t [] tid = false.
Proof. unfold announces. cbn [next_type]. destruct (find_container t false tid); reflexivity. Qed.

(* closedness of the group already served *)
Definition cl (chosen : N) (subs : list sub) : Prop := chosen = 0 \/ closed chosen subs = true.

Lemma cl_tail chosen s subs : cl chosen (s :: subs) -> cl chosen subs.
Proof.
  intros [H|H]; [now left|right]. cbn [closed forallb] in H. apply andb_true_iff in H. apply H.
Qed.

Lemma cl_app_r chosen a b : cl chosen (a ++ b) -> cl chosen b.
Proof. induction a as [|x a IH]; [auto|]. intros H. apply IH. eapply cl_tail. exact H. Qed.

Lemma cl_not_group chosen s subs : cl chosen (s :: subs) -> s_arity s = One -> (s_group s =? 0) = false ->
  (chosen =? s_group s) = false.
Proof.
  intros [->|H] Ar G.
  - rewrite N.eqb_sym. exact G.
  - cbn [closed forallb] in H. apply andb_true_iff in H as [H _]. apply negb_true_iff in H.
    unfold in_group in H. rewrite Ar in H. rewrite N.eqb_sym. exact H.
Qed.

Section Model.
  Variable t : table.
  Variable d : N -> bytes -> option (value * bytes).
  Variable z : N -> value.
  Variable w : value -> Prop.

  Hypothesis Hframe : forall tid data v r, d tid data = Some (v, r) ->
    exists c' body, find_container t false tid = Some c' /\ pframe c' tid body data r.

  Definition zslot (s : sub) : value :=
    match s_arity s with One => z (s_tid s) | Opt => VOpt None | Many => VList [] end.

  Lemma d_nonempty tid v r : d tid [] = Some (v, r) -> False.
  Proof.
    intros H. destruct (Hframe _ _ _ _ H) as (c' & body & _ & P).
    destruct (pframe_len _ _ _ _ _ P) as [L1 L2]. unfold blen in L1. cbn [length] in L1. clear - L1 L2. lia.
  Qed.

  Lemma d_shorter tid data v r : d tid data = Some (v, r) -> (length r < length data)%nat.
  Proof.
    intros H. destruct (Hframe _ _ _ _ H) as (c' & body & _ & P).
    destruct (pframe_len _ _ _ _ _ P) as [L1 L2]. unfold blen in L1. clear - L1 L2. lia.
  Qed.

  Lemma d_announces tid data v r tid' : d tid data = Some (v, r) -> byte_list data ->
    announces t data tid' = (tid' =? tid).
  Proof.
    intros H Hb. destruct (Hframe _ _ _ _ H) as (c' & body & F & P). eapply pframe_announces; eauto.
  Qed.

  Lemma d_rest_bytes tid data v r : d tid data = Some (v, r) -> byte_list data -> byte_list r.
  Proof.
    intros H Hb. destruct (Hframe _ _ _ _ H) as (c' & body & F & P). unfold pframe in P.
    destruct (c_kind c'); [contradiction| |].
    - destruct P as (_ & _ & b0 & b1 & l0 & l1 & -> & _).
      change (b0 :: b1 :: l0 :: l1 :: body ++ r) with ([b0; b1; l0; l1] ++ body ++ r) in Hb.
      unfold byte_list in *. apply Forall_app in Hb as [_ Hb]. apply Forall_app in Hb as [_ Hb]. exact Hb.
    - destruct P as (_ & ->). change ((tid + 128) :: body ++ r) with ([tid + 128] ++ body ++ r) in Hb.
      unfold byte_list in *. apply Forall_app in Hb as [_ Hb]. apply Forall_app in Hb as [_ Hb]. exact Hb.
  Qed.

  (* ---- repeated elements: the fuel of dec_many does not matter ---- *)
  Lemma dec_many_nil tid n : dec_many t (d tid) tid n [] = Some ([], []).
  Proof. destruct n; cbn [dec_many]; rewrite announces_nil'; reflexivity. Qed.

  Lemma dec_many_fuel2 tid : forall n m data, (length data <= n)%nat -> (length data <= m)%nat ->
    dec_many t (d tid) tid n data = dec_many t (d tid) tid m data.
  Proof.
    induction n as [|n IH]; intros m data Hn Hm.
    - destruct data; [|cbn in Hn; clear - Hn; lia]. rewrite !dec_many_nil. reflexivity.
    - destruct m as [|m]; [destruct data; [|cbn in Hm; clear - Hm; lia]; rewrite !dec_many_nil; reflexivity|].
      cbn [dec_many]. destruct (announces t data tid); [|reflexivity].
      destruct (d tid data) as [[v r]|] eqn:E; [|reflexivity].
      pose proof (d_shorter _ _ _ _ E) as Hs. rewrite (IH m r) by (clear - Hs Hn Hm; lia). reflexivity.
  Qed.

  Lemma dec_many_fuel tid n data : (length data <= n)%nat ->
    dec_many t (d tid) tid n data = dec_many t (d tid) tid (length data) data.
  Proof. intros H. apply dec_many_fuel2; [exact H|apply Nat.le_refl]. Qed.

  (* ---- which parameter comes next ---- *)
  Lemma dec_subs_head subs : forall data chosen vs,
    dec_subs t d z subs data chosen = Some (vs, []) ->
    data = [] \/ exists s v r, In s subs /\ d (s_tid s) data = Some (v, r).
  Proof.
    induction subs as [|s subs IH]; intros data chosen vs H; cbn [dec_subs] in H.
    - injection H as _ ->. now left.
    - assert (Hw : forall ch vs', dec_subs t d z subs data ch = Some (vs', []) ->
                   data = [] \/ exists s0 v r, In s0 (s :: subs) /\ d (s_tid s0) data = Some (v, r)).
      { intros ch vs' H'. destruct (IH _ _ _ H') as [->|(s0 & v & r & Hin & Hd)]; [now left|right].
        exists s0, v, r. split; [now right|exact Hd]. }
      assert (Hme : forall v r, d (s_tid s) data = Some (v, r) ->
                    data = [] \/ exists s0 v r, In s0 (s :: subs) /\ d (s_tid s0) data = Some (v, r)).
      { intros v r Hd. right. exists s, v, r. split; [now left|exact Hd]. }
      destruct (s_arity s).
      + destruct (s_group s =? 0).
        * destruct (d (s_tid s) data) as [[v r]|] eqn:E; [eapply Hme; eauto|discriminate].
        * destruct (negb (chosen =? s_group s) && announces t data (s_tid s)).
          -- destruct (d (s_tid s) data) as [[v r]|] eqn:E; [eapply Hme; eauto|discriminate].
          -- destruct (dec_subs t d z subs data chosen) as [[vs' r']|] eqn:E; [|discriminate].
             injection H as _ ->. eapply Hw; eauto.
      + destruct (announces t data (s_tid s)).
        * destruct (d (s_tid s) data) as [[v r]|] eqn:E; [eapply Hme; eauto|discriminate].
        * destruct (dec_subs t d z subs data chosen) as [[vs' r']|] eqn:E; [|discriminate].
          injection H as _ ->. eapply Hw; eauto.
      + destruct data as [|x data']; [now left|]. cbn [length dec_many] in H.
        destruct (announces t (x :: data') (s_tid s)).
        * destruct (d (s_tid s) (x :: data')) as [[v r]|] eqn:E; [eapply Hme; eauto|discriminate].
        * destruct (dec_subs t d z subs (x :: data') chosen) as [[vs' r']|] eqn:E; [|discriminate].
          injection H as _ ->. eapply Hw; eauto.
  Qed.

  (* ---- nothing left: every remaining sub-parameter is optional and absent ---- *)
  Lemma dec_subs_empty subs : forallb s_optional subs = true -> forall chosen vs r,
    dec_subs t d z subs [] chosen = Some (vs, r) -> vs = map zslot subs /\ r = [].
  Proof.
    induction subs as [|s subs IH]; intros Ho chosen vs r H; cbn [dec_subs] in H.
    - injection H as <- <-. split; reflexivity.
    - cbn [forallb] in Ho. apply andb_true_iff in Ho as [Ho1 Ho]. unfold s_optional in Ho1. unfold zslot at 1. cbn [map].
      destruct (s_arity s) eqn:Ar; [discriminate Ho1| |].
      + rewrite announces_nil' in H.
        destruct (dec_subs t d z subs [] chosen) as [[vs' r']|] eqn:E; [|discriminate]. injection H as <- <-.
        destruct (IH Ho _ _ _ E) as [-> ->]. split; reflexivity.
      + cbn [length dec_many] in H. rewrite announces_nil' in H.
        destruct (dec_subs t d z subs [] chosen) as [[vs' r']|] eqn:E; [|discriminate]. injection H as <- <-.
        destruct (IH Ho _ _ _ E) as [-> ->]. split; reflexivity.
  Qed.

  (* the zero value of an exclusive alternative does not count as present *)
  Definition zalt_ok (subs : list sub) : Prop :=
    forall s, In s subs -> s_arity s = One -> (s_group s =? 0) = false ->
              alt_nonzero (z (s_tid s)) = false \/ ~ w (z (s_tid s)).

  Lemma zalt_tail s subs : zalt_ok (s :: subs) -> zalt_ok subs.
  Proof. intros H s' Hin. apply H. now right. Qed.

  Lemma zalt_app_r a b : zalt_ok (a ++ b) -> zalt_ok b.
  Proof. intros H s' Hin. apply H. apply in_or_app. now right. Qed.

  (* a mandatory sub-parameter cannot be satisfied by an empty input *)
  Lemma dec_subs_empty_wf subs : forall chosen pending vs,
    cl chosen subs -> zalt_ok subs ->
    dec_subs t d z subs [] chosen = Some (vs, []) -> wf_subs t w subs vs chosen pending ->
    pending = 0 /\ forallb s_optional subs = true.
  Proof.
    induction subs as [|s subs IH]; intros chosen pending vs Hcl Hz H Hw; cbn [dec_subs] in H.
    - injection H as <-. cbn in Hw. split; [exact Hw|reflexivity].
    - pose proof (cl_tail _ _ _ Hcl) as Hcl'. pose proof (zalt_tail _ _ Hz) as Hz'.
      cbn [forallb]. unfold s_optional at 1.
      destruct (s_arity s) eqn:Ar.
      + destruct (s_group s =? 0) eqn:G.
        * destruct (d (s_tid s) []) as [[v r]|] eqn:E; [|discriminate]. exfalso. eapply d_nonempty; eauto.
        * rewrite announces_nil', andb_false_r in H.
          destruct (dec_subs t d z subs [] chosen) as [[vs' r']|] eqn:E; [|discriminate]. injection H as <- ->.
          exfalso. cbn [wf_subs] in Hw. rewrite Ar, G in Hw.
          destruct (z (s_tid s)) eqn:Zv; try contradiction. rewrite <- Zv in *.
          destruct Hw as (_ & _ & Hw). rewrite (cl_not_group _ _ _ Hcl Ar G) in Hw.
          destruct (Hz s (or_introl eq_refl) Ar G) as [Hnz|Hnw].
          -- rewrite Hnz in Hw. destruct Hw as (_ & Hw).
             destruct (IH _ _ _ Hcl' Hz' E Hw) as [Hp _]. apply N.eqb_neq in G. congruence.
          -- destruct (alt_nonzero (z (s_tid s))).
             ++ destruct Hw as (Hw & _). contradiction.
             ++ destruct Hw as (_ & Hw). destruct (IH _ _ _ Hcl' Hz' E Hw) as [Hp _]. apply N.eqb_neq in G. congruence.
      + rewrite announces_nil' in H.
        destruct (dec_subs t d z subs [] chosen) as [[vs' r']|] eqn:E; [|discriminate]. injection H as <- ->.
        cbn [wf_subs] in Hw. rewrite Ar in Hw. destruct Hw as (Hp & Hw).
        destruct (IH _ _ _ Hcl' Hz' E Hw) as [_ Ho]. split; [exact Hp|exact Ho].
      + cbn [length dec_many] in H. rewrite announces_nil' in H.
        destruct (dec_subs t d z subs [] chosen) as [[vs' r']|] eqn:E; [|discriminate]. injection H as <- ->.
        cbn [wf_subs] in Hw. rewrite Ar in Hw. destruct Hw as (Hp & Hreq & _ & Hw).
        destruct (IH _ _ _ Hcl' Hz' E Hw) as [_ Ho]. split; [exact Hp|]. rewrite Ho, andb_true_r.
        destruct (s_req s); [exfalso; apply (Hreq eq_refl); reflexivity|reflexivity].
  Qed.

  (* both together: either a sub-parameter of the list is decoded next, or the input is exhausted and nothing is missing *)
  Lemma dec_subs_next subs data chosen pending vs :
    cl chosen subs -> zalt_ok subs ->
    dec_subs t d z subs data chosen = Some (vs, []) -> wf_subs t w subs vs chosen pending ->
    (exists s v r, In s subs /\ d (s_tid s) data = Some (v, r)) \/
    (data = [] /\ pending = 0 /\ forallb s_optional subs = true).
  Proof.
    intros Hcl Hz H Hw. destruct (dec_subs_head _ _ _ _ H) as [->|Hx]; [right|now left].
    destruct (dec_subs_empty_wf _ _ _ _ Hcl Hz H Hw) as [Hp Ho]. repeat split; assumption.
  Qed.

  (* ---- an exclusive group ---- *)
  Section Excl.
    Variable g : N.
    Variable rest : list sub.
    Hypothesis Hg : g <> 0.
    Hypothesis Hrest : match rest with s' :: _ => in_group g s' = false | [] => True end.

    Definition in_g (run : list sub) : Prop := forall s, In s run -> s_arity s = One /\ s_group s = g.

    Lemma in_g_tail s run : in_g (s :: run) -> in_g run.
    Proof. intros H s' Hin. apply H. now right. Qed.

    Lemma pending_at_rest vs chosen : wf_subs t w rest vs chosen g -> False.
    Proof.
      destruct rest as [|s' rest']; destruct vs as [|v' vs']; cbn [wf_subs]; try contradiction.
      destruct (s_arity s') eqn:Ar; destruct v'; try contradiction.
      - destruct (s_group s' =? 0) eqn:G.
        + intros (_ & Hp & _). congruence.
        + intros (_ & [Hp|Hp] & _); [congruence|]. unfold in_group in Hrest. rewrite Ar in Hrest.
          apply N.eqb_neq in Hrest. congruence.
      - destruct o; [intros (Hp & _)|intros (Hp & _)]; congruence.
      - intros (Hp & _). congruence.
    Qed.

    (* the group is served: the remaining alternatives are skipped *)
    Lemma skip_chosen : forall run data vs, in_g run ->
      dec_subs t d z (run ++ rest) data g = Some (vs, []) -> wf_subs t w (run ++ rest) vs g 0 ->
      exists vs2, vs = map zslot run ++ vs2 /\ dec_subs t d z rest data g = Some (vs2, []) /\ wf_subs t w rest vs2 g 0.
    Proof.
      induction run as [|s run IH]; intros data vs Hin H Hw; cbn [app] in *.
      - exists vs. repeat split; assumption.
      - destruct (Hin s (or_introl eq_refl)) as [Ar Gs]. cbn [dec_subs] in H. rewrite Ar, Gs in H.
        replace (g =? 0) with false in H by (symmetry; apply N.eqb_neq; exact Hg).
        rewrite N.eqb_refl in H. cbn [negb andb] in H.
        destruct (dec_subs t d z (run ++ rest) data g) as [[vs' r']|] eqn:E; [|discriminate]. injection H as <- ->.
        cbn [wf_subs] in Hw. rewrite Ar, Gs in Hw.
        destruct (z (s_tid s)) eqn:Zv; try contradiction. rewrite <- Zv in *.
        replace (g =? 0) with false in Hw by (symmetry; apply N.eqb_neq; exact Hg).
        rewrite N.eqb_refl in Hw. destruct Hw as (_ & _ & _ & Hw).
        destruct (IH _ _ (in_g_tail _ _ Hin) E Hw) as (vs2 & -> & H2 & Hw2).
        assert (Zs : zslot s = z (s_tid s)) by (unfold zslot; rewrite Ar; reflexivity).
        exists vs2. cbn [map app]. rewrite Zs. repeat split; assumption.
    Qed.

    (* an alternative that is all zero was decoded: the value cannot be well-formed *)
    Lemma served_by_zero chosen : chosen <> g -> forall run data vs, in_g run -> zalt_ok run ->
      dec_subs t d z (run ++ rest) data g = Some (vs, []) -> wf_subs t w (run ++ rest) vs chosen g -> False.
    Proof.
      intros Hc. induction run as [|s run IH]; intros data vs Hin Hz H Hw; cbn [app] in *.
      - eapply pending_at_rest; eauto.
      - destruct (Hin s (or_introl eq_refl)) as [Ar Gs]. cbn [dec_subs] in H. rewrite Ar, Gs in H.
        replace (g =? 0) with false in H by (symmetry; apply N.eqb_neq; exact Hg).
        rewrite N.eqb_refl in H. cbn [negb andb] in H.
        destruct (dec_subs t d z (run ++ rest) data g) as [[vs' r']|] eqn:E; [|discriminate]. injection H as <- ->.
        cbn [wf_subs] in Hw. rewrite Ar, Gs in Hw.
        destruct (z (s_tid s)) eqn:Zv; try contradiction. rewrite <- Zv in *.
        replace (g =? 0) with false in Hw by (symmetry; apply N.eqb_neq; exact Hg).
        replace (chosen =? g) with false in Hw by (symmetry; apply N.eqb_neq; exact Hc).
        destruct Hw as (_ & _ & Hw).
        assert (G0 : (s_group s =? 0) = false) by (rewrite Gs; apply N.eqb_neq; exact Hg).
        destruct (Hz s (or_introl eq_refl) Ar G0) as [Hnz|Hnw].
        + rewrite Hnz in Hw. destruct Hw as (_ & Hw). eapply IH; eauto using in_g_tail, zalt_tail.
        + destruct (alt_nonzero (z (s_tid s))).
          * destruct Hw as (Hw & _). contradiction.
          * destruct Hw as (_ & Hw). eapply IH; eauto using in_g_tail, zalt_tail.
    Qed.

    (* exactly one alternative of the run is decoded, the others stay zero *)
    Lemma excl_run chosen : chosen <> g -> forall run data vs pending, in_g run -> zalt_ok run ->
      dec_subs t d z (run ++ rest) data chosen = Some (vs, []) -> wf_subs t w (run ++ rest) vs chosen pending ->
      (run = [] -> pending = g) ->
      exists a s b v data' vs2, run = a ++ s :: b /\ d (s_tid s) data = Some (v, data') /\ w v /\
        vs = map zslot a ++ v :: map zslot b ++ vs2 /\
        dec_subs t d z rest data' g = Some (vs2, []) /\ wf_subs t w rest vs2 g 0.
    Proof.
      intros Hc. induction run as [|s run IH]; intros data vs pending Hin Hz H Hw Hp; cbn [app] in *.
      - exfalso. rewrite (Hp eq_refl) in Hw. eapply pending_at_rest; eauto.
      - destruct (Hin s (or_introl eq_refl)) as [Ar Gs]. cbn [dec_subs] in H. rewrite Ar, Gs in H.
        replace (g =? 0) with false in H by (symmetry; apply N.eqb_neq; exact Hg).
        replace (chosen =? g) with false in H by (symmetry; apply N.eqb_neq; exact Hc). cbn [negb andb] in H.
        assert (G0 : (s_group s =? 0) = false) by (rewrite Gs; apply N.eqb_neq; exact Hg).
        assert (Eg0 : (g =? 0) = false) by (apply N.eqb_neq; exact Hg).
        assert (Ecg : (chosen =? g) = false) by (apply N.eqb_neq; exact Hc).
        destruct (announces t data (s_tid s)).
        + destruct (d (s_tid s) data) as [[v r1]|] eqn:Ed; [|discriminate].
          destruct (dec_subs t d z (run ++ rest) r1 g) as [[vs' r']|] eqn:E; [|discriminate]. injection H as <- ->.
          cbn [wf_subs] in Hw. rewrite Ar, Gs, Eg0, Ecg in Hw.
          destruct v as [| | | |vm vt vf vss| |]; try contradiction. destruct Hw as (_ & _ & Hw).
          destruct (alt_nonzero (VStruct vm vt vf vss)).
          * destruct Hw as (Hwv & Hw).
            destruct (skip_chosen _ _ _ (in_g_tail _ _ Hin) E Hw) as (vs2 & -> & H2 & Hw2).
            exists [], s, run, (VStruct vm vt vf vss), r1, vs2. cbn [app map]. repeat split; assumption.
          * destruct Hw as (_ & Hw). exfalso.
            eapply (served_by_zero chosen Hc run); eauto using in_g_tail, zalt_tail.
        + destruct (dec_subs t d z (run ++ rest) data chosen) as [[vs' r']|] eqn:E; [|discriminate]. injection H as <- ->.
          cbn [wf_subs] in Hw. rewrite Ar, Gs, Eg0, Ecg in Hw.
          destruct (z (s_tid s)) eqn:Zv; try contradiction. rewrite <- Zv in *. destruct Hw as (_ & _ & Hw).
          assert (Hw' : wf_subs t w (run ++ rest) vs' chosen g).
          { destruct (Hz s (or_introl eq_refl) Ar G0) as [Hnz|Hnw].
            - rewrite Hnz in Hw. apply Hw.
            - destruct (alt_nonzero (z (s_tid s))); [destruct Hw as (Hw & _); contradiction|apply Hw]. }
          destruct (IH _ _ _ (in_g_tail _ _ Hin) (zalt_tail _ _ Hz) E Hw' (fun _ => eq_refl))
            as (a & s0 & b & v & data' & vs2 & -> & Hd & Hwv & -> & H2 & Hw2).
          assert (Zs : zslot s = z (s_tid s)) by (unfold zslot; rewrite Ar; reflexivity).
          exists (s :: a), s0, b, v, data', vs2. cbn [app map]. rewrite Zs.
          repeat split; assumption.
    Qed.
  End Excl.
End Model.
