//go:build verif

package llrp

// Worker for the codec properties C01/C02 (and reused by C11): protocol and value-tree grammar
// are in /verif/notes/codec-format.md. Go values are built from / printed as generic trees by
// reflection, driven only by the pinned layout table spec/llrp_layout.json ($VERIF_LAYOUT).
//
//   enc <tree>        -> ok <hex> | err | panic
//   dec <cid> <hex>   -> ok <tree> | alias <tree after the input buffer was overwritten> | err | panic
//   rt <tree>         -> ok|alias|shared|encalias|pmarshal <hex> <tree-after-decode> <hex-after-reencode> | err | panic
//                        (values, not views: the decoder's input buffer is overwritten BEFORE the decoded value is printed and
//                        re-encoded, `alias` = the decoded value changed with it; the encoder's returned bytes are overwritten and the
//                        value encoded again, `encalias` = the value or its later encoding changed, or a later Marshal changed bytes
//                        returned earlier; `shared` = the same bytes decoded again share memory with the first decoded value or with library
//                        state: after the first value was edited in place the second, or a third decode, no longer prints the same; `pmarshal` = a parameter's exported MarshalBinary is not its encoding minus the header)
//   seq <tree1>;<tree2> -> ok|shared <tree1 after>\t<tree2> | encalias | err | panic   (both encodings decoded one after the other through ONE buffer)
//   dinto <tree0>;<tree> -> ok <tree of the receiver> | err | panic     (UnmarshalBinary of tree's encoding into a receiver holding tree0)
//   json <tree>       -> ok <tree-after-json-roundtrip> | err | panic
//   tojson <tree>     -> ok <hex of the text json.Marshal produces, verbatim> | err | panic
//   penc <n> <rounds> <tree>;<tree>;…        -> ok <distinct results per item, `|`-joined>;…   (concurrent marshal)
//   pdec <n> <rounds> <cid> <hex>;<cid> <hex>;… -> ok <distinct results per item>;…               (concurrent unmarshal)
//   selftest          -> ok <n containers> | bad <what cannot be instantiated / does not fit the table>
// Every request runs under a watchdog ($VERIF_CODEC_WATCHDOG_MS, default 3000): on expiry the answer is
// `hang`, all remaining requests are answered `skipped`, and the process exits (status 3).
// A request that is itself unusable (syntax, unknown container, tree not of the container's
// shape, number that does not fit the Go field) is answered `bad <reason>`; that is a harness-level
// answer, never produced by the library.
//
// Parameters encode to their full TLV/TV bytes including their own header
// (encodeParams(getHeader())); messages encode to the payload without the 10-byte LLRP header.

import (
	"bytes"
	"encoding"
	"encoding/hex"
	"encoding/json"
	"fmt"
	"os"
	"reflect"
	"sort"
	"strconv"
	"strings"
	"sync"
	"testing"
	"time"
)

// ---------------------------------------------------------------- layout table

type vlField struct {
	Name   *string `json:"name"`
	Kind   string  `json:"kind"`
	Size   int     `json:"size"`
	Signed bool    `json:"signed"`
	IsBool bool    `json:"is_bool"`
	Bits   int     `json:"bits"`
	Length int     `json:"length"`
	Esize  int     `json:"esize"`
}

type vlSub struct {
	Name   string  `json:"name"`
	Type   string  `json:"type"`
	TypeID int     `json:"type_id"`
	Arity  string  `json:"arity"`
	Group  *string `json:"group"`
}

type vlContainer struct {
	Name       string    `json:"name"`
	TypeID     int       `json:"type_id"`
	IsMsg      bool      `json:"is_msg"`
	IsTLV      bool      `json:"is_tlv"`
	HeaderSize int       `json:"header_size"`
	Inline     bool      `json:"inline"`
	Fields     []vlField `json:"fields"`
	Subs       []vlSub   `json:"subs"`
}

type vlTable struct {
	Parameters []*vlContainer `json:"parameters"`
	Messages   []*vlContainer `json:"messages"`
}

type vcont struct {
	L   *vlContainer
	T   reflect.Type // the Go type (not the pointer)
	cid string
}

type vreg struct {
	byCid    map[string]*vcont
	byPName  map[string]*vcont
	problems []string
	n        int
}

type vHeaderer interface{ getHeader() paramHeader }

func vLoadRegistry(path string) (*vreg, error) {
	b, err := os.ReadFile(path)
	if err != nil {
		return nil, err
	}
	var tab vlTable
	if err := json.Unmarshal(b, &tab); err != nil {
		return nil, err
	}
	r := &vreg{byCid: map[string]*vcont{}, byPName: map[string]*vcont{}}
	r.n = len(tab.Parameters) + len(tab.Messages)
	for _, p := range tab.Parameters {
		c := &vcont{L: p, cid: "P" + strconv.Itoa(p.TypeID)}
		if _, dup := r.byCid[c.cid]; dup {
			r.problems = append(r.problems, "duplicate "+c.cid)
		}
		r.byCid[c.cid] = c
		r.byPName[p.Name] = c
	}
	var queue []*vcont
	for _, m := range tab.Messages {
		c := &vcont{L: m, cid: "M" + strconv.Itoa(m.TypeID)}
		if _, dup := r.byCid[c.cid]; dup {
			r.problems = append(r.problems, "duplicate "+c.cid)
		}
		r.byCid[c.cid] = c
		inst := MessageType(m.TypeID).NewInstance()
		if inst == nil {
			r.problems = append(r.problems, "no-instance:"+m.Name)
			continue
		}
		c.T = reflect.TypeOf(inst).Elem()
		if c.T.Name() != m.Name {
			r.problems = append(r.problems, fmt.Sprintf("name:%s!=%s", c.T.Name(), m.Name))
		}
		queue = append(queue, c)
	}
	// parameters: walk the struct types reachable from the message types
	for len(queue) > 0 {
		c := queue[0]
		queue = queue[1:]
		if c.T.Kind() != reflect.Struct {
			continue
		}
		for _, s := range c.L.Subs {
			f, ok := c.T.FieldByName(s.Name)
			if !ok {
				continue // reported by selftest
			}
			t := f.Type
			if t.Kind() == reflect.Ptr || t.Kind() == reflect.Slice {
				t = t.Elem()
			}
			pc := r.byPName[s.Type]
			if pc == nil {
				r.problems = append(r.problems, "sub-type-unknown:"+c.L.Name+"."+s.Name)
				continue
			}
			if pc.T == nil {
				pc.T = t
				queue = append(queue, pc)
			} else if pc.T != t {
				r.problems = append(r.problems, fmt.Sprintf("type-clash:%s.%s:%v!=%v", c.L.Name, s.Name, t, pc.T))
			}
		}
	}
	// anything not reachable from a message: hand-written table (none is needed for the pinned
	// table — all 123 parameters are reachable; kept so that an unreachable type is reported by
	// name rather than silently skipped)
	for name, v := range vExtraParams {
		if pc := r.byPName[name]; pc != nil && pc.T == nil {
			pc.T = reflect.TypeOf(v).Elem()
		}
	}
	r.selfCheck()
	return r, nil
}

// parameters that cannot be found by walking from the messages would be listed here:
//
//	"AntennaID": new(AntennaID),
var vExtraParams = map[string]interface{}{}

// selfCheck verifies that every container can be instantiated, has the methods the worker uses,
// and that layout fields and Go struct fields correspond one to one.
func (r *vreg) selfCheck() {
	cids := make([]string, 0, len(r.byCid))
	for k := range r.byCid {
		cids = append(cids, k)
	}
	sort.Strings(cids)
	for _, k := range cids {
		c := r.byCid[k]
		nm := c.L.Name
		if c.T == nil {
			r.problems = append(r.problems, "no-type:"+nm)
			continue
		}
		if c.T.Name() != nm {
			r.problems = append(r.problems, fmt.Sprintf("name:%s!=%s", c.T.Name(), nm))
		}
		p := reflect.New(c.T).Interface()
		if _, ok := p.(encoding.BinaryUnmarshaler); !ok {
			r.problems = append(r.problems, "no-UnmarshalBinary:"+nm)
		}
		if _, ok := p.(encoding.BinaryMarshaler); !ok {
			r.problems = append(r.problems, "no-MarshalBinary:"+nm)
		}
		if c.L.IsMsg {
			if o, ok := p.(Outgoing); !ok || int(o.Type()) != c.L.TypeID {
				r.problems = append(r.problems, "msg-type:"+nm)
			}
		} else {
			if h, ok := p.(vHeaderer); !ok {
				r.problems = append(r.problems, "no-getHeader:"+nm)
			} else if func() (bad bool) {
				defer func() {
					if recover() != nil {
						bad = true
					}
				}()
				return int(h.getHeader().ParamType) != c.L.TypeID
			}() {
				r.problems = append(r.problems, "param-type:"+nm)
			}
		}
		if c.L.Inline {
			if c.T.Kind() == reflect.Struct || len(c.L.Fields) != 1 || len(c.L.Subs) != 0 {
				r.problems = append(r.problems, "inline-shape:"+nm)
			}
			continue
		}
		if c.T.Kind() != reflect.Struct {
			r.problems = append(r.problems, "not-struct:"+nm)
			continue
		}
		want := map[string]bool{}
		for _, f := range c.L.Fields {
			if f.Name == nil {
				continue
			}
			want[*f.Name] = true
			if f.Kind == "bitarray" {
				want[*f.Name+"NumBits"] = true
			}
		}
		for _, s := range c.L.Subs {
			want[s.Name] = true
			sf, ok := c.T.FieldByName(s.Name)
			if !ok {
				continue
			}
			k := sf.Type.Kind()
			if (s.Arity == "opt") != (k == reflect.Ptr) || (s.Arity == "many") != (k == reflect.Slice) {
				r.problems = append(r.problems, "arity:"+nm+"."+s.Name)
			}
		}
		for w := range want {
			if _, ok := c.T.FieldByName(w); !ok {
				r.problems = append(r.problems, "go-field-missing:"+nm+"."+w)
			}
		}
		for i := 0; i < c.T.NumField(); i++ {
			if !want[c.T.Field(i).Name] {
				r.problems = append(r.problems, "go-field-not-in-table:"+nm+"."+c.T.Field(i).Name)
			}
		}
	}
	sort.Strings(r.problems)
}

// ---------------------------------------------------------------- trees

type vnode struct {
	tag   byte
	num   uint64
	nbits uint64
	bytes []byte
	nums  []uint64
	cid   string
	a, b  []*vnode // S: fields, subs; O, L: a = children
}

type vparser struct {
	s string
	i int
}

func (p *vparser) fail(what string) error {
	return fmt.Errorf("tree syntax at %d: %s", p.i, what)
}

func (p *vparser) skip() {
	for p.i < len(p.s) && p.s[p.i] == ' ' {
		p.i++
	}
}

func (p *vparser) word() string {
	p.skip()
	j := p.i
	for p.i < len(p.s) && p.s[p.i] != ' ' && p.s[p.i] != '(' && p.s[p.i] != ')' {
		p.i++
	}
	return p.s[j:p.i]
}

func (p *vparser) expect(c byte) error {
	p.skip()
	if p.i >= len(p.s) || p.s[p.i] != c {
		return p.fail("expected " + string(c))
	}
	p.i++
	return nil
}

func (p *vparser) peek() byte {
	p.skip()
	if p.i >= len(p.s) {
		return 0
	}
	return p.s[p.i]
}

func (p *vparser) hexBytes() ([]byte, error) {
	w := p.word()
	if len(w) == 0 || w[0] != 'x' {
		return nil, p.fail("expected x<hex>")
	}
	b, err := hex.DecodeString(w[1:])
	if err != nil {
		return nil, p.fail("bad hex")
	}
	return b, nil
}

func (p *vparser) list() ([]*vnode, error) {
	if err := p.expect('('); err != nil {
		return nil, err
	}
	var out []*vnode
	for p.peek() == '(' {
		v, err := p.value()
		if err != nil {
			return nil, err
		}
		out = append(out, v)
	}
	return out, p.expect(')')
}

func (p *vparser) value() (*vnode, error) {
	if err := p.expect('('); err != nil {
		return nil, err
	}
	tag := p.word()
	if len(tag) != 1 {
		return nil, p.fail("bad tag")
	}
	n := &vnode{tag: tag[0]}
	var err error
	switch n.tag {
	case 'N':
		if n.num, err = strconv.ParseUint(p.word(), 10, 64); err != nil {
			return nil, p.fail("bad number")
		}
	case 'B':
		if n.bytes, err = p.hexBytes(); err != nil {
			return nil, err
		}
	case 'A':
		if n.nbits, err = strconv.ParseUint(p.word(), 10, 64); err != nil {
			return nil, p.fail("bad bit count")
		}
		if n.bytes, err = p.hexBytes(); err != nil {
			return nil, err
		}
	case 'U':
		for p.peek() != ')' {
			x, err := strconv.ParseUint(p.word(), 10, 64)
			if err != nil {
				return nil, p.fail("bad number in U")
			}
			n.nums = append(n.nums, x)
		}
	case 'S':
		n.cid = p.word()
		if n.a, err = p.list(); err != nil {
			return nil, err
		}
		if n.b, err = p.list(); err != nil {
			return nil, err
		}
	case 'O', 'L':
		for p.peek() == '(' {
			v, err := p.value()
			if err != nil {
				return nil, err
			}
			n.a = append(n.a, v)
		}
		if n.tag == 'O' && len(n.a) > 1 {
			return nil, p.fail("O with more than one value")
		}
	default:
		return nil, p.fail("unknown tag " + tag)
	}
	return n, p.expect(')')
}

func vParseTree(s string) (*vnode, error) {
	p := &vparser{s: s}
	n, err := p.value()
	if err != nil {
		return nil, err
	}
	p.skip()
	if p.i != len(p.s) {
		return nil, p.fail("trailing input")
	}
	return n, nil
}

// ---------------------------------------------------------------- tree -> Go value

func vSetNum(rv reflect.Value, x uint64) error {
	switch rv.Kind() {
	case reflect.Bool:
		if x > 1 {
			return fmt.Errorf("bool %d", x)
		}
		rv.SetBool(x == 1)
	case reflect.Uint8, reflect.Uint16, reflect.Uint32, reflect.Uint64, reflect.Uint:
		if rv.OverflowUint(x) {
			return fmt.Errorf("%d does not fit %v", x, rv.Type())
		}
		rv.SetUint(x)
	case reflect.Int8, reflect.Int16, reflect.Int32, reflect.Int64, reflect.Int:
		bits := uint(rv.Type().Bits())
		if bits < 64 && x>>bits != 0 {
			return fmt.Errorf("%d does not fit %v", x, rv.Type())
		}
		rv.SetInt(int64(x<<(64-bits)) >> (64 - bits))
	default:
		return fmt.Errorf("not a numeric Go field: %v", rv.Type())
	}
	return nil
}

func vGetNum(rv reflect.Value) (uint64, error) {
	switch rv.Kind() {
	case reflect.Bool:
		if rv.Bool() {
			return 1, nil
		}
		return 0, nil
	case reflect.Uint8, reflect.Uint16, reflect.Uint32, reflect.Uint64, reflect.Uint:
		return rv.Uint(), nil
	case reflect.Int8, reflect.Int16, reflect.Int32, reflect.Int64, reflect.Int:
		bits := uint(rv.Type().Bits())
		x := uint64(rv.Int())
		if bits < 64 {
			x &= 1<<bits - 1
		}
		return x, nil
	}
	return 0, fmt.Errorf("not a numeric Go field: %v", rv.Type())
}

func vSetBytes(rv reflect.Value, b []byte) error {
	if rv.Kind() == reflect.String {
		rv.SetString(string(b))
		return nil
	}
	if rv.Kind() != reflect.Slice || rv.Type().Elem().Kind() != reflect.Uint8 {
		return fmt.Errorf("not a byte slice: %v", rv.Type())
	}
	if len(b) == 0 {
		rv.Set(reflect.Zero(rv.Type())) // nil and empty are identified: build nil
		return nil
	}
	s := reflect.MakeSlice(rv.Type(), len(b), len(b))
	reflect.Copy(s, reflect.ValueOf(b))
	rv.Set(s)
	return nil
}

func (r *vreg) build(c *vcont, n *vnode, rv reflect.Value) error {
	if n.tag != 'S' {
		return fmt.Errorf("%s: expected (S ...)", c.L.Name)
	}
	if n.cid != c.cid {
		return fmt.Errorf("%s: container id %s, expected %s", c.L.Name, n.cid, c.cid)
	}
	var named []*vlField
	for i := range c.L.Fields {
		if c.L.Fields[i].Name != nil {
			named = append(named, &c.L.Fields[i])
		}
	}
	if len(n.a) != len(named) || len(n.b) != len(c.L.Subs) {
		return fmt.Errorf("%s: %d fields %d subs, expected %d and %d", c.L.Name, len(n.a), len(n.b), len(named), len(c.L.Subs))
	}
	if c.L.Inline {
		if n.a[0].tag != 'N' {
			return fmt.Errorf("%s: expected (N ...)", c.L.Name)
		}
		return vSetNum(rv, n.a[0].num)
	}
	for i, f := range named {
		v := n.a[i]
		fv := rv.FieldByName(*f.Name)
		if !fv.IsValid() {
			return fmt.Errorf("%s: no Go field %s", c.L.Name, *f.Name)
		}
		var err error
		switch f.Kind {
		case "num", "bits":
			if v.tag != 'N' {
				err = fmt.Errorf("expected (N ...)")
			} else {
				err = vSetNum(fv, v.num)
			}
		case "fixedarr", "string", "rest":
			if v.tag != 'B' {
				err = fmt.Errorf("expected (B ...)")
			} else {
				err = vSetBytes(fv, v.bytes)
			}
		case "bitarray":
			nb := rv.FieldByName(*f.Name + "NumBits")
			if v.tag != 'A' {
				err = fmt.Errorf("expected (A ...)")
			} else if !nb.IsValid() {
				err = fmt.Errorf("no Go field %sNumBits", *f.Name)
			} else if err = vSetNum(nb, v.nbits); err == nil {
				err = vSetBytes(fv, v.bytes)
			}
		case "counted":
			if v.tag != 'U' {
				err = fmt.Errorf("expected (U ...)")
			} else if fv.Kind() != reflect.Slice {
				err = fmt.Errorf("not a slice: %v", fv.Type())
			} else if len(v.nums) == 0 {
				fv.Set(reflect.Zero(fv.Type()))
			} else {
				s := reflect.MakeSlice(fv.Type(), len(v.nums), len(v.nums))
				for j, x := range v.nums {
					if err = vSetNum(s.Index(j), x); err != nil {
						break
					}
				}
				fv.Set(s)
			}
		default:
			err = fmt.Errorf("unknown field kind %s", f.Kind)
		}
		if err != nil {
			return fmt.Errorf("%s.%s: %v", c.L.Name, *f.Name, err)
		}
	}
	for i := range c.L.Subs {
		s := &c.L.Subs[i]
		v := n.b[i]
		fv := rv.FieldByName(s.Name)
		sc := r.byPName[s.Type]
		if !fv.IsValid() || sc == nil || sc.T == nil {
			return fmt.Errorf("%s: cannot instantiate sub %s", c.L.Name, s.Name)
		}
		switch s.Arity {
		case "one":
			if err := r.build(sc, v, fv); err != nil {
				return err
			}
		case "opt":
			if v.tag != 'O' {
				return fmt.Errorf("%s.%s: expected (O ...)", c.L.Name, s.Name)
			}
			if len(v.a) == 0 {
				fv.Set(reflect.Zero(fv.Type()))
			} else {
				p := reflect.New(fv.Type().Elem())
				if err := r.build(sc, v.a[0], p.Elem()); err != nil {
					return err
				}
				fv.Set(p)
			}
		case "many":
			if v.tag != 'L' {
				return fmt.Errorf("%s.%s: expected (L ...)", c.L.Name, s.Name)
			}
			if len(v.a) == 0 {
				fv.Set(reflect.Zero(fv.Type()))
			} else {
				sl := reflect.MakeSlice(fv.Type(), len(v.a), len(v.a))
				for j := range v.a {
					if err := r.build(sc, v.a[j], sl.Index(j)); err != nil {
						return err
					}
				}
				fv.Set(sl)
			}
		default:
			return fmt.Errorf("%s.%s: unknown arity %s", c.L.Name, s.Name, s.Arity)
		}
	}
	return nil
}

// ---------------------------------------------------------------- Go value -> tree

func vHex(sb *strings.Builder, b []byte) {
	sb.WriteByte('x')
	sb.WriteString(hex.EncodeToString(b))
}

func vBytesOf(rv reflect.Value) []byte {
	if rv.Kind() == reflect.String {
		return []byte(rv.String())
	}
	out := make([]byte, rv.Len())
	for i := range out {
		out[i] = byte(rv.Index(i).Uint())
	}
	return out
}

func (r *vreg) print(sb *strings.Builder, c *vcont, rv reflect.Value) error {
	sb.WriteString("(S ")
	sb.WriteString(c.cid)
	sb.WriteString(" (")
	if c.L.Inline {
		x, err := vGetNum(rv)
		if err != nil {
			return err
		}
		fmt.Fprintf(sb, "(N %d)) ())", x)
		return nil
	}
	first := true
	for i := range c.L.Fields {
		f := &c.L.Fields[i]
		if f.Name == nil {
			continue
		}
		if !first {
			sb.WriteByte(' ')
		}
		first = false
		fv := rv.FieldByName(*f.Name)
		if !fv.IsValid() {
			return fmt.Errorf("%s: no Go field %s", c.L.Name, *f.Name)
		}
		switch f.Kind {
		case "num", "bits":
			x, err := vGetNum(fv)
			if err != nil {
				return err
			}
			fmt.Fprintf(sb, "(N %d)", x)
		case "fixedarr", "string", "rest":
			sb.WriteString("(B ")
			vHex(sb, vBytesOf(fv))
			sb.WriteByte(')')
		case "bitarray":
			nb := rv.FieldByName(*f.Name + "NumBits")
			if !nb.IsValid() {
				return fmt.Errorf("%s: no Go field %sNumBits", c.L.Name, *f.Name)
			}
			fmt.Fprintf(sb, "(A %d ", nb.Uint())
			vHex(sb, vBytesOf(fv))
			sb.WriteByte(')')
		case "counted":
			sb.WriteString("(U")
			for j := 0; j < fv.Len(); j++ {
				x, err := vGetNum(fv.Index(j))
				if err != nil {
					return err
				}
				fmt.Fprintf(sb, " %d", x)
			}
			sb.WriteByte(')')
		default:
			return fmt.Errorf("unknown field kind %s", f.Kind)
		}
	}
	sb.WriteString(") (")
	for i := range c.L.Subs {
		s := &c.L.Subs[i]
		if i > 0 {
			sb.WriteByte(' ')
		}
		fv := rv.FieldByName(s.Name)
		sc := r.byPName[s.Type]
		if !fv.IsValid() || sc == nil || sc.T == nil {
			return fmt.Errorf("%s: cannot instantiate sub %s", c.L.Name, s.Name)
		}
		switch s.Arity {
		case "one":
			if err := r.print(sb, sc, fv); err != nil {
				return err
			}
		case "opt":
			if fv.IsNil() {
				sb.WriteString("(O)")
			} else {
				sb.WriteString("(O ")
				if err := r.print(sb, sc, fv.Elem()); err != nil {
					return err
				}
				sb.WriteByte(')')
			}
		case "many":
			sb.WriteString("(L")
			for j := 0; j < fv.Len(); j++ {
				sb.WriteByte(' ')
				if err := r.print(sb, sc, fv.Index(j)); err != nil {
					return err
				}
			}
			sb.WriteByte(')')
		}
	}
	sb.WriteString("))")
	return nil
}

// ---------------------------------------------------------------- codec entry points

type vBad struct{ why string }

func (b vBad) Error() string { return b.why }

func (r *vreg) fromTree(tree string) (*vcont, reflect.Value, error) {
	n, err := vParseTree(tree)
	if err != nil {
		return nil, reflect.Value{}, vBad{err.Error()}
	}
	if n.tag != 'S' {
		return nil, reflect.Value{}, vBad{"top level must be (S ...)"}
	}
	c := r.byCid[n.cid]
	if c == nil {
		return nil, reflect.Value{}, vBad{"unknown container " + n.cid}
	}
	if c.T == nil {
		return nil, reflect.Value{}, vBad{"cannot instantiate " + c.L.Name}
	}
	p := reflect.New(c.T)
	if err := r.build(c, n, p.Elem()); err != nil {
		return nil, reflect.Value{}, vBad{err.Error()}
	}
	return c, p, nil
}

func (r *vreg) toTree(c *vcont, p reflect.Value) (string, error) {
	var sb strings.Builder
	if err := r.print(&sb, c, p.Elem()); err != nil {
		return "", vBad{err.Error()}
	}
	return sb.String(), nil
}

// vEncode: parameters -> full TLV/TV bytes including the parameter's own header;
// messages -> payload (no LLRP message header).
func vEncode(c *vcont, p reflect.Value) ([]byte, error) {
	if c.L.IsMsg {
		m, ok := p.Interface().(encoding.BinaryMarshaler)
		if !ok {
			return nil, vBad{"no MarshalBinary: " + c.L.Name}
		}
		return m.MarshalBinary()
	}
	h, ok := p.Interface().(vHeaderer)
	if !ok {
		return nil, vBad{"no getHeader: " + c.L.Name}
	}
	var b bytes.Buffer
	if err := encodeParams(&b, h.getHeader()); err != nil {
		return nil, err
	}
	return append([]byte(nil), b.Bytes()...), nil
}

// vBody: parameters take the full bytes including header; the header is checked and stripped
// here the way the parent decoders do (TLV: data[4:len], TV: data[1:]).
func vBody(c *vcont, data []byte) ([]byte, error) {
	body := data
	if !c.L.IsMsg {
		if c.L.IsTLV {
			if len(data) < 4 {
				return nil, fmt.Errorf("short TLV")
			}
			typ := int(data[0])<<8 | int(data[1])
			ln := int(data[2])<<8 | int(data[3])
			if typ != c.L.TypeID {
				return nil, fmt.Errorf("type %d, expected %d", typ, c.L.TypeID)
			}
			if ln < 4 || ln != len(data) {
				return nil, fmt.Errorf("TLV length %d, have %d bytes", ln, len(data))
			}
			body = data[4:ln]
		} else {
			if len(data) < 1 || int(data[0]) != 0x80|c.L.TypeID {
				return nil, fmt.Errorf("bad TV header")
			}
			body = data[1:]
		}
	}
	return body, nil
}

// vDecodeBuf decodes into a fresh value and also returns the buffer that was handed to UnmarshalBinary
// (the decoder's own exact-capacity copy of the body, so that an over-read shows as a panic).
func (r *vreg) vDecodeBuf(c *vcont, data []byte) (reflect.Value, []byte, error) {
	p := reflect.New(c.T)
	u, ok := p.Interface().(encoding.BinaryUnmarshaler)
	if !ok {
		return p, nil, vBad{"no UnmarshalBinary: " + c.L.Name}
	}
	body, err := vBody(c, data)
	if err != nil {
		return p, nil, err
	}
	cp := make([]byte, len(body))
	copy(cp, body)
	if err := u.UnmarshalBinary(cp[:len(cp):len(cp)]); err != nil {
		return p, cp, err
	}
	return p, cp, nil
}

func (r *vreg) vDecode(c *vcont, data []byte) (reflect.Value, error) {
	p, _, err := r.vDecodeBuf(c, data)
	return p, err
}

// vScribble changes every byte of b: whoever still looks at b sees different data
func vScribble(b []byte) {
	for i := range b {
		b[i] ^= 0xFF
	}
}

// vMutateAll edits a value in place the way a consumer may edit ITS decoded message: every number is complemented, every bool
// toggled, every element of every slice (bytes, numbers, sub-parameters) and everything behind every pointer likewise; no slice
// is re-allocated and no pointer replaced, so whoever shares memory with the value sees the edit.
func vMutateAll(rv reflect.Value) {
	switch rv.Kind() {
	case reflect.Bool:
		if rv.CanSet() {
			rv.SetBool(!rv.Bool())
		}
	case reflect.Uint8, reflect.Uint16, reflect.Uint32, reflect.Uint64, reflect.Uint:
		if rv.CanSet() {
			rv.SetUint(^rv.Uint())
		}
	case reflect.Int8, reflect.Int16, reflect.Int32, reflect.Int64, reflect.Int:
		if rv.CanSet() {
			rv.SetInt(^rv.Int())
		}
	case reflect.Struct:
		for i := 0; i < rv.NumField(); i++ {
			vMutateAll(rv.Field(i))
		}
	case reflect.Slice:
		for i := 0; i < rv.Len(); i++ {
			vMutateAll(rv.Index(i))
		}
	case reflect.Ptr:
		if !rv.IsNil() {
			vMutateAll(rv.Elem())
		}
	}
}

// vShared: decoded values own their memory — they share it neither with each other nor with anything the library keeps.
// `first` was decoded from `data` and printed as `want`. The same bytes are decoded again, `first` is then edited in place
// (vMutateAll), and the same bytes are decoded a third time: the second value must still print as `want`, and so must the third.
// -> "" or the tree that differs
func (r *vreg) vShared(c *vcont, data []byte, first reflect.Value, want string) (string, error) {
	second, _, err := r.vDecodeBuf(c, data)
	if err != nil {
		return "", err
	}
	vMutateAll(first.Elem())
	t2, err := r.toTree(c, second)
	if err != nil {
		return "", err
	}
	if t2 != want {
		return t2, nil
	}
	third, _, err := r.vDecodeBuf(c, data)
	if err != nil {
		return "", err
	}
	t3, err := r.toTree(c, third)
	if err != nil {
		return "", err
	}
	if t3 != want {
		return t3, nil
	}
	return "", nil
}

// vMarshalOwn: the exported MarshalBinary (messages: the payload; parameters: the encoding without its header)
func vMarshalOwn(p reflect.Value) ([]byte, error) {
	m, ok := p.Interface().(encoding.BinaryMarshaler)
	if !ok {
		return nil, vBad{"no MarshalBinary"}
	}
	return m.MarshalBinary()
}

func (r *vreg) handle(line string) (ans string) {
	defer func() {
		if rec := recover(); rec != nil {
			fmt.Fprintf(os.Stderr, "panic on %.200s: %v\n", line, rec)
			ans = "panic"
		}
	}()
	cmd, rest := line, ""
	if i := strings.IndexByte(line, ' '); i >= 0 {
		cmd, rest = line[:i], strings.TrimSpace(line[i+1:])
	}
	fail := func(err error) string {
		if b, ok := err.(vBad); ok {
			return "bad " + strings.ReplaceAll(b.why, "\n", " ")
		}
		return "err"
	}
	switch cmd {
	case "selftest":
		if len(r.problems) > 0 {
			return "bad " + strings.Join(r.problems, " ")
		}
		return "ok " + strconv.Itoa(r.n)
	case "enc":
		c, p, err := r.fromTree(rest)
		if err != nil {
			return fail(err)
		}
		b, err := vEncode(c, p)
		if err != nil {
			return fail(err)
		}
		return "ok " + hex.EncodeToString(b)
	case "dec":
		f := strings.Fields(rest)
		if len(f) == 1 {
			f = append(f, "")
		}
		if len(f) != 2 {
			return "bad dec needs <cid> <hex>"
		}
		c := r.byCid[f[0]]
		if c == nil || c.T == nil {
			return "bad unknown container " + f[0]
		}
		data, err := hex.DecodeString(f[1])
		if err != nil {
			return "bad hex"
		}
		p, buf, err := r.vDecodeBuf(c, data)
		if err != nil {
			return fail(err)
		}
		tree, err := r.toTree(c, p)
		if err != nil {
			return fail(err)
		}
		// the input belongs to the caller: once it is overwritten the decoded value must still be the same
		vScribble(buf)
		tree2, err := r.toTree(c, p)
		if err != nil {
			return fail(err)
		}
		if tree2 != tree {
			return "alias " + tree2
		}
		bad, err := r.vShared(c, data, p, tree)
		if err != nil {
			return fail(err)
		}
		if bad != "" {
			return "shared " + bad
		}
		return "ok " + tree
	case "rt":
		c, p, err := r.fromTree(rest)
		if err != nil {
			return fail(err)
		}
		t0, err := r.toTree(c, p)
		if err != nil {
			return fail(err)
		}
		b1, err := vEncode(c, p)
		if err != nil {
			return fail(err)
		}
		h1 := hex.EncodeToString(b1)
		pristine := append([]byte(nil), b1...)
		own1, err := vMarshalOwn(p)
		if err != nil {
			return fail(err)
		}
		ho1 := hex.EncodeToString(own1)
		q, buf, err := r.vDecodeBuf(c, b1)
		if err != nil {
			return fail(err)
		}
		t1, err := r.toTree(c, q)
		if err != nil {
			return fail(err)
		}
		// values, not views (decoder): the buffer handed to UnmarshalBinary is the caller's; overwrite it, THEN look at the value
		vScribble(buf)
		tree, err := r.toTree(c, q)
		if err != nil {
			return fail(err)
		}
		b2, err := vEncode(c, q)
		if err != nil {
			return fail(err)
		}
		h2 := hex.EncodeToString(b2)
		st := "ok"
		if tree != t1 {
			st = "alias"
		} else if ho1 != h1[2*c.L.HeaderSize:] {
			st = "pmarshal"
		} else {
			// values, not views (encoder): a later Marshal must not touch bytes returned earlier, and overwriting
			// returned bytes must change neither the value nor what it encodes to afterwards
			own2, err := vMarshalOwn(q)
			if err != nil {
				return fail(err)
			}
			// ... nor must the Marshal of ANOTHER value of the type (its zero value) in between
			// (the zero value need not be well-formed — an EPC96 without its 12 bytes — so its Marshal may fail or panic: ignored)
			z := reflect.New(c.T)
			var bz, oz []byte
			func() {
				defer func() { _ = recover() }()
				bz, _ = vEncode(c, z)
				oz, _ = vMarshalOwn(z)
			}()
			if hex.EncodeToString(b1) != h1 || hex.EncodeToString(own1) != ho1 || hex.EncodeToString(b2) != h2 {
				st = "encalias"
			}
			vScribble(bz)
			vScribble(oz)
			vScribble(b1)
			vScribble(b2)
			vScribble(own1)
			vScribble(own2)
			tp, err := r.toTree(c, p)
			if err != nil {
				return fail(err)
			}
			b3, err := vEncode(c, p)
			if err != nil {
				return fail(err)
			}
			own3, err := vMarshalOwn(p)
			if err != nil {
				return fail(err)
			}
			if tp != t0 || hex.EncodeToString(b3) != h1 || hex.EncodeToString(own3) != ho1 {
				st = "encalias"
			}
		}
		if st == "ok" {
			// values own their memory: a second decode of the same bytes, the first value edited in place, a third decode
			bad, err := r.vShared(c, pristine, q, tree)
			if err != nil {
				return fail(err)
			}
			if bad != "" {
				st, tree = "shared", bad
			}
		}
		return st + " " + h1 + " " + tree + " " + h2
	case "seq", "dinto":
		it := strings.SplitN(rest, ";", 2)
		if len(it) != 2 {
			return "bad " + cmd + " needs <tree>;<tree>"
		}
		c1, p1, err := r.fromTree(strings.TrimSpace(it[0]))
		if err != nil {
			return fail(err)
		}
		c2, p2, err := r.fromTree(strings.TrimSpace(it[1]))
		if err != nil {
			return fail(err)
		}
		e1, err := vEncode(c1, p1)
		if err != nil {
			return fail(err)
		}
		he1 := hex.EncodeToString(e1)
		e2, err := vEncode(c2, p2)
		if err != nil {
			return fail(err)
		}
		if hex.EncodeToString(e1) != he1 {
			return "encalias" // encoding the second value changed the bytes returned for the first
		}
		body1, err := vBody(c1, e1)
		if err != nil {
			return fail(err)
		}
		body2, err := vBody(c2, e2)
		if err != nil {
			return fail(err)
		}
		if cmd == "dinto" {
			// UnmarshalBinary on a receiver that already holds a value (recorded, not judged: see notes/codec-harness.md)
			if c1 != c2 {
				return "bad dinto needs two values of one container"
			}
			cp := append(make([]byte, 0, len(body2)), body2...)
			if err := p1.Interface().(encoding.BinaryUnmarshaler).UnmarshalBinary(cp); err != nil {
				return fail(err)
			}
			tree, err := r.toTree(c1, p1)
			if err != nil {
				return fail(err)
			}
			return "ok " + tree
		}
		// one receive buffer, two messages one after the other: the first value is looked at after the second arrived
		n := len(body1)
		if len(body2) > n {
			n = len(body2)
		}
		buf := make([]byte, n)
		q1, q2 := reflect.New(c1.T), reflect.New(c2.T)
		copy(buf, body1)
		if err := q1.Interface().(encoding.BinaryUnmarshaler).UnmarshalBinary(buf[:len(body1)]); err != nil {
			return fail(err)
		}
		copy(buf, body2)
		if err := q2.Interface().(encoding.BinaryUnmarshaler).UnmarshalBinary(buf[:len(body2)]); err != nil {
			return fail(err)
		}
		ta, err := r.toTree(c1, q1)
		if err != nil {
			return fail(err)
		}
		tb, err := r.toTree(c2, q2)
		if err != nil {
			return fail(err)
		}
		if ta == strings.TrimSpace(it[0]) && tb == strings.TrimSpace(it[1]) {
			// the consumer of the first message edits it in place: the second message, already decoded, and a fresh decode of the
			// second encoding must not change with it
			vMutateAll(q1.Elem())
			tb2, err := r.toTree(c2, q2)
			if err != nil {
				return fail(err)
			}
			q3 := reflect.New(c2.T)
			if err := q3.Interface().(encoding.BinaryUnmarshaler).UnmarshalBinary(append([]byte(nil), body2...)); err != nil {
				return fail(err)
			}
			tb3, err := r.toTree(c2, q3)
			if err != nil {
				return fail(err)
			}
			if tb2 != tb {
				return "shared " + ta + "\t" + tb2
			}
			if tb3 != tb {
				return "shared " + ta + "\t" + tb3
			}
		}
		return "ok " + ta + "\t" + tb
	case "json":
		c, p, err := r.fromTree(rest)
		if err != nil {
			return fail(err)
		}
		js, err := json.Marshal(p.Interface())
		if err != nil {
			return "err"
		}
		q := reflect.New(c.T)
		if err := json.Unmarshal(js, q.Interface()); err != nil {
			return "err"
		}
		tree, err := r.toTree(c, q)
		if err != nil {
			return fail(err)
		}
		return "ok " + tree
	case "tojson":
		_, p, err := r.fromTree(rest)
		if err != nil {
			return fail(err)
		}
		js, err := json.Marshal(p.Interface())
		if err != nil {
			return "err"
		}
		return "ok " + hex.EncodeToString(js)
	}
	if cmd == "penc" || cmd == "pdec" {
		return r.parallel(cmd, rest)
	}
	return "bad unknown request " + cmd
}

// parallel: `penc <n> <rounds> <tree>;<tree>;…` marshals the batch of (different) values from n
// goroutines at the same time, `rounds` times each, every goroutine walking the whole batch from its own
// starting point; `pdec <n> <rounds> <cid> <hex>;<cid> <hex>;…` does the same with UnmarshalBinary (each
// call into a fresh value). Answer: `ok r1;r2;…` with, per item, the DISTINCT results observed over all
// goroutines and rounds joined by `|` (hex, `-` for an empty encoding / the tree, `err`, `panic`):
// an encoder/decoder that is a function of its input yields exactly one result per item.
func (r *vreg) parallel(cmd, rest string) string {
	f := strings.SplitN(rest, " ", 3)
	if len(f) != 3 {
		return "bad " + cmd + " needs <n> <rounds> <items>"
	}
	n, err1 := strconv.Atoi(f[0])
	rounds, err2 := strconv.Atoi(f[1])
	if err1 != nil || err2 != nil || n < 1 || n > 64 || rounds < 1 {
		return "bad " + cmd + " parameters"
	}
	items := strings.Split(f[2], ";")
	type job struct {
		c    *vcont
		p    reflect.Value
		data []byte
	}
	jobs := make([]job, len(items))
	for i, it := range items {
		it = strings.TrimSpace(it)
		if cmd == "penc" {
			c, p, err := r.fromTree(it)
			if err != nil {
				return "bad item " + strconv.Itoa(i) + ": " + err.Error()
			}
			jobs[i] = job{c: c, p: p}
		} else {
			w := strings.Fields(it)
			if len(w) == 1 {
				w = append(w, "")
			}
			if len(w) != 2 || r.byCid[w[0]] == nil || r.byCid[w[0]].T == nil {
				return "bad item " + strconv.Itoa(i)
			}
			if w[1] == "-" {
				w[1] = ""
			}
			data, err := hex.DecodeString(w[1])
			if err != nil {
				return "bad hex in item " + strconv.Itoa(i)
			}
			jobs[i] = job{c: r.byCid[w[0]], data: data}
		}
	}
	one := func(j *job) (res string) {
		defer func() {
			if rec := recover(); rec != nil {
				res = "panic"
			}
		}()
		if cmd == "penc" {
			b, err := vEncode(j.c, j.p)
			if err != nil {
				return "err"
			}
			if len(b) == 0 {
				return "-"
			}
			return hex.EncodeToString(b)
		}
		q, err := r.vDecode(j.c, j.data)
		if err != nil {
			return "err"
		}
		tree, err := r.toTree(j.c, q)
		if err != nil {
			return "err"
		}
		return tree
	}
	seen := make([][]map[string]struct{}, n)
	start := make(chan struct{})
	var wg sync.WaitGroup
	for g := 0; g < n; g++ {
		seen[g] = make([]map[string]struct{}, len(jobs))
		for i := range seen[g] {
			seen[g][i] = map[string]struct{}{}
		}
		wg.Add(1)
		go func(g int) {
			defer wg.Done()
			<-start
			off := g * len(jobs) / n
			for rd := 0; rd < rounds; rd++ {
				for k := range jobs {
					i := (k + off + rd) % len(jobs)
					seen[g][i][one(&jobs[i])] = struct{}{}
				}
			}
		}(g)
	}
	close(start)
	wg.Wait()
	var sb strings.Builder
	sb.WriteString("ok ")
	for i := range jobs {
		if i > 0 {
			sb.WriteByte(';')
		}
		all := map[string]struct{}{}
		for g := 0; g < n; g++ {
			for k := range seen[g][i] {
				all[k] = struct{}{}
			}
		}
		keys := make([]string, 0, len(all))
		for k := range all {
			keys = append(keys, k)
		}
		sort.Strings(keys)
		sb.WriteString(strings.Join(keys, "|"))
	}
	return sb.String()
}

func TestVerifCodec(t *testing.T) {
	lines, w, done := verifIO(t)
	defer done()
	path := os.Getenv("VERIF_LAYOUT")
	if path == "" {
		t.Fatal("VERIF_LAYOUT not set")
	}
	r, err := vLoadRegistry(path)
	if err != nil {
		t.Fatal(err)
	}
	wd := 3 * time.Second
	if ms, err := strconv.Atoi(os.Getenv("VERIF_CODEC_WATCHDOG_MS")); err == nil && ms > 0 {
		wd = time.Duration(ms) * time.Millisecond
	}
	timer := time.NewTimer(time.Hour)
	for i, line := range lines {
		// each request runs under a watchdog: some decoders can spin (and allocate) forever on
		// bytes they mis-slice. A goroutine cannot be killed, so after a hang the worker answers
		// `hang`, marks the remaining requests `skipped` (the driver re-runs them in a fresh
		// process) and exits.
		ch := make(chan string, 1)
		go func() { ch <- r.handle(line) }()
		if !timer.Stop() {
			select {
			case <-timer.C:
			default:
			}
		}
		timer.Reset(wd)
		select {
		case ans := <-ch:
			w.WriteString(ans)
			w.WriteByte('\n')
		case <-timer.C:
			w.WriteString("hang\n")
			for range lines[i+1:] {
				w.WriteString("skipped\n")
			}
			done()
			os.Exit(3)
		}
	}
}
