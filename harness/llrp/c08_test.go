//go:build verif

package llrp

// C08 — timed scenarios (TestVerifC08Timed): a client built WithTimeout and a reader that sends the success event and then
// NEVER ANSWERS one of the negotiation messages — with or without KeepAlives in between, which keep the client's read deadline
// alive so that only the negotiation's own deadline can end the wait — or that STALLS: sends nothing, or only the first k bytes of
// its first message / of a negotiation reply, and then goes quiet without hanging up. Setup must FAIL: Connect returns an error, the gate does
// not open onto a live client, callers started before Connect / before the first message / during negotiation fail, and the
// peer sees nothing but negotiation frames and KeepAliveAcks. The script runner cannot do this (it steps on quiescence and has
// no notion of time), so this is a small runner of its own; it uses the script runner's independent frame code.

import (
	"context"
	"encoding/hex"
	"encoding/json"
	"fmt"
	"io"
	"net"
	"sync"
	"testing"
	"time"
)

type c08TimedReq struct {
	ID        string   `json:"id"`
	TimeoutMs int      `json:"timeout_ms"`
	SilentOn  string   `json:"silent_on"` // gsv | spv | none (control: everything answered)
	KeepAlive bool     `json:"keepalive"`
	Early     []string `json:"early"` // pre (before Connect) | gate (after the first message) | neg (after the peer read GetSupportedVersion) | pre-shutdown | neg-shutdown (a Shutdown at those points)
	BudgetMs  int      `json:"budget_ms"`
	// stalls: the peer sends only the first first_cut bytes of its first message (0 = nothing at all) / only the first reply_cut
	// bytes of the reply named by silent_on, then goes quiet WITHOUT hanging up
	FirstCut *int `json:"first_cut"`
	ReplyCut *int `json:"reply_cut"`
}

type c08Frame struct {
	Typ int    `json:"typ"`
	Len int    `json:"len"`
	Ver int    `json:"ver"`
	ID  uint32 `json:"id"`
}

func c08TimedRun(rq c08TimedReq) vsObs {
	out := vsObs{"id": rq.ID}
	T := time.Duration(rq.TimeoutMs) * time.Millisecond
	budget := time.Duration(rq.BudgetMs) * time.Millisecond
	var mu sync.Mutex
	var panics []string
	guard := func(what string) {
		if r := recover(); r != nil {
			mu.Lock()
			panics = append(panics, fmt.Sprint(what, ": ", r))
			mu.Unlock()
		}
	}
	c := NewClient(WithLogger(nil), WithTimeout(T))
	cli, peer := net.Pipe()
	ctx, cancel := context.WithCancel(context.Background())
	defer cancel()

	results := map[string]chan string{}
	startCaller := func(name string, typ int, nowait bool) {
		ch := make(chan string, 1)
		mu.Lock()
		results[name] = ch
		mu.Unlock()
		go func() {
			defer guard("caller " + name)
			if typ == int(MsgCloseConnection) { // Shutdown: the third exported way in
				if err := c.Shutdown(ctx); err == nil {
					ch <- "ok"
				} else {
					ch <- vsClassify(err)
				}
				return
			}
			if nowait {
				m, err := NewByteMessage(MessageType(typ), vsPayload(7, uint64(typ)))
				if typ == int(MsgKeepAliveAck) { // header only, as an application acknowledging keep-alives itself would send it
					m, err = NewHdrOnlyMsg(MsgKeepAliveAck), nil
					m.id = 4040
				}
				if err == nil {
					err = c.SendNoWait(ctx, m)
				}
				if err == nil {
					ch <- "sent"
				} else {
					ch <- vsClassify(err)
				}
				return
			}
			_, _, err := c.SendMessage(ctx, MessageType(typ), vsPayload(6, uint64(typ)))
			if err == nil {
				ch <- "ok"
			} else {
				ch <- vsClassify(err)
			}
		}()
	}
	has := func(k string) bool {
		for _, e := range rq.Early {
			if e == k {
				return true
			}
		}
		return false
	}
	if has("pre") {
		startCaller("pre", 20, false)
		time.Sleep(2 * time.Millisecond)
	}
	if has("pre-ack") {
		startCaller("pre-ack", int(MsgKeepAliveAck), true)
		time.Sleep(2 * time.Millisecond)
	}
	if has("pre-shutdown") {
		startCaller("pre-shutdown", int(MsgCloseConnection), false)
		time.Sleep(2 * time.Millisecond)
	}
	connRes := make(chan string, 1)
	go func() {
		defer guard("Connect")
		connRes <- vsClassify(c.Connect(cli))
	}()

	// ---- the peer
	var wmu sync.Mutex
	write := func(typ int, id uint32, pl []byte) error {
		wmu.Lock()
		defer wmu.Unlock()
		_ = peer.SetWriteDeadline(time.Now().Add(T))
		_, err := peer.Write(vsBuildFrame(2, typ, id, uint32(10+len(pl)), pl))
		return err
	}
	var frames []c08Frame
	sawGSV := make(chan struct{})
	stop := make(chan struct{})
	var pwg sync.WaitGroup
	b := (&vsPl{K: "conn"}).bytes()
	if rq.FirstCut != nil {
		fr := vsBuildFrame(2, int(MsgReaderEventNotification), 0, uint32(10+len(b)), b)
		k := *rq.FirstCut
		if k > len(fr) {
			k = len(fr)
		}
		if k > 0 {
			_ = peer.SetWriteDeadline(time.Now().Add(T))
			if _, err := peer.Write(fr[:k]); err != nil {
				out["error"] = "first bytes: " + err.Error()
			}
		}
	} else if err := write(int(MsgReaderEventNotification), 0, b); err != nil {
		out["error"] = "first frame: " + err.Error()
	}
	partial := func(typ int, id uint32, pl []byte) {
		fr := vsBuildFrame(2, typ, id, uint32(10+len(pl)), pl)
		k := *rq.ReplyCut
		if k > len(fr) {
			k = len(fr)
		}
		if k > 0 {
			wmu.Lock()
			_ = peer.SetWriteDeadline(time.Now().Add(T))
			_, _ = peer.Write(fr[:k])
			wmu.Unlock()
		}
	}
	pwg.Add(1)
	go func() {
		defer pwg.Done()
		hb := make([]byte, 10)
		seen := false
		for {
			_ = peer.SetReadDeadline(time.Now().Add(2 * budget))
			if _, err := io.ReadFull(peer, hb); err != nil {
				return
			}
			h := vsParseHeader(hb)
			if h.LenField < 10 {
				return
			}
			pl := make([]byte, h.LenField-10)
			if _, err := io.ReadFull(peer, pl); err != nil {
				return
			}
			mu.Lock()
			frames = append(frames, c08Frame{h.Typ, len(pl), h.Ver, h.ID})
			mu.Unlock()
			switch h.Typ {
			case int(MsgGetSupportedVersion):
				if !seen {
					seen = true
					close(sawGSV)
				}
				if rq.SilentOn != "gsv" {
					_ = write(int(MsgGetSupportedVersionResponse), h.ID, (&vsPl{K: "gsvr", Cur: 1, Max: 2}).bytes())
				} else if rq.ReplyCut != nil {
					partial(int(MsgGetSupportedVersionResponse), h.ID, (&vsPl{K: "gsvr", Cur: 1, Max: 2}).bytes())
				}
			case int(MsgSetProtocolVersion):
				if rq.SilentOn != "spv" {
					_ = write(int(MsgSetProtocolVersionResponse), h.ID, vsStatusTLV(0))
				} else if rq.ReplyCut != nil {
					partial(int(MsgSetProtocolVersionResponse), h.ID, vsStatusTLV(0))
				}
			case int(MsgKeepAliveAck):
			case int(MsgCloseConnection): // a Shutdown: accept it (so that a wrongly released one shows up as "ok")
				_ = write(int(MsgCloseConnectionResponse), h.ID, vsStatusTLV(0))
			default: // a caller's request: answer it (so that a wrongly released SendMessage shows up as "ok")
				_ = write((h.Typ+10)%1024, h.ID, vsPayload(4, 77))
			}
		}
	}()
	if rq.KeepAlive {
		pwg.Add(1)
		go func() {
			defer pwg.Done()
			for i := uint32(1); ; i++ {
				select {
				case <-stop:
					return
				case <-time.After(T / 4):
				}
				if write(int(MsgKeepAlive), 7000+i, nil) != nil {
					return
				}
			}
		}()
	}
	if has("gate") {
		startCaller("gate", 22, true)
	}
	if has("neg") {
		select {
		case <-sawGSV:
		case <-time.After(budget):
		}
		startCaller("neg", 23, false)
	}
	if has("neg-ack") {
		select {
		case <-sawGSV:
		case <-time.After(budget):
		}
		startCaller("neg-ack", int(MsgKeepAliveAck), true)
	}
	if has("neg-shutdown") {
		select {
		case <-sawGSV:
		case <-time.After(budget):
		}
		startCaller("neg-shutdown", int(MsgCloseConnection), false)
	}

	// ---- what happens
	t0 := time.Now()
	conn := "blocked"
	select {
	case conn = <-connRes:
	case <-time.After(budget):
	}
	out["connect"] = conn
	out["connect_ms"] = time.Since(t0).Milliseconds()
	time.Sleep(T / 2) // anything released by the end of setup gets its chance to reach the wire
	select {
	case <-c.ready:
		out["ready"] = true
	default:
		out["ready"] = false
	}
	out["closed"] = c.isClosed != 0
	callers := vsObs{}
	mu.Lock()
	names := make([]string, 0, len(results))
	for k := range results {
		names = append(names, k)
	}
	mu.Unlock()
	for _, k := range names {
		select {
		case r := <-results[k]:
			callers[k] = r
		case <-time.After(T):
			callers[k] = "blocked"
		}
	}
	out["callers"] = callers
	mu.Lock()
	out["frames"] = append([]c08Frame(nil), frames...)
	mu.Unlock()

	// ---- cleanup
	close(stop)
	cancel()
	_ = c.Close()
	_ = cli.Close()
	_ = peer.Close()
	pwg.Wait()
	mu.Lock()
	if len(panics) > 0 {
		out["panics"] = panics
	}
	mu.Unlock()
	return out
}

func TestVerifC08Timed(t *testing.T) {
	lines, w, done := verifIO(t)
	defer done()
	enc := json.NewEncoder(w)
	for _, line := range lines {
		var rq c08TimedReq
		if err := json.Unmarshal([]byte(line), &rq); err != nil {
			_ = enc.Encode(vsObs{"error": "bad request: " + err.Error()})
			continue
		}
		_ = enc.Encode(c08TimedRun(rq))
		w.Flush()
	}
}

// ------------------------------------------------------------------ half-closing reader (TestVerifC08HalfClose)
//
// Over loopback TCP the reader can end ITS side of the stream (FIN) in the middle of its first message and still read: so that
// "the client writes nothing" is observed on bytes that really arrive, not only on Write calls that fail on a closed pipe. The
// reader sends the first `cut` bytes of a first message whose header announces `announce` payload bytes (announce >= the payload
// actually held: the surplus is never delivered), half-closes, and keeps reading until the client's attempt is over.
// Demanded: Connect fails (a first message cut short by the end of the stream is no first message, however well-formed the
// delivered part looks by itself), not one byte reaches the reader, early callers fail.

type c08HalfReq struct {
	ID         string   `json:"id"`
	Version    int      `json:"version"`
	TimeoutMs  int      `json:"timeout_ms"` // 0: a client without a timeout
	Typ        int      `json:"typ"`
	PayloadHex string   `json:"payload_hex"` // payload bytes the reader holds
	Announce   int      `json:"announce"`    // payload length announced in the header
	Cut        int      `json:"cut"`         // bytes of header+payload sent before the half-close
	Early      []string `json:"early"`       // pre | gate
	BudgetMs   int      `json:"budget_ms"`
	GraceMs    int      `json:"grace_ms"`
}

func c08HalfRun(rq c08HalfReq) vsObs {
	out := vsObs{"id": rq.ID}
	budget := time.Duration(rq.BudgetMs) * time.Millisecond
	var mu sync.Mutex
	var panics []string
	guard := func(what string) {
		if r := recover(); r != nil {
			mu.Lock()
			panics = append(panics, fmt.Sprint(what, ": ", r))
			mu.Unlock()
		}
	}
	ln, err := net.Listen("tcp", "127.0.0.1:0")
	if err != nil {
		out["error"] = "listen: " + err.Error()
		return out
	}
	defer ln.Close()
	acc := make(chan net.Conn, 1)
	go func() {
		c, err := ln.Accept()
		if err != nil {
			acc <- nil
			return
		}
		acc <- c
	}()
	cli, err := net.DialTimeout("tcp", ln.Addr().String(), 2*time.Second)
	if err != nil {
		out["error"] = "dial: " + err.Error()
		return out
	}
	defer cli.Close()
	var peer *net.TCPConn
	select {
	case p := <-acc:
		if p == nil {
			out["error"] = "accept failed"
			return out
		}
		peer = p.(*net.TCPConn)
	case <-time.After(2 * time.Second):
		out["error"] = "accept timed out"
		return out
	}
	defer peer.Close()

	opts := []ClientOpt{WithLogger(nil)}
	if rq.Version == 1 {
		opts = append(opts, WithVersion(Version1_0_1))
	} else {
		opts = append(opts, WithVersion(Version1_1))
	}
	if rq.TimeoutMs > 0 {
		opts = append(opts, WithTimeout(time.Duration(rq.TimeoutMs)*time.Millisecond))
	}
	c := NewClient(opts...)
	ctx, cancel := context.WithCancel(context.Background())
	defer cancel()
	results := map[string]chan string{}
	startCaller := func(name string, typ int, nowait bool) {
		ch := make(chan string, 1)
		results[name] = ch
		go func() {
			defer guard("caller " + name)
			if nowait {
				m, err := NewByteMessage(MessageType(typ), vsPayload(7, uint64(typ)))
				if err == nil {
					err = c.SendNoWait(ctx, m)
				}
				if err == nil {
					ch <- "sent"
				} else {
					ch <- vsClassify(err)
				}
				return
			}
			_, _, err := c.SendMessage(ctx, MessageType(typ), vsPayload(6, uint64(typ)))
			if err == nil {
				ch <- "ok"
			} else {
				ch <- vsClassify(err)
			}
		}()
	}
	has := func(k string) bool {
		for _, e := range rq.Early {
			if e == k {
				return true
			}
		}
		return false
	}
	if has("pre") {
		startCaller("pre", 20, false)
		time.Sleep(2 * time.Millisecond)
	}
	connRes := make(chan string, 1)
	go func() {
		defer guard("Connect")
		connRes <- vsClassify(c.Connect(cli))
	}()

	// the reader: part of its first message, FIN, and then it only listens
	pl, _ := hex.DecodeString(rq.PayloadHex)
	fr := vsBuildFrame(2, rq.Typ, 0, uint32(10+rq.Announce), pl)
	k := rq.Cut
	if k > len(fr) {
		k = len(fr)
	}
	if k > 0 {
		_ = peer.SetWriteDeadline(time.Now().Add(2 * time.Second))
		if _, err := peer.Write(fr[:k]); err != nil {
			out["error"] = "first bytes: " + err.Error()
		}
	}
	if has("gate") {
		time.Sleep(5 * time.Millisecond)
		startCaller("gate", 22, true)
		time.Sleep(5 * time.Millisecond)
	}
	got := make(chan []byte, 1)
	stopRead := make(chan struct{})
	go func() {
		var all []byte
		buf := make([]byte, 4096)
		for {
			select {
			case <-stopRead:
				got <- all
				return
			default:
			}
			_ = peer.SetReadDeadline(time.Now().Add(20 * time.Millisecond))
			n, err := peer.Read(buf)
			all = append(all, buf[:n]...)
			if err != nil {
				if ne, ok := err.(net.Error); ok && ne.Timeout() {
					continue
				}
				got <- all
				return
			}
		}
	}()
	if err := peer.CloseWrite(); err != nil {
		out["error"] = "half-close: " + err.Error()
	}

	t0 := time.Now()
	conn := "blocked"
	select {
	case conn = <-connRes:
	case <-time.After(budget):
	}
	out["connect"] = conn
	out["connect_ms"] = time.Since(t0).Milliseconds()
	time.Sleep(time.Duration(rq.GraceMs) * time.Millisecond) // whatever the client has queued gets its chance to reach the wire
	select {
	case <-c.ready:
		out["ready"] = true
	default:
		out["ready"] = false
	}
	out["closed"] = c.isClosed != 0
	callers := vsObs{}
	for name, ch := range results {
		select {
		case r := <-ch:
			callers[name] = r
		case <-time.After(300 * time.Millisecond):
			callers[name] = "blocked"
		}
	}
	out["callers"] = callers
	close(stopRead)
	var rcvd []byte
	select {
	case rcvd = <-got:
	case <-time.After(time.Second):
	}
	out["bytes_received"] = len(rcvd)
	var types []int
	for p := rcvd; len(p) >= 10; {
		h := vsParseHeader(p[:10])
		types = append(types, h.Typ)
		if h.LenField < 10 || int(h.LenField) > len(p) {
			break
		}
		p = p[h.LenField:]
	}
	out["frame_types"] = types

	cancel()
	_ = c.Close()
	_ = cli.Close()
	_ = peer.Close()
	mu.Lock()
	if len(panics) > 0 {
		out["panics"] = panics
	}
	mu.Unlock()
	return out
}

func TestVerifC08HalfClose(t *testing.T) {
	lines, w, done := verifIO(t)
	defer done()
	enc := json.NewEncoder(w)
	for _, line := range lines {
		var rq c08HalfReq
		if err := json.Unmarshal([]byte(line), &rq); err != nil {
			_ = enc.Encode(vsObs{"error": "bad request: " + err.Error()})
			continue
		}
		_ = enc.Encode(c08HalfRun(rq))
		w.Flush()
	}
}
