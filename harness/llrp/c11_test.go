//go:build verif

package llrp

// C11 worker: runs one generated UnmarshalBinary per request line under supervision.
//
//   request:  d  <Type> <capextra> <hex|->     decode; the decoder gets a slice with len = #bytes and
//             dm <Type> <capextra> <hex|->     cap = len+capextra (slack is zero-filled); dm also measures allocation
//             m  <Type> <declared> <r|b> <hex|->  message-level entry point: Message{Header{payloadLen: declared, typ},
//                                                 payload}.UnmarshalTo(new(Type)); payload r = io.LimitReader over the bytes
//                                                 present (what a handler gets), b = already buffered; allocation always measured
//             limit                              answers MaxBufferedPayloadSz
//   answer:   ok|err|panic:<line>|hang  <mutated 0|1>  <bytes allocated or -1>  <ns>
//
// The decoder runs in its own goroutine with recover(); a watchdog (VERIF_C11_WATCHDOG_MS, default 2000)
// turns a decoder that does not return into the answer `hang`; since a spinning goroutine cannot be
// stopped, the worker then flushes its answers and exits — the driver restarts it on the remaining
// requests.  <line> is the line in generated_unmarshal.go of the innermost frame of the panic.
// The registry c11Registry (type name -> constructor) is generated per run by checks/c11.py from the
// translator's function table (build/gen/C11/c11_registry_test.go).

import (
	"bytes"
	"encoding"
	"encoding/hex"
	"fmt"
	"io"
	"os"
	"runtime"
	"strconv"
	"strings"
	"testing"
	"time"
)

type c11Result struct {
	class string
	ns    int64
}

func c11PanicLine() int {
	pcs := make([]uintptr, 64)
	n := runtime.Callers(2, pcs)
	frames := runtime.CallersFrames(pcs[:n])
	for {
		fr, more := frames.Next()
		if strings.HasSuffix(fr.File, "generated_unmarshal.go") {
			return fr.Line
		}
		if !more {
			return 0
		}
	}
}

func c11Decode(u encoding.BinaryUnmarshaler, data []byte, done chan<- c11Result) {
	t0 := time.Now()
	defer func() {
		if r := recover(); r != nil {
			done <- c11Result{"panic:" + strconv.Itoa(c11PanicLine()), time.Since(t0).Nanoseconds()}
		}
	}()
	err := u.UnmarshalBinary(data)
	ns := time.Since(t0).Nanoseconds()
	if err != nil {
		done <- c11Result{"err", ns}
		return
	}
	done <- c11Result{"ok", ns}
}

// c11MsgUnmarshaler routes UnmarshalBinary(data) of the supervised goroutine to Message.UnmarshalTo:
// the `data` it is given is the bytes present; the declared length and payload kind are fields.
type c11MsgEntry struct {
	v        encoding.BinaryUnmarshaler
	declared uint32
	buffered bool
}

func (e *c11MsgEntry) UnmarshalBinary(present []byte) error {
	m := Message{Header: Header{version: Version1_0_1, id: 1, payloadLen: e.declared}}
	if in, ok := e.v.(Incoming); ok {
		m.typ = in.Type()
	}
	if e.buffered {
		m.payload = bytes.NewBuffer(present)
	} else {
		m.payload = io.LimitReader(bytes.NewReader(present), int64(e.declared))
	}
	return m.UnmarshalTo(e.v)
}

func TestVerifC11(t *testing.T) {
	lines, w, closeOut := verifIO(t)
	defer closeOut()
	wd := 2000
	if s := os.Getenv("VERIF_C11_WATCHDOG_MS"); s != "" {
		if v, err := strconv.Atoi(s); err == nil && v > 0 {
			wd = v
		}
	}
	timer := time.NewTimer(time.Hour)
	for _, line := range lines {
		f := strings.Fields(line)
		if len(f) == 1 && f[0] == "limit" {
			fmt.Fprintf(w, "limit %d\n", MaxBufferedPayloadSz)
			continue
		}
		var entry *c11MsgEntry
		if len(f) == 5 && f[0] == "m" {
			d, err := strconv.ParseUint(f[2], 10, 32)
			if err != nil || (f[3] != "r" && f[3] != "b") {
				fmt.Fprintln(w, "bad request")
				continue
			}
			entry = &c11MsgEntry{declared: uint32(d), buffered: f[3] == "b"}
			f = []string{"dm", f[1], "0", f[4]}
		}
		if len(f) != 4 || (f[0] != "d" && f[0] != "dm") {
			fmt.Fprintln(w, "bad request")
			continue
		}
		mk, ok := c11Registry[f[1]]
		if !ok {
			fmt.Fprintln(w, "bad no-such-type")
			continue
		}
		extra, err := strconv.Atoi(f[2])
		if err != nil || extra < 0 {
			fmt.Fprintln(w, "bad capextra")
			continue
		}
		var raw []byte
		if f[3] != "-" {
			raw, err = hex.DecodeString(f[3])
			if err != nil {
				fmt.Fprintln(w, "bad hex")
				continue
			}
		}
		buf := make([]byte, len(raw)+extra)
		copy(buf, raw)
		data := buf[:len(raw):len(buf)]
		keep := append([]byte(nil), buf...)
		u := mk()
		if entry != nil {
			entry.v = u
			u = entry
		}
		done := make(chan c11Result, 1)
		var m0, m1 runtime.MemStats
		if f[0] == "dm" {
			runtime.ReadMemStats(&m0)
		}
		go c11Decode(u, data, done)
		if !timer.Stop() {
			select {
			case <-timer.C:
			default:
			}
		}
		timer.Reset(time.Duration(wd) * time.Millisecond)
		var res c11Result
		select {
		case res = <-done:
		case <-timer.C:
			fmt.Fprintf(w, "hang 0 -1 %d\n", int64(wd)*1000000)
			w.Flush()
			closeOut()
			os.Exit(0) // the decoder goroutine is still spinning; the driver restarts the worker
		}
		alloc := int64(-1)
		if f[0] == "dm" {
			runtime.ReadMemStats(&m1)
			alloc = int64(m1.TotalAlloc - m0.TotalAlloc)
		}
		mut := 0
		if !bytes.Equal(keep, buf) {
			mut = 1
		}
		fmt.Fprintf(w, "%s %d %d %d\n", res.class, mut, alloc, res.ns)
	}
}
