//go:build verif

package llrp

// C11 worker: runs one generated UnmarshalBinary per request line under supervision.
//
//   request:  d  <Type> <capextra> <hex|->     decode; the decoder gets a slice with len = #bytes and
//             dm <Type> <capextra> <hex|->     cap = len+capextra (slack is zero-filled); dm also measures allocation
//             m  <Type> <declared> <r|b> <hex|->  message-level entry point: Message{Header{payloadLen: declared, typ},
//                                                 payload}.UnmarshalTo(new(Type)); payload r = io.LimitReader over the bytes
//                                                 present (what a handler gets), b = already buffered; allocation always measured
//             limit                              answers MaxBufferedPayloadSz
//             s  <entry> <Type> <hex|->          client-level entry point: a real Client on net.Pipe whose peer answers with a
//                                                 frame of <Type>'s message type and the given payload bytes, at the place named
//                                                 by <entry> (see c11ClientEntry): sendfor | sendfor-err | shutdown | gsv | spv | first
//   answer:   ok|err|panic:<line>|hang  <mutated 0|1>  <bytes allocated or -1>  <ns>
//             for s: ok = the call produced a value (nil error / *StatusError / connection became ready), err = an error;
//             panic:<file:line> = innermost frame of the panic inside pkg/llrp
//
// The decoder runs in its own goroutine with recover(); a watchdog (VERIF_C11_WATCHDOG_MS, default 2000)
// turns a decoder that does not return into the answer `hang`; since a spinning goroutine cannot be
// stopped, the worker then flushes its answers and exits — the driver restarts it on the remaining
// requests.  <line> is the line in generated_unmarshal.go of the innermost frame of the panic.
// The registry c11Registry (type name -> constructor) is generated per run by checks/c11.py from the
// translator's function table (build/gen/C11/c11_registry_test.go).

import (
	"bytes"
	"context"
	"encoding"
	"encoding/hex"
	"errors"
	"fmt"
	"io"
	"net"
	"os"
	"path/filepath"
	"runtime"
	"strconv"
	"strings"
	"testing"
	"time"
)

type c11Result struct {
	class string
	ns    int64
}

func c11PanicLine() int {
	pcs := make([]uintptr, 64)
	n := runtime.Callers(2, pcs)
	frames := runtime.CallersFrames(pcs[:n])
	for {
		fr, more := frames.Next()
		if strings.HasSuffix(fr.File, "generated_unmarshal.go") {
			return fr.Line
		}
		if !more {
			return 0
		}
	}
}

// innermost non-test frame of the package's own code: file:line
func c11PanicWhere() string {
	pcs := make([]uintptr, 64)
	n := runtime.Callers(2, pcs)
	frames := runtime.CallersFrames(pcs[:n])
	for {
		fr, more := frames.Next()
		if strings.Contains(fr.Function, "/pkg/llrp.") && !strings.HasSuffix(fr.File, "_test.go") {
			return filepath.Base(fr.File) + ":" + strconv.Itoa(fr.Line)
		}
		if !more {
			return "?"
		}
	}
}

func c11Decode(u encoding.BinaryUnmarshaler, data []byte, done chan<- c11Result) {
	t0 := time.Now()
	defer func() {
		if r := recover(); r != nil {
			if rp, again := r.(c11Repanic); again {
				done <- c11Result{"panic:" + rp.where, time.Since(t0).Nanoseconds()}
				return
			}
			if _, client := u.(*c11ClientEntry); client {
				done <- c11Result{"panic:" + c11PanicWhere(), time.Since(t0).Nanoseconds()}
				return
			}
			done <- c11Result{"panic:" + strconv.Itoa(c11PanicLine()), time.Since(t0).Nanoseconds()}
		}
	}()
	err := u.UnmarshalBinary(data)
	ns := time.Since(t0).Nanoseconds()
	if err != nil {
		done <- c11Result{"err", ns}
		return
	}
	done <- c11Result{"ok", ns}
}

// c11MsgUnmarshaler routes UnmarshalBinary(data) of the supervised goroutine to Message.UnmarshalTo:
// the `data` it is given is the bytes present; the declared length and payload kind are fields.
type c11MsgEntry struct {
	v        encoding.BinaryUnmarshaler
	declared uint32
	buffered bool
}

func (e *c11MsgEntry) UnmarshalBinary(present []byte) error {
	m := Message{Header: Header{version: Version1_0_1, id: 1, payloadLen: e.declared}}
	if in, ok := e.v.(Incoming); ok {
		m.typ = in.Type()
	}
	if e.buffered {
		m.payload = bytes.NewBuffer(present)
	} else {
		m.payload = io.LimitReader(bytes.NewReader(present), int64(e.declared))
	}
	return m.UnmarshalTo(e.v)
}

// ---- client-level entry points: the places in reader.go where bytes received from the peer reach a decoder ----
//
//	sendfor      SendFor(request, new(Type)); the reply has Type's message type and the payload
//	sendfor-err  SendFor expecting <Type>; the reply is an ERROR_MESSAGE with the payload
//	shutdown     Shutdown; CLOSE_CONNECTION is answered by a frame of Type's message type (CloseConnectionResponse / ErrorMessage)
//	gsv          Connect of a default Client; GET_SUPPORTED_VERSION is answered by Type (GetSupportedVersionResponse / ErrorMessage)
//	spv          Connect; the version query is answered (1.0.1, max 1.1), SET_PROTOCOL_VERSION is answered by Type
//	first        Connect; the connection's first message has Type's message type and the payload
//
// The peer frames with its own code. What is demanded of every entry: the call returns a value or an error —
// no panic, no hang, and the error can be rendered. A panic on a goroutine of the Client kills the worker
// (answer crash:..., filled in by the driver).
type c11ClientEntry struct {
	entry string
	v     encoding.BinaryUnmarshaler
}

// a panic observed on the goroutine that ran Connect, passed on to the supervised goroutine
type c11Repanic struct{ where string }

type c11Raw struct {
	typ  MessageType
	data []byte
}

func (o c11Raw) MarshalBinary() ([]byte, error) { return o.data, nil }
func (o c11Raw) Type() MessageType              { return o.typ }

func c11Frame(ver byte, typ uint16, id uint32, payload []byte) []byte {
	n := uint32(10 + len(payload))
	out := make([]byte, 0, n)
	out = append(out, (ver&7)<<2|byte(typ>>8)&3, byte(typ), byte(n>>24), byte(n>>16), byte(n>>8), byte(n),
		byte(id>>24), byte(id>>16), byte(id>>8), byte(id))
	return append(out, payload...)
}

type c11PeerReply struct {
	typ     uint16
	payload []byte
}

// the peer: writes the first message, then answers the k-th request it reads with the k-th scripted reply
// (same id); further requests get an empty CUSTOM_MESSAGE.
func c11Peer(conn net.Conn, firstTyp uint16, first []byte, replies []c11PeerReply, done chan<- struct{}) {
	defer close(done)
	if _, err := conn.Write(c11Frame(1, firstTyp, 0, first)); err != nil {
		return
	}
	hdr := make([]byte, 10)
	for {
		if _, err := io.ReadFull(conn, hdr); err != nil {
			return
		}
		typ := uint16(hdr[0]&3)<<8 | uint16(hdr[1])
		total := uint32(hdr[2])<<24 | uint32(hdr[3])<<16 | uint32(hdr[4])<<8 | uint32(hdr[5])
		id := uint32(hdr[6])<<24 | uint32(hdr[7])<<16 | uint32(hdr[8])<<8 | uint32(hdr[9])
		if total < 10 {
			return
		}
		if _, err := io.CopyN(io.Discard, conn, int64(total-10)); err != nil {
			return
		}
		if typ == 72 {
			continue
		}
		r := c11PeerReply{1023, nil} // past the script: an empty CUSTOM_MESSAGE
		if len(replies) > 0 {
			r, replies = replies[0], replies[1:]
		}
		if _, err := conn.Write(c11Frame(1, r.typ, id, r.payload)); err != nil {
			return
		}
	}
}

func c11tlv(typ uint16, body []byte) []byte {
	n := 4 + len(body)
	return append([]byte{byte(typ>>8) & 3, byte(typ), byte(n >> 8), byte(n)}, body...)
}

func (e *c11ClientEntry) UnmarshalBinary(payload []byte) (err error) {
	in, isMsg := e.v.(Incoming)
	if !isMsg {
		return errors.New("bad request: not a message type")
	}
	// a well-formed first message: ReaderEventNotificationData{UTCTimestamp, ConnectionAttemptEvent = Success}
	firstTyp, first := uint16(63), c11tlv(246, append(c11tlv(128, []byte{0, 0, 0, 0, 0, 0, 0, 1}), c11tlv(256, []byte{0, 0})...))
	okStatus := c11tlv(287, []byte{0, 0, 0, 0})
	opts := []ClientOpt{WithLogger(nil)}
	var replies []c11PeerReply
	switch e.entry {
	case "sendfor":
		opts = append(opts, WithVersion(Version1_0_1))
		replies = []c11PeerReply{{uint16(in.Type()), payload}}
	case "sendfor-err":
		opts = append(opts, WithVersion(Version1_0_1))
		replies = []c11PeerReply{{uint16(MsgErrorMessage), payload}}
	case "shutdown":
		opts = append(opts, WithVersion(Version1_0_1))
		replies = []c11PeerReply{{uint16(in.Type()), payload}}
	case "gsv":
		replies = []c11PeerReply{{uint16(in.Type()), payload}, {57, okStatus}}
	case "spv":
		replies = []c11PeerReply{{56, append([]byte{1 << 5, 2 << 5}, okStatus...)}, {uint16(in.Type()), payload}}
	case "first":
		opts = append(opts, WithVersion(Version1_0_1))
		firstTyp, first = uint16(in.Type()), payload
	default:
		return errors.New("bad request: unknown entry")
	}
	cconn, pconn := net.Pipe()
	client := NewClient(opts...)
	peerDone := make(chan struct{})
	go c11Peer(pconn, firstTyp, first, replies, peerDone)
	defer func() {
		_ = client.Close()
		_ = pconn.Close()
		_ = cconn.Close()
		<-peerDone
	}()
	ctx, cancel := context.WithTimeout(context.Background(), time.Minute)
	defer cancel()
	render := func(err error) error { // the error must be usable, not only present
		if err != nil {
			_ = err.Error()
			_ = fmt.Sprintf("%v %+v", err, err)
		}
		return err
	}
	switch e.entry {
	case "sendfor", "sendfor-err", "shutdown":
		go func() { _ = client.Connect(cconn) }()
		if e.entry == "shutdown" {
			return render(client.Shutdown(ctx))
		}
		reqT, ok := in.Type().Converse()
		if !ok || reqT == MsgCloseConnection {
			reqT = MsgCustomMessage
		}
		err = render(client.SendFor(ctx, c11Raw{typ: reqT}, in))
		var se *StatusError
		if errors.As(err, &se) && e.entry == "sendfor" {
			return nil // decoded into a value whose status is not Success
		}
		return err
	default: // gsv, spv, first: Connect itself consumes the bytes, on this goroutine
		connErr := make(chan error, 1)
		panicked := make(chan c11Repanic, 1)
		go func() {
			defer func() {
				if r := recover(); r != nil {
					panicked <- c11Repanic{c11PanicWhere()}
				}
			}()
			connErr <- client.Connect(cconn)
		}()
		// either Connect returns (an error), or the connection gets ready and serves a request
		res := make(chan error, 1)
		go func() {
			_, _, err := client.SendMessage(ctx, MsgCustomMessage, nil)
			res <- err
		}()
		select {
		case rp := <-panicked:
			panic(rp)
		case err = <-connErr:
		case err = <-res:
			if err == nil {
				return nil // the connection serves requests: the bytes were accepted
			}
			select { // Connect failed and closed the client before the request was sent
			case rp := <-panicked:
				panic(rp)
			case err = <-connErr:
			case <-time.After(30 * time.Second):
				return errors.New("request failed but Connect did not return: " + err.Error())
			}
		}
		if err == nil {
			err = errors.New("Connect returned nil")
		}
		return render(err)
	}
}

func TestVerifC11(t *testing.T) {
	lines, w, closeOut := verifIO(t)
	defer closeOut()
	wd := 2000
	if s := os.Getenv("VERIF_C11_WATCHDOG_MS"); s != "" {
		if v, err := strconv.Atoi(s); err == nil && v > 0 {
			wd = v
		}
	}
	timer := time.NewTimer(time.Hour)
	for _, line := range lines {
		f := strings.Fields(line)
		if len(f) == 1 && f[0] == "limit" {
			fmt.Fprintf(w, "limit %d\n", MaxBufferedPayloadSz)
			continue
		}
		var entry *c11MsgEntry
		if len(f) == 5 && f[0] == "m" {
			d, err := strconv.ParseUint(f[2], 10, 32)
			if err != nil || (f[3] != "r" && f[3] != "b") {
				fmt.Fprintln(w, "bad request")
				continue
			}
			entry = &c11MsgEntry{declared: uint32(d), buffered: f[3] == "b"}
			f = []string{"dm", f[1], "0", f[4]}
		}
		var centry *c11ClientEntry
		if len(f) == 4 && f[0] == "s" {
			centry = &c11ClientEntry{entry: f[1]}
			f = []string{"d", f[2], "0", f[3]}
		}
		if len(f) != 4 || (f[0] != "d" && f[0] != "dm") {
			fmt.Fprintln(w, "bad request")
			continue
		}
		mk, ok := c11Registry[f[1]]
		if !ok {
			fmt.Fprintln(w, "bad no-such-type")
			continue
		}
		extra, err := strconv.Atoi(f[2])
		if err != nil || extra < 0 {
			fmt.Fprintln(w, "bad capextra")
			continue
		}
		var raw []byte
		if f[3] != "-" {
			raw, err = hex.DecodeString(f[3])
			if err != nil {
				fmt.Fprintln(w, "bad hex")
				continue
			}
		}
		buf := make([]byte, len(raw)+extra)
		copy(buf, raw)
		data := buf[:len(raw):len(buf)]
		keep := append([]byte(nil), buf...)
		u := mk()
		if entry != nil {
			entry.v = u
			u = entry
		}
		if centry != nil {
			centry.v = u
			u = centry
		}
		done := make(chan c11Result, 1)
		var m0, m1 runtime.MemStats
		if f[0] == "dm" {
			runtime.ReadMemStats(&m0)
		}
		go c11Decode(u, data, done)
		if !timer.Stop() {
			select {
			case <-timer.C:
			default:
			}
		}
		timer.Reset(time.Duration(wd) * time.Millisecond)
		var res c11Result
		select {
		case res = <-done:
		case <-timer.C:
			fmt.Fprintf(w, "hang 0 -1 %d\n", int64(wd)*1000000)
			w.Flush()
			closeOut()
			os.Exit(0) // the decoder goroutine is still spinning; the driver restarts the worker
		}
		alloc := int64(-1)
		if f[0] == "dm" {
			runtime.ReadMemStats(&m1)
			alloc = int64(m1.TotalAlloc - m0.TotalAlloc)
		}
		mut := 0
		if !bytes.Equal(keep, buf) {
			mut = 1
		}
		fmt.Fprintf(w, "%s %d %d %d\n", res.class, mut, alloc, res.ns)
	}
}
