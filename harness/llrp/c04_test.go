//go:build verif

package llrp

// C04 — inbound stream stays frame-aligned whatever handlers do.
//
// A real Client is connected to a scripted peer over net.Pipe (each peer Write is one
// "segment": a Read never spans two Writes).  The peer builds and parses frames with the code
// in this file only.  Every party that can be given a message is instrumented:
//   - a ClientLogger records every header the read loop parses (ReceivedMsg) and the
//     MsgHandled / MsgUnhandled / HandlerPanic notifications that follow it;
//   - MessageHandlers / the default handler record the header they were called with, read the
//     scripted number of bytes from msg.payload (k may exceed n: then they hit EOF), and
//     return or panic;
//   - awaiting callers record what they are HANDED, through each way the API offers of awaiting a
//     reply: c.send + resp.data() (what SendMessage is made of; also shows the reply header),
//     c.send + resp.UnmarshalTo, the public SendMessage, the public SendFor.
// One JSON request line = one scenario; one JSON answer line = everything observed.

import (
	"bytes"
	"context"
	"crypto/md5"
	"crypto/sha256"
	"encoding/hex"
	"encoding/json"
	"errors"
	"fmt"
	"io"
	"math/rand"
	"net"
	"sync"
	"testing"
	"time"
)

type c04Frame struct {
	Rsv     int    `json:"rsv"`
	Ver     int    `json:"ver"`
	Typ     int    `json:"typ"`
	ID      uint32 `json:"id"`
	ReplyTo *int   `json:"reply_to"` // use the id of this caller's request instead of ID
	Plen    int    `json:"plen"`
	Pseed   int    `json:"pseed"`
	K       int    `json:"k"`     // bytes the handler (if one is called) tries to read
	Panic   bool   `json:"panic"` // ... and then panics
	PKind   string `json:"pkind"` // with what: string (default) | error | index | nilmap | nilderef | typeassert | divzero | int | struct
	// how the handler consumes the payload: "" = io.ReadFull of K bytes from msg.payload;
	// "data" = msg.data() (the buffering path); "unmarshal" = msg.UnmarshalTo(v);
	// "readall" = io.ReadAll(msg.payload); "copy" = io.Copy(buf, msg.payload); "close" = msg.Close()
	// "hash" = io.Copy(md5, msg.payload): the whole payload streamed through a hash, nothing buffered
	Mode string `json:"mode"`
	// Pat: the payload is the 64 KiB block verifPayload(Pseed, 65536) repeated up to Plen bytes and is
	// written block by block (for payloads far beyond the buffering limit: nothing of that size is
	// materialised on either side)
	Pat bool `json:"pat"`
	// PHex: the payload bytes given explicitly (Plen = their number); else generated from Pseed
	PHex string `json:"phex"`
}

func (f c04Frame) payloadBytes() []byte {
	if f.PHex != "" {
		b, _ := hex.DecodeString(f.PHex)
		return b
	}
	return verifPayload(f.Pseed, f.Plen)
}

// verifCapture is a BinaryUnmarshaler that keeps the bytes it is given.
type verifCapture struct{ b []byte }

func (v *verifCapture) UnmarshalBinary(data []byte) error {
	v.b = append([]byte(nil), data...)
	return nil
}

type c04Step struct {
	// "send" | "chunk" | "raw" | "neg" (wait until the peer has seen the client's OWN request of type Typ — version
	// negotiation — and remember its id under Caller, so that frames can answer it with reply_to) | "ready" (wait until
	// the client's ready gate is closed: negotiation is over)
	Op      string     `json:"op"`
	Caller  int        `json:"caller"`
	Typ     int        `json:"typ"`
	Frames  []c04Frame `json:"frames"`
	Seg     string     `json:"seg"` // "whole" | "byte" | "rand" | "fixed" (SegMax bytes each) | "cuts" (at SegCuts)
	SegSeed int64      `json:"segseed"`
	SegMax  int        `json:"segmax"`
	SegCuts []int      `json:"segcuts"` // seg = "cuts": offsets into the chunk at which a new segment starts
	// seg = "cuts": SegPauseMS[i] = how long the peer's byte stream stalls at SegCuts[i] (before the
	// segment that starts there is written)
	SegPauseMS []int `json:"segpause_ms"`
	Raw     string     `json:"raw"` // hex, written as is, not waited for
	// op = "send": how the caller awaits its reply: "" = c.send + resp.data(); "unmarshal" = c.send +
	// resp.UnmarshalTo; "message" = c.SendMessage; "for" = c.SendFor expecting a reply of type InTyp;
	// "shutdown" = c.Shutdown (sends CloseConnection, judges the reply's status, closes the client if it is a success)
	Via   string `json:"via"`
	InTyp int    `json:"in_typ"`
	// op = "chunk": the caller CancelCaller gives up (its context is cancelled) when the first CancelAt bytes of the chunk
	// have been written: the peer holds the rest until that caller has returned.  Before cancelling the peer waits until
	// the client has logged CancelRecs headers of this chunk's frames (the frame in flight has been looked up) and
	// completed CancelDone of them.
	CancelCaller *int `json:"cancel_caller"`
	CancelAt     int  `json:"cancel_at"`
	CancelRecs   int  `json:"cancel_recs"`
	CancelDone   int  `json:"cancel_done"`
}

type c04Scenario struct {
	Name     string    `json:"name"`
	Handlers []int     `json:"handlers"`
	Default  bool      `json:"default"`
	KeepAck  bool      `json:"keep_ack"`
	Steps    []c04Step `json:"steps"`
	StepMS   int       `json:"step_ms"` // watchdog per waiting point (default 3000)
	First    string    `json:"first"`   // hex of the first frame of the connection (default: a successful connection event)
	FirstBeh *c04Frame `json:"first_beh"` // what the handler does if it is offered the first message
	// TimeoutMS > 0: the client is built WithTimeout (a read deadline armed at every header read, covering the message)
	TimeoutMS int `json:"timeout_ms"`
	// Version: 0/1 = the client is built WithVersion(1.0.1) (ready as soon as the first message is accepted);
	// 2 = WithVersion(1.1): the client negotiates (GetSupportedVersion, SetProtocolVersion) before it is ready —
	// the script answers those requests itself ("neg" steps + frames with reply_to)
	Version int `json:"version"`
	// Waits: the scenario is expected to end in a wait (a refused / accepted close parks the read loop until the client is
	// closed): like the timed scenarios it does not count towards the "too many stalls" cut-off
	Waits bool `json:"waits"`
}

type c04HandlerObs struct {
	Who   string `json:"who"` // "T<type>" or "D"
	Hdr   [4]uint32 `json:"hdr"`
	NRead int    `json:"nread"`
	MD5   string `json:"md5"`
	Err   string `json:"err"` // "nil" | "eof" | "short" | "other"
	Panic bool   `json:"panic"`
}

type c04Record struct {
	Hdr       [4]uint32       `json:"hdr"` // version, type, payloadLen, id as parsed by the client
	Handled   int             `json:"handled"`
	Unhandled int             `json:"unhandled"`
	PanicLog  int             `json:"paniclog"`
	Calls     []c04HandlerObs `json:"calls"`
}

type c04Caller struct {
	Caller     int       `json:"caller"`
	ReqID      int64     `json:"req_id"` // id the peer saw on the request (-1: none seen)
	Returned   bool      `json:"returned"`
	Err        string    `json:"err"` // "nil" | "closed" | "ctx" | "other"
	Hdr        [4]uint32 `json:"hdr"`
	PayloadNil bool      `json:"payload_nil"`
	DataErr    bool      `json:"data_err"`
	DLen       int       `json:"dlen"`
	MD5        string    `json:"md5"`
	Via        string    `json:"via"`
	// TypOnly: only the reply's type is visible through this API (hdr = 0, type, 0, 0)
	TypOnly bool `json:"typ_only"`
	ErrText string `json:"err_text"` // for diagnosis only, never compared
}

// verifOut / verifIn: the Outgoing / Incoming values a SendFor caller passes.
type verifOut struct{ typ MessageType }

func (o verifOut) MarshalBinary() ([]byte, error) { return nil, nil }
func (o verifOut) Type() MessageType              { return o.typ }

type verifIn struct {
	typ MessageType
	verifCapture
	called bool
}

func (v *verifIn) UnmarshalBinary(data []byte) error {
	v.called = true
	return v.verifCapture.UnmarshalBinary(data)
}
func (v *verifIn) Type() MessageType { return v.typ }

// awaitVia sends one request and awaits its reply the way `via` says; it reports what the caller
// was handed.
func awaitVia(ctx context.Context, c *Client, typ int, via string, inTyp int) c04Caller {
	r := c04Caller{Returned: true, Via: via}
	switch via {
	case "shutdown":
		err := c.Shutdown(ctx)
		r.Err = errClass(err)
		r.TypOnly = true
		if err != nil {
			r.ErrText = err.Error()
		}
	case "message":
		rt, data, err := c.SendMessage(ctx, MessageType(typ), nil)
		r.Err = errClass(err)
		if err == nil {
			r.TypOnly = true
			r.Hdr = [4]uint32{0, uint32(rt), 0, 0}
			r.DLen, r.MD5 = len(data), md5hex(data)
		}
	case "for":
		in := &verifIn{typ: MessageType(inTyp)}
		err := c.SendFor(ctx, verifOut{MessageType(typ)}, in)
		r.Err = errClass(err)
		if err == nil {
			r.TypOnly = true
			r.Hdr = [4]uint32{0, uint32(inTyp), 0, 0}
			r.DLen, r.MD5 = len(in.b), md5hex(in.b)
			if !in.called { // success without having been given any reply
				r.DataErr = true
			}
		}
	case "unmarshal":
		resp, err := c.send(ctx, NewHdrOnlyMsg(MessageType(typ)))
		r.Err = errClass(err)
		if err == nil {
			r.Hdr = hdr4(resp.Header)
			r.PayloadNil = resp.payload == nil
			v := &verifCapture{}
			uerr := resp.UnmarshalTo(v)
			r.DataErr = uerr != nil
			r.DLen, r.MD5 = len(v.b), md5hex(v.b)
		}
	default:
		resp, err := c.send(ctx, NewHdrOnlyMsg(MessageType(typ)))
		r.Err = errClass(err)
		if err == nil {
			r.Hdr = hdr4(resp.Header)
			r.PayloadNil = resp.payload == nil
			data, derr := resp.data()
			r.DataErr = derr != nil
			r.DLen = len(data)
			r.MD5 = md5hex(data)
		}
	}
	return r
}

type c04Result struct {
	Name       string      `json:"name"`
	Records    []c04Record `json:"records"`
	Callers    []c04Caller `json:"callers"`
	Stalled    string      `json:"stalled"`     // "" or where the watchdog fired
	ConnectErr string      `json:"connect_err"` // "nil" | "closed" | "other" | "none" (did not return)
	EarlyExit  bool        `json:"early_exit"`  // Connect returned before the peer closed
	Sent       int         `json:"client_frames"`
	ErrText    string      `json:"connect_err_text"` // for diagnosis only, never compared
	MS         int64       `json:"ms"`               // wall time of the scenario (diagnosis only)
}

func hdr4(h Header) [4]uint32 {
	return [4]uint32{uint32(h.version), uint32(h.typ), h.payloadLen, uint32(h.id)}
}

// verifPayload is the shared deterministic payload generator (same in checks/c04.py).
func verifPayload(seed, n int) []byte {
	out := make([]byte, 0, n+32)
	for j := 0; len(out) < n; j++ {
		s := sha256.Sum256([]byte(fmt.Sprintf("%d:%d", seed, j)))
		out = append(out, s[:]...)
	}
	return out[:n]
}

// peerFrame: the peer's own encoder.
func peerFrame(rsv, ver, typ int, id uint32, payload []byte) []byte {
	n := uint32(len(payload)) + 10
	b := make([]byte, 10, 10+len(payload))
	b[0] = byte(rsv<<5 | ver<<2 | typ>>8)
	b[1] = byte(typ)
	b[2], b[3], b[4], b[5] = byte(n>>24), byte(n>>16), byte(n>>8), byte(n)
	b[6], b[7], b[8], b[9] = byte(id>>24), byte(id>>16), byte(id>>8), byte(id)
	return append(b, payload...)
}

var peerInitialREN = peerFrame(0, 1, 63, 0, []byte{
	0x00, 0xF6, 0x00, 0x16, 0x00, 0x80, 0x00, 0x0C, 0, 0, 0, 0, 0, 0, 0, 1, 0x01, 0x00, 0x00, 0x06, 0x00, 0x00})

func md5hex(b []byte) string { s := md5.Sum(b); return hex.EncodeToString(s[:]) }

type c04Obs struct {
	mu      sync.Mutex
	recs    []c04Record
	beh     []c04Frame // behaviour for record i+1 (record 0 is the initial message)
	first   *c04Frame  // behaviour for record 0
	done    int        // records completed (handled or unhandled)
	sent    int
	changed chan struct{}
}

func (o *c04Obs) notify() {
	select {
	case o.changed <- struct{}{}:
	default:
	}
}
func (o *c04Obs) ReceivedMsg(h Header, _ VersionNum) {
	o.mu.Lock()
	o.recs = append(o.recs, c04Record{Hdr: hdr4(h)})
	o.mu.Unlock()
}
func (o *c04Obs) SendingMsg(Header) { o.mu.Lock(); o.sent++; o.mu.Unlock() }
func (o *c04Obs) MsgHandled(Header) {
	o.mu.Lock()
	if len(o.recs) > 0 {
		o.recs[len(o.recs)-1].Handled++
	}
	o.done++
	o.mu.Unlock()
	o.notify()
}
func (o *c04Obs) MsgUnhandled(Header) {
	o.mu.Lock()
	if len(o.recs) > 0 {
		o.recs[len(o.recs)-1].Unhandled++
	}
	o.done++
	o.mu.Unlock()
	o.notify()
}
func (o *c04Obs) HandlerPanic(Header, error) {
	o.mu.Lock()
	if len(o.recs) > 0 {
		o.recs[len(o.recs)-1].PanicLog++
	}
	o.mu.Unlock()
}

type c04Handler struct {
	o   *c04Obs
	who string
}

func (h c04Handler) HandleMessage(_ *Client, msg Message) {
	o := h.o
	o.mu.Lock()
	idx := len(o.recs) - 1
	var b c04Frame
	if idx >= 1 && idx-1 < len(o.beh) {
		b = o.beh[idx-1]
	}
	if idx == 0 && o.first != nil {
		b = *o.first
	}
	o.mu.Unlock()
	obs := c04HandlerObs{Who: h.who, Hdr: hdr4(msg.Header), Panic: b.Panic, Err: "nil"}
	buf := make([]byte, 0)
	n := 0
	note := func(err error) {
		switch {
		case err == nil:
		case errors.Is(err, io.ErrUnexpectedEOF):
			obs.Err = "short"
		case errors.Is(err, io.EOF):
			obs.Err = "eof"
		default:
			obs.Err = "other"
		}
	}
	switch b.Mode {
	case "data":
		m := msg
		d, err := m.data()
		note(err)
		buf, n = d, len(d)
	case "unmarshal":
		m := msg
		v := &verifCapture{}
		note(m.UnmarshalTo(v))
		buf, n = v.b, len(v.b)
	case "readall":
		d, err := io.ReadAll(msg.payload)
		note(err)
		buf, n = d, len(d)
	case "copy":
		var bb bytes.Buffer
		_, err := io.Copy(&bb, msg.payload)
		note(err)
		buf, n = bb.Bytes(), bb.Len()
	case "close":
		note(msg.Close())
	case "hash":
		hh := md5.New()
		cnt, err := io.Copy(hh, msg.payload)
		note(err)
		obs.NRead = int(cnt)
		obs.MD5 = hex.EncodeToString(hh.Sum(nil))
		o.mu.Lock()
		if idx >= 0 {
			o.recs[idx].Calls = append(o.recs[idx].Calls, obs)
		}
		o.mu.Unlock()
		if b.Panic {
			verifPanic(b.PKind, int(cnt))
		}
		return
	default:
		buf = make([]byte, b.K)
		if b.K > 0 {
			var err error
			n, err = io.ReadFull(msg.payload, buf)
			note(err)
		}
	}
	obs.NRead = n
	obs.MD5 = md5hex(buf[:n])
	o.mu.Lock()
	if idx >= 0 {
		o.recs[idx].Calls = append(o.recs[idx].Calls, obs)
	}
	o.mu.Unlock()
	if b.Panic {
		verifPanic(b.PKind, n)
	}
}

type verifPanicValue struct{ why string }

// verifPanic panics the way handler bugs do: with an explicit value of several kinds, or through
// the Go runtime (runtime.Error).  `n` only keeps the compiler from folding the faults away.
func verifPanic(kind string, n int) {
	switch kind {
	case "error":
		panic(errors.New("verif: scripted handler panic (error value)"))
	case "index":
		s := make([]byte, n%3)
		_ = s[n%3+1] // index out of range
	case "nilmap":
		var m map[int]int
		m[n] = 1 // assignment to entry in nil map
	case "nilderef":
		var h *Header
		_ = h.payloadLen + uint32(n) // nil pointer dereference
	case "typeassert":
		var v interface{} = n
		_ = v.(string) // interface conversion
	case "divzero":
		z := n - n
		_ = 1 / z // integer divide by zero
	case "int":
		panic(42)
	case "struct":
		panic(verifPanicValue{"verif"})
	}
	panic("verif: scripted handler panic")
}

func errClass(err error) string {
	switch {
	case err == nil:
		return "nil"
	case errors.Is(err, ErrClientClosed):
		return "closed"
	case errors.Is(err, context.Canceled), errors.Is(err, context.DeadlineExceeded):
		return "ctx"
	}
	return "other"
}

// writeCuts writes data in segments that start at the given offsets.
func writeCuts(w io.Writer, data []byte, cuts []int, pauses ...int) error {
	prev := 0
	for i, c := range append(append([]int(nil), cuts...), len(data)) {
		if i > 0 && i-1 < len(pauses) && pauses[i-1] > 0 {
			time.Sleep(time.Duration(pauses[i-1]) * time.Millisecond)
		}
		if c > len(data) {
			c = len(data)
		}
		if c <= prev {
			continue
		}
		if _, err := w.Write(data[prev:c]); err != nil {
			return err
		}
		prev = c
	}
	return nil
}

func writeSegments(w io.Writer, data []byte, seg string, seed int64, segmax int) error {
	switch seg {
	case "fixed":
		if segmax <= 0 {
			segmax = 1460
		}
		for len(data) > 0 {
			n := segmax
			if n > len(data) {
				n = len(data)
			}
			if _, err := w.Write(data[:n]); err != nil {
				return err
			}
			data = data[n:]
		}
	case "byte":
		for i := range data {
			if _, err := w.Write(data[i : i+1]); err != nil {
				return err
			}
		}
	case "rand":
		r := rand.New(rand.NewSource(seed))
		if segmax <= 0 {
			segmax = 64
		}
		for len(data) > 0 {
			n := 1 + r.Intn(segmax)
			if n > len(data) {
				n = len(data)
			}
			if _, err := w.Write(data[:n]); err != nil {
				return err
			}
			data = data[n:]
		}
	default:
		if len(data) > 0 {
			_, err := w.Write(data)
			return err
		}
	}
	return nil
}

type peerSeen struct {
	typ int
	id  uint32
}

func runC04(sc c04Scenario) c04Result {
	step := 3 * time.Second
	if sc.StepMS > 0 {
		step = time.Duration(sc.StepMS) * time.Millisecond
	}
	res := c04Result{Name: sc.Name, ConnectErr: "none"}
	obs := &c04Obs{changed: make(chan struct{}, 1), first: sc.FirstBeh}
	for _, st := range sc.Steps {
		if st.Op == "chunk" {
			obs.beh = append(obs.beh, st.Frames...)
		}
	}

	ver := Version1_0_1
	if sc.Version == 2 {
		ver = Version1_1
	}
	opts := []ClientOpt{WithVersion(ver), WithLogger(obs)}
	if sc.TimeoutMS > 0 {
		opts = append(opts, WithTimeout(time.Duration(sc.TimeoutMS)*time.Millisecond))
	}
	has62 := false
	for _, t := range sc.Handlers {
		if t == 62 {
			has62 = true
		}
		opts = append(opts, WithMessageHandler(MessageType(t), c04Handler{obs, fmt.Sprintf("T%d", t)}))
	}
	if !has62 && !sc.KeepAck {
		opts = append(opts, WithMessageHandler(MsgKeepAlive, nil))
	}
	if sc.Default {
		opts = append(opts, WithDefaultHandler(c04Handler{obs, "D"}))
	}
	c := NewClient(opts...)
	cliConn, peer := net.Pipe()
	defer peer.Close()
	defer cliConn.Close()

	connErr := make(chan error, 1)
	go func() { connErr <- c.Connect(cliConn) }()

	// the peer reads (and parses with its own code) everything the client writes
	seen := make(chan peerSeen, 1024)
	go func() {
		hb := make([]byte, 10)
		for {
			if _, err := io.ReadFull(peer, hb); err != nil {
				return
			}
			typ := int(hb[0]&3)<<8 | int(hb[1])
			ln := uint32(hb[2])<<24 | uint32(hb[3])<<16 | uint32(hb[4])<<8 | uint32(hb[5])
			id := uint32(hb[6])<<24 | uint32(hb[7])<<16 | uint32(hb[8])<<8 | uint32(hb[9])
			if ln > 10 {
				if _, err := io.CopyN(io.Discard, peer, int64(ln-10)); err != nil {
					return
				}
			}
			seen <- peerSeen{typ, id}
		}
	}()

	ctx, cancel := context.WithTimeout(context.Background(), 4*step)
	defer cancel()

	var connectReturned bool
	var connectErr error
	waitDone := func(want int) bool { // wait until `want` records are completed
		deadline := time.After(step)
		for {
			obs.mu.Lock()
			d := obs.done
			obs.mu.Unlock()
			if d >= want {
				return true
			}
			select {
			case <-obs.changed:
			case connectErr = <-connErr:
				connectReturned = true
				return false
			case <-deadline:
				return false
			}
		}
	}

	firstFrame := peerInitialREN
	if sc.First != "" {
		firstFrame, _ = hex.DecodeString(sc.First)
	}
	{
		// the client may stop reading inside the first frame (oversize claim): do not block on it
		werr := make(chan error, 1)
		go func() { _, err := peer.Write(firstFrame); werr <- err }()
		select {
		case err := <-werr:
			if err != nil {
				res.Stalled = "initial-write"
				return res
			}
		case connectErr = <-connErr:
			connectReturned = true
		case <-time.After(step):
			res.Stalled = "initial-write-blocked"
		}
	}

	callers := map[int]*c04Caller{}
	cancels := map[int]context.CancelFunc{}
	var callerOrder []int
	var cwg sync.WaitGroup
	total := 0 // frames written in chunks so far
	// note: the initial message is neither "handled" nor "unhandled" for the logger

stepLoop:
	for si, st := range sc.Steps {
		switch st.Op {
		case "send":
			cr := &c04Caller{Caller: st.Caller, ReqID: -1}
			callers[st.Caller] = cr
			callerOrder = append(callerOrder, st.Caller)
			cwg.Add(1)
			cctx, ccancel := context.WithCancel(ctx)
			cancels[st.Caller] = ccancel
			go func(st c04Step) {
				defer cwg.Done()
				r := awaitVia(cctx, c, st.Typ, st.Via, st.InTyp)
				obs.mu.Lock()
				r.Caller, r.ReqID = cr.Caller, cr.ReqID
				*cr = r
				obs.mu.Unlock()
			}(st)
			// wait until the peer has seen the request (skip acks)
			tm := time.After(step)
		waitReq:
			for {
				select {
				case s := <-seen:
					if s.typ == st.Typ {
						obs.mu.Lock()
						cr.ReqID = int64(s.id)
						obs.mu.Unlock()
						break waitReq
					}
				case connectErr = <-connErr:
					connectReturned = true
					res.Stalled = fmt.Sprintf("step%d:connect-returned", si)
					break stepLoop
				case <-tm:
					res.Stalled = fmt.Sprintf("step%d:request-not-seen", si)
					break stepLoop
				}
			}
		case "neg":
			// the client's own request (version negotiation): nobody in the harness awaits it; the peer notes its id
			cr := &c04Caller{Caller: st.Caller, ReqID: -1}
			callers[st.Caller] = cr
			tm := time.After(step)
		waitNeg:
			for {
				select {
				case s := <-seen:
					if s.typ == st.Typ {
						obs.mu.Lock()
						cr.ReqID = int64(s.id)
						obs.mu.Unlock()
						break waitNeg
					}
				case connectErr = <-connErr:
					connectReturned = true
					res.Stalled = fmt.Sprintf("step%d:connect-returned", si)
					break stepLoop
				case <-tm:
					res.Stalled = fmt.Sprintf("step%d:neg-request-not-seen", si)
					break stepLoop
				}
			}
		case "ready":
			select {
			case <-c.ready:
			case connectErr = <-connErr:
				connectReturned = true
				res.Stalled = fmt.Sprintf("step%d:connect-returned", si)
				break stepLoop
			case <-time.After(step):
				res.Stalled = fmt.Sprintf("step%d:neg-not-ready", si)
				break stepLoop
			}
		case "chunk":
			var data []byte
			var ids []uint32
			streamed := false
			for _, f := range st.Frames {
				if f.Pat {
					streamed = true
				}
			}
			for _, f := range st.Frames {
				id := f.ID
				if f.ReplyTo != nil {
					if cr := callers[*f.ReplyTo]; cr != nil {
						obs.mu.Lock()
						id = uint32(cr.ReqID)
						obs.mu.Unlock()
					}
				}
				ids = append(ids, id)
				if !streamed {
					data = append(data, peerFrame(f.Rsv, f.Ver, f.Typ, id, f.payloadBytes())...)
				}
			}
			werr := make(chan error, 1)
			go func(st c04Step) {
				if streamed {
					// frame by frame; a patterned payload goes out in 64 KiB writes
					for k, f := range st.Frames {
						if !f.Pat {
							if _, err := peer.Write(peerFrame(f.Rsv, f.Ver, f.Typ, ids[k], f.payloadBytes())); err != nil {
								werr <- err
								return
							}
							continue
						}
						hdr := peerFrame(f.Rsv, f.Ver, f.Typ, ids[k], nil)
						n := uint32(f.Plen) + 10
						hdr[2], hdr[3], hdr[4], hdr[5] = byte(n>>24), byte(n>>16), byte(n>>8), byte(n)
						if _, err := peer.Write(hdr); err != nil {
							werr <- err
							return
						}
						block := verifPayload(f.Pseed, 65536)
						for left := f.Plen; left > 0; {
							w := len(block)
							if w > left {
								w = left
							}
							if _, err := peer.Write(block[:w]); err != nil {
								werr <- err
								return
							}
							left -= w
						}
					}
					werr <- nil
					return
				}
				if st.CancelCaller != nil {
					at := st.CancelAt
					if at > len(data) {
						at = len(data)
					}
					if err := writeSegments(peer, data[:at], st.Seg, st.SegSeed, st.SegMax); err != nil {
						werr <- err
						return
					}
					base := total
					for t0 := time.Now(); time.Since(t0) < step; time.Sleep(200 * time.Microsecond) {
						obs.mu.Lock()
						ok := len(obs.recs) >= 1+base+st.CancelRecs && obs.done >= base+st.CancelDone
						obs.mu.Unlock()
						if ok {
							break
						}
					}
					time.Sleep(2 * time.Millisecond)
					if cf := cancels[*st.CancelCaller]; cf != nil {
						cf()
					}
					if cr := callers[*st.CancelCaller]; cr != nil {
						for t0 := time.Now(); time.Since(t0) < step; time.Sleep(200 * time.Microsecond) {
							obs.mu.Lock()
							ret := cr.Returned
							obs.mu.Unlock()
							if ret {
								break
							}
						}
					}
					werr <- writeSegments(peer, data[at:], st.Seg, st.SegSeed+1, st.SegMax)
					return
				}
				if st.Seg == "cuts" {
					werr <- writeCuts(peer, data, st.SegCuts, st.SegPauseMS...)
					return
				}
				werr <- writeSegments(peer, data, st.Seg, st.SegSeed, st.SegMax)
			}(st)
			select {
			case err := <-werr:
				if err != nil {
					res.Stalled = fmt.Sprintf("step%d:write-error", si)
					break stepLoop
				}
			case connectErr = <-connErr:
				connectReturned = true
				res.Stalled = fmt.Sprintf("step%d:connect-returned", si)
				break stepLoop
			case <-time.After(4 * step):
				res.Stalled = fmt.Sprintf("step%d:write-blocked", si)
				break stepLoop
			}
			total += len(st.Frames)
			ok := waitDone(total)
			if ok {
				// a caller whose reply was in this chunk gets time to pick it up before the
				// script goes on (send() chooses at random between a ready reply and a closed
				// client, which is C09's subject, not C04's)
				budget := 150 // x 2ms for the whole chunk: a delivered reply is picked up at once
				for _, id := range ids {
					for _, j := range callerOrder {
						cr := callers[j]
						for {
							obs.mu.Lock()
							waitFor := !cr.Returned && cr.ReqID == int64(id)
							obs.mu.Unlock()
							if !waitFor || budget <= 0 {
								break
							}
							budget--
							time.Sleep(2 * time.Millisecond)
						}
					}
				}
			}
			if !ok {
				if connectReturned {
					res.Stalled = fmt.Sprintf("step%d:connect-returned", si)
				} else {
					res.Stalled = fmt.Sprintf("step%d:frames-not-processed", si)
				}
				break stepLoop
			}
		case "raw":
			raw, _ := hex.DecodeString(st.Raw)
			werr := make(chan error, 1)
			go func() { werr <- writeSegments(peer, raw, st.Seg, st.SegSeed, st.SegMax) }()
			select {
			case <-werr:
			case connectErr = <-connErr:
				// the client may legitimately stop reading inside the tail (bad header)
				connectReturned = true
			case <-time.After(step):
			}
		}
	}
	res.EarlyExit = connectReturned && res.Stalled != ""

	// the peer closes: the inbound stream ends here
	peer.Close()
	if !connectReturned {
		select {
		case connectErr = <-connErr:
			connectReturned = true
		case <-time.After(step):
			if res.Stalled == "" {
				res.Stalled = "connect-did-not-return-after-eof"
			}
			c.Close()
			select {
			case <-connErr:
			case <-time.After(step):
			}
		}
	}
	if connectReturned {
		res.ConnectErr = errClass(connectErr)
		if connectErr != nil {
			res.ErrText = connectErr.Error()
		}
	}
	cancel()
	cdone := make(chan struct{})
	go func() { cwg.Wait(); close(cdone) }()
	select {
	case <-cdone:
	case <-time.After(step):
	}
	obs.mu.Lock()
	res.Records = append([]c04Record(nil), obs.recs...)
	res.Sent = obs.sent
	for _, j := range callerOrder {
		res.Callers = append(res.Callers, *callers[j])
	}
	obs.mu.Unlock()
	return res
}

func TestVerifC04(t *testing.T) {
	lines, w, closeIO := verifIO(t)
	defer closeIO()
	stalls := 0
	for _, l := range lines {
		if stalls >= 12 {
			// enough evidence that something is badly wrong; do not spend a watchdog period on
			// each remaining scenario
			w.WriteString("{\"skipped\":true}\n")
			continue
		}
		var sc c04Scenario
		if err := json.Unmarshal([]byte(l), &sc); err != nil {
			fmt.Fprintf(w, "{\"error\":%q}\n", err.Error())
			w.Flush()
			continue
		}
		t0 := time.Now()
		r := runC04(sc)
		r.MS = time.Since(t0).Milliseconds()
		if r.Stalled != "" && sc.TimeoutMS == 0 && !sc.Waits {
			stalls++
		}
		b, _ := json.Marshal(r)
		w.Write(b)
		w.WriteString("\n")
		w.Flush()
	}
}
