//go:build verif

package llrp

// C10 — a hostile or broken peer cannot crash, wedge or balloon the client.
//
// One JSON request line = one scenario: a peer script (raw bytes, frames whose id is taken from
// a request the peer saw, lying length fields, truncation = close) run against a real Client
// on net.Pipe.  Observed: whether Connect returned and with which error class, what each user
// call (SendMessage / Shutdown) returned, the headers the client parsed, and the bytes the
// process allocated while the scenario ran (runtime.MemStats.TotalAlloc; all peer data is
// prepared before the first reading).  A panic in any client goroutine kills the test binary:
// the driver (checks/c10.py) attributes the crash to the scenario that was running, from the
// missing answer line, and restarts after it.  Helpers shared with c04_test.go.

import (
	"context"
	"errors"
	"encoding/hex"
	"encoding/json"
	"fmt"
	"io"
	"net"
	"os"
	"runtime"
	"sync"
	"sync/atomic"
	"testing"
	"time"
)

type c10Step struct {
	// write | frame | expect | user_send | user_shutdown | close |
	// user_sendfor (SendFor(GetReaderCapabilities, &GetReaderCapabilitiesResponse{}): the reply is DECODED in the caller) |
	// peer_mute (the peer stops reading what the client writes) |
	// user_cancel (cancel the context of the named user call, wait until the call returned) |
	// client_close (c.Close(), wait until the user calls returned)
	Op      string `json:"op"`
	Hex     string `json:"hex"`
	Name    string `json:"name"`
	Typ     int    `json:"typ"`
	Ver     int    `json:"ver"`
	To      string `json:"to"`      // frame: use the id of the request remembered under this name
	ID      uint32 `json:"id"`      // frame: explicit id otherwise
	Claimed *int64 `json:"claimed"` // frame: value of the length field (default: 10 + payload)
	PHex    string `json:"phex"`    // frame: payload bytes actually sent ...
	PLen    int    `json:"plen"`    // ... or generated (plen, pseed)
	PSeed   int    `json:"pseed"`
	NoWait  bool   `json:"nowait"` // frame: do not wait until the client has dispatched it
	NoExpect bool  `json:"noexpect"` // user_send: do not wait for the peer to see the request (the peer may be mute)
}

type c10Scenario struct {
	Name       string    `json:"name"`
	Version    int       `json:"version"` // 1: WithVersion(1.0.1), no negotiation; 2: default
	TimeoutMS  int       `json:"timeout_ms"`
	Handlers   []int     `json:"handlers"`    // handlers that discard the payload
	DecodeH    []int     `json:"decode_h"`    // handlers that run the generated decoder for the type
	PanicH     []int     `json:"panic_h"`     // handlers that panic
	Default    bool      `json:"default"`     // default handler (discards)
	WatchdogMS int       `json:"watchdog_ms"` // per waiting point
	Steps      []c10Step `json:"steps"`
}

type c10User struct {
	Name     string `json:"name"`
	Kind     string `json:"kind"` // send | shutdown
	Returned bool   `json:"returned"`
	Err      string `json:"err"`
	Typ      int    `json:"typ"`
	DLen     int    `json:"dlen"`
	MD5      string `json:"md5"`
	ErrText  string `json:"err_text"` // diagnosis only
}

type c10Result struct {
	Name        string       `json:"name"`
	Connect     string       `json:"connect"` // nil | closed | other | none (did not return in time)
	ConnectText string       `json:"connect_text"`
	AfterClose  bool         `json:"returned_only_after_user_close"`
	Users       []c10User    `json:"users"`
	Records     [][4]uint32  `json:"records"`
	Handled     int          `json:"handled"`
	Unhandled   int          `json:"unhandled"`
	PanicLogs   int          `json:"paniclogs"`
	Alloc       uint64       `json:"alloc"`
	Stalled     string       `json:"stalled"`
	WriteFailed int          `json:"write_failed_at"` // index of the first step whose write failed (-1: none)
	Seen        [][2]uint32  `json:"seen"`            // (type, id) of the frames the client wrote
	MS          int64        `json:"ms"`
}

type c10DecodeHandler struct{ o *c04Obs }

func (h c10DecodeHandler) HandleMessage(_ *Client, msg Message) {
	v := msg.typ.NewInstance()
	if v == nil {
		return
	}
	_ = msg.UnmarshalTo(v) // may panic on malformed parameters: handleGuarded must recover
}

type c10PanicHandler struct{}

func (c10PanicHandler) HandleMessage(_ *Client, _ Message) { panic("verif: handler panic") }

type c10DiscardHandler struct{}

func (c10DiscardHandler) HandleMessage(_ *Client, msg Message) { _ = msg.Close() }

func runC10(sc c10Scenario) c10Result {
	wd := 3 * time.Second
	if sc.WatchdogMS > 0 {
		wd = time.Duration(sc.WatchdogMS) * time.Millisecond
	}
	res := c10Result{Name: sc.Name, Connect: "none", WriteFailed: -1}

	// everything the peer will write, prepared up front (not counted as client allocation)
	pre := make([][]byte, len(sc.Steps))
	for i, st := range sc.Steps {
		switch st.Op {
		case "write":
			pre[i], _ = hex.DecodeString(st.Hex)
		case "frame":
			var pl []byte
			if st.PHex != "" {
				pl, _ = hex.DecodeString(st.PHex)
			} else {
				pl = verifPayload(st.PSeed, st.PLen)
			}
			pre[i] = peerFrame(0, st.Ver, st.Typ, 0, pl)
			if st.Claimed != nil {
				n := uint32(*st.Claimed)
				pre[i][2], pre[i][3], pre[i][4], pre[i][5] = byte(n>>24), byte(n>>16), byte(n>>8), byte(n)
			}
		}
	}

	obs := &c04Obs{changed: make(chan struct{}, 1)}
	opts := []ClientOpt{WithLogger(obs)}
	if sc.Version == 1 {
		opts = append(opts, WithVersion(Version1_0_1))
	}
	if sc.TimeoutMS > 0 {
		opts = append(opts, WithTimeout(time.Duration(sc.TimeoutMS)*time.Millisecond))
	}
	for _, t := range sc.Handlers {
		opts = append(opts, WithMessageHandler(MessageType(t), c10DiscardHandler{}))
	}
	for _, t := range sc.DecodeH {
		opts = append(opts, WithMessageHandler(MessageType(t), c10DecodeHandler{obs}))
	}
	for _, t := range sc.PanicH {
		opts = append(opts, WithMessageHandler(MessageType(t), c10PanicHandler{}))
	}
	if sc.Default {
		opts = append(opts, WithDefaultHandler(c10DiscardHandler{}))
	}

	var m0, m1 runtime.MemStats
	runtime.GC()
	runtime.ReadMemStats(&m0)

	c := NewClient(opts...)
	cliConn, peer := net.Pipe()
	defer peer.Close()
	defer cliConn.Close()
	connErr := make(chan error, 1)
	go func() { connErr <- c.Connect(cliConn) }()

	seen := make(chan peerSeen, 1024)
	var seenMu sync.Mutex
	var mute uint32
	go func() {
		hb := make([]byte, 10)
		for {
			if atomic.LoadUint32(&mute) == 1 {
				return // a peer that no longer reads: client writes block from now on
			}
			if _, err := io.ReadFull(peer, hb); err != nil {
				return // includes the read deadline used to interrupt a pending Read on peer_mute
			}
			typ := int(hb[0]&3)<<8 | int(hb[1])
			ln := uint32(hb[2])<<24 | uint32(hb[3])<<16 | uint32(hb[4])<<8 | uint32(hb[5])
			id := uint32(hb[6])<<24 | uint32(hb[7])<<16 | uint32(hb[8])<<8 | uint32(hb[9])
			if ln > 10 {
				if _, err := io.CopyN(io.Discard, peer, int64(ln-10)); err != nil {
					return
				}
			}
			seenMu.Lock()
			res.Seen = append(res.Seen, [2]uint32{uint32(typ), id})
			seenMu.Unlock()
			seen <- peerSeen{typ, id}
		}
	}()

	ctx, cancel := context.WithTimeout(context.Background(), 20*wd)
	defer cancel()
	ids := map[string]uint32{}
	users := map[string]*c10User{}
	cancels := map[string]context.CancelFunc{}
	var userOrder []string
	var uwg sync.WaitGroup
	connectReturned := false
	var connectErr error
	dispatched := 0 // frames written with waiting

	expect := func(typ int) (uint32, bool) {
		tm := time.After(wd)
		for {
			select {
			case s := <-seen:
				if s.typ == typ {
					return s.id, true
				}
			case connectErr = <-connErr:
				connectReturned = true
				return 0, false
			case <-tm:
				return 0, false
			}
		}
	}
	writeAll := func(b []byte) bool {
		if len(b) == 0 {
			return true
		}
		werr := make(chan error, 1)
		go func() { _, err := peer.Write(b); werr <- err }()
		for {
			select {
			case err := <-werr:
				return err == nil
			case connectErr = <-connErr:
				connectReturned = true
				// the write may just have completed (that can be what let Connect return)
				select {
				case err := <-werr:
					return err == nil
				case <-time.After(20 * time.Millisecond):
				}
				// the client has stopped reading; unblock the writer
				peer.Close()
				<-werr
				return false
			case <-time.After(wd):
				return false
			}
		}
	}

	waitUsers := func(names []string) {
		deadline := time.Now().Add(wd)
		for _, n := range names {
			if users[n] == nil {
				continue
			}
			for time.Now().Before(deadline) {
				obs.mu.Lock()
				done := users[n].Returned
				obs.mu.Unlock()
				if done {
					break
				}
				time.Sleep(time.Millisecond)
			}
		}
	}

stepLoop:
	for si, st := range sc.Steps {
		switch st.Op {
		case "write":
			if res.WriteFailed >= 0 {
				continue // a blocked write is still pending on the pipe: nothing more can be sent
			}
			if !writeAll(pre[si]) && res.WriteFailed < 0 {
				res.WriteFailed = si
			}
		case "frame":
			if res.WriteFailed >= 0 {
				continue
			}
			b := pre[si]
			id := st.ID
			if st.To != "" {
				id = ids[st.To]
			}
			b[6], b[7], b[8], b[9] = byte(id>>24), byte(id>>16), byte(id>>8), byte(id)
			if !writeAll(b) {
				if res.WriteFailed < 0 {
					res.WriteFailed = si
				}
				continue
			}
			if !st.NoWait {
				dispatched++
				deadline := time.After(wd)
			waitD:
				for {
					obs.mu.Lock()
					d := obs.done
					obs.mu.Unlock()
					if d >= dispatched || connectReturned {
						break
					}
					select {
					case <-obs.changed:
					case connectErr = <-connErr:
						connectReturned = true
					case <-deadline:
						break waitD // not dispatched (the client may be waiting for more bytes): go on
					}
				}
				if st.To != "" && users[st.To] != nil {
					waitUsers([]string{st.To}) // let the awaiting call take its reply before the script goes on
				} else {
					time.Sleep(2 * time.Millisecond)
				}
			}
		case "expect":
			id, ok := expect(st.Typ)
			if !ok {
				res.Stalled = fmt.Sprintf("step%d:expected-frame-%d-not-seen", si, st.Typ)
				break stepLoop
			}
			ids[st.Name] = id
		case "user_send", "user_shutdown", "user_sendfor":
			u := &c10User{Name: st.Name, Kind: st.Op[5:]}
			users[st.Name] = u
			userOrder = append(userOrder, st.Name)
			uwg.Add(1)
			uctx, ucancel := context.WithCancel(ctx)
			cancels[st.Name] = ucancel
			go func(st c10Step) {
				defer uwg.Done()
				var r c10User
				if st.Op == "user_sendfor" {
					resp := &GetReaderCapabilitiesResponse{}
					err := c.SendFor(uctx, &GetReaderCapabilities{}, resp)
					r = c10User{Returned: true, Err: errClass(err)}
					if err != nil {
						r.ErrText = err.Error()
					}
				} else if st.Op == "user_send" {
					typ, data, err := c.SendMessage(uctx, MessageType(st.Typ), nil)
					r = c10User{Returned: true, Err: errClass(err), Typ: int(typ), DLen: len(data), MD5: md5hex(data)}
					if err != nil {
						r.ErrText = err.Error()
					}
				} else {
					err := c.Shutdown(uctx)
					r = c10User{Returned: true, Err: errClass(err)}
					if err != nil {
						r.ErrText = err.Error()
					}
				}
				obs.mu.Lock()
				r.Name, r.Kind = u.Name, u.Kind
				*u = r
				obs.mu.Unlock()
			}(st)
			if st.NoExpect {
				time.Sleep(5 * time.Millisecond)
				continue
			}
			want := st.Typ
			if st.Op == "user_shutdown" {
				want = 14
			}
			if st.Op == "user_sendfor" {
				want = int(MsgGetReaderCapabilities)
			}
			id, ok := expect(want)
			if !ok {
				res.Stalled = fmt.Sprintf("step%d:request-%d-not-seen", si, want)
				break stepLoop
			}
			ids[st.Name] = id
		case "close":
			peer.Close()
		case "peer_mute":
			atomic.StoreUint32(&mute, 1)
			peer.SetReadDeadline(time.Now()) // interrupt the reader's pending Read
			time.Sleep(2 * time.Millisecond)
		case "user_cancel":
			if cf := cancels[st.Name]; cf != nil {
				cf()
			}
			waitUsers([]string{st.Name})
		case "client_close":
			c.Close()
			waitUsers(userOrder)
		}
	}

	// the stream ends here
	peer.Close()
	if !connectReturned {
		select {
		case connectErr = <-connErr:
			connectReturned = true
		case <-time.After(wd):
			// wedged: see whether at least a user Close releases it
			c.Close()
			select {
			case connectErr = <-connErr:
				res.AfterClose = true
			case <-time.After(wd):
			}
		}
	}
	if connectReturned {
		res.Connect = errClass(connectErr)
		if connectErr != nil {
			res.ConnectText = connectErr.Error()
		}
	}
	cancel()
	udone := make(chan struct{})
	go func() { uwg.Wait(); close(udone) }()
	select {
	case <-udone:
	case <-time.After(wd):
	}
	runtime.ReadMemStats(&m1)
	res.Alloc = m1.TotalAlloc - m0.TotalAlloc

	obs.mu.Lock()
	for _, r := range obs.recs {
		res.Records = append(res.Records, r.Hdr)
		res.Handled += r.Handled
		res.Unhandled += r.Unhandled
		res.PanicLogs += r.PanicLog
	}
	for _, n := range userOrder {
		res.Users = append(res.Users, *users[n])
	}
	obs.mu.Unlock()
	return res
}

func TestVerifC10(t *testing.T) {
	lines, w, closeIO := verifIO(t)
	defer closeIO()
	for _, l := range lines {
		var sc c10Scenario
		if err := json.Unmarshal([]byte(l), &sc); err != nil {
			fmt.Fprintf(w, "{\"error\":%q}\n", err.Error())
			w.Flush()
			continue
		}
		// tell the supervisor which scenario is running, should the process die
		fmt.Fprintf(os.Stderr, "C10-RUNNING %s\n", sc.Name)
		t0 := time.Now()
		r := runC10(sc)
		r.MS = time.Since(t0).Milliseconds()
		b, _ := json.Marshal(r)
		w.Write(b)
		w.WriteString("\n")
		w.Flush()
	}
}

// ---------------------------------------------------------------------------------------------
// Status codes: a peer-chosen 16-bit code is part of "any byte stream whatsoever".  Every error
// the client returns for a refusal carries that code, and its text is produced by Error()
// methods that callers invoke directly (the device service logs with err.Error() on goroutines
// that do not recover; fmt would hide a panic as "%!v(PANIC=...)").
//
// Request {"op":"decode","lo":..,"hi":..}: for every code in [lo,hi] an LLRPStatus / FieldError /
// ParameterError (nested) carrying it is encoded by this file, decoded by the library and its
// Error() called directly.  Request {"op":"session","codes":[..]}: for every code a real Client
// on net.Pipe against a peer that refuses at one stage with that code; Error() is called
// directly on whatever Connect / SendFor / Shutdown returned.  Answer: for each kind the codes
// for which Error() panicked, and those whose text hides a recovered panic.

type c10SweepReq struct {
	Op    string `json:"op"`
	Lo    int    `json:"lo"`
	Hi    int    `json:"hi"`
	Codes []int  `json:"codes"`
}

type c10SweepRes struct {
	Op      string              `json:"op"`
	Calls   int                 `json:"calls"`
	Panics  map[string][]int    `json:"panics"`  // kind -> codes for which a direct Error() call panicked
	Hidden  map[string][]int    `json:"hidden"`  // kind -> codes whose text contains a panic recovered by fmt
	NoError map[string][]int    `json:"noerror"` // kind -> non-zero codes for which no error came back (diagnosis)
	Samples map[string]string   `json:"samples"` // a few texts
	PanicTx map[string]string   `json:"panic_text"`
	// TableTexts: codes whose plain status text is one of the library's texts (not "unknown LLRP status code n")
	TableTexts int `json:"table_texts"`
	// Wedged: kind -> codes of sessions in which Connect did not return (the stage is given up after 4 of them)
	Wedged map[string][]int `json:"wedged"`
}

func errorTextDirect(err error) (text string, panicked bool, pv string) {
	defer func() {
		if r := recover(); r != nil {
			panicked, pv = true, fmt.Sprint(r)
		}
	}()
	return err.Error(), false, ""
}

func sweepStatusBytes(code int, kind string) []byte {
	u16 := func(v int) []byte { return []byte{byte(v >> 8), byte(v)} }
	tlv := func(t int, body []byte) []byte {
		return append(append(u16(t), u16(4+len(body))...), body...)
	}
	fe := func(c int) []byte { return tlv(288, append(u16(3), u16(c)...)) }
	pe := func(c int, inner []byte) []byte { return tlv(289, append(append(u16(137), u16(c)...), inner...)) }
	switch kind {
	case "status":
		return tlv(287, append(u16(code), u16(0)...))
	case "field-error":
		return tlv(287, append(append(u16(100), u16(0)...), fe(code)...))
	case "parameter-error":
		return tlv(287, append(append(u16(101), u16(0)...), pe(code, nil)...))
	default: // nested: parameter error within parameter error with a field error
		return tlv(287, append(append(u16(101), u16(0)...), pe(200, append(fe(code), pe(code, nil)...))...))
	}
}

func (res *c10SweepRes) note(kind string, code int, err error) {
	res.Calls++
	if err == nil {
		if code != 0 {
			res.NoError[kind] = append(res.NoError[kind], code)
		}
		return
	}
	text, panicked, pv := errorTextDirect(err)
	if panicked {
		res.Panics[kind] = append(res.Panics[kind], code)
		if _, ok := res.PanicTx[kind]; !ok {
			res.PanicTx[kind] = fmt.Sprintf("code %d: %s", code, pv)
		}
		return
	}
	for i := 0; i+7 <= len(text); i++ {
		if text[i:i+7] == "(PANIC=" {
			res.Hidden[kind] = append(res.Hidden[kind], code)
			break
		}
	}
	if kind == "status" && !(len(text) >= 24 && text[:24] == "unknown LLRP status code") {
		res.TableTexts++
	}
	if len(res.Samples) < 12 && (code%97 == 3 || code == 110) {
		res.Samples[fmt.Sprintf("%s/%d", kind, code)] = text
	}
}

// sweepSession: one Client session in which the peer refuses at `stage` with `code`; returns
// the error of the call that was refused.
var errSweepWedged = errors.New("verif: Connect did not return")

func sweepSession(stage string, code int) error {
	cliConn, peer := net.Pipe()
	defer peer.Close()
	defer cliConn.Close()
	st := func(c int) []byte { return []byte{0x01, 0x1f, 0x00, 0x08, byte(c >> 8), byte(c), 0, 0} }
	go func() {
		_, _ = peer.Write(peerInitialREN)
		hb := make([]byte, 10)
		for {
			if _, err := io.ReadFull(peer, hb); err != nil {
				return
			}
			typ := int(hb[0]&3)<<8 | int(hb[1])
			ln := uint32(hb[2])<<24 | uint32(hb[3])<<16 | uint32(hb[4])<<8 | uint32(hb[5])
			id := uint32(hb[6])<<24 | uint32(hb[7])<<16 | uint32(hb[8])<<8 | uint32(hb[9])
			if ln > 10 {
				if _, err := io.CopyN(io.Discard, peer, int64(ln-10)); err != nil {
					return
				}
			}
			var reply []byte
			switch typ {
			case 46:
				switch stage {
				case "gsv":
					reply = peerFrame(0, 1, 56, id, append([]byte{1 << 5, 2 << 5}, st(code)...))
				case "gsv-errmsg":
					reply = peerFrame(0, 1, 100, id, st(code))
				default:
					reply = peerFrame(0, 1, 56, id, append([]byte{1 << 5, 2 << 5}, st(0)...))
				}
			case 47:
				switch stage {
				case "spv":
					reply = peerFrame(0, 2, 57, id, st(code))
				case "spv-errmsg":
					reply = peerFrame(0, 2, 100, id, st(code))
				default:
					reply = peerFrame(0, 2, 57, id, st(0))
				}
			case 1: // GetReaderCapabilities
				if stage == "sendfor-errmsg" {
					reply = peerFrame(0, 2, 100, id, st(code))
				} else {
					reply = peerFrame(0, 2, 11, id, st(code))
				}
			case 14:
				if stage == "shutdown-errmsg" {
					reply = peerFrame(0, 2, 100, id, st(code))
				} else if stage == "shutdown" {
					reply = peerFrame(0, 2, 4, id, st(code))
				} else {
					reply = peerFrame(0, 2, 4, id, st(0))
				}
			default:
				continue
			}
			if _, err := peer.Write(reply); err != nil {
				return
			}
			if (typ == 46 && (stage == "gsv" || stage == "gsv-errmsg")) || (typ == 47 && (stage == "spv" || stage == "spv-errmsg")) {
				// negotiation refused: the reader ends the stream (Connect waits for its read loop)
				time.Sleep(time.Millisecond)
				peer.Close()
				return
			}
		}
	}()
	c := NewClient(WithLogger(nil))
	connErr := make(chan error, 1)
	go func() { connErr <- c.Connect(cliConn) }()
	ctx, cancel := context.WithTimeout(context.Background(), 5*time.Second)
	defer cancel()
	switch stage {
	case "gsv", "gsv-errmsg", "spv", "spv-errmsg":
		select {
		case err := <-connErr:
			return err
		case <-ctx.Done():
			_ = c.Close()
			return errSweepWedged
		}
	case "sendfor", "sendfor-errmsg":
		err := c.SendFor(ctx, &GetReaderCapabilities{}, &GetReaderCapabilitiesResponse{})
		_ = c.Close()
		peer.Close()
		select {
		case <-connErr:
		case <-time.After(3 * time.Second):
			return errSweepWedged
		}
		return err
	default:
		err := c.Shutdown(ctx)
		_ = c.Close()
		peer.Close()
		select {
		case <-connErr:
		case <-time.After(3 * time.Second):
			return errSweepWedged
		}
		return err
	}
}

// sweepFirst: Connect on a stream whose first message is a valid ReaderEventNotification with the given
// ConnectionAttemptEvent status; then the peer closes.
func sweepFirst(code int) (err error, panicValue string, wedged bool) {
	cliConn, peer := net.Pipe()
	defer peer.Close()
	defer cliConn.Close()
	pl := []byte{0x00, 0xF6, 0x00, 0x16, 0x00, 0x80, 0x00, 0x0C, 0, 0, 0, 0, 0, 0, 0, 1, 0x01, 0x00, 0x00, 0x06, byte(code >> 8), byte(code)}
	go func() {
		_, _ = peer.Write(peerFrame(0, 1, 63, 0, pl))
		time.Sleep(200 * time.Microsecond)
		peer.Close()
	}()
	type out struct {
		err error
		pv  string
	}
	done := make(chan out, 1)
	c := NewClient(WithLogger(nil), WithVersion(Version1_0_1))
	go func() {
		defer func() {
			if r := recover(); r != nil {
				done <- out{nil, fmt.Sprint(r)}
			}
		}()
		done <- out{c.Connect(cliConn), ""}
	}()
	select {
	case o := <-done:
		return o.err, o.pv, false
	case <-time.After(3 * time.Second):
		return nil, "", true
	}
}

func TestVerifC10StatusSweep(t *testing.T) {
	lines, w, closeIO := verifIO(t)
	defer closeIO()
	for _, l := range lines {
		var rq c10SweepReq
		if err := json.Unmarshal([]byte(l), &rq); err != nil {
			fmt.Fprintf(w, "{\"error\":%q}\n", err.Error())
			continue
		}
		res := c10SweepRes{Op: rq.Op, Wedged: map[string][]int{}, Panics: map[string][]int{}, Hidden: map[string][]int{}, NoError: map[string][]int{},
			Samples: map[string]string{}, PanicTx: map[string]string{}}
		switch rq.Op {
		case "decode":
			for code := rq.Lo; code <= rq.Hi; code++ {
				for _, kind := range []string{"status", "field-error", "parameter-error", "nested"} {
					em := ErrorMessage{} // its payload is one LLRPStatus parameter
					if err := em.UnmarshalBinary(sweepStatusBytes(code, kind)); err != nil {
						res.NoError["undecodable:"+kind] = append(res.NoError["undecodable:"+kind], code)
						continue
					}
					ls := em.LLRPStatus
					res.note(kind, code, ls.Err())
					if kind != "status" { // the parts render on their own, too
						if ls.FieldError != nil {
							res.note(kind+":FieldError", code, *ls.FieldError)
						}
						if ls.ParameterError != nil {
							res.note(kind+":ParameterError", code, ls.ParameterError)
						}
					}
				}
			}
		case "first":
			// every 16-bit ConnectionAttemptEvent status in an otherwise valid first message; Connect runs on a
			// goroutine of this harness, so a panic in it is caught here
			var mu sync.Mutex
			var wg sync.WaitGroup
			jobs := make(chan int, 64)
			for k := 0; k < 8; k++ {
				wg.Add(1)
				go func() {
					defer wg.Done()
					for code := range jobs {
						err, pv, wedged := sweepFirst(code)
						mu.Lock()
						res.Calls++
						switch {
						case pv != "":
							res.Panics["first:connect"] = append(res.Panics["first:connect"], code)
							if _, ok := res.PanicTx["first:connect"]; !ok {
								res.PanicTx["first:connect"] = fmt.Sprintf("status %d: %s", code, pv)
							}
						case wedged:
							res.Wedged["first:connect"] = append(res.Wedged["first:connect"], code)
						default:
							if code != 0 && errors.Is(err, io.EOF) {
								// accepted a refused connection and went on to read: diagnosis only
								res.NoError["first:connect"] = append(res.NoError["first:connect"], code)
							}
							res.note("first:error-text", code, err)
						}
						mu.Unlock()
					}
				}()
			}
			for code := rq.Lo; code <= rq.Hi; code++ {
				jobs <- code
			}
			close(jobs)
			wg.Wait()
		case "session":
			var mu sync.Mutex
			var wg sync.WaitGroup
			jobs := make(chan [2]interface{}, 64)
			for k := 0; k < 8; k++ {
				wg.Add(1)
				go func() {
					defer wg.Done()
					for j := range jobs {
						stage, code := j[0].(string), j[1].(int)
						mu.Lock()
						giveUp := len(res.Wedged["session:"+stage]) >= 4
						mu.Unlock()
						if giveUp {
							continue
						}
						err := sweepSession(stage, code)
						mu.Lock()
						if err == errSweepWedged {
							res.Wedged["session:"+stage] = append(res.Wedged["session:"+stage], code)
						} else {
							res.note("session:"+stage, code, err)
						}
						mu.Unlock()
					}
				}()
			}
			for _, stage := range []string{"gsv", "gsv-errmsg", "spv", "spv-errmsg", "sendfor", "sendfor-errmsg", "shutdown", "shutdown-errmsg"} {
				for _, code := range rq.Codes {
					jobs <- [2]interface{}{stage, code}
				}
			}
			close(jobs)
			wg.Wait()
		}
		b, _ := json.Marshal(res)
		w.Write(b)
		w.WriteString("\n")
		w.Flush()
	}
}
