//go:build verif

package llrp

import (
	"bytes"
	"encoding/hex"
	"encoding/json"
	"fmt"
	"io"
	"net"
	"reflect"
	"strconv"
	"strings"
	"testing"
	"time"
)

// c19Conn is a net.Conn over in-memory buffers (what the peer sent / what the client wrote).
type c19Conn struct {
	r bytes.Reader
	w bytes.Buffer
}

type c19Addr struct{}

func (c19Addr) Network() string { return "mem" }
func (c19Addr) String() string  { return "mem" }

func (c *c19Conn) Read(p []byte) (int, error)       { return c.r.Read(p) }
func (c *c19Conn) Write(p []byte) (int, error)      { return c.w.Write(p) }
func (c *c19Conn) Close() error                     { return nil }
func (c *c19Conn) LocalAddr() net.Addr              { return c19Addr{} }
func (c *c19Conn) RemoteAddr() net.Addr             { return c19Addr{} }
func (c *c19Conn) SetDeadline(time.Time) error      { return nil }
func (c *c19Conn) SetReadDeadline(time.Time) error  { return nil }
func (c *c19Conn) SetWriteDeadline(time.Time) error { return nil }

// c19ChunkConn delivers its data one piece per Read (never more than the rest of the current
// piece, never more than fits), then EOF: the transport fragments the stream.
type c19ChunkConn struct {
	c19Conn
	chunks   [][]byte
	consumed int
}

func (c *c19ChunkConn) Read(p []byte) (int, error) {
	for len(c.chunks) > 0 && len(c.chunks[0]) == 0 {
		c.chunks = c.chunks[1:]
	}
	if len(c.chunks) == 0 {
		return 0, io.EOF
	}
	n := copy(p, c.chunks[0])
	c.chunks[0] = c.chunks[0][n:]
	c.consumed += n
	return n, nil
}

// c19Pats parses "3,2+5,..." into lists of ascending cut positions.
func c19Pats(s string) [][]int {
	var out [][]int
	for _, p := range strings.Split(s, ",") {
		var cuts []int
		for _, f := range strings.Split(p, "+") {
			v, err := strconv.Atoi(f)
			if err != nil {
				panic(err)
			}
			cuts = append(cuts, v)
		}
		out = append(out, cuts)
	}
	return out
}

// c19Pieces cuts buf at the given positions (positions beyond the end give empty pieces).
func c19Pieces(dst [][]byte, buf []byte, cuts []int) [][]byte {
	dst = dst[:0]
	pos := 0
	for _, c := range cuts {
		if c > len(buf) {
			c = len(buf)
		}
		dst = append(dst, buf[pos:c])
		pos = c
	}
	return append(dst, buf[pos:])
}

// c19Fragmented appends, for the stream buf delivered under every cut pattern, the readHeader
// result (with "@<bytes consumed>" if withConsumed); one token if all patterns agree, else all
// of them joined by '/'.
func c19Fragmented(dst []byte, c *Client, conn *c19ChunkConn, buf []byte, pats [][]int, withConsumed bool) []byte {
	var toks [][]byte
	same := true
	var pieces [][]byte
	for _, cuts := range pats {
		pieces = c19Pieces(pieces, buf, cuts)
		conn.chunks = append(conn.chunks[:0], pieces...)
		conn.consumed = 0
		h, err := c.readHeader()
		tok := c19Hdr(nil, h, err)
		if withConsumed {
			tok = append(tok, '@')
			tok = strconv.AppendInt(tok, int64(conn.consumed), 10)
		}
		if len(toks) > 0 && !bytes.Equal(tok, toks[0]) {
			same = false
		}
		toks = append(toks, tok)
	}
	if same && len(toks) > 0 {
		return append(dst, toks[0]...)
	}
	return append(dst, bytes.Join(toks, []byte{'/'})...)
}

// c19Piped does the same over a real net.Pipe and a Client with a read timeout: the peer
// writes the pieces one Write at a time (net.Pipe hands each Write to separate Reads) and then
// closes its end.
func c19Piped(dst []byte, buf []byte, pats [][]int) []byte {
	var toks [][]byte
	same := true
	for _, cuts := range pats {
		peer, cli := net.Pipe()
		c := NewClient(WithTimeout(5 * time.Second))
		c.conn = cli
		pieces := c19Pieces(nil, buf, cuts)
		done := make(chan struct{})
		go func() {
			defer close(done)
			_ = peer.SetWriteDeadline(time.Now().Add(5 * time.Second))
			for _, p := range pieces {
				if len(p) == 0 {
					continue
				}
				if _, err := peer.Write(p); err != nil {
					break
				}
			}
			_ = peer.Close()
		}()
		h, err := c.readHeader()
		_ = cli.Close()
		<-done
		tok := c19Hdr(nil, h, err)
		if len(toks) > 0 && !bytes.Equal(tok, toks[0]) {
			same = false
		}
		toks = append(toks, tok)
	}
	if same && len(toks) > 0 {
		return append(dst, toks[0]...)
	}
	return append(dst, bytes.Join(toks, []byte{'/'})...)
}

func c19Csv(s string) []uint64 {
	var out []uint64
	for _, f := range strings.Split(s, ",") {
		v, err := strconv.ParseUint(f, 10, 64)
		if err != nil {
			panic(err)
		}
		out = append(out, v)
	}
	return out
}

// c19Hdr appends "ver.typ.len.id" (the decoded fields) or "E" (rejected).
func c19Hdr(dst []byte, h Header, err error) []byte {
	if err != nil {
		return append(dst, 'E')
	}
	dst = strconv.AppendUint(dst, uint64(h.version), 10)
	dst = append(dst, '.')
	dst = strconv.AppendUint(dst, uint64(h.typ), 10)
	dst = append(dst, '.')
	dst = strconv.AppendUint(dst, uint64(h.payloadLen), 10)
	dst = append(dst, '.')
	dst = strconv.AppendUint(dst, uint64(h.id), 10)
	return dst
}

// c19Decode runs Header.UnmarshalBinary on buf and Client.readHeader on a connection that
// delivers buf and then EOF; appends "<unmarshal>|<readHeader or '=' when identical>".
func c19Decode(dst []byte, c *Client, conn *c19Conn, buf []byte) []byte {
	var h Header
	err := h.UnmarshalBinary(buf)
	a := c19Hdr(nil, h, err)
	conn.r.Reset(buf)
	h2, err2 := c.readHeader()
	b := c19Hdr(nil, h2, err2)
	dst = append(dst, a...)
	dst = append(dst, '|')
	if bytes.Equal(a, b) {
		return append(dst, '=')
	}
	return append(dst, b...)
}

// request lines (one answer line each; the oracle oracle/c19 answers the same lines):
//
//	dec <w> <len,len,..> <id,id,..>   10-byte headers: first two bytes = w, length field and id
//	                                  from the lists (lengths outer loop); per header
//	                                  "<UnmarshalBinary>|<readHeader>" separated by blanks
//	raw <hex>                         the same for an arbitrary buffer (any length; "-" = empty)
//	enc <ver> <typ> <len,..> <id,..>  Header{version, typ, payloadLen, id}: per header
//	                                  "<MarshalBinary>|<WriteTo>|<writeHeader>" (hex, E = refused,
//	                                  "=" = same as MarshalBinary)
//	frg <w> <len,..> <id,..> <pats>   the dec headers delivered to readHeader in pieces: pats is a
//	                                  list of cut patterns ("3" = bytes [0,3) then [3,10); "2+5" =
//	                                  three pieces); per header the result, once if all patterns
//	                                  agree, else one per pattern joined by '/'
//	rfg <hex> <pats>                  the same for an arbitrary stream, with "@<bytes consumed>"
//	pip <hex> <pats>                  the same over net.Pipe with a read timeout (no "@")
//	tables                            JSON dump of the message-type functions for all codes
func TestVerifC19(t *testing.T) {
	lines, w, done := verifIO(t)
	defer done()
	conn := &c19Conn{}
	c := NewClient()
	c.conn = conn
	chunkConn := &c19ChunkConn{}
	cf := NewClient()
	cf.conn = chunkConn
	var out []byte
	for _, line := range lines {
		f := strings.Fields(line)
		out = out[:0]
		switch f[0] {
		case "dec":
			w16, _ := strconv.ParseUint(f[1], 10, 16)
			lens, ids := c19Csv(f[2]), c19Csv(f[3])
			buf := make([]byte, 10)
			for _, l := range lens {
				for _, id := range ids {
					buf[0], buf[1] = byte(w16>>8), byte(w16)
					buf[2], buf[3], buf[4], buf[5] = byte(l>>24), byte(l>>16), byte(l>>8), byte(l)
					buf[6], buf[7], buf[8], buf[9] = byte(id>>24), byte(id>>16), byte(id>>8), byte(id)
					if len(out) > 0 {
						out = append(out, ' ')
					}
					out = c19Decode(out, c, conn, buf)
				}
			}
		case "frg":
			w16, _ := strconv.ParseUint(f[1], 10, 16)
			lens, ids, pats := c19Csv(f[2]), c19Csv(f[3]), c19Pats(f[4])
			buf := make([]byte, 10)
			for _, l := range lens {
				for _, id := range ids {
					buf[0], buf[1] = byte(w16>>8), byte(w16)
					buf[2], buf[3], buf[4], buf[5] = byte(l>>24), byte(l>>16), byte(l>>8), byte(l)
					buf[6], buf[7], buf[8], buf[9] = byte(id>>24), byte(id>>16), byte(id>>8), byte(id)
					if len(out) > 0 {
						out = append(out, ' ')
					}
					out = c19Fragmented(out, cf, chunkConn, buf, pats, false)
				}
			}
		case "rfg", "pip":
			var buf []byte
			if f[1] != "-" {
				var err error
				if buf, err = hex.DecodeString(f[1]); err != nil {
					t.Fatal(err)
				}
			}
			if f[0] == "rfg" {
				out = c19Fragmented(out, cf, chunkConn, buf, c19Pats(f[2]), true)
			} else {
				out = c19Piped(out, buf, c19Pats(f[2]))
			}
		case "raw":
			var buf []byte
			if f[1] != "-" {
				var err error
				if buf, err = hex.DecodeString(f[1]); err != nil {
					t.Fatal(err)
				}
			}
			out = c19Decode(out, c, conn, buf)
		case "enc":
			ver, _ := strconv.ParseUint(f[1], 10, 8)
			typ, _ := strconv.ParseUint(f[2], 10, 16)
			lens, ids := c19Csv(f[3]), c19Csv(f[4])
			for _, l := range lens {
				for _, id := range ids {
					h := Header{version: VersionNum(ver), typ: MessageType(typ), payloadLen: uint32(l), id: messageID(id)}
					if len(out) > 0 {
						out = append(out, ' ')
					}
					var m string
					if b, err := h.MarshalBinary(); err != nil {
						m = "E"
					} else {
						m = hex.EncodeToString(b)
					}
					out = append(out, m...)
					out = append(out, '|')
					var bb bytes.Buffer
					var wt string
					if n, err := h.WriteTo(&bb); err != nil {
						wt = "E"
						if bb.Len() != 0 {
							wt = "E+" + hex.EncodeToString(bb.Bytes())
						}
					} else {
						wt = hex.EncodeToString(bb.Bytes())
						if n != int64(bb.Len()) {
							wt += fmt.Sprintf("(n=%d)", n)
						}
					}
					if wt == m {
						wt = "="
					}
					out = append(out, wt...)
					out = append(out, '|')
					conn.w.Reset()
					var wh string
					if err := c.writeHeader(h); err != nil {
						wh = "E"
					} else {
						wh = hex.EncodeToString(conn.w.Bytes())
					}
					if wh == m {
						wh = "="
					}
					out = append(out, wh...)
				}
			}
		case "tables":
			out = append(out, c19Tables(t)...)
		default:
			out = append(out, "error: bad request"...)
		}
		w.Write(out)
		w.WriteByte('\n')
	}
}

type c19TablesDump struct {
	Valid    []int    `json:"valid"`    // IsValid(), per code 0..1023
	Conv     [][2]int `json:"conv"`     // Converse(): value, ok
	Inst     []int    `json:"inst"`     // NewInstance(): -1 if nil, else the instance's Type()
	InstName []string `json:"instname"` // dynamic type of the instance ("" if nil)
	Resp     [][]int  `json:"resp"`     // u in 0..1023 with Message{typ:u}.isResponseTo(t) == nil
	Extra    []int    `json:"extra"`    // codes 1024..65535 for which any of the three is non-default
}

func c19Tables(t *testing.T) []byte {
	var d c19TablesDump
	inst := func(mt MessageType) (int, string) {
		v := mt.NewInstance()
		if v == nil {
			return -1, ""
		}
		rv := reflect.ValueOf(v)
		if rv.Kind() == reflect.Ptr && rv.IsNil() {
			return -2, rv.Type().String()
		}
		return int(v.Type()), reflect.TypeOf(v).String()
	}
	for code := 0; code < 1024; code++ {
		mt := MessageType(code)
		b := 0
		if mt.IsValid() {
			b = 1
		}
		d.Valid = append(d.Valid, b)
		cv, ok := mt.Converse()
		okI := 0
		if ok {
			okI = 1
		}
		d.Conv = append(d.Conv, [2]int{int(cv), okI})
		ty, name := inst(mt)
		d.Inst = append(d.Inst, ty)
		d.InstName = append(d.InstName, name)
		resp := []int{}
		for u := 0; u < 1024; u++ {
			m := Message{Header: Header{typ: MessageType(u)}}
			if m.isResponseTo(mt) == nil {
				resp = append(resp, u)
			}
		}
		d.Resp = append(d.Resp, resp)
	}
	d.Extra = []int{}
	for code := 1024; code < 65536; code++ {
		mt := MessageType(code)
		_, ok := mt.Converse()
		if mt.IsValid() || ok || mt.NewInstance() != nil {
			d.Extra = append(d.Extra, code)
		}
	}
	b, err := json.Marshal(d)
	if err != nil {
		t.Fatal(err)
	}
	return b
}
