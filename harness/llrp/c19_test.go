//go:build verif

package llrp

import (
	"bytes"
	"context"
	"encoding/hex"
	"encoding/json"
	"errors"
	"fmt"
	"io"
	"net"
	"os"
	"reflect"
	"runtime"
	"sort"
	"strconv"
	"strings"
	"sync"
	"sync/atomic"
	"testing"
	"time"
)

// c19Conn is a net.Conn over in-memory buffers (what the peer sent / what the client wrote).
type c19Conn struct {
	r bytes.Reader
	w bytes.Buffer
}

type c19Addr struct{}

func (c19Addr) Network() string { return "mem" }
func (c19Addr) String() string  { return "mem" }

func (c *c19Conn) Read(p []byte) (int, error)       { return c.r.Read(p) }
func (c *c19Conn) Write(p []byte) (int, error)      { return c.w.Write(p) }
func (c *c19Conn) Close() error                     { return nil }
func (c *c19Conn) LocalAddr() net.Addr              { return c19Addr{} }
func (c *c19Conn) RemoteAddr() net.Addr             { return c19Addr{} }
func (c *c19Conn) SetDeadline(time.Time) error      { return nil }
func (c *c19Conn) SetReadDeadline(time.Time) error  { return nil }
func (c *c19Conn) SetWriteDeadline(time.Time) error { return nil }

// c19ChunkConn delivers its data one piece per Read (never more than the rest of the current
// piece, never more than fits), then EOF: the transport fragments the stream.
type c19ChunkConn struct {
	c19Conn
	chunks   [][]byte
	consumed int
}

func (c *c19ChunkConn) Read(p []byte) (int, error) {
	for len(c.chunks) > 0 && len(c.chunks[0]) == 0 {
		c.chunks = c.chunks[1:]
	}
	if len(c.chunks) == 0 {
		return 0, io.EOF
	}
	n := copy(p, c.chunks[0])
	c.chunks[0] = c.chunks[0][n:]
	c.consumed += n
	return n, nil
}

// c19Pats parses "3,2+5,..." into lists of ascending cut positions.
func c19Pats(s string) [][]int {
	var out [][]int
	for _, p := range strings.Split(s, ",") {
		var cuts []int
		for _, f := range strings.Split(p, "+") {
			v, err := strconv.Atoi(f)
			if err != nil {
				panic(err)
			}
			cuts = append(cuts, v)
		}
		out = append(out, cuts)
	}
	return out
}

// c19Pieces cuts buf at the given positions (positions beyond the end give empty pieces).
func c19Pieces(dst [][]byte, buf []byte, cuts []int) [][]byte {
	dst = dst[:0]
	pos := 0
	for _, c := range cuts {
		if c > len(buf) {
			c = len(buf)
		}
		dst = append(dst, buf[pos:c])
		pos = c
	}
	return append(dst, buf[pos:])
}

// c19Fragmented appends, for the stream buf delivered under every cut pattern, the readHeader
// result (with "@<bytes consumed>" if withConsumed); one token if all patterns agree, else all
// of them joined by '/'.
func c19Fragmented(dst []byte, c *Client, conn *c19ChunkConn, buf []byte, pats [][]int, withConsumed bool) []byte {
	var toks [][]byte
	same := true
	var pieces [][]byte
	for _, cuts := range pats {
		pieces = c19Pieces(pieces, buf, cuts)
		conn.chunks = append(conn.chunks[:0], pieces...)
		conn.consumed = 0
		h, err := c.readHeader()
		tok := c19Hdr(nil, h, err)
		if withConsumed {
			tok = append(tok, '@')
			tok = strconv.AppendInt(tok, int64(conn.consumed), 10)
		}
		if len(toks) > 0 && !bytes.Equal(tok, toks[0]) {
			same = false
		}
		toks = append(toks, tok)
	}
	if same && len(toks) > 0 {
		return append(dst, toks[0]...)
	}
	return append(dst, bytes.Join(toks, []byte{'/'})...)
}

// c19Piped does the same over a real net.Pipe and a Client with a read timeout: the peer
// writes the pieces one Write at a time (net.Pipe hands each Write to separate Reads) and then
// closes its end.
func c19Piped(dst []byte, buf []byte, pats [][]int) []byte {
	var toks [][]byte
	same := true
	for _, cuts := range pats {
		peer, cli := net.Pipe()
		c := NewClient(WithTimeout(5 * time.Second))
		c.conn = cli
		pieces := c19Pieces(nil, buf, cuts)
		done := make(chan struct{})
		go func() {
			defer close(done)
			_ = peer.SetWriteDeadline(time.Now().Add(5 * time.Second))
			for _, p := range pieces {
				if len(p) == 0 {
					continue
				}
				if _, err := peer.Write(p); err != nil {
					break
				}
			}
			_ = peer.Close()
		}()
		h, err := c.readHeader()
		_ = cli.Close()
		<-done
		tok := c19Hdr(nil, h, err)
		if len(toks) > 0 && !bytes.Equal(tok, toks[0]) {
			same = false
		}
		toks = append(toks, tok)
	}
	if same && len(toks) > 0 {
		return append(dst, toks[0]...)
	}
	return append(dst, bytes.Join(toks, []byte{'/'})...)
}

// ---- batches: every call of the batch is made first and its result kept as returned (slices are
// NOT copied); only after the whole batch the kept results are looked at.

type c19EncSlot struct {
	h, h0  Header // the argument, and a copy taken before any call
	m      []byte // as returned by MarshalBinary, kept
	mErr   error
	wt     bytes.Buffer // the writer given to WriteTo
	wtN    int64
	wtErr  error
	whConn c19Conn // the connection given to writeHeader
	whErr  error
}

func (s *c19EncSlot) marshal() {
	// the caller owns what MarshalBinary returns: one result is overwritten by the caller ...
	if b, err := s.h.MarshalBinary(); err == nil {
		for i := range b {
			b[i] = 0xFF
		}
	}
	// ... and one is kept
	s.m, s.mErr = s.h.MarshalBinary()
}
func (s *c19EncSlot) writeTo() { s.wtN, s.wtErr = s.h.WriteTo(&s.wt) }
func (s *c19EncSlot) writeHeader() {
	cl := NewClient()
	cl.conn = &s.whConn
	s.whErr = cl.writeHeader(s.h)
}

func (s *c19EncSlot) token(dst []byte) []byte {
	m := "E"
	if s.mErr == nil {
		m = hex.EncodeToString(s.m)
	}
	wt := "E"
	if s.wtErr == nil {
		wt = hex.EncodeToString(s.wt.Bytes())
		if s.wtN != int64(s.wt.Len()) {
			wt += fmt.Sprintf("(n=%d)", s.wtN)
		}
	} else if s.wt.Len() != 0 {
		wt = "E+" + hex.EncodeToString(s.wt.Bytes())
	}
	wh := "E"
	if s.whErr == nil {
		wh = hex.EncodeToString(s.whConn.w.Bytes())
	}
	if wt == m {
		wt = "="
	}
	if wh == m {
		wh = "="
	}
	dst = append(dst, m...)
	dst = append(dst, '|')
	dst = append(dst, wt...)
	dst = append(dst, '|')
	dst = append(dst, wh...)
	if s.h != s.h0 {
		dst = append(dst, "!in"...)
	}
	return dst
}

type c19DecSlot struct {
	buf, buf0 []byte // the argument of UnmarshalBinary, and a copy taken before
	h         Header // the decode target, kept
	err       error
	rh        Header // what readHeader returned for a connection delivering the same bytes
	rhErr     error
}

func (s *c19DecSlot) unmarshal() { s.err = s.h.UnmarshalBinary(s.buf) }
func (s *c19DecSlot) read() {
	conn := &c19Conn{}
	conn.r.Reset(append([]byte(nil), s.buf0...))
	cl := NewClient()
	cl.conn = conn
	s.rh, s.rhErr = cl.readHeader()
}

func (s *c19DecSlot) token(dst []byte, inputChanged bool) []byte {
	a := c19Hdr(nil, s.h, s.err)
	b := c19Hdr(nil, s.rh, s.rhErr)
	dst = append(dst, a...)
	dst = append(dst, '|')
	if bytes.Equal(a, b) {
		dst = append(dst, '=')
	} else {
		dst = append(dst, b...)
	}
	if inputChanged {
		dst = append(dst, "!in"...)
	}
	return dst
}

// c19Run runs the per-item operation lists of n items: par 0 = sequentially, operation by
// operation over all items; par 1 = sequentially, item by item; par >= 2 = that many goroutines,
// items dealt round-robin, each goroutine item by item, yielding between operations.
func c19Run(n, par int, ops []func(i int)) {
	switch {
	case par == 0:
		for _, op := range ops {
			for i := 0; i < n; i++ {
				op(i)
			}
		}
	case par == 1:
		for i := 0; i < n; i++ {
			for _, op := range ops {
				op(i)
			}
		}
	default:
		var wg sync.WaitGroup
		start := make(chan struct{})
		for g := 0; g < par; g++ {
			wg.Add(1)
			go func(g int) {
				defer wg.Done()
				<-start
				for i := g; i < n; i += par {
					for _, op := range ops {
						op(i)
						runtime.Gosched()
					}
				}
			}(g)
		}
		close(start)
		wg.Wait()
	}
}

func c19BatchEnc(dst []byte, par int, items string) []byte {
	var slots []*c19EncSlot
	for _, it := range strings.Split(items, ";") {
		v := strings.Split(it, ":")
		ver, _ := strconv.ParseUint(v[0], 10, 8)
		typ, _ := strconv.ParseUint(v[1], 10, 16)
		l, _ := strconv.ParseUint(v[2], 10, 32)
		id, _ := strconv.ParseUint(v[3], 10, 32)
		h := Header{version: VersionNum(ver), typ: MessageType(typ), payloadLen: uint32(l), id: messageID(id)}
		slots = append(slots, &c19EncSlot{h: h, h0: h})
	}
	c19Run(len(slots), par, []func(int){
		func(i int) { slots[i].marshal() },
		func(i int) { slots[i].writeTo() },
		func(i int) { slots[i].writeHeader() },
	})
	for i, s := range slots {
		if i > 0 {
			dst = append(dst, ' ')
		}
		dst = s.token(dst)
	}
	return dst
}

func c19BatchDec(dst []byte, par int, items string) []byte {
	var slots []*c19DecSlot
	for _, it := range strings.Split(items, ";") {
		var b []byte
		if it != "-" {
			b, _ = hex.DecodeString(it)
		}
		slots = append(slots, &c19DecSlot{buf: append([]byte{}, b...), buf0: b})
	}
	if par == 0 {
		// one scratch buffer reused by the caller for every call: targets decoded earlier must
		// not change when the buffer they were decoded from is overwritten
		scratch := make([]byte, 0, 64)
		changed := make([]bool, len(slots))
		for i, s := range slots {
			scratch = append(scratch[:0], s.buf0...)
			s.buf = scratch
			s.unmarshal()
			changed[i] = !bytes.Equal(scratch, s.buf0)
		}
		for _, s := range slots {
			s.read()
		}
		for i, s := range slots {
			if i > 0 {
				dst = append(dst, ' ')
			}
			dst = s.token(dst, changed[i])
		}
		return dst
	}
	c19Run(len(slots), par, []func(int){
		func(i int) { slots[i].unmarshal() },
		func(i int) { slots[i].read() },
	})
	for i, s := range slots {
		if i > 0 {
			dst = append(dst, ' ')
		}
		dst = s.token(dst, !bytes.Equal(s.buf, s.buf0))
	}
	return dst
}

// ---- clients in every connection state.  A real Client is taken through a connection history
// over c19Link (both directions in memory, frames built and parsed here, not by the library) and
// then (stl) offered headers through its read side, or (std) asked to readHeader directly while
// its read side stays parked in Read.

type c19Seen struct {
	h   Header
	ver VersionNum
}

type c19Frame struct {
	ver     uint8
	typ     uint16
	id      uint32
	payload []byte
}

// c19Link is the net.Conn given to Connect, and the record of what the Client did; everything is
// guarded by mu, every change is broadcast on cond.
type c19Link struct {
	mu           sync.Mutex
	cond         *sync.Cond
	in           []byte        // sent by the peer, not yet read by the client
	later        [][]byte      // further pieces of the peer's stream: before each one a Read fails with pauseErr
	pauseErr     error         // (the bytes came later than the read deadline allows)
	eof          bool          // the peer has closed
	waiting      int           // Reads of the client's read side parked for data
	direct       *bytes.Reader // while set, Read calls are served from here (a parked Read stays parked)
	directOut    []byte        // ... and Write calls are collected here
	faults       []c19Fault    // outcomes of the next Write calls (then: everything is taken)
	wire         []byte        // every byte the client wrote outside direct mode
	failDeadline bool          // SetReadDeadline fails
	out          []byte        // written by the client, not yet parsed into frames
	frames       []c19Frame    // complete frames the client wrote
	logs         []c19Seen     // ClientLogger.ReceivedMsg calls
	offered      []Header      // headers of the messages offered to the handler
	started      bool          // Connect has been called
	connDone     bool          // Connect has returned
	ready        bool          // c.ready is closed
	returned     int           // SendMessage / Shutdown calls that have returned
}

func (l *c19Link) Read(p []byte) (int, error) {
	l.mu.Lock()
	defer l.mu.Unlock()
	if l.direct != nil {
		return l.direct.Read(p)
	}
	for len(l.in) == 0 && !l.eof {
		if len(l.later) > 0 {
			l.in, l.later = l.later[0], l.later[1:]
			l.cond.Broadcast()
			return 0, l.pauseErr
		}
		l.waiting++
		l.cond.Broadcast()
		l.cond.Wait()
		l.waiting--
	}
	if len(l.in) == 0 {
		return 0, io.EOF
	}
	n := copy(p, l.in)
	l.in = l.in[n:]
	l.cond.Broadcast()
	return n, nil
}

// c19Fault: a Write call takes at most `take` bytes and returns err.
type c19Fault struct {
	take int
	err  error
}

func (l *c19Link) Write(p []byte) (int, error) {
	l.mu.Lock()
	defer l.mu.Unlock()
	var ferr error
	if len(l.faults) > 0 {
		f := l.faults[0]
		l.faults = l.faults[1:]
		if f.take < len(p) {
			p = p[:f.take]
		}
		ferr = f.err
	}
	if l.direct != nil {
		l.directOut = append(l.directOut, p...)
		return len(p), ferr
	}
	l.wire = append(l.wire, p...)
	if ferr != nil {
		l.cond.Broadcast()
		return len(p), ferr
	}
	l.out = append(l.out, p...)
	for len(l.out) >= 10 {
		n := int(uint32(l.out[2])<<24 | uint32(l.out[3])<<16 | uint32(l.out[4])<<8 | uint32(l.out[5]))
		if n < 10 || len(l.out) < n {
			break
		}
		w := uint16(l.out[0])<<8 | uint16(l.out[1])
		l.frames = append(l.frames, c19Frame{
			ver: uint8(w>>10) & 7, typ: w & 0x3ff,
			id:      uint32(l.out[6])<<24 | uint32(l.out[7])<<16 | uint32(l.out[8])<<8 | uint32(l.out[9]),
			payload: append([]byte(nil), l.out[10:n]...)})
		l.out = l.out[n:]
	}
	l.cond.Broadcast()
	return len(p), nil
}

func (l *c19Link) Close() error                     { return nil }
func (l *c19Link) LocalAddr() net.Addr              { return c19Addr{} }
func (l *c19Link) RemoteAddr() net.Addr             { return c19Addr{} }
func (l *c19Link) SetDeadline(time.Time) error      { return nil }
func (l *c19Link) SetWriteDeadline(time.Time) error { return nil }
func (l *c19Link) SetReadDeadline(time.Time) error {
	l.mu.Lock()
	defer l.mu.Unlock()
	if l.failDeadline {
		return errors.New("deadline not supported")
	}
	return nil
}

// the Client's logger and its handler for every message type
func (l *c19Link) ReceivedMsg(h Header, v VersionNum) {
	l.mu.Lock()
	l.logs = append(l.logs, c19Seen{h, v})
	l.cond.Broadcast()
	l.mu.Unlock()
}
func (l *c19Link) SendingMsg(Header)          {}
func (l *c19Link) MsgHandled(Header)          {}
func (l *c19Link) MsgUnhandled(Header)        {}
func (l *c19Link) HandlerPanic(Header, error) {}
func (l *c19Link) HandleMessage(_ *Client, m Message) {
	l.mu.Lock()
	l.offered = append(l.offered, m.Header)
	l.cond.Broadcast()
	l.mu.Unlock()
}

func (l *c19Link) note(f func()) {
	l.mu.Lock()
	f()
	l.cond.Broadcast()
	l.mu.Unlock()
}

// wait blocks until pred (evaluated under mu) holds; false after d.
func (l *c19Link) wait(d time.Duration, pred func() bool) bool {
	deadline := time.Now().Add(d)
	t := time.AfterFunc(d, func() { l.note(func() {}) })
	defer t.Stop()
	l.mu.Lock()
	defer l.mu.Unlock()
	for !pred() {
		if !time.Now().Before(deadline) {
			return false
		}
		l.cond.Wait()
	}
	return true
}

// parked (under mu): the client's read side sits in Read and has consumed all that was sent
func (l *c19Link) parked() bool {
	return l.waiting > 0 && len(l.in) == 0 && len(l.later) == 0 && !l.eof
}

const c19Patience = 10 * time.Second

// settle waits until the read side is parked or Connect has returned; reports whether a read
// side is there to take the next header.
func (l *c19Link) settle() bool {
	l.mu.Lock()
	started := l.started
	l.mu.Unlock()
	if !started {
		return false
	}
	l.wait(c19Patience, func() bool { return l.parked() || l.connDone })
	l.mu.Lock()
	done, p := l.connDone, l.parked()
	l.mu.Unlock()
	if done && !p {
		// Connect has returned; a read loop it did not wait for would show up parked shortly
		l.wait(2*time.Millisecond, func() bool { return l.parked() })
		l.mu.Lock()
		p = l.parked()
		l.mu.Unlock()
	}
	return p
}

func c19Wire(ver uint8, typ uint16, id uint32, payload []byte) []byte {
	b := make([]byte, 10, 10+len(payload))
	w := uint16(ver&7)<<10 | typ&0x3ff
	n := uint32(10 + len(payload))
	b[0], b[1] = byte(w>>8), byte(w)
	b[2], b[3], b[4], b[5] = byte(n>>24), byte(n>>16), byte(n>>8), byte(n)
	b[6], b[7], b[8], b[9] = byte(id>>24), byte(id>>16), byte(id>>8), byte(id)
	return append(b, payload...)
}

var (
	// ReaderEventNotificationData{UTCTimestamp, ConnectionAttemptEvent{Success}}
	c19ConnEvent = []byte{0x00, 0xF6, 0x00, 0x16, 0x00, 0x80, 0x00, 0x0C, 0, 0, 0, 0, 0, 0, 0, 1, 0x01, 0x00, 0x00, 0x06, 0x00, 0x00}
	c19StatusOK  = []byte{0x01, 0x1F, 0x00, 0x08, 0x00, 0x00, 0x00, 0x00}
	c19StatusVer = []byte{0x01, 0x1F, 0x00, 0x08, 0x00, 110, 0x00, 0x00} // M_UnsupportedVersion
)

type c19Sess struct {
	c      *Client
	l      *c19Link
	cancel context.CancelFunc
	ctx    context.Context
	conn   bool   // Connect was called
	calls  int    // SendMessage / Shutdown calls started
	seen   []byte // tokens of what the read side logged for the history's recv events
}

func (s *c19Sess) send(b []byte) {
	s.l.note(func() { s.l.in = append(s.l.in, b...) })
}

// takeFrame removes the oldest frame the client wrote (waiting for one unless alt holds).
func (s *c19Sess) takeFrame(alt func() bool) (c19Frame, bool) {
	s.l.wait(c19Patience, func() bool { return len(s.l.frames) > 0 || s.l.connDone || (alt != nil && alt()) })
	s.l.mu.Lock()
	defer s.l.mu.Unlock()
	if len(s.l.frames) == 0 {
		return c19Frame{}, false
	}
	f := s.l.frames[0]
	s.l.frames = s.l.frames[1:]
	return f, true
}

// call runs f (a SendMessage or Shutdown) on its own goroutine; *done is set (under mu) on return.
func (s *c19Sess) call(f func()) (done *bool) {
	s.calls++
	done = new(bool)
	go func() {
		f()
		s.l.note(func() { s.l.returned++; *done = true })
	}()
	return done
}

// offer hands one message (header and whatever payload bytes follow it in b) to the read side and
// appends what the read side made of the header: "<logged header>[@<version the client held>]",
// "!h=<header>" appended if the handler was offered a different one, "!nh" if none was offered; "E" if the read side gave up
// without reporting a header; "T" if nothing happened.
func (s *c19Sess) offer(dst []byte, b []byte, withVersion bool) []byte {
	l := s.l
	l.mu.Lock()
	n0, m0 := len(l.logs), len(l.offered)
	l.mu.Unlock()
	s.send(b)
	if !l.wait(c19Patience, func() bool { return len(l.logs) > n0 || l.connDone }) {
		return append(dst, 'T')
	}
	l.mu.Lock()
	if len(l.logs) <= n0 {
		l.mu.Unlock()
		return append(dst, 'E')
	}
	seen := l.logs[n0]
	l.mu.Unlock()
	l.wait(c19Patience, func() bool { return len(l.offered) > m0 || l.connDone || l.parked() })
	dst = c19Hdr(dst, seen.h, nil)
	if withVersion {
		dst = append(dst, '@')
		dst = strconv.AppendUint(dst, uint64(seen.ver), 10)
	}
	l.mu.Lock()
	if len(l.offered) <= m0 {
		dst = append(dst, "!nh"...) // reported, but no handler was given the message
	} else if l.offered[m0] != seen.h {
		dst = append(dst, "!h="...)
		dst = c19Hdr(dst, l.offered[m0], nil)
	}
	l.mu.Unlock()
	return dst
}

// c19Establish makes a client "v<version>[t]" and takes it through the history.
func c19Establish(cfg, hist string) *c19Sess {
	l := &c19Link{}
	l.cond = sync.NewCond(&l.mu)
	timeout := strings.HasSuffix(cfg, "t")
	v, _ := strconv.Atoi(strings.TrimSuffix(cfg[1:], "t"))
	opts := []ClientOpt{WithVersion(VersionNum(v)), WithLogger(l), WithDefaultHandler(l), WithMessageHandler(MsgKeepAlive, l)}
	if timeout {
		opts = append(opts, WithTimeout(time.Hour))
	}
	s := &c19Sess{c: NewClient(opts...), l: l}
	s.c.conn = l
	s.ctx, s.cancel = context.WithCancel(context.Background())
	if hist == "-" {
		return s
	}
	for _, ev := range strings.Split(hist, ",") {
		f := strings.Split(ev, ":")
		switch f[0] {
		case "conn":
			s.conn = true
			l.note(func() { l.started = true })
			go func() {
				_ = s.c.Connect(l)
				l.note(func() { l.connDone = true })
			}()
			go func() {
				<-s.c.ready
				l.note(func() { l.ready = true })
			}()
		case "first":
			if l.settle() {
				s.send(c19Wire(1, 63, 1, c19ConnEvent))
				// a client that negotiates writes GetSupportedVersion next, another is ready
				l.wait(c19Patience, func() bool { return len(l.frames) > 0 || l.ready || l.connDone })
			}
		case "gsv", "gsverr", "spv":
			want := uint16(46)
			if f[0] == "spv" {
				want = 47
			}
			l.mu.Lock()
			pending := len(l.frames) > 0 && l.frames[0].typ == want
			l.mu.Unlock()
			if !pending {
				break
			}
			rq, _ := s.takeFrame(nil)
			switch f[0] {
			case "gsv":
				cur, _ := strconv.Atoi(f[1])
				mx, _ := strconv.Atoi(f[2])
				s.send(c19Wire(rq.ver, 56, rq.id, append([]byte{byte(cur) << 5, byte(mx) << 5}, c19StatusOK...)))
			case "gsverr":
				s.send(c19Wire(rq.ver, 100, rq.id, c19StatusVer))
			case "spv":
				s.send(c19Wire(rq.ver, 57, rq.id, c19StatusOK))
			}
			l.wait(c19Patience, func() bool { return len(l.frames) > 0 || l.ready || l.connDone })
		case "xchg":
			done := s.call(func() { _, _, _ = s.c.SendMessage(s.ctx, MsgGetReaderCapabilities, nil) })
			if rq, ok := s.takeFrame(func() bool { return *done }); ok {
				s.send(c19Wire(rq.ver, 11, rq.id, c19StatusOK))
				l.wait(c19Patience, func() bool { return *done || l.connDone })
			}
		case "req":
			done := s.call(func() { _, _, _ = s.c.SendMessage(s.ctx, MsgGetReaderConfig, nil) })
			s.takeFrame(func() bool { return *done })
		case "sentclose":
			done := s.call(func() { _ = s.c.Shutdown(s.ctx) })
			s.takeFrame(func() bool { return *done })
		case "close":
			_ = s.c.Close()
		case "fail":
			if l.settle() {
				s.send([]byte{0x04, 0x3f, 0, 0, 0, 0, 0, 0, 0, 0})
				l.wait(c19Patience, func() bool { return l.connDone })
			}
		case "eof":
			if l.settle() {
				l.note(func() { l.eof = true })
				l.wait(c19Patience, func() bool { return l.connDone })
			}
		case "recv":
			if l.settle() {
				b, _ := hex.DecodeString(f[1])
				if len(s.seen) > 0 {
					s.seen = append(s.seen, ',')
				}
				s.seen = s.offer(s.seen, b, false)
			}
		}
		// the next event meets a client whose read side has taken everything sent so far
		l.settle()
	}
	return s
}

// end closes the client and the connection and waits for Connect and the calls to return.
func (s *c19Sess) end() {
	s.cancel()
	_ = s.c.Close()
	s.l.note(func() { s.l.eof = true; s.l.direct = nil })
	if s.conn {
		s.l.wait(c19Patience, func() bool { return s.l.connDone && s.l.returned >= s.calls })
	}
}

// c19StateLive: "stl <cfg> <hist> <hex;hex;..>"
func c19StateLive(dst []byte, cfg, hist, items string) []byte {
	s := c19Establish(cfg, hist)
	defer func() { s.end() }()
	dst = append(dst, "h="...)
	dst = append(dst, s.seen...)
	fresh := true
	for _, it := range strings.Split(items, ";") {
		b, _ := hex.DecodeString(it)
		if !fresh {
			// the previous message may have ended the read side, or left it inside a payload
			s.end()
			s = c19Establish(cfg, hist)
		}
		dst = append(dst, ' ')
		if !s.l.settle() {
			dst = append(dst, '-') // nothing reads the connection in this state
			continue
		}
		dst = s.offer(dst, b, true)
		declared := uint64(0)
		if len(b) >= 6 {
			declared = uint64(b[2])<<24 | uint64(b[3])<<16 | uint64(b[4])<<8 | uint64(b[5])
		}
		fresh = declared == uint64(len(b)) && s.l.settle()
	}
	return dst
}

// c19StateDirect: "std <cfg> <hist> <dl> <wlo> <whi> <lens> <ids>"
func c19StateDirect(dst []byte, f []string) []byte {
	s := c19Establish(f[1], f[2])
	defer s.end()
	s.l.settle()
	wlo, _ := strconv.Atoi(f[4])
	whi, _ := strconv.Atoi(f[5])
	lens, ids := c19Csv(f[6]), c19Csv(f[7])
	rd := bytes.NewReader(nil)
	s.l.note(func() { s.l.direct = rd; s.l.failDeadline = f[3] != "1" })
	dst = append(dst, 'v')
	dst = strconv.AppendUint(dst, uint64(s.c.curVersion()), 10)
	dst = append(dst, 'c')
	dst = strconv.AppendUint(dst, uint64(atomic.LoadUint32(&s.c.isClosed)), 10)
	buf := make([]byte, 10)
	for w16 := wlo; w16 <= whi; w16++ {
		for _, l := range lens {
			for _, id := range ids {
				buf[0], buf[1] = byte(w16>>8), byte(w16)
				buf[2], buf[3], buf[4], buf[5] = byte(l>>24), byte(l>>16), byte(l>>8), byte(l)
				buf[6], buf[7], buf[8], buf[9] = byte(id>>24), byte(id>>16), byte(id>>8), byte(id)
				s.l.mu.Lock()
				rd.Reset(buf)
				s.l.mu.Unlock()
				h, err := s.c.readHeader()
				dst = append(dst, ' ')
				dst = c19Hdr(dst, h, err)
			}
		}
	}
	s.l.note(func() { s.l.direct = nil; s.l.failDeadline = false })
	return dst
}

// c19StateWrite: "stw <cfg> <hist> <ver> <tlo> <thi> <lens> <ids>"
func c19StateWrite(dst []byte, f []string) []byte {
	s := c19Establish(f[1], f[2])
	defer s.end()
	s.l.settle()
	ver, _ := strconv.Atoi(f[3])
	tlo, _ := strconv.Atoi(f[4])
	thi, _ := strconv.Atoi(f[5])
	lens, ids := c19Csv(f[6]), c19Csv(f[7])
	s.l.note(func() { s.l.direct = bytes.NewReader(nil) })
	for typ := tlo; typ <= thi; typ++ {
		for _, l := range lens {
			for _, id := range ids {
				s.l.mu.Lock()
				s.l.directOut = s.l.directOut[:0]
				s.l.mu.Unlock()
				err := s.c.writeHeader(Header{version: VersionNum(ver), typ: MessageType(typ), payloadLen: uint32(l), id: messageID(id)})
				if len(dst) > 0 {
					dst = append(dst, ' ')
				}
				if err != nil {
					dst = append(dst, 'E')
					continue
				}
				s.l.mu.Lock()
				dst = append(dst, hex.EncodeToString(s.l.directOut)...)
				s.l.mu.Unlock()
			}
		}
	}
	s.l.note(func() { s.l.direct = nil })
	return dst
}

// ---- every way a caller can put a message type on the connection (snd), and connections that fail
// inside the header (wfl)

type c19Out struct {
	typ MessageType
	n   int
}

func (o c19Out) MarshalBinary() ([]byte, error) { return make([]byte, o.n), nil }
func (o c19Out) Type() MessageType              { return o.typ }

type c19In struct{}

func (c19In) UnmarshalBinary([]byte) error { return nil }
func (c19In) Type() MessageType            { return MsgErrorMessage }

// c19Build constructs a message of plen zero bytes the way api says; refused = it panicked or
// returned an error.
func c19Build(api string, typ MessageType, plen int) (m Message, refused bool) {
	defer func() {
		if recover() != nil {
			refused = true
		}
	}()
	var err error
	switch api {
	case "new":
		if plen == 0 {
			m = newMessage(nil, 0, typ)
		} else {
			m = newMessage(bytes.NewReader(make([]byte, plen)), uint32(plen), typ)
		}
	case "hdr":
		m = NewHdrOnlyMsg(typ)
	default: // byt
		m, err = NewByteMessage(typ, make([]byte, plen))
	}
	return m, err != nil
}

func c19Types(spec string) []int {
	var out []int
	for _, part := range strings.Split(spec, ",") {
		lo, hi, isRange := strings.Cut(part, "-")
		a, _ := strconv.Atoi(lo)
		b := a
		if isRange {
			b, _ = strconv.Atoi(hi)
		}
		for t := a; t <= b; t++ {
			out = append(out, t)
		}
	}
	return out
}

// c19StateSend: "snd <cfg> <hist> <api> <plen> <types>": on one client in that state, for every type
// in turn a message of that type with plen zero payload bytes through api (new|hdr|byt: the
// constructor, then SendNoWait; msg: SendMessage; for: SendFor, the peer answering whatever reaches
// it).  Per type "R" (refused: panic or error; "R+<hex>" if bytes went out nevertheless) or the
// bytes the peer received for it (hex).
func c19StateSend(dst []byte, f []string) []byte {
	s := c19Establish(f[1], f[2])
	defer s.end()
	s.l.settle()
	api := f[3]
	plen, _ := strconv.Atoi(f[4])
	l := s.l
	stuck := false // nothing takes messages any more: the remaining types are not tried ("T")
	for i, t := range c19Types(f[5]) {
		typ := MessageType(t)
		if i > 0 {
			dst = append(dst, ' ')
		}
		if stuck {
			dst = append(dst, 'T')
			continue
		}
		l.note(func() { l.wire = l.wire[:0]; l.frames = l.frames[:0] })
		need := 10 + plen
		refused := false
		switch api {
		case "new", "hdr", "byt":
			var m Message
			if m, refused = c19Build(api, typ, plen); !refused {
				ctx, cancel := context.WithTimeout(s.ctx, c19Patience)
				err := s.c.SendNoWait(ctx, m)
				cancel()
				refused = err != nil
				stuck = errors.Is(err, context.DeadlineExceeded)
			}
			if !refused {
				stuck = !l.wait(c19Patience, func() bool { return len(l.wire) >= need || l.connDone })
			}
		default:
			var panicked bool
			done := s.call(func() {
				defer func() {
					if recover() != nil {
						panicked = true
					}
				}()
				ctx, cancel := context.WithTimeout(s.ctx, c19Patience)
				defer cancel()
				if api == "msg" {
					_, _, _ = s.c.SendMessage(ctx, typ, make([]byte, plen))
				} else {
					_ = s.c.SendFor(ctx, c19Out{typ, plen}, c19In{})
				}
			})
			stuck = !l.wait(c19Patience, func() bool { return *done || len(l.wire) >= need || l.connDone })
			l.mu.Lock()
			got := len(l.wire) >= need
			var id uint32
			if got {
				id = uint32(l.wire[6])<<24 | uint32(l.wire[7])<<16 | uint32(l.wire[8])<<8 | uint32(l.wire[9])
			}
			l.mu.Unlock()
			if got {
				s.send(c19Wire(1, 100, id, c19StatusOK)) // releases the caller
			}
			l.wait(c19Patience, func() bool { return *done || l.connDone })
			refused = !got
			_ = panicked
		}
		if stuck {
			dst = append(dst, 'T')
			continue
		}
		l.mu.Lock()
		if refused {
			dst = append(dst, 'R')
			if len(l.wire) > 0 {
				dst = append(dst, '+')
			}
		}
		if !refused || len(l.wire) > 0 {
			dst = append(dst, hex.EncodeToString(l.wire)...)
		}
		l.mu.Unlock()
	}
	return dst
}

func c19WriteErr(kind string) (error, bool) {
	switch kind {
	case "t":
		return os.ErrDeadlineExceeded, true
	case "n":
		return &net.OpError{Op: "write", Net: "mem", Err: os.ErrDeadlineExceeded}, true
	case "p":
		return &net.OpError{Op: "write", Net: "mem", Err: errors.New("broken pipe")}, false
	default:
		return io.ErrClosedPipe, false
	}
}

// c19StateWriteFault: "wfl <cfg> <hist> <via> <k> <kind> <then> <ver:typ:len:id;..>": the connection's
// next Write takes k bytes and fails (kind t|n: a deadline error, o|p: another; k "-": no fault);
// then = a: later Writes are accepted, f: they fail too.  via d: writeHeader called directly with
// that Header; via q: a message of that type and length (zero bytes) through SendNoWait and the
// write loop, followed by a marker message - a fresh client per header.  Per header
// "<ok|E>:<bytes the peer received>" (ok = success reported / the write loop carried on), "R" refused.
func c19StateWriteFault(dst []byte, f []string) []byte {
	via, then := f[3], f[6]
	install := func(l *c19Link) {
		if f[4] == "-" {
			return
		}
		k, _ := strconv.Atoi(f[4])
		err, _ := c19WriteErr(f[5])
		fs := []c19Fault{{k, err}}
		if then == "f" {
			for i := 0; i < 8; i++ {
				fs = append(fs, c19Fault{0, err})
			}
		}
		l.note(func() { l.faults = fs })
	}
	var s *c19Sess
	defer func() {
		if s != nil {
			s.end()
		}
	}()
	for i, it := range strings.Split(f[7], ";") {
		if i > 0 {
			dst = append(dst, ' ')
		}
		v := strings.Split(it, ":")
		ver, _ := strconv.ParseUint(v[0], 10, 8)
		typ, _ := strconv.ParseUint(v[1], 10, 16)
		ln, _ := strconv.ParseUint(v[2], 10, 32)
		id, _ := strconv.ParseUint(v[3], 10, 32)
		if s == nil || via == "q" {
			if s != nil {
				s.end()
			}
			s = c19Establish(f[1], f[2])
			s.l.settle()
		}
		l := s.l
		if via == "d" {
			l.note(func() { l.direct = bytes.NewReader(nil); l.directOut = l.directOut[:0] })
			install(l)
			err := s.c.writeHeader(Header{version: VersionNum(ver), typ: MessageType(typ), payloadLen: uint32(ln), id: messageID(id)})
			l.mu.Lock()
			if err != nil {
				dst = append(dst, "E:"...)
			} else {
				dst = append(dst, "ok:"...)
			}
			dst = append(dst, hex.EncodeToString(l.directOut)...)
			l.direct, l.faults = nil, nil
			l.mu.Unlock()
			continue
		}
		m, refused := c19Build("new", MessageType(typ), int(ln))
		if refused {
			dst = append(dst, 'R')
			continue
		}
		l.note(func() { l.wire = l.wire[:0] })
		install(l)
		ctx, cancel := context.WithTimeout(s.ctx, c19Patience)
		if s.c.SendNoWait(ctx, m) != nil {
			cancel()
			dst = append(dst, 'R')
			continue
		}
		// the marker leaves the write loop only after everything of the message before it
		const markerID = 0xC19FACED
		mk := NewHdrOnlyMsg(MsgKeepAliveAck)
		mk.id = markerID
		marked := func() bool {
			n := len(l.wire)
			return n >= 10 && l.wire[n-4] == 0xC1 && l.wire[n-3] == 0x9F && l.wire[n-2] == 0xAC && l.wire[n-1] == 0xED
		}
		// ... or is refused because the write loop has ended (Connect then waits for the read
		// side, which nobody ends before the session does)
		var mkErr error
		mkDone := s.call(func() { mkErr = s.c.SendNoWait(ctx, mk) })
		l.wait(c19Patience, func() bool { return l.connDone || marked() || (*mkDone && mkErr != nil) })
		cancel()
		l.mu.Lock()
		if marked() {
			dst = append(dst, "ok:"...)
			dst = append(dst, hex.EncodeToString(l.wire[:len(l.wire)-10])...)
		} else {
			dst = append(dst, "E:"...)
			dst = append(dst, hex.EncodeToString(l.wire)...)
		}
		l.faults = nil
		l.mu.Unlock()
	}
	return dst
}

// c19StatePaused: "rpz <cfg> <hist> <kind> <hex/hex/..>": the peer's stream (whole frames back to back)
// reaches the client in these pieces, and between consecutive pieces a Read fails with a deadline
// error (kind t: os.ErrDeadlineExceeded, n: wrapped in a net.OpError) - the bytes came later than
// the read deadline allows.  Answer: the headers the read side reported (ReceivedMsg) from then on,
// comma separated, "-" if none; "!o=<headers>" appended if the handlers were offered headers that
// are not, in order, among the reported ones.
func c19StatePaused(dst []byte, f []string) []byte {
	s := c19Establish(f[1], f[2])
	defer s.end()
	l := s.l
	if !l.settle() {
		return append(dst, '-')
	}
	var pieces [][]byte
	for _, h := range strings.Split(f[4], "/") {
		b, _ := hex.DecodeString(h)
		pieces = append(pieces, b)
	}
	perr, _ := c19WriteErr(f[3])
	if op, ok := perr.(*net.OpError); ok {
		op.Op = "read"
	}
	l.mu.Lock()
	n0, m0 := len(l.logs), len(l.offered)
	l.pauseErr = perr
	l.in = append(l.in, pieces[0]...)
	l.later = pieces[1:]
	l.cond.Broadcast()
	l.mu.Unlock()
	// until the read side has taken everything and waits for more, or Connect has returned
	l.wait(c19Patience, func() bool { return l.parked() || l.connDone })
	l.mu.Lock()
	defer l.mu.Unlock()
	logs, offered := l.logs[n0:], l.offered[m0:]
	if len(logs) == 0 {
		dst = append(dst, '-')
	}
	for i, x := range logs {
		if i > 0 {
			dst = append(dst, ',')
		}
		dst = c19Hdr(dst, x.h, nil)
	}
	j := 0
	for _, h := range offered {
		for j < len(logs) && logs[j].h != h {
			j++
		}
		if j == len(logs) {
			dst = append(dst, "!o="...)
			for i, o := range offered {
				if i > 0 {
					dst = append(dst, ',')
				}
				dst = c19Hdr(dst, o, nil)
			}
			break
		}
		j++
	}
	return dst
}

// ---- writers shared between goroutines (mwr)

type c19OutFill struct {
	typ  MessageType
	n    int
	fill byte
}

func (o c19OutFill) MarshalBinary() ([]byte, error) {
	b := make([]byte, o.n)
	for i := range b {
		b[i] = o.fill
	}
	return b, nil
}
func (o c19OutFill) Type() MessageType { return o.typ }

// c19Sink is the io.Writer under a shared writer: it serialises its own calls (so that the bytes
// stay inspectable whatever the writer above does) and yields inside each call.
type c19Sink struct {
	mu  sync.Mutex
	buf []byte
}

func (k *c19Sink) Write(p []byte) (int, error) {
	k.mu.Lock()
	k.buf = append(k.buf, p...)
	k.mu.Unlock()
	runtime.Gosched()
	return len(p), nil
}

// c19SharedWriter: "mwr <via> <par> <ver> typ:len:id:fill;..": the calls are dealt round-robin to par
// goroutines that all write through ONE writer - via w: msgWriter.Write(id, out) over a c19Sink;
// via c: SendNoWait(message with that id) on one connected Client (version ver) - and the byte stream
// that came out is cut into frames by the length fields.  Answer: the frames sorted by id (stable),
// each "<header hex>:<ok|bad>" (bad = a payload byte is not the fill byte announced for that id, or
// the id was not written), "!rest=<hex>" if the stream does not end on a frame boundary, "!err=<n>"
// calls that returned an error.
func c19SharedWriter(dst []byte, f []string) []byte {
	via := f[1]
	par, _ := strconv.Atoi(f[2])
	ver, _ := strconv.Atoi(f[3])
	type item struct {
		typ, n int
		id     uint32
		fill   byte
	}
	var items []item
	fillOf := map[uint32]byte{}
	for _, it := range strings.Split(f[4], ";") {
		v := strings.Split(it, ":")
		t, _ := strconv.Atoi(v[0])
		n, _ := strconv.Atoi(v[1])
		id, _ := strconv.ParseUint(v[2], 10, 32)
		fl, _ := strconv.Atoi(v[3])
		items = append(items, item{t, n, uint32(id), byte(fl)})
		fillOf[uint32(id)] = byte(fl)
	}
	var stream []byte
	var errs int32
	if via == "w" {
		sink := &c19Sink{}
		mw := newMsgWriter(sink, VersionNum(ver))
		c19Run(len(items), par, []func(int){func(i int) {
			it := items[i]
			if mw.Write(messageID(it.id), c19OutFill{MessageType(it.typ), it.n, it.fill}) != nil {
				atomic.AddInt32(&errs, 1)
			}
		}})
		stream = sink.buf
	} else {
		hist := "conn,first"
		if ver > 1 {
			hist = "conn,first,gsv:1:2,spv"
		}
		s := c19Establish("v"+strconv.Itoa(ver), hist)
		defer s.end()
		s.l.settle()
		s.l.note(func() { s.l.wire = s.l.wire[:0] })
		want := 0
		c19Run(len(items), par, []func(int){func(i int) {
			it := items[i]
			m, refused := c19Build("new", MessageType(it.typ), 0)
			if it.n > 0 && !refused {
				data, _ := c19OutFill{MessageType(it.typ), it.n, it.fill}.MarshalBinary()
				var err error
				m, err = NewByteMessage(MessageType(it.typ), data)
				refused = err != nil
			}
			if !refused {
				m.id = messageID(it.id)
				ctx, cancel := context.WithTimeout(s.ctx, c19Patience)
				refused = s.c.SendNoWait(ctx, m) != nil
				cancel()
			}
			if refused {
				atomic.AddInt32(&errs, 1)
			} else {
				s.l.note(func() { want += 10 + it.n })
			}
		}})
		s.l.wait(c19Patience, func() bool { return len(s.l.wire) >= want || s.l.connDone })
		s.l.mu.Lock()
		stream = append([]byte(nil), s.l.wire...)
		s.l.mu.Unlock()
	}
	type frame struct {
		id  uint32
		tok string
	}
	var frames []frame
	pos := 0
	for pos+10 <= len(stream) {
		n := int(uint32(stream[pos+2])<<24 | uint32(stream[pos+3])<<16 | uint32(stream[pos+4])<<8 | uint32(stream[pos+5]))
		if n < 10 || pos+n > len(stream) {
			break
		}
		id := uint32(stream[pos+6])<<24 | uint32(stream[pos+7])<<16 | uint32(stream[pos+8])<<8 | uint32(stream[pos+9])
		fill, known := fillOf[id]
		ok := known
		for _, b := range stream[pos+10 : pos+n] {
			if b != fill {
				ok = false
			}
		}
		tok := hex.EncodeToString(stream[pos:pos+10]) + ":ok"
		if !ok {
			tok = hex.EncodeToString(stream[pos:pos+10]) + ":bad"
		}
		frames = append(frames, frame{id, tok})
		pos += n
	}
	sort.SliceStable(frames, func(a, b int) bool { return frames[a].id < frames[b].id })
	for i, fr := range frames {
		if i > 0 {
			dst = append(dst, ' ')
		}
		dst = append(dst, fr.tok...)
	}
	if len(frames) == 0 {
		dst = append(dst, '-')
	}
	if pos < len(stream) {
		dst = append(dst, " !rest="...)
		dst = append(dst, hex.EncodeToString(stream[pos:])...)
	}
	if errs > 0 {
		dst = append(dst, " !err="...)
		dst = strconv.AppendInt(dst, int64(errs), 10)
	}
	return dst
}

func c19Csv(s string) []uint64 {
	var out []uint64
	for _, f := range strings.Split(s, ",") {
		v, err := strconv.ParseUint(f, 10, 64)
		if err != nil {
			panic(err)
		}
		out = append(out, v)
	}
	return out
}

// c19Hdr appends "ver.typ.len.id" (the decoded fields) or "E" (rejected).
func c19Hdr(dst []byte, h Header, err error) []byte {
	if err != nil {
		return append(dst, 'E')
	}
	dst = strconv.AppendUint(dst, uint64(h.version), 10)
	dst = append(dst, '.')
	dst = strconv.AppendUint(dst, uint64(h.typ), 10)
	dst = append(dst, '.')
	dst = strconv.AppendUint(dst, uint64(h.payloadLen), 10)
	dst = append(dst, '.')
	dst = strconv.AppendUint(dst, uint64(h.id), 10)
	return dst
}

// c19Decode runs Header.UnmarshalBinary on buf and Client.readHeader on a connection that
// delivers buf and then EOF; appends "<unmarshal>|<readHeader or '=' when identical>".
func c19Decode(dst []byte, c *Client, conn *c19Conn, buf []byte) []byte {
	var h Header
	err := h.UnmarshalBinary(buf)
	a := c19Hdr(nil, h, err)
	conn.r.Reset(buf)
	h2, err2 := c.readHeader()
	b := c19Hdr(nil, h2, err2)
	dst = append(dst, a...)
	dst = append(dst, '|')
	if bytes.Equal(a, b) {
		return append(dst, '=')
	}
	return append(dst, b...)
}

// request lines (one answer line each; the oracle oracle/c19 answers the same lines):
//
//	dec <w> <len,len,..> <id,id,..>   10-byte headers: first two bytes = w, length field and id
//	                                  from the lists (lengths outer loop); per header
//	                                  "<UnmarshalBinary>|<readHeader>" separated by blanks
//	raw <hex>                         the same for an arbitrary buffer (any length; "-" = empty)
//	enc <ver> <typ> <len,..> <id,..>  Header{version, typ, payloadLen, id}: per header
//	                                  "<MarshalBinary>|<WriteTo>|<writeHeader>" (hex, E = refused,
//	                                  "=" = same as MarshalBinary)
//	frg <w> <len,..> <id,..> <pats>   the dec headers delivered to readHeader in pieces: pats is a
//	                                  list of cut patterns ("3" = bytes [0,3) then [3,10); "2+5" =
//	                                  three pieces); per header the result, once if all patterns
//	                                  agree, else one per pattern joined by '/'
//	rfg <hex> <pats>                  the same for an arbitrary stream, with "@<bytes consumed>"
//	pip <hex> <pats>                  the same over net.Pipe with a read timeout (no "@")
//	bat enc <par> v:t:l:i;...         a batch of headers: all MarshalBinary / WriteTo / writeHeader
//	                                  calls are made first (par 0: call by call over all items,
//	                                  1: item by item, >=2: that many goroutines) and what they
//	                                  returned is kept, not copied; then one enc-style token per
//	                                  item from the kept results ("!in" if the argument changed)
//	bat dec <par> hex;hex;...         the same for UnmarshalBinary / readHeader (par 0: the caller
//	                                  reuses one buffer for all calls); raw-style tokens
//	stl <cfg> <hist> <hex;hex;..>     a Client ("v<version>[t]", t = with a timeout) is taken through the
//	                                  connection history hist over an in-memory connection ("-" or
//	                                  conn,first,gsv:<cur>:<max>,gsverr,spv,xchg,req,sentclose,close,fail,
//	                                  eof,recv:<hex>), then each message is handed to its read side (a
//	                                  fresh client in the same state whenever the previous message ended
//	                                  the read side): "h=<headers logged for the recv events>" then per
//	                                  message "<header logged>@<version held>[!h=<header the handler got>]",
//	                                  E = read side gave up, - = nothing reads in this state
//	std <cfg> <hist> <dl> <wlo> <whi> <lens> <ids>   the same client, its read side parked in Read:
//	                                  "v<version held>c<isClosed>" then readHeader called directly for every
//	                                  first-two-bytes value in [wlo,whi] x lens x ids (dl 0: the
//	                                  connection refuses read deadlines)
//	stw <cfg> <hist> <ver> <tlo> <thi> <lens> <ids>  the same client: writeHeader called directly for
//	                                  Header{ver, typ in [tlo,thi], payloadLen, id}; the bytes written (hex)
//	snd <cfg> <hist> <api> <plen> <types>   see c19StateSend
//	wfl <cfg> <hist> <via> <k> <kind> <then> <v:t:l:i;..>   see c19StateWriteFault
//	rpz <cfg> <hist> <kind> <hex/hex/..>   see c19StatePaused
//	mwr <via> <par> <ver> t:l:id:fill;..   see c19SharedWriter
//	tables                            JSON dump of the message-type functions for all codes
func TestVerifC19(t *testing.T) {
	lines, w, done := verifIO(t)
	defer done()
	conn := &c19Conn{}
	c := NewClient()
	c.conn = conn
	chunkConn := &c19ChunkConn{}
	cf := NewClient()
	cf.conn = chunkConn
	var out []byte
	for _, line := range lines {
		f := strings.Fields(line)
		out = out[:0]
		switch f[0] {
		case "dec":
			w16, _ := strconv.ParseUint(f[1], 10, 16)
			lens, ids := c19Csv(f[2]), c19Csv(f[3])
			buf := make([]byte, 10)
			for _, l := range lens {
				for _, id := range ids {
					buf[0], buf[1] = byte(w16>>8), byte(w16)
					buf[2], buf[3], buf[4], buf[5] = byte(l>>24), byte(l>>16), byte(l>>8), byte(l)
					buf[6], buf[7], buf[8], buf[9] = byte(id>>24), byte(id>>16), byte(id>>8), byte(id)
					if len(out) > 0 {
						out = append(out, ' ')
					}
					out = c19Decode(out, c, conn, buf)
				}
			}
		case "frg":
			w16, _ := strconv.ParseUint(f[1], 10, 16)
			lens, ids, pats := c19Csv(f[2]), c19Csv(f[3]), c19Pats(f[4])
			buf := make([]byte, 10)
			for _, l := range lens {
				for _, id := range ids {
					buf[0], buf[1] = byte(w16>>8), byte(w16)
					buf[2], buf[3], buf[4], buf[5] = byte(l>>24), byte(l>>16), byte(l>>8), byte(l)
					buf[6], buf[7], buf[8], buf[9] = byte(id>>24), byte(id>>16), byte(id>>8), byte(id)
					if len(out) > 0 {
						out = append(out, ' ')
					}
					out = c19Fragmented(out, cf, chunkConn, buf, pats, false)
				}
			}
		case "rfg", "pip":
			var buf []byte
			if f[1] != "-" {
				var err error
				if buf, err = hex.DecodeString(f[1]); err != nil {
					t.Fatal(err)
				}
			}
			if f[0] == "rfg" {
				out = c19Fragmented(out, cf, chunkConn, buf, c19Pats(f[2]), true)
			} else {
				out = c19Piped(out, buf, c19Pats(f[2]))
			}
		case "bat":
			par, _ := strconv.Atoi(f[2])
			if f[1] == "enc" {
				out = c19BatchEnc(out, par, f[3])
			} else {
				out = c19BatchDec(out, par, f[3])
			}
		case "raw":
			var buf []byte
			if f[1] != "-" {
				var err error
				if buf, err = hex.DecodeString(f[1]); err != nil {
					t.Fatal(err)
				}
			}
			out = c19Decode(out, c, conn, buf)
		case "enc":
			ver, _ := strconv.ParseUint(f[1], 10, 8)
			typ, _ := strconv.ParseUint(f[2], 10, 16)
			lens, ids := c19Csv(f[3]), c19Csv(f[4])
			for _, l := range lens {
				for _, id := range ids {
					h := Header{version: VersionNum(ver), typ: MessageType(typ), payloadLen: uint32(l), id: messageID(id)}
					if len(out) > 0 {
						out = append(out, ' ')
					}
					var m string
					if b, err := h.MarshalBinary(); err != nil {
						m = "E"
					} else {
						m = hex.EncodeToString(b)
					}
					out = append(out, m...)
					out = append(out, '|')
					var bb bytes.Buffer
					var wt string
					if n, err := h.WriteTo(&bb); err != nil {
						wt = "E"
						if bb.Len() != 0 {
							wt = "E+" + hex.EncodeToString(bb.Bytes())
						}
					} else {
						wt = hex.EncodeToString(bb.Bytes())
						if n != int64(bb.Len()) {
							wt += fmt.Sprintf("(n=%d)", n)
						}
					}
					if wt == m {
						wt = "="
					}
					out = append(out, wt...)
					out = append(out, '|')
					conn.w.Reset()
					var wh string
					if err := c.writeHeader(h); err != nil {
						wh = "E"
					} else {
						wh = hex.EncodeToString(conn.w.Bytes())
					}
					if wh == m {
						wh = "="
					}
					out = append(out, wh...)
				}
			}
		case "stl":
			out = c19StateLive(out, f[1], f[2], f[3])
		case "std":
			out = c19StateDirect(out, f)
		case "stw":
			out = c19StateWrite(out, f)
		case "snd":
			out = c19StateSend(out, f)
		case "wfl":
			out = c19StateWriteFault(out, f)
		case "rpz":
			out = c19StatePaused(out, f)
		case "mwr":
			out = c19SharedWriter(out, f)
		case "tables":
			out = append(out, c19Tables(t)...)
		default:
			out = append(out, "error: bad request"...)
		}
		w.Write(out)
		w.WriteByte('\n')
	}
}

type c19TablesDump struct {
	Valid    []int    `json:"valid"`    // IsValid(), per code 0..1023
	Conv     [][2]int `json:"conv"`     // Converse(): value, ok
	Inst     []int    `json:"inst"`     // NewInstance(): -1 if nil, else the instance's Type()
	InstName []string `json:"instname"` // dynamic type of the instance ("" if nil)
	Resp     [][]int  `json:"resp"`     // u in 0..1023 with Message{typ:u}.isResponseTo(t) == nil
	Extra    []int    `json:"extra"`    // codes 1024..65535 for which any of the three is non-default
}

func c19Tables(t *testing.T) []byte {
	var d c19TablesDump
	inst := func(mt MessageType) (int, string) {
		v := mt.NewInstance()
		if v == nil {
			return -1, ""
		}
		rv := reflect.ValueOf(v)
		if rv.Kind() == reflect.Ptr && rv.IsNil() {
			return -2, rv.Type().String()
		}
		return int(v.Type()), reflect.TypeOf(v).String()
	}
	for code := 0; code < 1024; code++ {
		mt := MessageType(code)
		b := 0
		if mt.IsValid() {
			b = 1
		}
		d.Valid = append(d.Valid, b)
		cv, ok := mt.Converse()
		okI := 0
		if ok {
			okI = 1
		}
		d.Conv = append(d.Conv, [2]int{int(cv), okI})
		ty, name := inst(mt)
		d.Inst = append(d.Inst, ty)
		d.InstName = append(d.InstName, name)
		resp := []int{}
		for u := 0; u < 1024; u++ {
			m := Message{Header: Header{typ: MessageType(u)}}
			if m.isResponseTo(mt) == nil {
				resp = append(resp, u)
			}
		}
		d.Resp = append(d.Resp, resp)
	}
	d.Extra = []int{}
	for code := 1024; code < 65536; code++ {
		mt := MessageType(code)
		_, ok := mt.Converse()
		if mt.IsValid() || ok || mt.NewInstance() != nil {
			d.Extra = append(d.Extra, code)
		}
	}
	b, err := json.Marshal(d)
	if err != nil {
		t.Fatal(err)
	}
	return b
}
