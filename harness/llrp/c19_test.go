//go:build verif

package llrp

import (
	"bytes"
	"encoding/hex"
	"encoding/json"
	"fmt"
	"io"
	"net"
	"reflect"
	"runtime"
	"strconv"
	"strings"
	"sync"
	"testing"
	"time"
)

// c19Conn is a net.Conn over in-memory buffers (what the peer sent / what the client wrote).
type c19Conn struct {
	r bytes.Reader
	w bytes.Buffer
}

type c19Addr struct{}

func (c19Addr) Network() string { return "mem" }
func (c19Addr) String() string  { return "mem" }

func (c *c19Conn) Read(p []byte) (int, error)       { return c.r.Read(p) }
func (c *c19Conn) Write(p []byte) (int, error)      { return c.w.Write(p) }
func (c *c19Conn) Close() error                     { return nil }
func (c *c19Conn) LocalAddr() net.Addr              { return c19Addr{} }
func (c *c19Conn) RemoteAddr() net.Addr             { return c19Addr{} }
func (c *c19Conn) SetDeadline(time.Time) error      { return nil }
func (c *c19Conn) SetReadDeadline(time.Time) error  { return nil }
func (c *c19Conn) SetWriteDeadline(time.Time) error { return nil }

// c19ChunkConn delivers its data one piece per Read (never more than the rest of the current
// piece, never more than fits), then EOF: the transport fragments the stream.
type c19ChunkConn struct {
	c19Conn
	chunks   [][]byte
	consumed int
}

func (c *c19ChunkConn) Read(p []byte) (int, error) {
	for len(c.chunks) > 0 && len(c.chunks[0]) == 0 {
		c.chunks = c.chunks[1:]
	}
	if len(c.chunks) == 0 {
		return 0, io.EOF
	}
	n := copy(p, c.chunks[0])
	c.chunks[0] = c.chunks[0][n:]
	c.consumed += n
	return n, nil
}

// c19Pats parses "3,2+5,..." into lists of ascending cut positions.
func c19Pats(s string) [][]int {
	var out [][]int
	for _, p := range strings.Split(s, ",") {
		var cuts []int
		for _, f := range strings.Split(p, "+") {
			v, err := strconv.Atoi(f)
			if err != nil {
				panic(err)
			}
			cuts = append(cuts, v)
		}
		out = append(out, cuts)
	}
	return out
}

// c19Pieces cuts buf at the given positions (positions beyond the end give empty pieces).
func c19Pieces(dst [][]byte, buf []byte, cuts []int) [][]byte {
	dst = dst[:0]
	pos := 0
	for _, c := range cuts {
		if c > len(buf) {
			c = len(buf)
		}
		dst = append(dst, buf[pos:c])
		pos = c
	}
	return append(dst, buf[pos:])
}

// c19Fragmented appends, for the stream buf delivered under every cut pattern, the readHeader
// result (with "@<bytes consumed>" if withConsumed); one token if all patterns agree, else all
// of them joined by '/'.
func c19Fragmented(dst []byte, c *Client, conn *c19ChunkConn, buf []byte, pats [][]int, withConsumed bool) []byte {
	var toks [][]byte
	same := true
	var pieces [][]byte
	for _, cuts := range pats {
		pieces = c19Pieces(pieces, buf, cuts)
		conn.chunks = append(conn.chunks[:0], pieces...)
		conn.consumed = 0
		h, err := c.readHeader()
		tok := c19Hdr(nil, h, err)
		if withConsumed {
			tok = append(tok, '@')
			tok = strconv.AppendInt(tok, int64(conn.consumed), 10)
		}
		if len(toks) > 0 && !bytes.Equal(tok, toks[0]) {
			same = false
		}
		toks = append(toks, tok)
	}
	if same && len(toks) > 0 {
		return append(dst, toks[0]...)
	}
	return append(dst, bytes.Join(toks, []byte{'/'})...)
}

// c19Piped does the same over a real net.Pipe and a Client with a read timeout: the peer
// writes the pieces one Write at a time (net.Pipe hands each Write to separate Reads) and then
// closes its end.
func c19Piped(dst []byte, buf []byte, pats [][]int) []byte {
	var toks [][]byte
	same := true
	for _, cuts := range pats {
		peer, cli := net.Pipe()
		c := NewClient(WithTimeout(5 * time.Second))
		c.conn = cli
		pieces := c19Pieces(nil, buf, cuts)
		done := make(chan struct{})
		go func() {
			defer close(done)
			_ = peer.SetWriteDeadline(time.Now().Add(5 * time.Second))
			for _, p := range pieces {
				if len(p) == 0 {
					continue
				}
				if _, err := peer.Write(p); err != nil {
					break
				}
			}
			_ = peer.Close()
		}()
		h, err := c.readHeader()
		_ = cli.Close()
		<-done
		tok := c19Hdr(nil, h, err)
		if len(toks) > 0 && !bytes.Equal(tok, toks[0]) {
			same = false
		}
		toks = append(toks, tok)
	}
	if same && len(toks) > 0 {
		return append(dst, toks[0]...)
	}
	return append(dst, bytes.Join(toks, []byte{'/'})...)
}

// ---- batches: every call of the batch is made first and its result kept as returned (slices are
// NOT copied); only after the whole batch the kept results are looked at.

type c19EncSlot struct {
	h, h0  Header // the argument, and a copy taken before any call
	m      []byte // as returned by MarshalBinary, kept
	mErr   error
	wt     bytes.Buffer // the writer given to WriteTo
	wtN    int64
	wtErr  error
	whConn c19Conn // the connection given to writeHeader
	whErr  error
}

func (s *c19EncSlot) marshal() {
	// the caller owns what MarshalBinary returns: one result is overwritten by the caller ...
	if b, err := s.h.MarshalBinary(); err == nil {
		for i := range b {
			b[i] = 0xFF
		}
	}
	// ... and one is kept
	s.m, s.mErr = s.h.MarshalBinary()
}
func (s *c19EncSlot) writeTo() { s.wtN, s.wtErr = s.h.WriteTo(&s.wt) }
func (s *c19EncSlot) writeHeader() {
	cl := NewClient()
	cl.conn = &s.whConn
	s.whErr = cl.writeHeader(s.h)
}

func (s *c19EncSlot) token(dst []byte) []byte {
	m := "E"
	if s.mErr == nil {
		m = hex.EncodeToString(s.m)
	}
	wt := "E"
	if s.wtErr == nil {
		wt = hex.EncodeToString(s.wt.Bytes())
		if s.wtN != int64(s.wt.Len()) {
			wt += fmt.Sprintf("(n=%d)", s.wtN)
		}
	} else if s.wt.Len() != 0 {
		wt = "E+" + hex.EncodeToString(s.wt.Bytes())
	}
	wh := "E"
	if s.whErr == nil {
		wh = hex.EncodeToString(s.whConn.w.Bytes())
	}
	if wt == m {
		wt = "="
	}
	if wh == m {
		wh = "="
	}
	dst = append(dst, m...)
	dst = append(dst, '|')
	dst = append(dst, wt...)
	dst = append(dst, '|')
	dst = append(dst, wh...)
	if s.h != s.h0 {
		dst = append(dst, "!in"...)
	}
	return dst
}

type c19DecSlot struct {
	buf, buf0 []byte // the argument of UnmarshalBinary, and a copy taken before
	h         Header // the decode target, kept
	err       error
	rh        Header // what readHeader returned for a connection delivering the same bytes
	rhErr     error
}

func (s *c19DecSlot) unmarshal() { s.err = s.h.UnmarshalBinary(s.buf) }
func (s *c19DecSlot) read() {
	conn := &c19Conn{}
	conn.r.Reset(append([]byte(nil), s.buf0...))
	cl := NewClient()
	cl.conn = conn
	s.rh, s.rhErr = cl.readHeader()
}

func (s *c19DecSlot) token(dst []byte, inputChanged bool) []byte {
	a := c19Hdr(nil, s.h, s.err)
	b := c19Hdr(nil, s.rh, s.rhErr)
	dst = append(dst, a...)
	dst = append(dst, '|')
	if bytes.Equal(a, b) {
		dst = append(dst, '=')
	} else {
		dst = append(dst, b...)
	}
	if inputChanged {
		dst = append(dst, "!in"...)
	}
	return dst
}

// c19Run runs the per-item operation lists of n items: par 0 = sequentially, operation by
// operation over all items; par 1 = sequentially, item by item; par >= 2 = that many goroutines,
// items dealt round-robin, each goroutine item by item, yielding between operations.
func c19Run(n, par int, ops []func(i int)) {
	switch {
	case par == 0:
		for _, op := range ops {
			for i := 0; i < n; i++ {
				op(i)
			}
		}
	case par == 1:
		for i := 0; i < n; i++ {
			for _, op := range ops {
				op(i)
			}
		}
	default:
		var wg sync.WaitGroup
		start := make(chan struct{})
		for g := 0; g < par; g++ {
			wg.Add(1)
			go func(g int) {
				defer wg.Done()
				<-start
				for i := g; i < n; i += par {
					for _, op := range ops {
						op(i)
						runtime.Gosched()
					}
				}
			}(g)
		}
		close(start)
		wg.Wait()
	}
}

func c19BatchEnc(dst []byte, par int, items string) []byte {
	var slots []*c19EncSlot
	for _, it := range strings.Split(items, ";") {
		v := strings.Split(it, ":")
		ver, _ := strconv.ParseUint(v[0], 10, 8)
		typ, _ := strconv.ParseUint(v[1], 10, 16)
		l, _ := strconv.ParseUint(v[2], 10, 32)
		id, _ := strconv.ParseUint(v[3], 10, 32)
		h := Header{version: VersionNum(ver), typ: MessageType(typ), payloadLen: uint32(l), id: messageID(id)}
		slots = append(slots, &c19EncSlot{h: h, h0: h})
	}
	c19Run(len(slots), par, []func(int){
		func(i int) { slots[i].marshal() },
		func(i int) { slots[i].writeTo() },
		func(i int) { slots[i].writeHeader() },
	})
	for i, s := range slots {
		if i > 0 {
			dst = append(dst, ' ')
		}
		dst = s.token(dst)
	}
	return dst
}

func c19BatchDec(dst []byte, par int, items string) []byte {
	var slots []*c19DecSlot
	for _, it := range strings.Split(items, ";") {
		var b []byte
		if it != "-" {
			b, _ = hex.DecodeString(it)
		}
		slots = append(slots, &c19DecSlot{buf: append([]byte{}, b...), buf0: b})
	}
	if par == 0 {
		// one scratch buffer reused by the caller for every call: targets decoded earlier must
		// not change when the buffer they were decoded from is overwritten
		scratch := make([]byte, 0, 64)
		changed := make([]bool, len(slots))
		for i, s := range slots {
			scratch = append(scratch[:0], s.buf0...)
			s.buf = scratch
			s.unmarshal()
			changed[i] = !bytes.Equal(scratch, s.buf0)
		}
		for _, s := range slots {
			s.read()
		}
		for i, s := range slots {
			if i > 0 {
				dst = append(dst, ' ')
			}
			dst = s.token(dst, changed[i])
		}
		return dst
	}
	c19Run(len(slots), par, []func(int){
		func(i int) { slots[i].unmarshal() },
		func(i int) { slots[i].read() },
	})
	for i, s := range slots {
		if i > 0 {
			dst = append(dst, ' ')
		}
		dst = s.token(dst, !bytes.Equal(s.buf, s.buf0))
	}
	return dst
}

func c19Csv(s string) []uint64 {
	var out []uint64
	for _, f := range strings.Split(s, ",") {
		v, err := strconv.ParseUint(f, 10, 64)
		if err != nil {
			panic(err)
		}
		out = append(out, v)
	}
	return out
}

// c19Hdr appends "ver.typ.len.id" (the decoded fields) or "E" (rejected).
func c19Hdr(dst []byte, h Header, err error) []byte {
	if err != nil {
		return append(dst, 'E')
	}
	dst = strconv.AppendUint(dst, uint64(h.version), 10)
	dst = append(dst, '.')
	dst = strconv.AppendUint(dst, uint64(h.typ), 10)
	dst = append(dst, '.')
	dst = strconv.AppendUint(dst, uint64(h.payloadLen), 10)
	dst = append(dst, '.')
	dst = strconv.AppendUint(dst, uint64(h.id), 10)
	return dst
}

// c19Decode runs Header.UnmarshalBinary on buf and Client.readHeader on a connection that
// delivers buf and then EOF; appends "<unmarshal>|<readHeader or '=' when identical>".
func c19Decode(dst []byte, c *Client, conn *c19Conn, buf []byte) []byte {
	var h Header
	err := h.UnmarshalBinary(buf)
	a := c19Hdr(nil, h, err)
	conn.r.Reset(buf)
	h2, err2 := c.readHeader()
	b := c19Hdr(nil, h2, err2)
	dst = append(dst, a...)
	dst = append(dst, '|')
	if bytes.Equal(a, b) {
		return append(dst, '=')
	}
	return append(dst, b...)
}

// request lines (one answer line each; the oracle oracle/c19 answers the same lines):
//
//	dec <w> <len,len,..> <id,id,..>   10-byte headers: first two bytes = w, length field and id
//	                                  from the lists (lengths outer loop); per header
//	                                  "<UnmarshalBinary>|<readHeader>" separated by blanks
//	raw <hex>                         the same for an arbitrary buffer (any length; "-" = empty)
//	enc <ver> <typ> <len,..> <id,..>  Header{version, typ, payloadLen, id}: per header
//	                                  "<MarshalBinary>|<WriteTo>|<writeHeader>" (hex, E = refused,
//	                                  "=" = same as MarshalBinary)
//	frg <w> <len,..> <id,..> <pats>   the dec headers delivered to readHeader in pieces: pats is a
//	                                  list of cut patterns ("3" = bytes [0,3) then [3,10); "2+5" =
//	                                  three pieces); per header the result, once if all patterns
//	                                  agree, else one per pattern joined by '/'
//	rfg <hex> <pats>                  the same for an arbitrary stream, with "@<bytes consumed>"
//	pip <hex> <pats>                  the same over net.Pipe with a read timeout (no "@")
//	bat enc <par> v:t:l:i;...         a batch of headers: all MarshalBinary / WriteTo / writeHeader
//	                                  calls are made first (par 0: call by call over all items,
//	                                  1: item by item, >=2: that many goroutines) and what they
//	                                  returned is kept, not copied; then one enc-style token per
//	                                  item from the kept results ("!in" if the argument changed)
//	bat dec <par> hex;hex;...         the same for UnmarshalBinary / readHeader (par 0: the caller
//	                                  reuses one buffer for all calls); raw-style tokens
//	tables                            JSON dump of the message-type functions for all codes
func TestVerifC19(t *testing.T) {
	lines, w, done := verifIO(t)
	defer done()
	conn := &c19Conn{}
	c := NewClient()
	c.conn = conn
	chunkConn := &c19ChunkConn{}
	cf := NewClient()
	cf.conn = chunkConn
	var out []byte
	for _, line := range lines {
		f := strings.Fields(line)
		out = out[:0]
		switch f[0] {
		case "dec":
			w16, _ := strconv.ParseUint(f[1], 10, 16)
			lens, ids := c19Csv(f[2]), c19Csv(f[3])
			buf := make([]byte, 10)
			for _, l := range lens {
				for _, id := range ids {
					buf[0], buf[1] = byte(w16>>8), byte(w16)
					buf[2], buf[3], buf[4], buf[5] = byte(l>>24), byte(l>>16), byte(l>>8), byte(l)
					buf[6], buf[7], buf[8], buf[9] = byte(id>>24), byte(id>>16), byte(id>>8), byte(id)
					if len(out) > 0 {
						out = append(out, ' ')
					}
					out = c19Decode(out, c, conn, buf)
				}
			}
		case "frg":
			w16, _ := strconv.ParseUint(f[1], 10, 16)
			lens, ids, pats := c19Csv(f[2]), c19Csv(f[3]), c19Pats(f[4])
			buf := make([]byte, 10)
			for _, l := range lens {
				for _, id := range ids {
					buf[0], buf[1] = byte(w16>>8), byte(w16)
					buf[2], buf[3], buf[4], buf[5] = byte(l>>24), byte(l>>16), byte(l>>8), byte(l)
					buf[6], buf[7], buf[8], buf[9] = byte(id>>24), byte(id>>16), byte(id>>8), byte(id)
					if len(out) > 0 {
						out = append(out, ' ')
					}
					out = c19Fragmented(out, cf, chunkConn, buf, pats, false)
				}
			}
		case "rfg", "pip":
			var buf []byte
			if f[1] != "-" {
				var err error
				if buf, err = hex.DecodeString(f[1]); err != nil {
					t.Fatal(err)
				}
			}
			if f[0] == "rfg" {
				out = c19Fragmented(out, cf, chunkConn, buf, c19Pats(f[2]), true)
			} else {
				out = c19Piped(out, buf, c19Pats(f[2]))
			}
		case "bat":
			par, _ := strconv.Atoi(f[2])
			if f[1] == "enc" {
				out = c19BatchEnc(out, par, f[3])
			} else {
				out = c19BatchDec(out, par, f[3])
			}
		case "raw":
			var buf []byte
			if f[1] != "-" {
				var err error
				if buf, err = hex.DecodeString(f[1]); err != nil {
					t.Fatal(err)
				}
			}
			out = c19Decode(out, c, conn, buf)
		case "enc":
			ver, _ := strconv.ParseUint(f[1], 10, 8)
			typ, _ := strconv.ParseUint(f[2], 10, 16)
			lens, ids := c19Csv(f[3]), c19Csv(f[4])
			for _, l := range lens {
				for _, id := range ids {
					h := Header{version: VersionNum(ver), typ: MessageType(typ), payloadLen: uint32(l), id: messageID(id)}
					if len(out) > 0 {
						out = append(out, ' ')
					}
					var m string
					if b, err := h.MarshalBinary(); err != nil {
						m = "E"
					} else {
						m = hex.EncodeToString(b)
					}
					out = append(out, m...)
					out = append(out, '|')
					var bb bytes.Buffer
					var wt string
					if n, err := h.WriteTo(&bb); err != nil {
						wt = "E"
						if bb.Len() != 0 {
							wt = "E+" + hex.EncodeToString(bb.Bytes())
						}
					} else {
						wt = hex.EncodeToString(bb.Bytes())
						if n != int64(bb.Len()) {
							wt += fmt.Sprintf("(n=%d)", n)
						}
					}
					if wt == m {
						wt = "="
					}
					out = append(out, wt...)
					out = append(out, '|')
					conn.w.Reset()
					var wh string
					if err := c.writeHeader(h); err != nil {
						wh = "E"
					} else {
						wh = hex.EncodeToString(conn.w.Bytes())
					}
					if wh == m {
						wh = "="
					}
					out = append(out, wh...)
				}
			}
		case "tables":
			out = append(out, c19Tables(t)...)
		default:
			out = append(out, "error: bad request"...)
		}
		w.Write(out)
		w.WriteByte('\n')
	}
}

type c19TablesDump struct {
	Valid    []int    `json:"valid"`    // IsValid(), per code 0..1023
	Conv     [][2]int `json:"conv"`     // Converse(): value, ok
	Inst     []int    `json:"inst"`     // NewInstance(): -1 if nil, else the instance's Type()
	InstName []string `json:"instname"` // dynamic type of the instance ("" if nil)
	Resp     [][]int  `json:"resp"`     // u in 0..1023 with Message{typ:u}.isResponseTo(t) == nil
	Extra    []int    `json:"extra"`    // codes 1024..65535 for which any of the three is non-default
}

func c19Tables(t *testing.T) []byte {
	var d c19TablesDump
	inst := func(mt MessageType) (int, string) {
		v := mt.NewInstance()
		if v == nil {
			return -1, ""
		}
		rv := reflect.ValueOf(v)
		if rv.Kind() == reflect.Ptr && rv.IsNil() {
			return -2, rv.Type().String()
		}
		return int(v.Type()), reflect.TypeOf(v).String()
	}
	for code := 0; code < 1024; code++ {
		mt := MessageType(code)
		b := 0
		if mt.IsValid() {
			b = 1
		}
		d.Valid = append(d.Valid, b)
		cv, ok := mt.Converse()
		okI := 0
		if ok {
			okI = 1
		}
		d.Conv = append(d.Conv, [2]int{int(cv), okI})
		ty, name := inst(mt)
		d.Inst = append(d.Inst, ty)
		d.InstName = append(d.InstName, name)
		resp := []int{}
		for u := 0; u < 1024; u++ {
			m := Message{Header: Header{typ: MessageType(u)}}
			if m.isResponseTo(mt) == nil {
				resp = append(resp, u)
			}
		}
		d.Resp = append(d.Resp, resp)
	}
	d.Extra = []int{}
	for code := 1024; code < 65536; code++ {
		mt := MessageType(code)
		_, ok := mt.Converse()
		if mt.IsValid() || ok || mt.NewInstance() != nil {
			d.Extra = append(d.Extra, code)
		}
	}
	b, err := json.Marshal(d)
	if err != nil {
		t.Fatal(err)
	}
	return b
}
