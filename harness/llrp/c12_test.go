//go:build verif

package llrp

// C12 harness: drives the real Client.SendFor against a scripted peer on net.Pipe.
// The peer frames messages and builds LLRPStatus / FieldError / ParameterError TLV bytes with
// its own code (nothing of the library's codec is used on the peer side).
//
// requests (one per line):
//   types
//   x <exp> <act> <code> <desc> <fe> <pe> <mode>
//   r <exp> <act> <lo> <hi> <desc> <fe> <pe> <mode>      (one answer line per code in [lo,hi))
//   u <exp> <pre> <code> <desc> <fe> <pe> <mode>         (the peer first sends a reader-initiated frame of
//        type <pre> (61/62/63) carrying the request's id and a status-shaped payload with code 777, then the
//        real reply of type <exp> with the given status)
// desc: "-" or hex; fe: "-" or idx.code; pe: "-" or comma-joined levels ptype.code[.idx.fcode];
// mode: z = response value passed to SendFor is the zero value, s = pre-filled with a sentinel; optionally followed by
//   order flags P (top-level ParameterError before FieldError) and I (likewise inside every ParameterError).
//   c <perm> <gomaxprocs> <n> then n x (<exp> <act> <code> <desc> <fe> <pe> <mode>): n SendFor calls in flight on one
//        Client (TCP loopback); the peer collects the n requests and writes the n replies in ONE write, in the order
//        given by the digits of <perm>; the answer line holds the n answers separated by " | ".
//   a flag V<d> (d = 0..7) stamps the scripted reply's header with LLRP version d (default: 1) — the version a reply
//        carries in its header is independent of the version negotiated for the connection
//   nv <n>   rebuilds the session with another negotiated version: 1 = WithVersion(1.0.1), no negotiation;
//        2 = default client, reader already at 1.1; 3 = default client, reader at 1.0.1 / max 1.1, SET_PROTOCOL_VERSION -> 1.1;
//        4 = default client, reader answers the version query with ERROR_MESSAGE VersionUnsupported -> 1.0.1
//   y <exp> <act> <hex|-> <mode>   the reply's payload is given verbatim (undecodable replies)
//   limit                          answers MaxBufferedPayloadSz
//   L <exp> <code> <desc> <fe> <pe> <mode> <total>   a reply of the expected type whose payload is exactly <total> bytes: the LLRPStatus
//        followed by Custom parameters (1023) as padding (exp = a response type that ends in a list of Custom parameters)
//   k <exp> <act> <code> <desc> <fe> <pe> <mode> <cut> <eof|reset|deadline>   the awaited reply does not arrive completely: the frame's
//        header announces the whole payload, <cut> bytes of it are sent, then the connection ends (orderly close / TCP reset / the
//        reader goes silent and the Client's read deadline passes). A fresh connection per request.
//   h [F] <step>...   one exchange history on one Client (F: on a fresh connection) (see c12History): S:<k>:<exp>:<mode> start caller k;
//        N:<k>:<typ> message k is sent with SendNoWait (nobody awaits an answer; the reader may answer it all the same: R …:k<k>:…);
//        A:<k> caller k's context is cancelled (the request stays unanswered); R:<ver>:<typ>:<idspec>:<layout>:<code>:<desc>:<fe>:<pe>:<flags|->
//        the reader sends a frame (idspec k<n> = the id of caller n's request, f<n> = an id no request ever carried,
//        m<n> = the largest id used so far plus n, z0 = id 0, which only the session's warm-up exchange carried);
//        answer: one answer per caller, in caller order, separated by " | " (cls `abandoned` = the context's error after A)
// answer: <cls> <code> <desc> <fe> <pe> <same|changed> <in_code> <in_desc> <in_fe> <in_pe>
//   cls = nil | status | other | timeout | panic | skipped (see c12BrokenBudget)

import (
	"bufio"
	"context"
	"encoding/hex"
	"errors"
	"fmt"
	"hash/fnv"
	"io"
	"net"
	"reflect"
	"runtime"
	"strconv"
	"strings"
	"sync"
	"testing"
	"time"
)

type c12Level struct {
	ptype, code uint16
	hasFE       bool
	fidx, fcode uint16
}

type c12Reply struct {
	typ     uint16
	payload []byte
	pre     *c12Reply // frame sent before the reply, with the same id
	verp1   int       // header version + 1; 0 = the peer's default
}

// c12VerOf: the header version requested by a V<d> flag, plus one (0 = none requested)
func c12VerOf(flags string) int {
	if i := strings.IndexByte(flags, 'V'); i >= 0 && i+1 < len(flags) && flags[i+1] >= '0' && flags[i+1] <= '7' {
		return int(flags[i+1]-'0') + 1
	}
	return 0
}

func c12be16(v uint16) []byte { return []byte{byte(v >> 8), byte(v)} }

// TLV parameter: 6 reserved zero bits + 10-bit type, 16-bit total length, body
func c12tlv(typ uint16, body []byte) []byte {
	n := 4 + len(body)
	out := make([]byte, 0, n)
	out = append(out, byte(typ>>8)&3, byte(typ), byte(n>>8), byte(n))
	return append(out, body...)
}

func c12feTLV(idx, code uint16) []byte {
	return c12tlv(288, append(c12be16(idx), c12be16(code)...))
}

// ParameterError (289): ParameterType u16, ErrorCode u16, then the optional FieldError and nested
// ParameterError — FieldError first (LLRP layout) or, with peFirst, ParameterError first (the order of the Go
// struct); the generated decoder accepts the two optional sub-parameters in either order.
func c12peTLV(levels []c12Level, peFirst bool) []byte {
	var inner []byte
	for k := len(levels) - 1; k >= 0; k-- {
		l := levels[k]
		body := append(c12be16(l.ptype), c12be16(l.code)...)
		if peFirst {
			body = append(body, inner...)
		}
		if l.hasFE {
			body = append(body, c12feTLV(l.fidx, l.fcode)...)
		}
		if !peFirst {
			body = append(body, inner...)
		}
		inner = c12tlv(289, body)
	}
	return inner
}

// LLRPStatus (287): StatusCode u16, ErrorDescription (u16 byte count + bytes), FieldError?, ParameterError?
// order flags (letters after the first character of the request's mode token):
//
//	P = at the top level the ParameterError precedes the FieldError; I = the same inside every ParameterError
func c12statusTLV(code uint16, desc []byte, fe *c12Level, pe []c12Level, flags string) []byte {
	body := append(c12be16(code), c12be16(uint16(len(desc)))...)
	body = append(body, desc...)
	peFirst := strings.Contains(flags, "P")
	if peFirst && len(pe) > 0 {
		body = append(body, c12peTLV(pe, strings.Contains(flags, "I"))...)
	}
	if fe != nil {
		body = append(body, c12feTLV(fe.fidx, fe.fcode)...)
	}
	if !peFirst && len(pe) > 0 {
		body = append(body, c12peTLV(pe, strings.Contains(flags, "I"))...)
	}
	return c12tlv(287, body)
}

// 10-byte message header: 3 reserved bits, 3-bit version, 10-bit type; u32 total length; u32 id
func c12frame(typ uint16, id uint32, payload []byte) []byte { return c12frameV(1, typ, id, payload) }

func c12frameV(ver byte, typ uint16, id uint32, payload []byte) []byte {
	n := uint32(10 + len(payload))
	out := make([]byte, 0, n)
	out = append(out, (ver&7)<<2|byte(typ>>8)&3, byte(typ),
		byte(n>>24), byte(n>>16), byte(n>>8), byte(n),
		byte(id>>24), byte(id>>16), byte(id>>8), byte(id))
	return append(out, payload...)
}

type c12Session struct {
	client   *Client
	cconn    net.Conn
	pconn    net.Conn
	script   chan c12Reply
	peerDone chan struct{}
	connDone chan struct{}
}

// client configuration: which MessageHandlers are registered (reply correlation must not depend on it)
//
//	none | exp (a handler for every status-bearing response type) | err (MsgErrorMessage) | def (WithDefaultHandler) | all
var c12Cfg = "none"

// negotiated version of the sessions (request `nv`): see the header comment
var c12NV = 1

func c12ClientOpts(cfg string) []ClientOpt {
	opts := []ClientOpt{WithLogger(nil)}
	h := MessageHandlerFunc(func(c *Client, msg Message) { // a handler that consumes the message, as a real one would
		_, _ = io.Copy(io.Discard, msg.payload)
	})
	if cfg == "exp" || cfg == "all" {
		for mt := MessageType(0); mt < 1024; mt++ {
			if inst := mt.NewInstance(); inst != nil && mt != MsgErrorMessage {
				if _, ok := inst.(Statusable); ok {
					opts = append(opts, WithMessageHandler(mt, h))
				}
			}
		}
	}
	if cfg == "err" || cfg == "all" {
		opts = append(opts, WithMessageHandler(MsgErrorMessage, h))
	}
	if cfg == "def" || cfg == "all" {
		opts = append(opts, WithDefaultHandler(h))
	}
	return opts
}

func c12NewSession() *c12Session {
	s := &c12Session{script: make(chan c12Reply, 4), peerDone: make(chan struct{}), connDone: make(chan struct{})}
	s.cconn, s.pconn = net.Pipe()
	opts := c12ClientOpts(c12Cfg)
	ok := c12statusTLV(0, nil, nil, nil, "")
	switch c12NV {
	case 2:
		s.script <- c12Reply{typ: 56, payload: append([]byte{2 << 5, 2 << 5}, ok...), verp1: 3}
	case 3:
		s.script <- c12Reply{typ: 56, payload: append([]byte{1 << 5, 2 << 5}, ok...), verp1: 3}
		s.script <- c12Reply{typ: 57, payload: ok, verp1: 3}
	case 4:
		s.script <- c12Reply{typ: 100, payload: c12statusTLV(110, []byte("no such message"), nil, nil, ""), verp1: 2}
	default:
		opts = append(opts, WithVersion(Version1_0_1))
	}
	s.client = NewClient(opts...)
	go s.peer()
	go func() {
		defer close(s.connDone)
		_ = s.client.Connect(s.cconn)
	}()
	return s
}

func (s *c12Session) peer() {
	defer close(s.peerDone)
	// ReaderEventNotification{ReaderEventNotificationData(246){UTCTimestamp(128), ConnectionAttemptEvent(256)=Success}}
	ts := c12tlv(128, []byte{0, 0, 0, 0, 0, 0, 0, 1})
	cae := c12tlv(256, []byte{0, 0})
	ren := c12tlv(246, append(ts, cae...))
	if _, err := s.pconn.Write(c12frame(63, 0, ren)); err != nil {
		return
	}
	hdr := make([]byte, 10)
	for {
		if _, err := io.ReadFull(s.pconn, hdr); err != nil {
			return
		}
		typ := uint16(hdr[0]&3)<<8 | uint16(hdr[1])
		total := uint32(hdr[2])<<24 | uint32(hdr[3])<<16 | uint32(hdr[4])<<8 | uint32(hdr[5])
		id := uint32(hdr[6])<<24 | uint32(hdr[7])<<16 | uint32(hdr[8])<<8 | uint32(hdr[9])
		if total < 10 {
			return
		}
		if total > 10 {
			if _, err := io.CopyN(io.Discard, s.pconn, int64(total-10)); err != nil {
				return
			}
		}
		if typ == 72 { // KeepAliveAck provoked by a scripted KeepAlive reply: not a request
			continue
		}
		r, ok := <-s.script
		if !ok {
			return
		}
		ver := byte(1)
		if r.verp1 > 0 {
			ver = byte(r.verp1 - 1)
		}
		if r.pre != nil {
			if _, err := s.pconn.Write(c12frameV(ver, r.pre.typ, id, r.pre.payload)); err != nil {
				return
			}
		}
		if _, err := s.pconn.Write(c12frameV(ver, r.typ, id, r.payload)); err != nil {
			return
		}
	}
}

func (s *c12Session) close() {
	_ = s.client.Close()
	_ = s.pconn.Close()
	_ = s.cconn.Close()
	select {
	case <-s.peerDone:
	case <-time.After(2 * time.Second):
	}
	select {
	case <-s.connDone:
	case <-time.After(2 * time.Second):
	}
}

// a single exchange that does not finish in this time is reported as `timeout`; the connection is then
// re-established and the run continues. Once timeouts/panics have cost c12BrokenBudget in total, the
// remaining exchanges are answered `skipped` instead of spending the budget again on each of them.
// A timed-out exchange is tried once more on the fresh connection with c12RetryTimeout, so that a stall of
// the machine is not mistaken for a hang of SendFor.
const (
	c12Timeout      = 2 * time.Second
	c12RetryTimeout = 8 * time.Second
	c12BrokenBudget = 8
)

// request with an empty payload of a given type
type c12Out struct {
	typ  MessageType
	data []byte
}

func (o c12Out) MarshalBinary() ([]byte, error) { return o.data, nil }
func (o c12Out) Type() MessageType              { return o.typ }

func c12Sentinel() LLRPStatus {
	return LLRPStatus{
		Status:           StatusCode(0xBEEF),
		ErrorDescription: "sentinel",
		FieldError:       &FieldError{FieldIndex: 7, ErrorCode: 8},
		ParameterError: &ParameterError{ParameterType: 9, ErrorCode: 10,
			FieldError: &FieldError{FieldIndex: 11, ErrorCode: 12}},
	}
}

func c12Instance(exp MessageType, mode string) Incoming {
	in := exp.NewInstance()
	if in == nil {
		return nil
	}
	if strings.HasPrefix(mode, "s") {
		f := reflect.ValueOf(in).Elem().FieldByName("LLRPStatus")
		if f.IsValid() && f.CanSet() {
			f.Set(reflect.ValueOf(c12Sentinel()))
		}
	}
	return in
}

func c12FmtStatus(code StatusCode, desc string, fe *FieldError, pe *ParameterError) string {
	var sb strings.Builder
	sb.WriteString(strconv.Itoa(int(code)))
	sb.WriteByte(' ')
	if desc == "" {
		sb.WriteByte('-')
	} else {
		sb.WriteString(hex.EncodeToString([]byte(desc)))
	}
	sb.WriteByte(' ')
	if fe == nil {
		sb.WriteByte('-')
	} else {
		fmt.Fprintf(&sb, "%d.%d", fe.FieldIndex, uint16(fe.ErrorCode))
	}
	sb.WriteByte(' ')
	if pe == nil {
		sb.WriteByte('-')
	}
	for k := 0; pe != nil; pe, k = pe.ParameterError, k+1 {
		if k > 0 {
			sb.WriteByte(',')
		}
		fmt.Fprintf(&sb, "%d.%d", uint16(pe.ParameterType), uint16(pe.ErrorCode))
		if pe.FieldError != nil {
			fmt.Fprintf(&sb, ".%d.%d", pe.FieldError.FieldIndex, uint16(pe.FieldError.ErrorCode))
		}
	}
	return sb.String()
}

// one exchange through the real SendFor
func (s *c12Session) exchange(exp, act MessageType, payload []byte, mode string, pre *c12Reply, timeout time.Duration) (line string, broken bool) {
	in := c12Instance(exp, mode)
	before := c12Instance(exp, mode)
	if in == nil {
		return "error: no instance for expected type", false
	}
	// the request's own type does not matter to C12. CloseConnection is avoided: after sending it the
	// client's writer deliberately stops serving further requests.
	reqT := c12ReqType(exp)
	s.script <- c12Reply{typ: uint16(act), payload: payload, pre: pre, verp1: c12VerOf(mode)}
	ctx, cancel := context.WithTimeout(context.Background(), timeout)
	var err error
	panicked := false
	finished := make(chan struct{})
	go func() {
		defer close(finished)
		defer func() {
			if r := recover(); r != nil {
				panicked = true
			}
		}()
		err = s.client.SendFor(ctx, c12Out{typ: reqT}, in)
	}()
	// SendFor honours ctx while it waits for the reply; a hang after the reply arrived (e.g. in a decoder) would
	// not: give up on the call after a grace period and leave its goroutine behind.
	hard := time.NewTimer(timeout + time.Second)
	select {
	case <-finished:
		hard.Stop()
	case <-hard.C:
		cancel()
		return "timeout - - - - same - - - - ok - -", true
	}
	cancel()
	return c12Answer(err, panicked, in, before)
}

func c12ReqType(exp MessageType) MessageType {
	reqT, ok := exp.Converse()
	if !ok || reqT == MsgCloseConnection {
		reqT = MsgCustomMessage
	}
	return reqT
}

func c12Answer(err error, panicked bool, in, before Incoming) (line string, broken bool) {
	cls, fields := "other", "- - - -"
	var se *StatusError
	switch {
	case panicked:
		cls, broken = "panic", true
	case err == nil:
		cls = "nil"
	case errors.As(err, &se) && se != nil:
		cls = "status"
		fields = c12FmtStatus(se.Status, se.ErrorDescription, se.FieldError, se.ParameterError)
	case errors.Is(err, context.DeadlineExceeded) || errors.Is(err, ErrClientClosed):
		cls, broken = "timeout", true
	}
	same := "changed"
	if reflect.DeepEqual(in, before) {
		same = "same"
	}
	inFields := "- - - -"
	if st, ok := in.(Statusable); ok {
		ls := st.Status()
		inFields = c12FmtStatus(ls.Status, ls.ErrorDescription, ls.FieldError, ls.ParameterError)
	}
	return cls + " " + fields + " " + same + " " + inFields + " " + c12Render(err, se, ""), broken
}

// c12Render calls every observer of a returned error under recover: the error must be usable, not only present.
// result: "<ok|panic@observer> <y|n|-> <hash|->": whether any observer panicked; whether the text contains the
// reader's description (and, if given, wantText); FNV-64 of the *StatusError's own text (to compare across codes).
func c12Render(err error, se *StatusError, wantText string) string {
	if err == nil {
		return "ok - -"
	}
	rend, where := "ok", ""
	try := func(name string, f func() string) string {
		out := ""
		func() {
			defer func() {
				if r := recover(); r != nil && where == "" {
					where = name
				}
			}()
			out = f()
		}()
		if strings.Contains(out, "PANIC=") && where == "" { // fmt recovers a panicking Error method itself
			where = name
		}
		return out
	}
	text := try("Error", err.Error)
	try("fmt-v", func() string { return fmt.Sprintf("%v", err) })
	try("fmt-plus-v", func() string { return fmt.Sprintf("%+v", err) })
	try("fmt-s", func() string { return fmt.Sprintf("%s", err) })
	try("unwrap-chain", func() string {
		n := 0
		for e := err; e != nil && n < 100; e, n = errors.Unwrap(e), n+1 {
			_ = e.Error()
		}
		_ = errors.Is(err, context.Canceled)
		_ = errors.Is(err, ErrClientClosed)
		var x *StatusError
		_ = errors.As(err, &x)
		return ""
	})
	contains, hash := "-", "-"
	if se != nil {
		own := try("StatusError.Error", se.Error)
		try("StatusCode.String", func() string { return se.Status.String() + fmt.Sprint(se.Status) })
		try("StatusError-fmt", func() string { return fmt.Sprintf("%v", se) })
		if se.FieldError != nil {
			try("FieldError.Error", func() string { return se.FieldError.Error() + se.FieldError.ErrorCode.String() })
		}
		for pe := se.ParameterError; pe != nil; pe = pe.ParameterError {
			pe := pe
			try("ParameterError.Error", func() string {
				out := pe.ErrorCode.String() + pe.ParameterType.String()
				if pe == se.ParameterError { // Error() recurses through every deeper level itself
					out += pe.Error()
				}
				if pe.FieldError != nil {
					out += pe.FieldError.Error() + pe.FieldError.ErrorCode.String()
				}
				return out
			})
		}
		contains = "y"
		if !strings.Contains(text, se.ErrorDescription) || !strings.Contains(own, se.ErrorDescription) || !strings.Contains(text, own) {
			contains = "n" // the wrapping error's text must carry the status error's text, which carries the description
		}
		hs := fnv.New64a()
		hs.Write([]byte(own))
		hash = strconv.FormatUint(hs.Sum64(), 16)
	}
	if wantText != "" {
		contains = "y"
		if !strings.Contains(text, wantText) {
			contains = "n"
		}
	}
	if where != "" {
		rend = "panic@" + where
	}
	return rend + " " + contains + " " + hash
}

// ---- several SendFor calls in flight on one Client; replies written back to back in one TCP write ----

type c12ConcCase struct {
	exp, act MessageType
	payload  []byte
	mode     string
}

type c12Batch struct {
	replies []c12Reply
	perm    []int
}

type c12Conc struct {
	client   *Client
	ln       net.Listener
	cconn    net.Conn
	pconn    net.Conn
	script   chan c12Batch
	peerDone chan struct{}
	connDone chan struct{}
}

func c12NewConc() (*c12Conc, error) {
	s := &c12Conc{script: make(chan c12Batch, 1), peerDone: make(chan struct{}), connDone: make(chan struct{})}
	var err error
	if s.ln, err = net.Listen("tcp", "127.0.0.1:0"); err != nil {
		return nil, err
	}
	acc := make(chan net.Conn, 1)
	go func() {
		c, _ := s.ln.Accept()
		acc <- c
	}()
	if s.cconn, err = net.Dial("tcp", s.ln.Addr().String()); err != nil {
		s.ln.Close()
		return nil, err
	}
	if s.pconn = <-acc; s.pconn == nil {
		s.ln.Close()
		return nil, errors.New("accept failed")
	}
	s.client = NewClient(WithVersion(Version1_0_1), WithLogger(nil))
	go s.peer()
	go func() {
		defer close(s.connDone)
		_ = s.client.Connect(s.cconn)
	}()
	return s, nil
}

func (s *c12Conc) peer() {
	defer close(s.peerDone)
	ts := c12tlv(128, []byte{0, 0, 0, 0, 0, 0, 0, 1})
	cae := c12tlv(256, []byte{0, 0})
	if _, err := s.pconn.Write(c12frame(63, 0, c12tlv(246, append(ts, cae...)))); err != nil {
		return
	}
	rd := bufio.NewReader(s.pconn)
	hdr := make([]byte, 10)
	for b := range s.script {
		ids := make([]uint32, len(b.replies))
		for got := 0; got < len(b.replies); {
			if _, err := io.ReadFull(rd, hdr); err != nil {
				return
			}
			typ := uint16(hdr[0]&3)<<8 | uint16(hdr[1])
			total := uint32(hdr[2])<<24 | uint32(hdr[3])<<16 | uint32(hdr[4])<<8 | uint32(hdr[5])
			id := uint32(hdr[6])<<24 | uint32(hdr[7])<<16 | uint32(hdr[8])<<8 | uint32(hdr[9])
			if total < 10 {
				return
			}
			body := make([]byte, total-10)
			if _, err := io.ReadFull(rd, body); err != nil {
				return
			}
			if typ == 72 || len(body) != 1 || int(body[0]) >= len(ids) {
				continue
			}
			ids[body[0]] = id // the request's one payload byte says whose request it is
			got++
		}
		var all []byte
		for _, k := range b.perm {
			ver := byte(1)
			if b.replies[k].verp1 > 0 {
				ver = byte(b.replies[k].verp1 - 1)
			}
			all = append(all, c12frameV(ver, b.replies[k].typ, ids[k], b.replies[k].payload)...)
		}
		if _, err := s.pconn.Write(all); err != nil { // all replies in one write
			return
		}
	}
}

func (s *c12Conc) close() {
	_ = s.client.Close()
	_ = s.pconn.Close()
	_ = s.cconn.Close()
	_ = s.ln.Close()
	select {
	case <-s.peerDone:
	case <-time.After(2 * time.Second):
	}
	select {
	case <-s.connDone:
	case <-time.After(2 * time.Second):
	}
}

func (s *c12Conc) round(cases []c12ConcCase, perm []int, timeout time.Duration) (answers []string, broken bool) {
	n := len(cases)
	answers = make([]string, n)
	brk := make([]bool, n)
	b := c12Batch{perm: perm}
	for _, c := range cases {
		b.replies = append(b.replies, c12Reply{typ: uint16(c.act), payload: c.payload, verp1: c12VerOf(c.mode)})
	}
	s.script <- b
	ctx, cancel := context.WithTimeout(context.Background(), timeout)
	defer cancel()
	var wg sync.WaitGroup
	for i := range cases {
		wg.Add(1)
		go func(i int) {
			defer wg.Done()
			c := cases[i]
			in, before := c12Instance(c.exp, c.mode), c12Instance(c.exp, c.mode)
			if in == nil {
				answers[i] = "error: no instance for expected type"
				return
			}
			var err error
			panicked := false
			func() {
				defer func() {
					if r := recover(); r != nil {
						panicked = true
					}
				}()
				err = s.client.SendFor(ctx, c12Out{typ: c12ReqType(c.exp), data: []byte{byte(i)}}, in)
			}()
			answers[i], brk[i] = c12Answer(err, panicked, in, before)
		}(i)
	}
	finished := make(chan struct{})
	go func() { wg.Wait(); close(finished) }()
	hard := time.NewTimer(timeout + time.Second)
	defer hard.Stop()
	select {
	case <-finished:
	case <-hard.C:
		out := make([]string, n)
		for i := range out {
			out[i] = "timeout - - - - same - - - - ok - -"
		}
		return out, true
	}
	for _, x := range brk {
		broken = broken || x
	}
	return answers, broken
}

// c12Internal: the request/response exchanges the Client performs itself.
//
//	gsv   Connect's GET_SUPPORTED_VERSION (client at the default version 1.1), scripted reply (act, status)
//	spv   GET_SUPPORTED_VERSION answered (current 1.0.1, max 1.1, Success), then SET_PROTOCOL_VERSION gets the scripted reply
//	close Shutdown's CLOSE_CONNECTION gets the scripted reply
//
// answer: <cls> <code> <desc> <fe> <pe> <render> <text-has-status> ; cls = nil (Connect got ready / Shutdown returned nil) |
// status (errors.As *StatusError) | other | timeout
func c12Internal(which string, act MessageType, code uint16, d []byte, f *c12Level, p []c12Level, flags string) string {
	layout := map[string]MessageType{"gsv": MsgGetSupportedVersionResponse, "spv": MsgSetProtocolVersionResponse, "close": MsgCloseConnectionResponse}[which]
	if layout == 0 {
		return "error: bad request"
	}
	st := c12statusTLV(code, d, f, p, flags)
	payload := st
	if act != MsgErrorMessage && layout == MsgGetSupportedVersionResponse {
		payload = append([]byte{2 << 5, 2 << 5}, st...) // already at 1.1: no SET_PROTOCOL_VERSION follows
	}
	s := &c12Session{script: make(chan c12Reply, 4), peerDone: make(chan struct{}), connDone: make(chan struct{})}
	s.cconn, s.pconn = net.Pipe()
	opts := c12ClientOpts(c12Cfg)
	if which == "close" {
		opts = append(opts, WithVersion(Version1_0_1))
	}
	s.client = NewClient(opts...)
	if which == "spv" {
		s.script <- c12Reply{typ: uint16(MsgGetSupportedVersionResponse), payload: append([]byte{1 << 5, 2 << 5}, c12statusTLV(0, nil, nil, nil, "")...)}
	}
	s.script <- c12Reply{typ: uint16(act), payload: payload, verp1: c12VerOf(flags)}
	go s.peer()
	connErr := make(chan error, 1)
	go func() {
		defer close(s.connDone)
		connErr <- s.client.Connect(s.cconn)
	}()
	defer s.close()
	var err error
	timer := time.NewTimer(c12RetryTimeout)
	defer timer.Stop()
	if which == "close" {
		res := make(chan error, 1)
		go func() {
			ctx, cancel := context.WithTimeout(context.Background(), c12RetryTimeout)
			defer cancel()
			res <- s.client.Shutdown(ctx)
		}()
		select {
		case err = <-res:
		case <-timer.C:
			return "timeout - - - - ok -"
		}
	} else {
		select {
		case err = <-connErr:
			if err == nil {
				err = errors.New("Connect returned nil")
			}
		case <-s.client.ready: // negotiation succeeded: the client accepts requests
		case <-timer.C:
			return "timeout - - - - ok -"
		}
	}
	if err == nil {
		return "nil - - - - ok -"
	}
	// the text a *StatusError built from the scripted values has
	want := StatusError{Status: StatusCode(code), ErrorDescription: string(d)}
	if f != nil {
		want.FieldError = &FieldError{FieldIndex: f.fidx, ErrorCode: StatusCode(f.fcode)}
	}
	var tail **ParameterError = &want.ParameterError
	for _, l := range p {
		pe := &ParameterError{ParameterType: ParamType(l.ptype), ErrorCode: StatusCode(l.code)}
		if l.hasFE {
			pe.FieldError = &FieldError{FieldIndex: l.fidx, ErrorCode: StatusCode(l.fcode)}
		}
		*tail = pe
		tail = &pe.ParameterError
	}
	wantText := ""
	func() {
		defer func() { _ = recover() }()
		wantText = want.Error()
	}()
	cls, fields := "other", "- - - -"
	var se *StatusError
	if errors.As(err, &se) && se != nil {
		cls = "status"
		fields = c12FmtStatus(se.Status, se.ErrorDescription, se.FieldError, se.ParameterError)
	} else if errors.Is(err, context.DeadlineExceeded) {
		cls = "timeout"
	}
	r := strings.Fields(c12Render(err, se, wantText))
	return cls + " " + fields + " " + r[0] + " " + r[1]
}

// ---- exchange histories: requests started / abandoned, frames with any id, type and header version ----
//
// One Client on net.Pipe; the peer reads the requests (each carries one payload byte naming its caller) and
// writes exactly the frames the history lists, in order. The read loop handles frames one after the other, so
// the order of the steps is the order in which the Client sees them:
//   S waits until the peer has read the request (it is registered before it is written);
//   A cancels the caller's context and waits until SendFor has returned (its registration is gone);
//   R writes the frame; if it is addressed to an outstanding caller, waits until that caller has returned.
// Every history ends with all callers answered or abandoned, so nothing depends on waiting "long enough".

type c12HReq struct {
	k  int
	id uint32
}

type c12Hist struct {
	client   *Client
	cconn    net.Conn
	pconn    net.Conn
	reqs     chan c12HReq
	peerDone chan struct{}
	connDone chan struct{}
	lastID   uint32 // largest request id seen on this connection
}

func c12NewHist() *c12Hist {
	h := &c12Hist{reqs: make(chan c12HReq, 16), peerDone: make(chan struct{}), connDone: make(chan struct{})}
	h.cconn, h.pconn = net.Pipe()
	opts := c12ClientOpts(c12Cfg)
	if c12NV == 1 {
		opts = append(opts, WithVersion(Version1_0_1))
	}
	h.client = NewClient(opts...)
	nv := c12NV
	go func() {
		defer close(h.peerDone)
		ts := c12tlv(128, []byte{0, 0, 0, 0, 0, 0, 0, 1})
		cae := c12tlv(256, []byte{0, 0})
		if _, err := h.pconn.Write(c12frame(63, 0, c12tlv(246, append(ts, cae...)))); err != nil {
			return
		}
		ok := c12statusTLV(0, nil, nil, nil, "")
		hdr := make([]byte, 10)
		negotiating := nv != 1 // the Client's own version exchanges come first; later requests of those types are callers'
		for {
			if _, err := io.ReadFull(h.pconn, hdr); err != nil {
				return
			}
			typ := uint16(hdr[0]&3)<<8 | uint16(hdr[1])
			total := uint32(hdr[2])<<24 | uint32(hdr[3])<<16 | uint32(hdr[4])<<8 | uint32(hdr[5])
			id := uint32(hdr[6])<<24 | uint32(hdr[7])<<16 | uint32(hdr[8])<<8 | uint32(hdr[9])
			if total < 10 {
				return
			}
			body := make([]byte, total-10)
			if _, err := io.ReadFull(h.pconn, body); err != nil {
				return
			}
			var out []byte
			switch {
			case typ == 72:
			case negotiating && typ == 46 && nv == 2:
				out = c12frameV(2, 56, id, append([]byte{2 << 5, 2 << 5}, ok...))
				negotiating = false
			case negotiating && typ == 46 && nv == 3:
				out = c12frameV(2, 56, id, append([]byte{1 << 5, 2 << 5}, ok...))
			case negotiating && typ == 46:
				out = c12frameV(1, 100, id, c12statusTLV(110, []byte("no such message"), nil, nil, ""))
				negotiating = false
			case negotiating && typ == 47:
				out = c12frameV(2, 57, id, ok)
				negotiating = false
			case len(body) != 1:
			case body[0] == 0xEE: // the warm-up exchange of c12NewHist
				out = c12frameV(1, 1023, id, nil)
			default:
				h.reqs <- c12HReq{int(body[0]), id}
			}
			if out != nil {
				if _, err := h.pconn.Write(out); err != nil {
					return
				}
			}
		}
	}()
	go func() {
		defer close(h.connDone)
		_ = h.client.Connect(h.cconn)
	}()
	// warm-up exchange: uses up message id 0, so that a frame with id 0 is a frame with an id nobody waits for
	ctx, cancel := context.WithTimeout(context.Background(), c12RetryTimeout)
	_, _, _ = h.client.SendMessage(ctx, MsgCustomMessage, []byte{0xEE})
	cancel()
	return h
}

func (h *c12Hist) close() {
	_ = h.client.Close()
	_ = h.pconn.Close()
	_ = h.cconn.Close()
	for _, ch := range []chan struct{}{h.peerDone, h.connDone} {
		select {
		case <-ch:
		case <-time.After(2 * time.Second):
		}
	}
}

type c12Caller struct {
	exp        MessageType
	mode       string
	id         uint32
	cancel     context.CancelFunc
	done       chan struct{}
	err        error
	panicked   bool
	in, before Incoming
	abandoned  bool
}

const c12Timed = "timeout - - - - same - - - - ok - -"

// run one history; returns one answer per caller and whether anything timed out
func (h *c12Hist) run(steps []string, timeout time.Duration) (answers []string, broken bool) {
	callers := map[int]*c12Caller{}
	nowait := map[int]uint32{} // SendNoWait messages: the id each went out with
	order := []int{}
	finished := func(c *c12Caller) bool {
		select {
		case <-c.done:
			return true
		default:
			return false
		}
	}
	wait := func(c *c12Caller) bool {
		t := time.NewTimer(timeout)
		defer t.Stop()
		select {
		case <-c.done:
			return true
		case <-t.C:
			return false
		}
	}
	defer func() {
		for _, c := range callers {
			c.cancel()
		}
	}()
	bad := func(msg string) ([]string, bool) { return []string{"error: " + msg}, false }
	for _, st := range steps {
		f := strings.Split(st, ":")
		switch {
		case f[0] == "S" && len(f) == 4:
			k, e1 := strconv.Atoi(f[1])
			exp, e2 := c12ParseU16(f[2])
			if e1 != nil || e2 != nil || k < 0 || k > 200 || callers[k] != nil || f[3] == "" {
				return bad("bad S step")
			}
			c := &c12Caller{exp: MessageType(exp), mode: f[3], done: make(chan struct{})}
			c.in, c.before = c12Instance(c.exp, c.mode), c12Instance(c.exp, c.mode)
			if c.in == nil {
				return bad("no instance for expected type")
			}
			var ctx context.Context
			ctx, c.cancel = context.WithTimeout(context.Background(), 4*timeout+10*time.Second)
			callers[k] = c
			order = append(order, k)
			go func() {
				defer close(c.done)
				defer func() {
					if r := recover(); r != nil {
						c.panicked = true
					}
				}()
				c.err = h.client.SendFor(ctx, c12Out{typ: c12ReqType(c.exp), data: []byte{byte(k)}}, c.in)
			}()
			t := time.NewTimer(timeout)
			select {
			case r := <-h.reqs:
				t.Stop()
				if r.k != k {
					return bad("request of another caller read")
				}
				c.id = r.id
				if r.id > h.lastID {
					h.lastID = r.id
				}
			case <-c.done: // SendFor returned without its request being read
				t.Stop()
				broken = true
			case <-t.C:
				broken = true
			}
		case f[0] == "N" && len(f) == 3: // a fire-and-forget message; the peer notes the id it carries on the wire
			k, e1 := strconv.Atoi(f[1])
			typ, e2 := c12ParseU16(f[2])
			if e1 != nil || e2 != nil || k < 0 || k > 250 || callers[k] != nil {
				return bad("bad N step")
			}
			if _, dup := nowait[k]; dup {
				return bad("bad N step")
			}
			msg, err := NewByteMessage(MessageType(typ), []byte{byte(k)})
			if err != nil {
				return bad("bad N step: " + err.Error())
			}
			ctx, cancel := context.WithTimeout(context.Background(), timeout)
			err = h.client.SendNoWait(ctx, msg)
			cancel()
			if err != nil {
				broken = true
				break
			}
			t := time.NewTimer(timeout)
			select {
			case r := <-h.reqs:
				t.Stop()
				if r.k != k {
					return bad("another message read")
				}
				nowait[k] = r.id
				if r.id > h.lastID {
					h.lastID = r.id
				}
			case <-t.C:
				broken = true
			}
		case f[0] == "A" && len(f) == 2:
			k, e1 := strconv.Atoi(f[1])
			c := callers[k]
			if e1 != nil || c == nil {
				return bad("bad A step")
			}
			if !finished(c) {
				c.abandoned = true
			}
			c.cancel()
			if !wait(c) {
				broken = true
			}
		case f[0] == "R" && len(f) == 10:
			ver, e1 := strconv.Atoi(f[1])
			typ, e2 := c12ParseU16(f[2])
			layout, e3 := c12ParseU16(f[4])
			code, e4 := c12ParseU16(f[5])
			d, fe, pe, e5 := c12ParseShape(f[6], f[7], f[8])
			n, e6 := strconv.Atoi(f[3][1:])
			if e1 != nil || e2 != nil || e3 != nil || e4 != nil || e5 != nil || e6 != nil || ver < 0 || ver > 7 {
				return bad("bad R step")
			}
			var id uint32
			var target *c12Caller
			switch f[3][0] {
			case 'k':
				if target = callers[n]; target != nil {
					id = target.id
				} else if nid, ok := nowait[n]; ok {
					id = nid
				} else {
					return bad("R step names a message that was not sent")
				}
			case 'f':
				id = 0x40000000 + uint32(n)
			case 'm': // an id the Client has not used yet (it will, n requests from now)
				id = h.lastID + uint32(n)
			case 'z': // id 0: used up by the warm-up exchange
				id = 0
			default:
				return bad("bad id in R step")
			}
			payload, err := c12Payload(MessageType(layout), MessageType(typ), code, d, fe, pe, f[9])
			if err != nil {
				return bad(err.Error())
			}
			wrote := make(chan error, 1)
			go func() {
				_, err := h.pconn.Write(c12frameV(byte(ver), typ, id, payload))
				wrote <- err
			}()
			t := time.NewTimer(timeout)
			select {
			case err := <-wrote:
				t.Stop()
				if err != nil {
					broken = true
				}
			case <-t.C:
				broken = true
			}
			if target != nil && !target.abandoned && !finished(target) && typ != 61 && typ != 62 && typ != 63 {
				if !wait(target) {
					broken = true
				}
			}
		default:
			return bad("bad step " + st)
		}
		if broken {
			break
		}
	}
	for _, k := range order {
		c := callers[k]
		if broken && !finished(c) || !wait(c) {
			broken = true
			answers = append(answers, c12Timed)
			continue
		}
		a, b := c12Answer(c.err, c.panicked, c.in, c.before)
		if c.abandoned && errors.Is(c.err, context.Canceled) {
			a, b = "abandoned"+strings.TrimPrefix(a, "other"), false
		}
		broken = broken || b
		answers = append(answers, a)
	}
	return answers, broken
}

// c12Cut: one exchange whose reply is cut inside its payload (see the header comment)
func c12Cut(exp, act MessageType, payload []byte, mode string, cut int, end string) string {
	in, before := c12Instance(exp, mode), c12Instance(exp, mode)
	if in == nil || cut < 0 || cut > len(payload) {
		return "error: bad request"
	}
	var cconn, pconn net.Conn
	if end == "reset" {
		ln, err := net.Listen("tcp", "127.0.0.1:0")
		if err != nil {
			return "error: " + err.Error()
		}
		defer ln.Close()
		acc := make(chan net.Conn, 1)
		go func() {
			c, _ := ln.Accept()
			acc <- c
		}()
		if cconn, err = net.Dial("tcp", ln.Addr().String()); err != nil {
			return "error: " + err.Error()
		}
		if pconn = <-acc; pconn == nil {
			return "error: accept failed"
		}
	} else {
		cconn, pconn = net.Pipe()
	}
	opts := append(c12ClientOpts(c12Cfg), WithVersion(Version1_0_1))
	if end == "deadline" {
		opts = append(opts, WithTimeout(60*time.Millisecond))
	}
	client := NewClient(opts...)
	peerDone, release := make(chan struct{}), make(chan struct{})
	go func() {
		defer close(peerDone)
		ts := c12tlv(128, []byte{0, 0, 0, 0, 0, 0, 0, 1})
		cae := c12tlv(256, []byte{0, 0})
		if _, err := pconn.Write(c12frame(63, 0, c12tlv(246, append(ts, cae...)))); err != nil {
			return
		}
		hdr := make([]byte, 10)
		if _, err := io.ReadFull(pconn, hdr); err != nil {
			return
		}
		total := uint32(hdr[2])<<24 | uint32(hdr[3])<<16 | uint32(hdr[4])<<8 | uint32(hdr[5])
		id := uint32(hdr[6])<<24 | uint32(hdr[7])<<16 | uint32(hdr[8])<<8 | uint32(hdr[9])
		if total > 10 {
			if _, err := io.CopyN(io.Discard, pconn, int64(total-10)); err != nil {
				return
			}
		}
		ver := byte(1)
		if v := c12VerOf(mode); v > 0 {
			ver = byte(v - 1)
		}
		fr := c12frameV(ver, uint16(act), id, payload) // the header announces the whole payload
		if _, err := pconn.Write(fr[:10+cut]); err != nil {
			return
		}
		switch end {
		case "eof":
			_ = pconn.Close()
		case "reset":
			if tc, ok := pconn.(*net.TCPConn); ok {
				_ = tc.SetLinger(0)
			}
			_ = pconn.Close()
		default: // deadline: the reader goes silent and keeps the connection open
			<-release
		}
	}()
	connDone := make(chan struct{})
	go func() {
		defer close(connDone)
		_ = client.Connect(cconn)
	}()
	defer func() {
		close(release)
		_ = client.Close()
		_ = pconn.Close()
		_ = cconn.Close()
		for _, ch := range []chan struct{}{peerDone, connDone} {
			select {
			case <-ch:
			case <-time.After(2 * time.Second):
			}
		}
	}()
	ctx, cancel := context.WithTimeout(context.Background(), c12RetryTimeout)
	defer cancel()
	var err error
	panicked := false
	finished := make(chan struct{})
	go func() {
		defer close(finished)
		defer func() {
			if r := recover(); r != nil {
				panicked = true
			}
		}()
		err = client.SendFor(ctx, c12Out{typ: c12ReqType(exp)}, in)
	}()
	select {
	case <-finished:
	case <-time.After(c12RetryTimeout + time.Second):
		return "hung - - - - same - - - - ok - -"
	}
	a, _ := c12Answer(err, panicked, in, before)
	if errors.Is(err, ErrClientClosed) {
		a = "closed" + strings.TrimPrefix(a, "timeout")
	}
	return a
}

func c12ParseU16(s string) (uint16, error) {
	v, err := strconv.ParseUint(s, 10, 16)
	return uint16(v), err
}

func c12ParseShape(desc, fe, pe string) (d []byte, f *c12Level, p []c12Level, err error) {
	if desc != "-" {
		if d, err = hex.DecodeString(desc); err != nil {
			return
		}
	}
	if fe != "-" {
		parts := strings.Split(fe, ".")
		if len(parts) != 2 {
			err = errors.New("bad fe")
			return
		}
		f = &c12Level{hasFE: true}
		if f.fidx, err = c12ParseU16(parts[0]); err != nil {
			return
		}
		if f.fcode, err = c12ParseU16(parts[1]); err != nil {
			return
		}
	}
	if pe != "-" {
		for _, lv := range strings.Split(pe, ",") {
			parts := strings.Split(lv, ".")
			if len(parts) != 2 && len(parts) != 4 {
				err = errors.New("bad pe level")
				return
			}
			var l c12Level
			if l.ptype, err = c12ParseU16(parts[0]); err != nil {
				return
			}
			if l.code, err = c12ParseU16(parts[1]); err != nil {
				return
			}
			if len(parts) == 4 {
				l.hasFE = true
				if l.fidx, err = c12ParseU16(parts[2]); err != nil {
					return
				}
				if l.fcode, err = c12ParseU16(parts[3]); err != nil {
					return
				}
			}
			p = append(p, l)
		}
	}
	return
}

// payload of a reply of type act to a request expecting exp, carrying the given status:
// laid out as the message that SendFor would decode it as (or, for an unrelated reply type, as
// the expected type — so that a wrong decode into the response value would succeed and show)
func c12Payload(exp, act MessageType, code uint16, d []byte, f *c12Level, p []c12Level, flags string) ([]byte, error) {
	st := c12statusTLV(code, d, f, p, flags)
	if len(st) > 65535 {
		return nil, errors.New("status parameter longer than 65535 bytes")
	}
	layout := exp
	if act == MsgErrorMessage {
		layout = MsgErrorMessage
	}
	if layout == MsgGetSupportedVersionResponse { // CurrentVersion, MaxSupportedVersion (version<<5 each)
		return append([]byte{1 << 5, 2 << 5}, st...), nil
	}
	return st, nil
}

func TestVerifC12(t *testing.T) {
	lines, w, done := verifIO(t)
	defer done()
	s := c12NewSession()
	defer func() { s.close() }()
	nBroken := 0
	var cs *c12Conc
	var hs *c12Hist
	defGMP, curGMP := runtime.GOMAXPROCS(0), 0
	defer func() {
		runtime.GOMAXPROCS(defGMP)
		if cs != nil {
			cs.close()
		}
		if hs != nil {
			hs.close()
		}
	}()
	for _, line := range lines {
		tok := strings.Fields(line)
		switch {
		case len(tok) == 1 && tok[0] == "types":
			var out []string
			for mt := 0; mt < 1024; mt++ {
				if inst := MessageType(mt).NewInstance(); inst != nil {
					if _, ok := inst.(Statusable); ok {
						out = append(out, strconv.Itoa(mt))
					}
				}
			}
			fmt.Fprintln(w, strings.Join(out, " "))
		case (len(tok) == 8 && (tok[0] == "x" || tok[0] == "u")) || (len(tok) == 9 && tok[0] == "r"):
			exp, e1 := c12ParseU16(tok[1])
			act, e2 := c12ParseU16(tok[2])
			lo, e3 := c12ParseU16(tok[3])
			hi := int(lo) + 1
			rest := tok[4:]
			if tok[0] == "r" {
				h, e := strconv.Atoi(tok[4])
				if e != nil || h > 65536 {
					e3 = errors.New("bad hi")
				}
				hi = h
				rest = tok[5:]
			}
			d, f, p, e4 := c12ParseShape(rest[0], rest[1], rest[2])
			mode := rest[3]
			if e1 != nil || e2 != nil || e3 != nil || e4 != nil || mode == "" {
				fmt.Fprintln(w, "error: bad request")
				continue
			}
			for c := int(lo); c < hi; c++ {
				payload, err := c12Payload(MessageType(exp), MessageType(act), uint16(c), d, f, p, mode[1:])
				if err != nil {
					fmt.Fprintln(w, "error: "+err.Error())
					continue
				}
				if nBroken >= c12BrokenBudget {
					fmt.Fprintln(w, "skipped - - - - same - - - - ok - -")
					continue
				}
				var pre *c12Reply
				replyT := MessageType(act)
				if tok[0] == "u" { // act names the reader-initiated frame; the real reply has the expected type
					decoy, _ := c12Payload(MessageType(exp), MessageType(exp), 777, []byte("decoy"), &c12Level{hasFE: true, fidx: 5, fcode: 6}, nil, "")
					pre = &c12Reply{typ: act, payload: decoy}
					replyT = MessageType(exp)
					payload, _ = c12Payload(MessageType(exp), MessageType(exp), uint16(c), d, f, p, mode[1:])
				}
				ans, broken := s.exchange(MessageType(exp), replyT, payload, mode, pre, c12Timeout)
				if broken && strings.HasPrefix(ans, "timeout") && nBroken < 2 {
					s.close()
					s = c12NewSession()
					ans, broken = s.exchange(MessageType(exp), replyT, payload, mode, pre, c12RetryTimeout)
				}
				fmt.Fprintln(w, ans)
				if broken { // start over on a fresh connection and continue with the next exchange
					nBroken++
					s.close()
					s = c12NewSession()
				}
			}
		case len(tok) == 10 && tok[0] == "k":
			exp, e1 := c12ParseU16(tok[1])
			act, e2 := c12ParseU16(tok[2])
			code, e3 := c12ParseU16(tok[3])
			d, f, p, e4 := c12ParseShape(tok[4], tok[5], tok[6])
			cut, e5 := strconv.Atoi(tok[8])
			if e1 != nil || e2 != nil || e3 != nil || e4 != nil || e5 != nil || tok[7] == "" || (tok[9] != "eof" && tok[9] != "reset" && tok[9] != "deadline") {
				fmt.Fprintln(w, "error: bad request")
				continue
			}
			payload, err := c12Payload(MessageType(exp), MessageType(act), code, d, f, p, tok[7][1:])
			if err != nil {
				fmt.Fprintln(w, "error: "+err.Error())
				continue
			}
			fmt.Fprintln(w, c12Cut(MessageType(exp), MessageType(act), payload, tok[7], cut, tok[9])+" "+strconv.Itoa(len(payload)))
		case len(tok) == 1 && tok[0] == "limit":
			fmt.Fprintln(w, "limit "+strconv.FormatUint(uint64(MaxBufferedPayloadSz), 10))
		case len(tok) == 8 && tok[0] == "L":
			exp, e1 := c12ParseU16(tok[1])
			code, e2 := c12ParseU16(tok[2])
			d, f, p, e3 := c12ParseShape(tok[3], tok[4], tok[5])
			total, e4 := strconv.Atoi(tok[7])
			if e1 != nil || e2 != nil || e3 != nil || e4 != nil || tok[6] == "" || total > 1<<22 {
				fmt.Fprintln(w, "error: bad request")
				continue
			}
			payload := c12statusTLV(code, d, f, p, tok[6][1:])
			// padding: Custom parameters (TLV 1023: vendor u32, subtype u32, data) of at most 65532 bytes each, at least 12
			for rest := total - len(payload); rest > 0; {
				n := rest
				if n > 65532 {
					n = 65532
					if rest-n < 12 {
						n = rest - 12
					}
				}
				if n < 12 {
					payload = nil
					break
				}
				payload = append(payload, c12tlv(1023, make([]byte, n-4))...)
				rest -= n
			}
			if len(payload) != total {
				fmt.Fprintln(w, "error: cannot pad to that size")
				continue
			}
			if nBroken >= c12BrokenBudget {
				fmt.Fprintln(w, "skipped - - - - same - - - - ok - -")
				continue
			}
			ans, broken := s.exchange(MessageType(exp), MessageType(exp), payload, tok[6], nil, c12RetryTimeout)
			fmt.Fprintln(w, ans)
			if broken {
				nBroken++
				s.close()
				s = c12NewSession()
			}
		case len(tok) == 5 && tok[0] == "y":
			exp, e1 := c12ParseU16(tok[1])
			act, e2 := c12ParseU16(tok[2])
			var payload []byte
			var e3 error
			if tok[3] != "-" {
				payload, e3 = hex.DecodeString(tok[3])
			}
			if e1 != nil || e2 != nil || e3 != nil || tok[4] == "" {
				fmt.Fprintln(w, "error: bad request")
				continue
			}
			if nBroken >= c12BrokenBudget {
				fmt.Fprintln(w, "skipped - - - - same - - - - ok - -")
				continue
			}
			ans, broken := s.exchange(MessageType(exp), MessageType(act), payload, tok[4], nil, c12Timeout)
			if broken && strings.HasPrefix(ans, "timeout") && nBroken < 2 {
				s.close()
				s = c12NewSession()
				ans, broken = s.exchange(MessageType(exp), MessageType(act), payload, tok[4], nil, c12RetryTimeout)
			}
			fmt.Fprintln(w, ans)
			if broken {
				nBroken++
				s.close()
				s = c12NewSession()
			}
		case len(tok) >= 2 && tok[0] == "h":
			ncallers := 0
			for _, st := range tok[1:] {
				if strings.HasPrefix(st, "S:") {
					ncallers++
				}
			}
			if nBroken >= c12BrokenBudget {
				fmt.Fprintln(w, strings.TrimSuffix(strings.Repeat("skipped - - - - same - - - - ok - - | ", ncallers), " | "))
				continue
			}
			steps := tok[1:]
			if steps[0] == "F" { // on a fresh connection: the first messages of a connection get the first ids
				steps = steps[1:]
				if hs != nil {
					hs.close()
					hs = nil
				}
			}
			if hs == nil {
				hs = c12NewHist()
			}
			ans, broken := hs.run(steps, c12Timeout)
			if broken && nBroken < 2 {
				hs.close()
				hs = c12NewHist()
				ans, broken = hs.run(steps, c12RetryTimeout)
			}
			fmt.Fprintln(w, strings.Join(ans, " | "))
			if broken {
				nBroken++
				hs.close()
				hs = nil
			}
		case len(tok) == 2 && tok[0] == "nv":
			n, err := strconv.Atoi(tok[1])
			if err != nil || n < 1 || n > 4 {
				fmt.Fprintln(w, "error: bad request")
				continue
			}
			c12NV = n
			s.close()
			s = c12NewSession()
			if hs != nil {
				hs.close()
				hs = nil
			}
			fmt.Fprintln(w, "nv "+tok[1])
		case len(tok) == 2 && tok[0] == "cfg":
			c12Cfg = tok[1]
			s.close()
			s = c12NewSession()
			if hs != nil {
				hs.close()
				hs = nil
			}
			fmt.Fprintln(w, "cfg "+tok[1])
		case len(tok) == 3 && tok[0] == "dt":
			lo, _ := strconv.Atoi(tok[1])
			hi, _ := strconv.Atoi(tok[2])
			for c := lo; c < hi && c < 65536; c++ {
				txt, ok := "", true
				func() {
					defer func() {
						if recover() != nil {
							ok = false
						}
					}()
					txt = StatusCode(c).defaultText() + "|" + StatusCode(c).String()
				}()
				if ok {
					fmt.Fprintln(w, "ok "+hex.EncodeToString([]byte(txt)))
				} else {
					fmt.Fprintln(w, "panic -")
				}
			}
		case len(tok) == 8 && tok[0] == "i":
			act, e2 := c12ParseU16(tok[2])
			code, e3 := c12ParseU16(tok[3])
			d, f, p, e4 := c12ParseShape(tok[4], tok[5], tok[6])
			if e2 != nil || e3 != nil || e4 != nil || tok[7] == "" {
				fmt.Fprintln(w, "error: bad request")
				continue
			}
			fmt.Fprintln(w, c12Internal(tok[1], MessageType(act), code, d, f, p, tok[7][1:]))
		case len(tok) >= 4 && tok[0] == "c":
			n, e1 := strconv.Atoi(tok[3])
			gmp, e2 := strconv.Atoi(tok[2])
			if e1 != nil || e2 != nil || n < 1 || n > 9 || len(tok) != 4+7*n || len(tok[1]) != n {
				fmt.Fprintln(w, "error: bad request")
				continue
			}
			var cases []c12ConcCase
			var perm []int
			bad := false
			for i := 0; i < n; i++ {
				q := tok[4+7*i:]
				exp, e1 := c12ParseU16(q[0])
				act, e2 := c12ParseU16(q[1])
				code, e3 := c12ParseU16(q[2])
				d, f, p, e4 := c12ParseShape(q[3], q[4], q[5])
				k := int(tok[1][i] - '0')
				if e1 != nil || e2 != nil || e3 != nil || e4 != nil || q[6] == "" || k < 0 || k >= n {
					bad = true
					break
				}
				payload, err := c12Payload(MessageType(exp), MessageType(act), code, d, f, p, q[6][1:])
				if err != nil {
					bad = true
					break
				}
				cases = append(cases, c12ConcCase{MessageType(exp), MessageType(act), payload, q[6]})
				perm = append(perm, k)
			}
			if bad {
				fmt.Fprintln(w, "error: bad request")
				continue
			}
			if nBroken >= c12BrokenBudget {
				fmt.Fprintln(w, strings.Repeat("skipped - - - - same - - - - ok - - | ", n-1)+"skipped - - - - same - - - - ok - -")
				continue
			}
			if gmp != curGMP { // 0 = the process default
				if gmp > 0 {
					runtime.GOMAXPROCS(gmp)
				} else {
					runtime.GOMAXPROCS(defGMP)
				}
				curGMP = gmp
			}
			if cs == nil {
				var err error
				if cs, err = c12NewConc(); err != nil {
					fmt.Fprintln(w, "error: "+err.Error())
					continue
				}
			}
			ans, broken := cs.round(cases, perm, c12Timeout)
			if broken {
				cs.close()
				if cs, _ = c12NewConc(); cs != nil {
					ans, broken = cs.round(cases, perm, c12RetryTimeout)
				}
			}
			fmt.Fprintln(w, strings.Join(ans, " | "))
			if broken {
				nBroken++
				if cs != nil {
					cs.close()
				}
				cs = nil
			}
		default:
			fmt.Fprintln(w, "error: bad request")
		}
	}
}
