//go:build verif

package llrp

// C20 — race scenarios for the Client, meant to be compiled with -race.
// One request line = one JSON scenario (c20Req); one answer line = what was observed (JSON).
// The data-race reports themselves are written by the race detector to GORACE's log_path and
// parsed by checks/c20.py; nothing here judges them.
//
// The scripted reader ("peer") builds and parses frames with its own code.

import (
	"context"
	"encoding/binary"
	"encoding/json"
	"errors"
	"fmt"
	"io"
	"math/rand"
	"net"
	"os"
	"sync"
	"sync/atomic"
	"testing"
	"time"
)

type c20Req struct {
	ID        string `json:"id"`
	Version   int    `json:"version"`    // client's maximum: 1 (1.0.1) | 2 (1.1)
	DefLog    bool   `json:"deflog"`     // no WithLogger option: the default std logger is installed by Connect
	Cur       int    `json:"cur"`        // reader's current version in GetSupportedVersionResponse
	Max       int    `json:"max"`        // reader's maximum version
	GSV       string `json:"gsv"`        // ok | err | wrongtype | short
	SPV       string `json:"spv"`        // ok | err | wrongtype
	KABefore  int    `json:"ka_before"`  // keep-alives sent just before each negotiation reply
	KAAfter   int    `json:"ka_after"`   // ... just after
	KATickUs  int    `json:"ka_tick_us"` // background keep-alive period (0: none)
	TailKAs   int    `json:"tail_kas"`   // keep-alives sent after a failing negotiation reply
	Queued    int    `json:"queued"`     // callers started before Connect
	Callers   int    `json:"callers"`    // callers started once the client is ready
	Reqs      int    `json:"reqs"`       // requests per caller
	CancelPct int    `json:"cancel_pct"` // percentage of requests with a very short context
	End       string `json:"end"`        // close | closeduring | shutdown | shutdownduring | peerclose | none
	TimeoutMs int    `json:"timeout_ms"` // WithTimeout
	Seed      int64  `json:"seed"`
	// version consistency (the property's last clause): frames written after Connect became ready
	GSVDelayUs  int  `json:"gsv_delay_us"`  // the reader thinks this long before answering GetSupportedVersion
	PostKAs     int  `json:"post_kas"`      // keep-alives (ids 5000..) sent once the harness has seen the client ready
	PostKAFirst bool `json:"post_ka_first"` // ... before the first caller is started (else right after)
	// payload paths: how big the reader's replies are, how they arrive, and who else reads them
	BigPct  int    `json:"big_pct"` // percentage of echoed replies whose payload is around / beyond MaxBufferedPayloadSz
	Pieces  int    `json:"pieces"`  // a big reply is written in this many pieces, the last 100 bytes after a pause
	Handler string `json:"handler"` // "" | all | part | none: a handler for the reply type that reads all / some / nothing of the payload
}

// a frame the reader received that was certainly written after Connect became ready: a caller's request or
// CloseConnection (SendMessage waits for ready), or the ack of a keep-alive sent after ready was observed
type c20Post struct {
	Typ int    `json:"typ"`
	ID  uint32 `json:"id"`
	Ver int    `json:"ver"`
}

func c20Frame(ver, typ int, id uint32, payload []byte) []byte {
	b := make([]byte, 10+len(payload))
	binary.BigEndian.PutUint16(b[0:2], uint16(ver&7)<<10|uint16(typ&0x3ff))
	binary.BigEndian.PutUint32(b[2:6], uint32(10+len(payload)))
	binary.BigEndian.PutUint32(b[6:10], id)
	copy(b[10:], payload)
	return b
}

// LLRPStatus TLV (287): status code, empty error description
func c20Status(code int) []byte { return []byte{0x01, 0x1F, 0, 8, byte(code >> 8), byte(code), 0, 0} }

// ReaderEventNotificationData{UTCTimestamp, ConnectionAttemptEvent(success)}
func c20ConnEvent() []byte {
	b := []byte{0x00, 0xF6, 0, 22, 0x00, 0x80, 0, 12, 0, 0, 0, 0, 0, 0, 0, 1, 0x01, 0x00, 0, 6, 0, 0}
	return b
}

type c20Peer struct {
	rq       c20Req
	conn     net.Conn
	wmu      sync.Mutex
	kaID     uint32
	acks     atomic.Int64
	reqs     atomic.Int64
	stop     chan struct{}
	wg       sync.WaitGroup
	werrs    atomic.Int64
	fmu      sync.Mutex
	post     []c20Post // frames written after ready (see c20Post)
	postAcks atomic.Int64
}

func (p *c20Peer) write(b []byte) {
	p.wmu.Lock()
	defer p.wmu.Unlock()
	p.conn.SetWriteDeadline(time.Now().Add(2 * time.Second))
	if _, err := p.conn.Write(b); err != nil {
		p.werrs.Add(1)
	}
}

func (p *c20Peer) keepalives(n int) {
	for i := 0; i < n; i++ {
		p.write(c20Frame(1, 62, atomic.AddUint32(&p.kaID, 1)+1000, nil))
	}
}

func (p *c20Peer) serve() {
	defer p.wg.Done()
	p.write(c20Frame(1, 63, 0, c20ConnEvent()))
	if p.rq.KATickUs > 0 {
		p.wg.Add(1)
		go func() {
			defer p.wg.Done()
			t := time.NewTicker(time.Duration(p.rq.KATickUs) * time.Microsecond)
			defer t.Stop()
			for {
				select {
				case <-p.stop:
					return
				case <-t.C:
					p.keepalives(1)
				}
			}
		}()
	}
	hdr := make([]byte, 10)
	for {
		if _, err := io.ReadFull(p.conn, hdr); err != nil {
			return
		}
		typ := int(binary.BigEndian.Uint16(hdr[0:2]) & 0x3ff)
		n := binary.BigEndian.Uint32(hdr[2:6])
		id := binary.BigEndian.Uint32(hdr[6:10])
		if n < 10 || n > 1<<20 {
			return
		}
		payload := make([]byte, n-10)
		if _, err := io.ReadFull(p.conn, payload); err != nil {
			return
		}
		ver := int(binary.BigEndian.Uint16(hdr[0:2]) >> 10 & 7)
		if typ == 1023 || typ == 14 || (typ == 72 && id >= 5000) {
			p.fmu.Lock()
			p.post = append(p.post, c20Post{typ, id, ver})
			p.fmu.Unlock()
			if typ == 72 {
				p.postAcks.Add(1)
			}
		}
		switch typ {
		case 46: // GetSupportedVersion
			if p.rq.GSVDelayUs > 0 {
				time.Sleep(time.Duration(p.rq.GSVDelayUs) * time.Microsecond)
			}
			p.keepalives(p.rq.KABefore)
			switch p.rq.GSV {
			case "err":
				p.write(c20Frame(2, 100, id, c20Status(101)))
			case "wrongtype":
				p.write(c20Frame(2, 12, id, c20Status(0)))
			case "short":
				p.write(c20Frame(2, 56, id, []byte{1}))
			default:
				p.write(c20Frame(2, 56, id, append([]byte{byte(p.rq.Cur << 5), byte(p.rq.Max << 5)}, c20Status(0)...)))
			}
			p.keepalives(p.rq.KAAfter)
			if p.rq.GSV != "" && p.rq.GSV != "ok" {
				p.tail()
			}
		case 47: // SetProtocolVersion
			p.keepalives(p.rq.KABefore)
			switch p.rq.SPV {
			case "err":
				p.write(c20Frame(2, 57, id, c20Status(110)))
			case "wrongtype":
				p.write(c20Frame(2, 100, id, c20Status(110)))
			default:
				p.write(c20Frame(2, 57, id, c20Status(0)))
			}
			p.keepalives(p.rq.KAAfter)
			if p.rq.SPV != "" && p.rq.SPV != "ok" {
				p.tail()
			}
		case 72: // KeepAliveAck
			p.acks.Add(1)
		case 14: // CloseConnection
			p.write(c20Frame(1, 4, id, c20Status(0)))
		case 1023: // CustomMessage: echo
			n := p.reqs.Add(1)
			if p.rq.BigPct > 0 && int(n*37%100) < p.rq.BigPct {
				// a reply at / just beyond the buffering limit, delivered in pieces with a pause before the end
				size := int(MaxBufferedPayloadSz) - 1 + int(n%3)*2048
				big := make([]byte, size)
				copy(big, payload)
				fr := c20Frame(1, 1023, id, big)
				pieces := p.rq.Pieces
				if pieces < 1 {
					pieces = 1
				}
				cut := len(fr) - 100
				step := cut/pieces + 1
				p.wmu.Lock()
				p.conn.SetWriteDeadline(time.Now().Add(5 * time.Second))
				for off := 0; off < cut; off += step {
					end := off + step
					if end > cut {
						end = cut
					}
					if _, err := p.conn.Write(fr[off:end]); err != nil {
						p.werrs.Add(1)
						break
					}
				}
				time.Sleep(2 * time.Millisecond)
				if _, err := p.conn.Write(fr[cut:]); err != nil {
					p.werrs.Add(1)
				}
				p.wmu.Unlock()
				p.keepalives(1)
			} else {
				p.write(c20Frame(1, 1023, id, payload))
			}
		default:
			p.reqs.Add(1)
			p.write(c20Frame(1, 100, id, c20Status(109)))
		}
	}
}

func (p *c20Peer) tail() {
	for i := 0; i < p.rq.TailKAs; i++ {
		time.Sleep(50 * time.Microsecond)
		p.keepalives(1)
	}
}

func c20Class(err error) string {
	switch {
	case err == nil:
		return "nil"
	case errors.Is(err, ErrClientClosed):
		return "closed"
	case errors.Is(err, context.DeadlineExceeded), errors.Is(err, context.Canceled):
		return "ctx"
	}
	return "other"
}

func c20Run(rq c20Req) map[string]interface{} {
	cli, peerConn := net.Pipe()
	var opts []ClientOpt
	if !rq.DefLog {
		opts = append(opts, WithLogger(nil))
	}
	if rq.Version == 1 {
		opts = append(opts, WithVersion(Version1_0_1))
	} else {
		opts = append(opts, WithVersion(Version1_1))
	}
	if rq.TimeoutMs > 0 {
		opts = append(opts, WithTimeout(time.Duration(rq.TimeoutMs)*time.Millisecond))
	}
	if rq.Handler != "" {
		mode := rq.Handler
		opts = append(opts, WithMessageHandler(MsgCustomMessage, MessageHandlerFunc(func(_ *Client, m Message) {
			switch mode {
			case "all":
				_, _ = io.Copy(io.Discard, m.payload)
			case "part":
				_, _ = io.CopyN(io.Discard, m.payload, 3)
			}
		})))
	}
	c := NewClient(opts...)
	p := &c20Peer{rq: rq, conn: peerConn, stop: make(chan struct{})}

	var cmu sync.Mutex
	results := map[string]int{}
	var cwg sync.WaitGroup
	caller := func(k int) {
		defer cwg.Done()
		rnd := rand.New(rand.NewSource(rq.Seed*1000 + int64(k)))
		for r := 0; r < rq.Reqs; r++ {
			d := 2 * time.Second
			if rnd.Intn(100) < rq.CancelPct {
				d = time.Duration(rnd.Intn(300)) * time.Microsecond
			}
			ctx, cancel := context.WithTimeout(context.Background(), d)
			payload := []byte{byte(k), byte(r), byte(k >> 8), 0xC2}
			var err error
			if rnd.Intn(8) == 0 {
				m, _ := NewByteMessage(MsgCustomMessage, payload)
				err = c.SendNoWait(ctx, m)
			} else {
				_, _, err = c.SendMessage(ctx, MsgCustomMessage, payload)
			}
			cancel()
			cmu.Lock()
			results[c20Class(err)]++
			cmu.Unlock()
		}
	}
	for k := 0; k < rq.Queued; k++ {
		cwg.Add(1)
		go caller(k)
	}
	connRes := make(chan error, 1)
	go func() { connRes <- c.Connect(cli) }()
	p.wg.Add(1)
	go p.serve()

	var connErr error
	connDone := false
	isReady := false
	select {
	case <-c.ready:
		isReady = true
	case connErr = <-connRes:
		connDone = true
	case <-time.After(5 * time.Second):
	}
	postKAs := func() {
		if !isReady || rq.PostKAs == 0 {
			return
		}
		for i := 0; i < rq.PostKAs; i++ {
			p.write(c20Frame(1, 62, uint32(5000+i), nil))
		}
		for t0 := time.Now(); p.postAcks.Load() < int64(rq.PostKAs) && time.Since(t0) < 300*time.Millisecond; {
			time.Sleep(100 * time.Microsecond)
		}
	}
	if rq.PostKAFirst {
		postKAs()
	}
	for k := 0; k < rq.Callers; k++ {
		cwg.Add(1)
		go caller(100 + k)
	}
	if !rq.PostKAFirst {
		postKAs()
	}
	callersDone := make(chan struct{})
	go func() { cwg.Wait(); close(callersDone) }()
	waitCallers := func() {
		select {
		case <-callersDone:
		case <-time.After(8 * time.Second):
		}
	}
	endRes := ""
	switch rq.End {
	case "close":
		waitCallers()
		endRes = c20Class(c.Close())
	case "closeduring":
		time.Sleep(time.Duration(200+rq.Seed%7*100) * time.Microsecond)
		endRes = c20Class(c.Close())
	case "shutdown":
		waitCallers()
		ctx, cancel := context.WithTimeout(context.Background(), time.Second)
		endRes = c20Class(c.Shutdown(ctx))
		cancel()
	case "shutdownduring":
		time.Sleep(time.Duration(200+rq.Seed%7*100) * time.Microsecond)
		ctx, cancel := context.WithTimeout(context.Background(), time.Second)
		endRes = c20Class(c.Shutdown(ctx))
		cancel()
		_ = c.Close()
	case "peerclose":
		time.Sleep(time.Duration(200+rq.Seed%7*100) * time.Microsecond)
		peerConn.Close()
	default:
		waitCallers()
	}
	if !connDone {
		// Close() does not close the connection and the read loop sits in Read: the reader hangs up
		time.Sleep(300 * time.Microsecond)
		peerConn.Close()
		select {
		case connErr = <-connRes:
			connDone = true
		case <-time.After(3 * time.Second):
			_ = c.Close()
			cli.Close()
			select {
			case connErr = <-connRes:
				connDone = true
			case <-time.After(2 * time.Second):
			}
		}
	}
	// like the device supervisor: the connection is closed once Connect has returned
	time.Sleep(300 * time.Microsecond)
	cli.Close()
	close(p.stop)
	waitCallers()
	peerConn.Close()
	p.wg.Wait()
	time.Sleep(2 * time.Millisecond)
	cmu.Lock()
	defer cmu.Unlock()
	// the version every frame written after ready must carry: min(client maximum, reader maximum)
	want := 0
	if isReady && (rq.GSV == "" || rq.GSV == "ok") && (rq.SPV == "" || rq.SPV == "ok") {
		want = 2
		if rq.Version == 1 || rq.Max < 2 {
			want = 1
		}
	}
	p.fmu.Lock()
	post := append([]c20Post(nil), p.post...)
	p.fmu.Unlock()
	return map[string]interface{}{"want_version": want, "post_frames": post, "id": rq.ID, "connect": c20Class(connErr), "connect_returned": connDone, "end": endRes,
		"callers": results, "acks": p.acks.Load(), "peer_reqs": p.reqs.Load()}
}

func TestVerifC20(t *testing.T) {
	lines, w, done := verifIO(t)
	defer done()
	// the default logger writes to os.Stderr (the variable, read when Connect installs it)
	if dn, err := os.OpenFile(os.DevNull, os.O_WRONLY, 0); err == nil {
		os.Stderr = dn
	}
	for _, line := range lines {
		var rq c20Req
		if err := json.Unmarshal([]byte(line), &rq); err != nil {
			fmt.Fprintf(w, "{\"error\":%q}\n", err.Error())
			continue
		}
		b, _ := json.Marshal(c20Run(rq))
		fmt.Fprintln(w, string(b))
		w.Flush()
	}
}

// ------------------------------------------------------------------ once-only API under concurrent calls
//
// request: {"id","mode","n","reps","seed"}; mode:
//
//	close-fresh      n goroutines call Close on a Client that was never connected
//	close            ... on a connected client (1.0.1, no negotiation)
//	shutdown         n goroutines call Shutdown
//	mixed            half call Close, half Shutdown
//	close-connect    n goroutines call Close while Connect is starting (first message in flight)
//
// All calls of one repetition are released together. Postcondition of "once only" (Close's and Shutdown's
// documentation): at most one of the calls returns nil — exactly one for close-fresh, where nothing else can
// close the Client —, every other call returns an error wrapping ErrClientClosed (Shutdown may also report a
// context/connection error), and nothing panics (a second close(c.done) would).
type c20OnceReq struct {
	ID   string `json:"id"`
	Mode string `json:"mode"`
	N    int    `json:"n"`
	Reps int    `json:"reps"`
	Seed int64  `json:"seed"`
}

type c20OnceBad struct {
	Rep    int      `json:"rep"`
	Nil    int      `json:"nil"`
	Other  int      `json:"other"`
	Panics []string `json:"panics,omitempty"`
}

func c20OnceRep(rq c20OnceReq, rep int) (nils, closed, other int, panics []string) {
	c := NewClient(WithLogger(nil), WithVersion(Version1_0_1))
	var peer *c20Peer
	var cli, peerConn net.Conn
	connRes := make(chan error, 1)
	if rq.Mode != "close-fresh" {
		cli, peerConn = net.Pipe()
		peer = &c20Peer{rq: c20Req{Version: 1}, conn: peerConn, stop: make(chan struct{})}
		peer.wg.Add(1)
		go peer.serve()
		go func() {
			defer func() {
				if r := recover(); r != nil {
					connRes <- fmt.Errorf("panic in Connect: %v", r)
				}
			}()
			connRes <- c.Connect(cli)
		}()
		if rq.Mode != "close-connect" {
			select {
			case <-c.ready:
			case <-time.After(3 * time.Second):
			}
		}
	}
	start := make(chan struct{})
	var mu sync.Mutex
	var wg sync.WaitGroup
	for k := 0; k < rq.N; k++ {
		wg.Add(1)
		go func(k int) {
			defer wg.Done()
			defer func() {
				if r := recover(); r != nil {
					mu.Lock()
					panics = append(panics, fmt.Sprint(r))
					mu.Unlock()
				}
			}()
			shutdown := rq.Mode == "shutdown" || (rq.Mode == "mixed" && k%2 == 1)
			<-start
			var err error
			if shutdown {
				ctx, cancel := context.WithTimeout(context.Background(), 500*time.Millisecond)
				err = c.Shutdown(ctx)
				cancel()
			} else {
				err = c.Close()
			}
			mu.Lock()
			switch c20Class(err) {
			case "nil":
				nils++
			case "closed":
				closed++
			default:
				other++
			}
			mu.Unlock()
		}(k)
	}
	close(start)
	wg.Wait()
	if peer != nil {
		time.Sleep(100 * time.Microsecond)
		peerConn.Close()
		select {
		case err := <-connRes:
			if err != nil && c20Class(err) == "other" && len(err.Error()) > 5 && err.Error()[:5] == "panic" {
				mu.Lock()
				panics = append(panics, err.Error())
				mu.Unlock()
			}
		case <-time.After(3 * time.Second):
			panics = append(panics, "Connect did not return")
		}
		cli.Close()
		close(peer.stop)
		peer.wg.Wait()
	}
	return
}

func TestVerifC20Once(t *testing.T) {
	lines, w, done := verifIO(t)
	defer done()
	for _, line := range lines {
		var rq c20OnceReq
		if err := json.Unmarshal([]byte(line), &rq); err != nil {
			fmt.Fprintf(w, "{\"error\":%q}\n", err.Error())
			continue
		}
		var bad []c20OnceBad
		tot := map[string]int{}
		for rep := 0; rep < rq.Reps; rep++ {
			nils, closed, other, panics := c20OnceRep(rq, rep)
			tot["nil"] += nils
			tot["closed"] += closed
			tot["other"] += other
			wrong := nils > 1 || len(panics) > 0
			if rq.Mode == "close-fresh" && (nils != 1 || other != 0) {
				wrong = true
			}
			if (rq.Mode == "close" || rq.Mode == "close-connect") && other != 0 {
				wrong = true // Close has only two outcomes
			}
			if wrong && len(bad) < 5 {
				bad = append(bad, c20OnceBad{rep, nils, other, panics})
			}
		}
		b, _ := json.Marshal(map[string]interface{}{"id": rq.ID, "mode": rq.Mode, "n": rq.N, "reps": rq.Reps, "totals": tot,
			"once_bad": bad, "acks": 1})
		fmt.Fprintln(w, string(b))
		w.Flush()
	}
}
